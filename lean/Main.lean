/-
  grcv: line-protocol driver. One command per stdin line, one (or a few) canonical lines out.
  Imports only core-Lean modules of the library so that it links.
-/
import GrcVerif.Bytes
import GrcVerif.Sfnt
import GrcVerif.Silf
import GrcVerif.Tables
import GrcVerif.Json
import GrcVerif.FsmCheck
import GrcVerif.Driver
open Grc

partial def loop (h : IO.FS.Stream) (st : Driver.State) : IO Unit := do
  let line ← h.getLine
  if line.isEmpty then return ()
  let toks := (line.trimAscii.toString.splitOn " ").filter (· ≠ "")
  let (st', outs) ← Driver.step st toks
  for o in outs do IO.println o
  (← IO.getStdout).flush
  loop h st'

def main : IO Unit := do
  loop (← IO.getStdin) {}
