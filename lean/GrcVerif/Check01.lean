/-
  C01 (rule code): the executable comparison of the action and constraint byte code of a real font with the rules of
  the IR. Every value-computing stretch of code is decompiled (`Sem.decompA`, sound for every environment by
  `Sem.decomp_sound`) and compared, after constant folding (`Sem.evalS_fold`), with the tree denoted by the source
  expression, in which `@n` has become the slot offset the engine will use:
    input index of item n  -  reference frame of the item the code belongs to
  (frame = own input index; for an inserted item, the input index of the preceding input item).
  Equal folded trees compute equal values in every state of the engine.
-/
import GrcVerif.ExprSem
import GrcVerif.Check03
namespace Grc.Chk01
open Grc.Sem Grc.Code Grc.Gen

/-- number of input (non-inserted) items before item `j` -/
def inIdx (r : RuleIR) (j : Nat) : Int := ((r.items.take j).filter (·.inCls.isSome)).length

/-- reference frame of the code attached to item `j` -/
def frameOf (r : RuleIR) (j : Nat) : Int :=
  match r.items[j]? with
  | some it => if it.inCls.isSome then inIdx r j else inIdx r j - 1
  | none => inIdx r j

def binOf : String → Option BinOp
  | "+" => some .add | "-" => some .sub | "*" => some .mul | "/" => some .div
  | "min" => some .min | "max" => some .max | "&&" => some .and | "||" => some .or
  | "==" => some .eq | "!=" => some .ne | "<" => some .lt | ">" => some .gt | "<=" => some .le | ">=" => some .ge
  | _ => none

def unOf : String → Option UnOp
  | "-" => some .neg | "!" => some .not
  | _ => none

/-- engine id of a (non-indexed) slot attribute of the positioning fragment -/
def slatOf : String → Option Nat
  | "advance.x" => some kslatAdvX | "advance.y" => some kslatAdvY
  | "shift.x" => some kslatShiftX | "shift.y" => some kslatShiftY
  | _ => none

/-- The tree a source expression denotes for code attached to an item whose frame is `frame`.
    `gmap` maps the IR's glyph-attribute numbers to the ids used in the font. -/
def toS (r : RuleIR) (gmap : Nat → Nat) (frame : Int) : Expr → Option SExpr
  | .lit n => some (.const n)
  | .userAttr slot k =>
    some (.slotAttr kslatUserDefn (match slot with | some j => inIdx r (j - 1) - frame | none => 0) k)
  | .glyphAttr slot a =>
    some (.glyphAttr (gmap a) (match slot with | some j => inIdx r (j - 1) - frame | none => 0))
  | .feat f => some (.feat f 0)
  | .slotNamed slot name =>
    (slatOf name).map fun a => .slotAttr a (match slot with | some j => inIdx r (j - 1) - frame | none => 0) 0
  | .metric slot name =>
    if name == "advancewidth" then some (.metric kgmetAdvWidth (match slot with | some j => inIdx r (j - 1) - frame | none => 0)) else none
  | .un op e => do let o ← unOf op; let e' ← toS r gmap frame e; pure (.un o e')
  | .bin op a b => do let o ← binOf op; let a' ← toS r gmap frame a; let b' ← toS r gmap frame b; pure (.bin o a' b')
  | .cond c a b => do let c' ← toS r gmap frame c; let a' ← toS r gmap frame a; let b' ← toS r gmap frame b; pure (.cond c' a' b')

structure AttrSet where
  kind : String      -- "=", "+=", "-="
  attr : Nat
  idx : Nat
  val : SExpr
deriving Repr

/-- Walk one item segment of an action: value instructions build trees, an attribute-setting instruction consumes
    one; the structural instructions (put*, insert, delete, assoc, next) must find the value stack empty. -/
def attrSets (seg : List Ins) : Except String (List AttrSet) := do
  let mut st : List SExpr := []
  let mut out : List AttrSet := []
  for i in seg do
    match classify i with
    | some op =>
      match dstepA op st with
      | some st' => st := st'
      | none => throw s!"value stack underflow at opcode {i.op}"
    | none =>
      let setKind : Option (String × Bool) :=
        if i.op = kopAttrSet then some ("=", false) else if i.op = kopAttrAdd then some ("+=", false)
        else if i.op = kopAttrSub then some ("-=", false) else if i.op = kopIAttrSet then some ("=", true)
        else if i.op = kopIAttrAdd then some ("+=", true) else if i.op = kopIAttrSub then some ("-=", true)
        else if i.op = kopAttrSetSlot then some ("=slot", false) else if i.op = kopIAttrSetSlot then some ("=slot", true)
        else none
      match setKind with
      | some (k, indexed) =>
        match st with
        | v :: rest =>
          st := rest
          out := out ++ [{ kind := k, attr := i.args.getD 0 0, idx := if indexed then i.args.getD 1 0 else 0, val := v }]
        | [] => throw s!"attribute set at opcode {i.op} with an empty value stack"
      | none =>
        if !st.isEmpty then throw s!"structural opcode {i.op} with {st.length} values on the stack"
  if !st.isEmpty then throw s!"{st.length} values left on the stack at the end of the item"
  return out

/-- A small deterministic family of environments used only to turn a mismatch of trees into a concrete state of the
    engine in which the two computations differ (the replay); equality of trees itself needs no sampling. -/
def probeEnvs : List Env :=
  (List.range 6).map fun (sn : Nat) =>
    let s : Int := sn
    { slotAttr := fun a off i => (((a : Int) * 7 + off * 13 + (i : Int) * 3 + s * 5) % 11) - 3
      glyphAttr := fun g off => (((g : Int) * 5 + off * 3 + s) % 9) - 1
      feat := fun f off => ((f : Int) + off + s) % 3 }

def witness (a b : SExpr) : String :=
  match (probeEnvs.zipIdx.find? fun (env, _) => evalS env a != evalS env b) with
  | some (env, k) => s!"probe state {k}: font computes {repr (evalS env b)}, rule says {repr (evalS env a)}"
  | none => "no probe state separates them (trees differ syntactically)"

def checkRule (ir : ProgIR) (gmap : Nat → Nat) (r : RuleIR) (action constraint : ByteArray) : List String × Nat × Nat := Id.run do
  let mut out : List String := []
  let mut nSets := 0
  let mut nCons := 0
  let pre := r.preCount
  let limMod := r.items.length - (r.items.reverse.takeWhile (fun it => !it.mod)).length
  -- actions
  match parse (action.toList.map (·.toNat)) with
  | none => out := out ++ ["action does not parse"]
  | some nodes =>
    let segs := Chk.splitItems nodes
    let modItems := ((r.items.drop pre).take (limMod - pre))
    -- where the scan goes on: the action returns the number of slots to move from the slot after the last item it
    -- handled; `^` before item c means "go on at the slot that item c occupies afterwards". Each item that is not
    -- deleted leaves one slot, so the value is  #kept(items before c) - #kept(items the action handled).
    let insL : List Ins := nodes.filterMap fun n => match n with | .ins i => some i | _ => none
    let returned : Option Int :=
      match insL.reverse with
      | last :: prev :: _ =>
        if last.op = kopRetZero then some 0
        else if last.op = kopPopRet ∧ prev.op = kopPushByte then
          (prev.args.head?).map fun b => if b ≥ 128 then (b : Int) - 256 else (b : Int)
        else none
      | [last] => if last.op = kopRetZero then some 0 else none
      | [] => none
    let kept (k : Nat) : Int := (((r.items.take k).filter fun it => it.out != some .del).length : Int)
    let handled := pre + segs.length
    let wantRet : Int := match r.caret with
      | some c => kept c - kept handled
      | none => kept limMod - kept handled
    match returned with
    | none => out := out ++ ["action does not end in ret_zero or push_byte n; pop_ret"]
    | some v =>
      if v != wantRet then
        out := out ++ [s!"scan position: the action returns {v}; `^` (item {r.caret}) after an action over items {pre + 1}..{handled} asks for {wantRet}"]
    if segs.length < modItems.length then
      out := out ++ [s!"action has {segs.length} item segments, rule has {modItems.length} items from first to last modified"]
    else
      for ((it, seg), k) in (modItems.zip segs).zipIdx do
        let j := pre + k
        match attrSets seg with
        | .error e => out := out ++ [s!"item {j + 1}: {e}"]
        | .ok sets =>
          -- what the rule's assignments denote, in order: user attributes, advance / shift, and `kern.x = v`, which stands
          -- for  shift.x = v; advance.x = advancewidth + v
          let fr := frameOf r j
          let mut want : List (String × Nat × Nat × Option SExpr) := []
          -- attach {to = @n; at = P; with = Q}:  attach.to = offset of item n;  attach.at = P of the target's glyph;
          -- attach.with = Q of the own glyph
          match it.attach with
          | some at_ =>
            let off : Int := inIdx r (at_.to - 1) - fr
            let pa (nm : String) : Option (Nat × Nat) := (ir.pointAttrs.find? (·.1 == nm)).map fun (_, x, y) => (gmap x, gmap y)
            want := want ++ [("=slot", kslatAttTo, 0, some (.const off)),
              ("=", kslatAttAtX, 0, (pa at_.atP).map fun q => .attGlyphAttr q.1 0), ("=", kslatAttAtY, 0, (pa at_.atP).map fun q => .attGlyphAttr q.2 0),
              ("=", kslatAttWithX, 0, (pa at_.withP).map fun q => .glyphAttr q.1 0), ("=", kslatAttWithY, 0, (pa at_.withP).map fun q => .glyphAttr q.2 0)]
          | none => pure ()
          for w in it.attrs do
            if w.attr == "user" then want := want ++ [(w.op, kslatUserDefn, w.idx, toS r gmap fr w.val)]
            else if w.attr == "kern.x" then
              let v := toS r gmap fr w.val
              want := want ++ [(w.op, kslatShiftX, 0, v), (w.op, kslatAdvX, 0, v.map fun e => .bin .add (.metric kgmetAdvWidth 0) e)]
            else match slatOf w.attr with
              | some a => want := want ++ [(w.op, a, 0, toS r gmap fr w.val)]
              | none => pure ()
          let known : List Nat := [kslatUserDefn, kslatAdvX, kslatAdvY, kslatShiftX, kslatShiftY, kslatAttTo, kslatAttAtX, kslatAttAtY,
                                   kslatAttWithX, kslatAttWithY]
          let got := sets.filter fun g => known.contains g.attr
          if got.length != want.length then
            out := out ++ [s!"item {j + 1}: the rule makes {want.length} attribute assignments (user / advance / shift), the action makes {got.length}"]
          else
            for ((wop, wattr, widx, wval), g) in want.zip got do
              nSets := nSets + 1
              if wattr != g.attr ∨ widx != g.idx ∨ wop != g.kind then
                out := out ++ [s!"item {j + 1}: rule assigns attribute {wattr}[{widx}] with {wop}, action assigns {g.attr}[{g.idx}] with {g.kind}"]
              else
                match wval with
                | none => out := out ++ [s!"IRERR item {j + 1}: expression uses an operator outside the modelled fragment"]
                | some e =>
                  -- accepted: same meaning in every state (fold), or the code is exactly the compiler-folded form of the rule's
                  -- tree, which computes the rule's value wherever that is defined (foldC, evalS_foldC)
                  if fold e != fold g.val ∧ foldC e != g.val then
                    out := out ++ [s!"item {j + 1}: attribute {wattr}[{widx}] {wop} <expr>: the action computes a different value; {witness (fold e) (fold g.val)}; rule {repr (fold e)} font {repr (fold g.val)}"]
  -- rule constraint: conjunction of the enclosing `if` conditions and of the item tests
  let consItems := (r.items.zipIdx.filter fun (it, _) => it.constraint.isSome)
  if consItems.isEmpty ∧ r.ifs.isEmpty then
    if constraint.size != 0 then out := out ++ ["the rule has no constraint but the font stores constraint code"]
  else
    match parse (constraint.toList.map (·.toNat)) with
    | none => out := out ++ ["constraint does not parse"]
    | some nodes =>
      let ctxs := nodes.filterMap fun n => match n with | .ctx s b => some (s, b) | _ => none
      -- symbolic run of the whole constraint: the k-th item test is the opaque leaf `feat (1000000 + k)`
      let mut st : List SExpr := []
      let mut k := 0
      let mut bad := false
      let mut returned := false
      for n in nodes do
        if returned then bad := true
        match n with
        | .ctx _ _ => st := (.feat (1000000 + k) 0) :: st; k := k + 1
        | .ins i =>
          if i.op = kopPopRet then returned := true
          else match classify i with
            | some op => match dstepA op st with
              | some st' => st := st'
              | none => bad := true
            | none => bad := true
      let rec conj : SExpr → List SExpr
        | .bin .and a b => conj a ++ conj b
        | e => [e]
      match bad, returned, st with
      | false, true, [tree] =>
        let got := (conj tree).map fold
        let wantIfs := r.ifs.map fun c => toS r gmap 0 c
        if wantIfs.any (·.isNone) then out := out ++ ["IRERR: if-condition outside the modelled fragment"]
        else
          let want := ((wantIfs.filterMap id).flatMap conj).map fold ++ (List.range consItems.length).map fun q => SExpr.feat (1000000 + q) 0
          if got != want then
            out := out ++ [s!"constraint: the code tests the conjunction {repr got}, the rule is under {repr want} (leaves feat 100000k = k-th item test)"]
      | _, _, _ => out := out ++ ["constraint: code is not a single expression followed by pop-and-return"]
      if ctxs.length != consItems.length then
        out := out ++ [s!"constraint: the rule constrains {consItems.length} items, the code tests {ctxs.length}"]
      else
        for ((it, j), (slot, body)) in consItems.zip ctxs do
          nCons := nCons + 1
          let wantSlot : Int := inIdx r j - inIdx r pre
          let gotSlot : Int := if slot ≥ 128 then (slot : Int) - 256 else slot
          if wantSlot != gotSlot then
            out := out ++ [s!"constraint of item {j + 1}: tested at slot {gotSlot}, the item is {wantSlot} input slots after the first modified item"]
          match body.mapM classify with
          | none => out := out ++ [s!"constraint of item {j + 1}: code outside the value fragment"]
          | some ops =>
            match decompA ops [] with
            | some [g] =>
              match it.constraint.bind (toS r gmap (inIdx r j)) with
              | none => out := out ++ [s!"IRERR constraint of item {j + 1}: expression outside the modelled fragment"]
              | some e =>
                if fold e != fold g ∧ foldC e != g then
                  out := out ++ [s!"constraint of item {j + 1}: the code tests a different condition; {witness (fold e) (fold g)}; rule {repr (fold e)} font {repr (fold g)}"]
            | _ => out := out ++ [s!"constraint of item {j + 1}: code does not leave exactly one value"]
  return (out, nSets, nCons)

end Grc.Chk01
