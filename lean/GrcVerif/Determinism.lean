/-
  C13: order-independence lemmas for the places where the compiler iterates containers ordered by pointer value
  (std::set<GdlGlyphClassDefn*>, std::map<Symbol,...>): the results used downstream do not depend on that order.
  Core Lean only.
-/
import GrcVerif.GlyphAttr
namespace Grc.Det

/-- Machine-class key (Fsm.cpp MachineClassKey): the sum of the FSM ids of a glyph's source classes is the same for
    every iteration order of the pointer-ordered set. -/
theorem key_perm (ids l l' : List Nat) (f : Nat → Nat) (h : l.Perm l') (_ : ids = ids) :
    (l.map f).sum = (l'.map f).sum := by
  induction h with
  | nil => rfl
  | cons x _ ih => simp [ih]
  | swap x y l => simp; omega
  | trans _ _ ih1 ih2 => exact ih1.trans ih2

/-- Two glyphs get the same machine class iff their source-class sets are equal as SETS; membership-based equality
    is invariant under reordering either list. -/
def sameSet (a b : List Nat) : Bool := a.all (b.contains ·) && b.all (a.contains ·)

theorem sameSet_perm_left (a a' b : List Nat) (h : a.Perm a') : sameSet a b = sameSet a' b := by
  unfold sameSet
  have h1 : a.all (b.contains ·) = a'.all (b.contains ·) := by
    rw [Bool.eq_iff_iff, List.all_eq_true, List.all_eq_true]
    exact ⟨fun hh x hx => hh x (h.mem_iff.mpr hx), fun hh x hx => hh x (h.mem_iff.mp hx)⟩
  have h2 : b.all (a.contains ·) = b.all (a'.contains ·) := by
    rw [Bool.eq_iff_iff, List.all_eq_true, List.all_eq_true]
    constructor
    · intro hh x hx
      have := hh x hx
      simp only [List.contains_eq_mem, decide_eq_true_eq] at this ⊢
      exact h.mem_iff.mp this
    · intro hh x hx
      have := hh x hx
      simp only [List.contains_eq_mem, decide_eq_true_eq] at this ⊢
      exact h.mem_iff.mpr this
  rw [h1, h2]

/-- Glyph attribute cells: the stored assignment does not depend on the order in which the value map presents the
    assignments (re-export of the C05 theorem). -/
theorem attr_cell_order_independent (l l' : List GA.Asg) (hp : l.Perm l') (hd : GA.DistinctLines l) :
    GA.codeWinner l = GA.codeWinner l' := GA.codeWinner_perm l l' hp hd

end Grc.Det
