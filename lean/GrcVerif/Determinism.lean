/-
  C13: order-independence lemmas for the places where the compiler iterates containers ordered by pointer value
  (std::set<GdlGlyphClassDefn*>, std::map<Symbol,...>): the results used downstream do not depend on that order.
  Core Lean only.
-/
import GrcVerif.GlyphAttr
namespace Grc.Det

/-- Machine-class key (Fsm.cpp MachineClassKey): the sum of the FSM ids of a glyph's source classes is the same for
    every iteration order of the pointer-ordered set. -/
theorem key_perm (ids l l' : List Nat) (f : Nat → Nat) (h : l.Perm l') (_ : ids = ids) :
    (l.map f).sum = (l'.map f).sum := by
  induction h with
  | nil => rfl
  | cons x _ ih => simp [ih]
  | swap x y l => simp; omega
  | trans _ _ ih1 ih2 => exact ih1.trans ih2

/-- Two glyphs get the same machine class iff their source-class sets are equal as SETS; membership-based equality
    is invariant under reordering either list. -/
def sameSet (a b : List Nat) : Bool := a.all (b.contains ·) && b.all (a.contains ·)

theorem sameSet_perm_left (a a' b : List Nat) (h : a.Perm a') : sameSet a b = sameSet a' b := by
  unfold sameSet
  have h1 : a.all (b.contains ·) = a'.all (b.contains ·) := by
    rw [Bool.eq_iff_iff, List.all_eq_true, List.all_eq_true]
    exact ⟨fun hh x hx => hh x (h.mem_iff.mpr hx), fun hh x hx => hh x (h.mem_iff.mp hx)⟩
  have h2 : b.all (a.contains ·) = b.all (a'.contains ·) := by
    rw [Bool.eq_iff_iff, List.all_eq_true, List.all_eq_true]
    constructor
    · intro hh x hx
      have := hh x hx
      simp only [List.contains_eq_mem, decide_eq_true_eq] at this ⊢
      exact h.mem_iff.mp this
    · intro hh x hx
      have := hh x hx
      simp only [List.contains_eq_mem, decide_eq_true_eq] at this ⊢
      exact h.mem_iff.mpr this
  rw [h1, h2]

/-- Glyph attribute cells: the stored assignment does not depend on the order in which the value map presents the
    assignments (re-export of the C05 theorem). -/
theorem attr_cell_order_independent (l l' : List GA.Asg) (hp : l.Perm l') (hd : GA.DistinctLines l) :
    GA.codeWinner l = GA.codeWinner l' := GA.codeWinner_perm l l' hp hd

/-! ### Ordered containers keyed by symbols (GrcMasterTable.h ValueMap / ValueListMap)

An ordered map is iterated in the order of its keys.  `iterate key es` is that order for the entries `es` (in whatever
order they were inserted) under the key function `key`.  With the key a creation counter - a function of the source
text - the iteration does not depend on anything else (`iterate_perm`); with the key an address it is whatever the
allocator made it (`iterate_address_dependent`). -/

def iterate {α : Type} (key : α → Nat) (es : List α) : List α := es.mergeSort (fun a b => decide (key a ≤ key b))

/-- The iteration order is a function of the SET of entries and their keys: any insertion order gives the same
    sequence, provided the keys are pairwise distinct (a creation counter is). -/
theorem iterate_perm {α : Type} (key : α → Nat) (l l' : List α) (hp : l.Perm l')
    (hinj : ∀ a ∈ l, ∀ b ∈ l, key a = key b → a = b) : iterate key l = iterate key l' := by
  unfold iterate
  have tr : ∀ a b c : α, decide (key a ≤ key b) = true → decide (key b ≤ key c) = true → decide (key a ≤ key c) = true := by
    intro a b c h1 h2; simp only [decide_eq_true_eq] at *; omega
  have tot : ∀ a b : α, (decide (key a ≤ key b) || decide (key b ≤ key a)) = true := by
    intro a b; simp only [Bool.or_eq_true, decide_eq_true_eq]; omega
  have s1 := List.pairwise_mergeSort tr tot l
  have s2 := List.pairwise_mergeSort tr tot l'
  have p1 := List.mergeSort_perm l (fun a b => decide (key a ≤ key b))
  have p2 := List.mergeSort_perm l' (fun a b => decide (key a ≤ key b))
  refine List.Perm.eq_of_pairwise (le := fun a b => decide (key a ≤ key b) = true) ?_ s1 s2 (p1.trans (hp.trans p2.symm))
  intro a b ha hb h1 h2
  simp only [decide_eq_true_eq] at h1 h2
  have ha' : a ∈ l := p1.mem_iff.mp ha
  have hb' : b ∈ l := hp.mem_iff.mpr (p2.mem_iff.mp hb)
  exact hinj a ha' b hb' (by omega)

/-- Same entries, same keys: the iteration is the same whatever else differs between two runs (addresses included). -/
theorem iterate_congr {α : Type} (key key' : α → Nat) (l : List α) (h : ∀ a ∈ l, key a = key' a)
    (hinj : ∀ a ∈ l, ∀ b ∈ l, key a = key b → a = b) : iterate key l = iterate key' l := by
  unfold iterate
  have tr : ∀ (k : α → Nat) (a b c : α), decide (k a ≤ k b) = true → decide (k b ≤ k c) = true → decide (k a ≤ k c) = true := by
    intro k a b c h1 h2; simp only [decide_eq_true_eq] at *; omega
  have tot : ∀ (k : α → Nat) (a b : α), (decide (k a ≤ k b) || decide (k b ≤ k a)) = true := by
    intro k a b; simp only [Bool.or_eq_true, decide_eq_true_eq]; omega
  have s1 := List.pairwise_mergeSort (tr key) (tot key) l
  have s2 := List.pairwise_mergeSort (tr key') (tot key') l
  have p1 := List.mergeSort_perm l (fun a b => decide (key a ≤ key b))
  have p2 := List.mergeSort_perm l (fun a b => decide (key' a ≤ key' b))
  have s2' : (l.mergeSort (fun a b => decide (key' a ≤ key' b))).Pairwise (fun a b => decide (key a ≤ key b) = true) := by
    refine List.Pairwise.imp_of_mem ?_ s2
    intro a b ha hb hab
    rw [h a (p2.mem_iff.mp ha), h b (p2.mem_iff.mp hb)]; exact hab
  refine List.Perm.eq_of_pairwise (le := fun a b => decide (key a ≤ key b) = true) ?_ s1 s2' (p1.trans p2.symm)
  intro a b ha hb h1 h2
  simp only [decide_eq_true_eq] at h1 h2
  exact hinj a (p1.mem_iff.mp ha) b (p2.mem_iff.mp hb) (by omega)

/-- The defect repaired by /repo d694336, as a witness: keyed by address, two allocators give two orders
    (entries: the language ids of the two names of one feature setting). -/
theorem iterate_address_dependent :
    iterate (fun (lang : Nat) => if lang = 1033 then 100 else 200) [1033, 1036]
      ≠ iterate (fun (lang : Nat) => if lang = 1033 then 300 else 200) [1033, 1036] := by
  intro heq
  have tr : ∀ (k : Nat → Nat) (a b c : Nat), decide (k a ≤ k b) = true → decide (k b ≤ k c) = true → decide (k a ≤ k c) = true := by
    intro k a b c h1 h2; simp only [decide_eq_true_eq] at *; omega
  have tot : ∀ (k : Nat → Nat) (a b : Nat), (decide (k a ≤ k b) || decide (k b ≤ k a)) = true := by
    intro k a b; simp only [Bool.or_eq_true, decide_eq_true_eq]; omega
  have s2 := List.pairwise_mergeSort (tr (fun lang => if lang = 1033 then 300 else 200)) (tot _) [1033, 1036]
  have e1 : iterate (fun (lang : Nat) => if lang = 1033 then 100 else 200) [1033, 1036] = [1033, 1036] := by
    unfold iterate
    apply List.mergeSort_of_pairwise
    simp
  unfold iterate at heq e1
  rw [← heq, e1] at s2
  simp at s2

end Grc.Det
