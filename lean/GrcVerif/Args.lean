/-
  C11 (the part that is logic): `main`'s command-line handling with its fixed-size buffers
  (compiler/main.cpp: main, HandleCompilerOptions, GenerateOutputFontFileName) as a pure function that
  returns every buffer write it performs, and the inclusive 16/32-bit range loops of
  GdlGlyphDefn::AssignGlyphIDsToClassMember.

  The guards (`if (i - 2 < 19)`, `strlen(pch) >= 128`, `arg2 != NULL`, the `w == 0xFFFF` break inside the loop ...)
  are *parameters* of the model; their actual values are extracted from the source on every run
  (Generated/ArgConsts.lean) and the safety theorems are instantiated at those values in ArgsGen.lean.
  Core Lean only.
-/
namespace Grc.Args

/-- A C string: its bytes without the terminating NUL. -/
abbrev CStr := List Nat

inductive Buf where
  | rgch      -- char rgch[20]            (HandleCompilerOptions, digits of -n/-v/-w)
  | outFile   -- char rgchOutputFile[128]  (main)
  | family    -- utf16 rgchwOutputFontFamily[128] (main)
  deriving DecidableEq, Repr

structure Write where
  buf : Buf
  idx : Nat
  deriving DecidableEq, Repr

/-- What the source says about sizes and guards (regenerated from main.cpp on every run). -/
structure Consts where
  rgchCap    : Nat            -- 20
  digitGuard : Option Nat     -- `if (i - 2 < 19) rgch[i - 2] = arg[i]`  → some 19 ; no guard → none
  termGuard  : Option Nat     -- `rgch[(i - 2 < 19) ? i - 2 : 19] = 0`   → some 19 ; `rgch[i - 2] = 0` → none
  outCap     : Nat            -- 128
  outGuard   : Option Nat     -- `strlen(pch) >= 128` rejects            → some 128
  famCap     : Nat            -- 128
  famGuard   : Option Nat     -- `strlen(argv[4 + cargExtra]) >= 128`    → some 128
  genGuard   : Option (Nat × Nat)  -- `strlen(pchFontFile) + 3 >= 128`   → some (3, 128)
  eNullGuard : Bool           -- `-e` consumes its value only `if (arg2 != NULL)`
  deriving Repr

def Consts.cap (K : Consts) : Buf → Nat
  | .rgch => K.rgchCap
  | .outFile => K.outCap
  | .family => K.famCap

/-- The guards are present and tight enough for the buffers. -/
def Consts.Safe (K : Consts) : Prop :=
  (∃ g, K.digitGuard = some g ∧ g ≤ K.rgchCap) ∧
  (∃ t, K.termGuard = some t ∧ t < K.rgchCap) ∧
  (∃ o, K.outGuard = some o ∧ o ≤ K.outCap) ∧
  (∃ f, K.famGuard = some f ∧ f ≤ K.famCap + 1) ∧
  (∃ a b, K.genGuard = some (a, b) ∧ 3 ≤ a ∧ b ≤ K.outCap) ∧
  K.eNullGuard = true

instance (K : Consts) : Decidable K.Safe := by
  unfold Consts.Safe
  cases K.digitGuard <;> cases K.termGuard <;> cases K.outGuard <;> cases K.famGuard <;> cases hg : K.genGuard <;>
    first
      | (apply isFalse; intro h; obtain ⟨⟨_, h1, _⟩, ⟨_, h2, _⟩, ⟨_, h3, _⟩, ⟨_, h4, _⟩, ⟨_, _, h5, _⟩, _⟩ := h; simp_all; done)
      | skip
  rename_i g t o f ab
  obtain ⟨a, b⟩ := ab
  by_cases c : g ≤ K.rgchCap ∧ t < K.rgchCap ∧ o ≤ K.outCap ∧ f ≤ K.famCap + 1 ∧ 3 ≤ a ∧ b ≤ K.outCap ∧ K.eNullGuard = true
  · exact isTrue ⟨⟨g, rfl, c.1⟩, ⟨t, rfl, c.2.1⟩, ⟨o, rfl, c.2.2.1⟩, ⟨f, rfl, c.2.2.2.1⟩, ⟨a, b, rfl, c.2.2.2.2.1, c.2.2.2.2.2.1⟩, c.2.2.2.2.2.2⟩
  · apply isFalse
    intro h
    obtain ⟨⟨g', h1, h1'⟩, ⟨t', h2, h2'⟩, ⟨o', h3, h3'⟩, ⟨f', h4, h4'⟩, ⟨a', b', h5, h5', h5''⟩, h6⟩ := h
    simp at h1 h2 h3 h4 h5
    obtain ⟨rfl, rfl⟩ := h5
    subst h1 h2 h3 h4
    exact c ⟨h1', h2', h3', h4', h5', h5'', h6⟩

/-! ### The digit loop of `-nNNN`, `-vN`, `-wNNN` -/

def isDigit (c : Nat) : Bool := decide (48 ≤ c ∧ c ≤ 57)

/-- `while (arg[i] >= '0' && arg[i] <= '9') { if (i-2 < G) rgch[i-2] = arg[i]; nValue = nValue*10 + d; i++; }`
    over the characters after the two-character option prefix. `k` is `i - 2`. Returns the writes, the final `k`
    and the accumulated value (mathematical; the C value is this modulo 2^32). -/
def digitLoop (K : Consts) : List Nat → Nat → Nat → List Write × Nat × Nat
  | [], k, v => ([], k, v)
  | c :: rest, k, v =>
    if isDigit c then
      let w : List Write := match K.digitGuard with
        | some g => if k < g then [⟨.rgch, k⟩] else []
        | none => [⟨.rgch, k⟩]
      let (ws, k', v') := digitLoop K rest (k + 1) (v * 10 + (c - 48))
      (w ++ ws, k', v')
    else ([], k, v)

def termIndex (K : Consts) (k : Nat) : Nat :=
  match K.termGuard with
  | some t => if k < t then k else t
  | none => k

def digitWrites (K : Consts) (arg : CStr) : List Write × Nat :=
  let (ws, k, v) := digitLoop K (arg.drop 2) 0 0
  (ws ++ [⟨.rgch, termIndex K k⟩], v)

theorem digitLoop_bound (K : Consts) (g : Nat) (hg : K.digitGuard = some g) (l : List Nat) (k v : Nat) :
    ∀ w ∈ (digitLoop K l k v).1, w.buf = .rgch ∧ w.idx < g := by
  induction l generalizing k v with
  | nil => simp [digitLoop]
  | cons c rest ih =>
    simp only [digitLoop]
    split
    · intro w hw
      simp only [hg, List.mem_append] at hw
      rcases hw with hw | hw
      · split at hw
        · simp at hw; subst hw; simp; assumption
        · simp at hw
      · exact ih _ _ w hw
    · simp

theorem digitWrites_inbounds (K : Consts) (hK : K.Safe) (arg : CStr) :
    ∀ w ∈ (digitWrites K arg).1, w.idx < K.cap w.buf := by
  obtain ⟨⟨g, hg, hg'⟩, ⟨t, ht, ht'⟩, _⟩ := hK
  intro w hw
  simp only [digitWrites, List.mem_append, List.mem_singleton] at hw
  rcases hw with hw | hw
  · have := digitLoop_bound K g hg (arg.drop 2) 0 0 w hw
    rw [this.1]; simp only [Consts.cap]; omega
  · subst hw
    simp only [Consts.cap, termIndex, ht]
    split <;> omega

/-! ### Options -/

structure Opts where
  compress  : Bool := false
  dbgXml    : Bool := false
  dbgAll    : Bool := false
  errFile   : Option CStr := none
  ignoreBad : Bool := false
  wall      : Bool := false
  nameStart : Option Nat := none
  version   : Option Nat := none
  ignored   : List Nat := []
  quiet     : Bool := false
  noPassOpt : Bool := false
  offsets   : Bool := false
  deriving Repr

inductive Step where
  | ok (o : Opts) (consumed : Nat) (ws : List Write)
  | crash (why : String)      -- dereference of the NULL that terminates argv

def str (s : String) : CStr := s.toList.map (·.toNat)

inductive OptKind where
  | c | d | D | e | g | wall | n | v | w | q | p | offsets | other
  deriving DecidableEq, Repr

/-- The if-chain of HandleCompilerOptions, in its order. `arg` starts with '-'. -/
def classify (arg : CStr) : OptKind :=
  let c1 := arg.getD 1 0
  if c1 = 99 then .c
  else if c1 = 100 then .d
  else if c1 = 68 then .D
  else if c1 = 101 then .e
  else if c1 = 103 then .g
  else if arg.drop 1 = str "wall" then .wall
  else if c1 = 110 then .n
  else if c1 = 118 then .v
  else if c1 = 119 then .w
  else if c1 = 113 then .q
  else if c1 = 112 then .p
  else if arg.drop 1 = str "offsets" then .offsets
  else .other

/-- HandleCompilerOptions(cargExtra, arg, arg2). -/
def handleOption (K : Consts) (o : Opts) (arg : CStr) (arg2 : Option CStr) : Step :=
  match classify arg with
  | .c => .ok { o with compress := true } 1 []
  | .d => .ok { o with dbgXml := true, dbgAll := false } 1 []    -- SetOutputDebugFiles(true, false): also undoes an earlier -D
  | .D => .ok { o with dbgXml := true, dbgAll := true } 1 []
  | .e =>
    match arg2 with
    | some f => .ok { o with errFile := some f } 2 []
    | none => if K.eNullGuard then .ok o 1 [] else .crash "SetErrorFileName(NULL)"
  | .g => .ok { o with ignoreBad := true } 1 []
  | .wall => .ok { o with wall := true } 1 []
  | .n => .ok { o with nameStart := some (digitWrites K arg).2 } 1 (digitWrites K arg).1
  | .v => .ok { o with version := some (digitWrites K arg).2 } 1 (digitWrites K arg).1
  | .w => .ok { o with ignored := o.ignored ++ [(digitWrites K arg).2] } 1 (digitWrites K arg).1
  | .q => .ok { o with quiet := true } 1 []
  | .p => .ok { o with noPassOpt := true } 1 []
  | .offsets => .ok { o with offsets := true } 1 []
  | .other => .ok o 1 []

theorem handleOption_inbounds (K : Consts) (hK : K.Safe) (o : Opts) (arg : CStr) (arg2 : Option CStr)
    (o' : Opts) (n : Nat) (ws : List Write) (h : handleOption K o arg arg2 = .ok o' n ws) :
    (∀ w ∈ ws, w.idx < K.cap w.buf) ∧ 1 ≤ n ∧ n ≤ 2 ∧ (n = 2 → arg2.isSome) := by
  have hd := digitWrites_inbounds K hK arg
  unfold handleOption at h
  cases hc : classify arg <;> simp only [hc] at h
  case e =>
    cases arg2 with
    | some f => simp at h; obtain ⟨_, rfl, rfl⟩ := h; simp
    | none =>
      simp only at h
      split at h
      · simp at h; obtain ⟨_, rfl, rfl⟩ := h; simp
      · cases h
  all_goals (simp at h; obtain ⟨_, rfl, rfl⟩ := h; simp; try exact hd)

theorem handleOption_no_crash (K : Consts) (hK : K.eNullGuard = true) (o : Opts) (arg : CStr) (arg2 : Option CStr) :
    ∀ why, handleOption K o arg arg2 ≠ .crash why := by
  intro why h
  unfold handleOption at h
  cases hc : classify arg <;> simp only [hc] at h <;> try (cases h; done)
  cases arg2 with
  | some f => cases h
  | none => simp [hK] at h

/-! ### The derived output file name (GenerateOutputFontFileName) -/

/-- The part of the name after the last '\\' or ':' (the C code scans back from the NUL). -/
def afterLastSep : CStr → CStr → CStr
  | acc, [] => acc
  | acc, c :: rest => if c = 92 ∨ c = 58 then afterLastSep [] rest else afterLastSep (acc ++ [c]) rest

theorem afterLastSep_length (acc s : CStr) : (afterLastSep acc s).length ≤ acc.length + s.length := by
  induction s generalizing acc with
  | nil => simp [afterLastSep]
  | cons c rest ih =>
    simp only [afterLastSep]
    split
    · have := ih []; simp at this ⊢; omega
    · have := ih (acc ++ [c]); simp at this ⊢; omega

/-- xyz.ttf ↦ xyz_gr.ttf : copy up to the first '.', append "_gr", copy the rest. -/
def genOutName (font : CStr) : CStr :=
  let b := afterLastSep [] font
  b.takeWhile (· ≠ 46) ++ str "_gr" ++ b.dropWhile (· ≠ 46)

theorem genOutName_length (font : CStr) : (genOutName font).length ≤ font.length + 3 := by
  have h := afterLastSep_length [] font
  have h2 : ((afterLastSep [] font).takeWhile (· ≠ 46)).length + ((afterLastSep [] font).dropWhile (· ≠ 46)).length
      = (afterLastSep [] font).length := by
    rw [← List.length_append, List.takeWhile_append_dropWhile]
  simp only [genOutName, List.length_append]
  have : (str "_gr").length = 3 := by decide
  simp at h
  omega

/-! ### main -/

inductive Outcome where
  | crash (why : String)
  | usage                    -- prints the usage text, exit 2
  | tooLong                  -- output file name or font name too long, exit 2
  | tooLongDerived           -- input name too long to derive an output name, exit 2
  | proceed (o : Opts) (gdl font out : CStr) (family : Option CStr)

structure Result where
  outcome : Outcome
  writes : List Write

def strWrites (b : Buf) (n : Nat) : List Write := (List.range n).map (fun i => ⟨b, i⟩)

theorem strWrites_bound (b : Buf) (n : Nat) : ∀ w ∈ strWrites b n, w.buf = b ∧ w.idx < n := by
  intro w hw
  simp [strWrites] at hw
  obtain ⟨i, hi, rfl⟩ := hw
  simp [hi]

def derive (K : Consts) (o : Opts) (gdl font : CStr) (fam : Option CStr) (ws : List Write) : Result :=
  let rejected : Bool := match K.genGuard with
    | some (a, b) => decide (font.length + a ≥ b)
    | none => false
  if rejected then ⟨.tooLongDerived, ws⟩
  else ⟨.proceed o gdl font (genOutName font) fam, ws ++ strWrites .outFile ((genOutName font).length + 1)⟩

def guardHit (g : Option Nat) (n : Nat) : Bool :=
  match g with
  | some g => decide (n ≥ g)
  | none => false

def famLen (fam : Option CStr) : Nat :=
  match fam with
  | some f => f.length
  | none => 0

def positional (K : Consts) (o : Opts) (rest : List CStr) (ws : List Write) : Result :=
  match rest with
  | gdl :: font :: more =>
    match more.head? with
    | some out =>
      let fam := (more.drop 1).head?
      if guardHit K.outGuard out.length || (fam.isSome && guardHit K.famGuard (famLen fam)) then ⟨.tooLong, ws⟩
      else
        let ws1 := ws ++ strWrites .outFile (out.length + 1) ++ strWrites .family (famLen fam)
        if out = [] then derive K o gdl font fam ws1
        else ⟨.proceed o gdl font out fam, ws1⟩
    | none => derive K o gdl font none ws
  | _ => ⟨.usage, ws⟩

/-- The option loop: `while (argc >= 2 + cargExtra && argv[1 + cargExtra][0] == '-')`.
    Structural recursion on `fuel`; every iteration consumes at least one argument, so `fuel = argv.length` is
    enough (`optLoop_fuel`). -/
def optLoop (K : Consts) : Nat → Opts → List CStr → List Write → Result
  | 0, o, argv, ws => positional K o argv ws
  | fuel + 1, o, argv, ws =>
    match argv with
    | [] => positional K o [] ws
    | a :: rest =>
      if a.head? = some 45 then
        match handleOption K o a rest.head? with
        | .crash why => ⟨.crash why, ws⟩
        | .ok o' n ws' => optLoop K fuel o' (rest.drop (n - 1)) (ws ++ ws')
      else positional K o (a :: rest) ws

/-- `main` up to the point where the file names are fixed. `argv` excludes the program name. -/
def parseArgs (K : Consts) (argv : List CStr) : Result := optLoop K argv.length {} argv []

def exitOf : Outcome → Option Nat
  | .crash _ => none
  | .usage => some 2
  | .tooLong => some 2
  | .tooLongDerived => some 2
  | .proceed .. => none     -- compilation goes on (C09's state machine takes over)

theorem derive_inbounds (K : Consts) (hK : K.Safe) (o gdl font fam ws)
    (hws : ∀ w ∈ ws, w.idx < K.cap w.buf) : ∀ w ∈ (derive K o gdl font fam ws).writes, w.idx < K.cap w.buf := by
  obtain ⟨_, _, _, _, ⟨a, b, hg, ha, hb⟩, _⟩ := hK
  unfold derive
  simp only [hg]
  split
  · exact hws
  · rename_i hr
    intro w hw
    simp only [List.mem_append] at hw
    rcases hw with hw | hw
    · exact hws w hw
    · have := strWrites_bound _ _ w hw
      have hl := genOutName_length font
      simp at hr
      rw [this.1]; simp only [Consts.cap]; omega

theorem positional_inbounds (K : Consts) (hK : K.Safe) (o rest ws)
    (hws : ∀ w ∈ ws, w.idx < K.cap w.buf) : ∀ w ∈ (positional K o rest ws).writes, w.idx < K.cap w.buf := by
  have hK' := hK
  obtain ⟨_, _, ⟨g, hg, hg'⟩, ⟨f, hf, hf'⟩, _, _⟩ := hK
  unfold positional
  split
  · rename_i gdl font more
    split
    · rename_i out hout
      simp only
      by_cases hl : (guardHit K.outGuard out.length || ((more.drop 1).head?.isSome && guardHit K.famGuard (famLen (more.drop 1).head?))) = true
      · rw [if_pos hl]; exact hws
      · rw [if_neg hl]
        have hws1 : ∀ w ∈ ws ++ strWrites .outFile (out.length + 1) ++ strWrites .family (famLen (more.drop 1).head?),
            w.idx < K.cap w.buf := by
          intro w hw
          simp only [List.mem_append] at hw
          simp only [Bool.or_eq_true, Bool.and_eq_true, not_or, not_and, guardHit, hg, hf, decide_eq_true_eq, Nat.not_le] at hl
          rcases hw with (hw | hw) | hw
          · exact hws w hw
          · have := strWrites_bound _ _ w hw
            rw [this.1]; simp only [Consts.cap]; omega
          · have hb := strWrites_bound _ _ w hw
            rw [hb.1]; simp only [Consts.cap]
            have hb2 := hb.2
            generalize hfam : (more.drop 1).head? = fam at hl hb2
            cases fam with
            | none => simp [famLen] at hb2
            | some fm =>
              have h2 := hl.2 (by simp)
              omega
        split
        · exact derive_inbounds K hK' _ _ _ _ _ hws1
        · exact hws1
    · exact derive_inbounds K hK' _ _ _ _ _ hws
  · exact hws

theorem optLoop_inbounds (K : Consts) (hK : K.Safe) (fuel : Nat) (o : Opts) (argv : List CStr) (ws : List Write)
    (hws : ∀ w ∈ ws, w.idx < K.cap w.buf) : ∀ w ∈ (optLoop K fuel o argv ws).writes, w.idx < K.cap w.buf := by
  induction fuel generalizing o argv ws with
  | zero => unfold optLoop; exact positional_inbounds K hK _ _ _ hws
  | succ fuel ih =>
    unfold optLoop
    split
    · exact positional_inbounds K hK _ _ _ hws
    · split
      · split
        · exact hws
        · rename_i o' n' ws' hstep
          have hb := handleOption_inbounds K hK _ _ _ _ _ _ hstep
          apply ih
          intro w hw
          simp only [List.mem_append] at hw
          rcases hw with hw | hw
          · exact hws w hw
          · exact hb.1 w hw
      · exact positional_inbounds K hK _ _ _ hws

/-- **No write of the command-line handling leaves its buffer**, for every argument vector, when the guards found in
    the source satisfy `Safe`. -/
theorem parseArgs_inbounds (K : Consts) (hK : K.Safe) (argv : List CStr) :
    ∀ w ∈ (parseArgs K argv).writes, w.idx < K.cap w.buf :=
  optLoop_inbounds K hK _ {} argv [] (by simp)

def Outcome.isCrash : Outcome → Bool
  | .crash _ => true
  | _ => false

theorem derive_no_crash (K o gdl font fam ws) : (derive K o gdl font fam ws).outcome.isCrash = false := by
  unfold derive; dsimp only; repeat' split
  all_goals rfl

theorem positional_no_crash (K o rest ws) : (positional K o rest ws).outcome.isCrash = false := by
  unfold positional
  split
  · split
    · simp only
      split
      · rfl
      · split
        · exact derive_no_crash ..
        · rfl
    · exact derive_no_crash ..
  · rfl

/-- **The NULL that terminates argv is never dereferenced** (an option that takes a value may be the last argument). -/
theorem parseArgs_no_crash (K : Consts) (hK : K.eNullGuard = true) (argv : List CStr) :
    (parseArgs K argv).outcome.isCrash = false := by
  suffices h : ∀ fuel (argv : List CStr) (o : Opts) (ws : List Write),
      (optLoop K fuel o argv ws).outcome.isCrash = false from h _ argv {} []
  intro fuel
  induction fuel with
  | zero => intro argv o ws; unfold optLoop; exact positional_no_crash ..
  | succ fuel ih =>
    intro argv o ws
    unfold optLoop
    split
    · exact positional_no_crash ..
    · split
      · split
        · rename_i why hstep
          exact absurd hstep (handleOption_no_crash K hK _ _ _ why)
        · exact ih ..
      · exact positional_no_crash ..

/-- The fuel is not a restriction: one more unit changes nothing once it covers the arguments. -/
theorem optLoop_fuel (K : Consts) (fuel : Nat) (o : Opts) (argv : List CStr) (ws : List Write)
    (h : argv.length ≤ fuel) : optLoop K (fuel + 1) o argv ws = optLoop K fuel o argv ws := by
  induction fuel generalizing o argv ws with
  | zero =>
    have : argv = [] := by cases argv <;> simp_all
    subst this; simp [optLoop]
  | succ fuel ih =>
    cases argv with
    | nil => simp [optLoop]
    | cons a rest =>
      rw [optLoop, optLoop]
      split
      · split
        · rfl
        · rename_i o' n' ws' hstep
          apply ih
          simp at h ⊢; omega
      · rfl

/-- Before compilation proper starts, `main` either goes on or returns 2. -/
theorem parseArgs_exit (K : Consts) (hK : K.eNullGuard = true) (argv : List CStr) :
    exitOf (parseArgs K argv).outcome = some 2 ∨ ∃ o g f out fam, (parseArgs K argv).outcome = .proceed o g f out fam := by
  have := parseArgs_no_crash K hK argv
  cases h : (parseArgs K argv).outcome with
  | crash why => simp [h, Outcome.isCrash] at this
  | usage => left; rfl
  | tooLong => left; rfl
  | tooLongDerived => left; rfl
  | proceed o g f out fam => right; exact ⟨o, g, f, out, fam, rfl⟩

/-! ### The guards are needed: the same model without them (the code before the repairs) overruns. -/

def unguarded : Consts :=
  { rgchCap := 20, digitGuard := none, termGuard := none, outCap := 128, outGuard := none, famCap := 128,
    famGuard := none, genGuard := none, eNullGuard := false }

def fixed : Consts :=
  { rgchCap := 20, digitGuard := some 19, termGuard := some 19, outCap := 128, outGuard := some 128, famCap := 128,
    famGuard := some 128, genGuard := some (3, 128), eNullGuard := true }

example : fixed.Safe := by decide

set_option maxRecDepth 8000 in
/-- `-n` followed by 25 digits writes rgch[24] in the unguarded model. -/
example : ∃ w ∈ (parseArgs unguarded [str "-n1111111111111111111111111", str "p.gdl", str "in.ttf"]).writes,
    ¬ w.idx < unguarded.cap w.buf := ⟨⟨.rgch, 24⟩, by decide, by decide⟩

/-- `-e` as the last argument dereferences NULL in the unguarded model. -/
example : (parseArgs unguarded [str "-e"]).outcome.isCrash = true := by decide

set_option maxRecDepth 8000 in
/-- A 130-character output name overruns rgchOutputFile in the unguarded model. -/
example : ∃ w ∈ (parseArgs unguarded [str "p.gdl", str "in.ttf", List.replicate 130 111]).writes,
    ¬ w.idx < unguarded.cap w.buf := ⟨⟨.outFile, 130⟩, by decide, by decide⟩

set_option maxRecDepth 8000 in
/-- Non-vacuity: with the guards, the long forms are rejected with status 2 and ordinary command lines go on. -/
example : exitOf (parseArgs fixed [str "p.gdl", str "in.ttf", List.replicate 130 111]).outcome = some 2 := by decide
example : (parseArgs fixed [str "-q", str "-e", str "err.txt", str "p.gdl", str "in.ttf"]).outcome.isCrash = false := by decide
example : genOutName (str "dir\\in.ttf") = str "in_gr.ttf" := by decide

/-! ### Inclusive range loops over fixed-width counters
    `for (w = wFirst; w <= wLast; ++w) { body; if (w == MAX) break; }`  (AssignGlyphIDsToClassMember). -/

/-- One iteration from counter value `w` (precondition `w ≤ last`, `last < M`): `none` = the loop is left,
    `some w'` = next counter value (after wrap-around modulo `M`). -/
def rangeNext (M : Nat) (guarded : Bool) (last w : Nat) : Option Nat :=
  if guarded ∧ w = M - 1 then none
  else
    let w' := (w + 1) % M
    if w' ≤ last then some w' else none

/-- Run at most `fuel` iterations; returns the visited counter values, or `none` if the fuel runs out. -/
def rangeLoop (M : Nat) (guarded : Bool) (last : Nat) : Nat → Nat → Option (List Nat)
  | 0, _ => none
  | fuel + 1, w =>
    match rangeNext M guarded last w with
    | none => some [w]
    | some w' => (rangeLoop M guarded last fuel w').map (w :: ·)

/-- With the break inside the loop, a range `[first, last]` below `M` is visited exactly once each, in
    `last - first + 1` iterations - in particular when `last = M - 1`. -/
theorem rangeLoop_guarded (M first last : Nat) (hM : 0 < M) (hfl : first ≤ last) (hl : last < M) :
    rangeLoop M true last (last - first + 1) first = some (List.range' first (last - first + 1)) := by
  generalize hn : last - first = n
  induction n generalizing first with
  | zero =>
    have : first = last := by omega
    subst this
    unfold rangeLoop
    simp only [rangeNext]
    by_cases h : first = M - 1
    · simp [h]
    · have h1 : (first + 1) % M = first + 1 := Nat.mod_eq_of_lt (by omega)
      have h2 : ¬ first + 1 ≤ first := by omega
      simp [h, h1, h2]
  | succ n ih =>
    have hne : first ≠ M - 1 := by omega
    have hmod : (first + 1) % M = first + 1 := Nat.mod_eq_of_lt (by omega)
    have hle : first + 1 ≤ last := by omega
    unfold rangeLoop
    simp only [rangeNext, hne, and_false, if_false, hmod, hle, if_true]
    rw [ih (first + 1) hle (by omega)]
    simp [List.range'_succ]

/-- Without the break (or with the break placed after the loop), a range that ends at the largest counter value is
    never left: no amount of fuel suffices. This is the loop `codepoint(a..0xFFFF)` ran before the repair. -/
theorem rangeLoop_unguarded_diverges (M : Nat) (hM : 0 < M) (fuel w : Nat) (hw : w < M) :
    rangeLoop M false (M - 1) fuel w = none := by
  induction fuel generalizing w with
  | zero => rfl
  | succ n ih =>
    have hlt : (w + 1) % M < M := Nat.mod_lt _ hM
    have hle : (w + 1) % M ≤ M - 1 := by omega
    unfold rangeLoop
    simp only [rangeNext, Bool.false_eq_true, false_and, if_false, hle, if_true]
    rw [ih _ hlt]; rfl

example : rangeLoop 65536 true 65535 3 65533 = some [65533, 65534, 65535] := by decide

/-! ### Loops bounded by `size() - 1` in unsigned arithmetic (HasDuplicateGlyphs) -/

inductive BoundForm where
  | plusOne     -- `i + 1 < size`
  | sizeMinus1  -- `i < size - 1` with unsigned wrap-around
  deriving DecidableEq, Repr

/-- Number of iterations of `for (i = 0; cond(i); i++)` over a vector of `n` elements with 64-bit `size_t`. -/
def iterations (f : BoundForm) (n : Nat) : Nat :=
  match f with
  | .plusOne => n - 1
  | .sizeMinus1 => (n + 18446744073709551616 - 1) % 18446744073709551616

theorem iterations_plusOne_le (n : Nat) : iterations .plusOne n ≤ n := by simp [iterations]

/-- every index the body touches (`i` and `i + 1`) is inside the vector -/
theorem plusOne_indices (n i : Nat) (h : i < iterations .plusOne n) : i + 1 < n := by
  simp [iterations] at h; omega

/-- the old form on an empty vector: 2^64 - 1 iterations -/
example : iterations .sizeMinus1 0 = 18446744073709551615 := by decide

end Grc.Args
