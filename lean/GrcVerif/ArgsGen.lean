/-
  C11: the theorems of Args.lean instantiated at what the source says *now* (Generated/ArgConsts.lean is rewritten
  from /repo on every run). These are the proof obligations a change to main.cpp / ErrorCheckClasses.cpp /
  GdlGlyphClassDefn.cpp can break.
-/
import GrcVerif.Args
import GrcVerif.Generated.ArgConsts
namespace Grc.ArgsGen
open Grc.Args

/-- T1 obligation: the guards present in main.cpp are tight enough for the buffer sizes declared there. -/
theorem consts_safe : Gen.argConsts.Safe := by decide

/-- T1 obligation: GenerateOutputFontFileName has the shape the model mirrors. -/
theorem gen_name_shape : Gen.genNameShapeOk = true := by decide

/-- For every argument vector, every write of `main`'s command-line handling stays inside its buffer. -/
theorem main_writes_inbounds (argv : List CStr) :
    ∀ w ∈ (parseArgs Gen.argConsts argv).writes, w.idx < Gen.argConsts.cap w.buf :=
  parseArgs_inbounds _ consts_safe argv

/-- For every argument vector, the NULL terminating argv is never dereferenced. -/
theorem main_no_null_deref (argv : List CStr) : (parseArgs Gen.argConsts argv).outcome.isCrash = false :=
  parseArgs_no_crash _ consts_safe.2.2.2.2.2 argv

/-- For every argument vector, argument handling ends in `return 2` or goes on to compile. -/
theorem main_exit (argv : List CStr) :
    exitOf (parseArgs Gen.argConsts argv).outcome = some 2 ∨
      ∃ o g f out fam, (parseArgs Gen.argConsts argv).outcome = .proceed o g f out fam :=
  parseArgs_exit _ consts_safe.2.2.2.2.2 argv

/-- T1 obligation: every inclusive range loop of AssignGlyphIDsToClassMember has its wrap-around break inside the body. -/
theorem range_loops_guarded : ∀ l ∈ Gen.rangeLoops, l.2.2 = true ∧ 0 < l.2.1 := by decide

/-- Hence each of them terminates after exactly `last - first + 1` iterations, for every range. -/
theorem range_loops_terminate : ∀ l ∈ Gen.rangeLoops, ∀ first last, first ≤ last → last < l.2.1 →
    rangeLoop l.2.1 l.2.2 last (last - first + 1) first = some (List.range' first (last - first + 1)) := by
  intro l hl first last hfl hlt
  have := range_loops_guarded l hl
  rw [this.1]
  exact rangeLoop_guarded _ _ _ this.2 hfl hlt

/-- T1 obligation: the duplicate search never runs more iterations than the class has members. -/
theorem dup_loop_bounded (n : Nat) : iterations Gen.dupLoopForm n ≤ n := by
  have : Gen.dupLoopForm = .plusOne := by decide
  rw [this]; exact iterations_plusOne_le n

end Grc.ArgsGen
