/-
  C07: optional items.
  * Spec: a rule body is a sequence of elements, each an item or an optional group of elements; it denotes the list of
    alternatives obtained by taking, element by element (earlier elements varying slowest), every alternative of the
    element; an optional group's alternatives are those of its body followed by the empty one.
  * Model: the compiler's algorithm on the flat list of (start, end) ranges — exchange sort by (start, longer first),
    removal of adjacent duplicates, overlap check, and the include-then-omit recursion with `PrevRangeSubsumes`.
  * `newIndex`: renumbering of item references in an alternative.
  Core Lean only.
-/
namespace Grc.Opt

inductive Elem where
  | item (i : Nat)
  | opt (body : List Elem)
deriving Repr, Inhabited

/-- Spec: alternatives as lists of kept item indices, in the documented order. -/
def altsElem : Elem → List (List Nat)
  | .item i => [[i]]
  | .opt body => altsSeq body ++ [[]]
where
  altsSeq : List Elem → List (List Nat)
    | [] => [[]]
    | e :: rest => (altsElem e).flatMap fun a => (altsSeq rest).map fun r => a ++ r

def specAlternatives (body : List Elem) : List (List Nat) := altsElem.altsSeq body

/-- Ranges (0-based, inclusive) of the optional groups of a body, with the number of items; preorder. -/
def rangesOf : List Elem → Nat → List (Nat × Nat) × Nat
  | [], n => ([], n)
  | .item _ :: rest, n => rangesOf rest (n + 1)
  | .opt body :: rest, n =>
    let (inner, n') := rangesOf body n
    let (more, n'') := rangesOf rest n'
    ((n, n' - 1) :: inner ++ more, n'')

/-! ### Model of PostParser.cpp (GdlRule::AdjustOptRanges, GenerateOptRanges, PrevRangeSubsumes, GenerateOneRuleVersion)

The ranges are the parallel vectors m_viritOptRangeStart / m_viritOptRangeEnd, here a list of pairs. The sort, the
duplicate removal and the overlap test are written over indices as in the source; the recursion over the omit flags
carries the ranges already decided (most recent first) with their flags, which is what the backwards loop of
PrevRangeSubsumes walks. Lengths are end - start in natural numbers (a range never ends before it starts). -/

abbrev Rg := Nat × Nat

/-- `(start1 > start2) || (start1 == start2 && len1 < len2)` -/
def outOfOrder (x y : Rg) : Bool := decide (x.1 > y.1) || (x.1 == y.1 && decide (x.2 - x.1 < y.2 - y.1))

/-- All (i1, i2) with i1 < i2 < n in the order of the two nested loops. -/
def idxPairs (n : Nat) : List (Nat × Nat) :=
  (List.range (n - 1)).flatMap fun i1 => (List.range (n - (i1 + 1))).map fun k => (i1, i1 + 1 + k)

def swapIf (a : List Rg) (p : Nat × Nat) : List Rg :=
  let x := a.getD p.1 (0, 0)
  let y := a.getD p.2 (0, 0)
  if outOfOrder x y then (a.set p.1 y).set p.2 x else a

/-- Exchange sort exactly as written (for i1, for i2 > i1: swap when out of order). -/
def exchangeSort (rs : List Rg) : List Rg := (idxPairs rs.length).foldl swapIf rs

/-- Removal of adjacent duplicates as written (the index advances even after an erase; the bound is re-read). -/
def removeAdjDupsFrom : Nat → Nat → List Rg → List Rg
  | 0, _, a => a
  | f + 1, i, a =>
    if i + 1 < a.length then
      if a.getD i (0, 0) == a.getD (i + 1) (0, 0) then removeAdjDupsFrom f (i + 1) (a.eraseIdx (i + 1))
      else removeAdjDupsFrom f (i + 1) a
    else a

def removeAdjDups (a : List Rg) : List Rg := removeAdjDupsFrom a.length 0 a

/-- `start2 <= end1 && end2 > end1` -/
def overlaps (x y : Rg) : Bool := decide (y.1 ≤ x.2) && decide (y.2 > x.2)

def overlapError (a : List Rg) : Bool :=
  (idxPairs a.length).any fun p => overlaps (a.getD p.1 (0, 0)) (a.getD p.2 (0, 0))

/-- `start[irange] <= start[curr] && end[curr] <= end[irange]` -/
def subsumes (x y : Rg) : Bool := decide (x.1 ≤ y.1) && decide (y.2 ≤ x.2)

/-- The include-then-omit recursion. `done` = the ranges before the current one with their omit flags, most recent
    first; PrevRangeSubsumes = the first of them that subsumes the current range. Returns, in generation order, the
    complete flag assignments (in the order of the ranges). -/
def forcedBy (done : List (Rg × Bool)) (r : Rg) : Bool :=
  match done.find? (fun p => subsumes p.1 r) with
  | some p => p.2          -- irangeSubsuming > -1 && vfOmitRange[irangeSubsuming]
  | none => false

def genOmits : List (Rg × Bool) → List Rg → List (List (Rg × Bool))
  | done, [] => [done.reverse]
  | done, r :: todo =>
    (if forcedBy done r then [] else genOmits ((r, false) :: done) todo) ++ genOmits ((r, true) :: done) todo

def covered (fl : List (Rg × Bool)) (i : Nat) : Bool := fl.any fun p => p.2 && decide (p.1.1 ≤ i) && decide (i ≤ p.1.2)

/-- Items kept for one flag assignment. -/
def keptItems (nItems : Nat) (fl : List (Rg × Bool)) : List Nat := (List.range nItems).filter fun i => !covered fl i

/-- Model: the alternatives the compiler generates (the empty one is skipped with warning 1511). -/
def modelAlternatives (ranges : List Rg) (nItems : Nat) : Option (List (List Nat)) :=
  let a := removeAdjDups (exchangeSort ranges)
  if overlapError a then none
  else some (((genOmits [] a).map (keptItems nItems)).filter (fun k => !k.isEmpty))

def countItems : List Elem → Nat
  | [] => 0
  | .item _ :: rest => 1 + countItems rest
  | .opt body :: rest => countItems body + countItems rest

/-- Executable form of `Wf` (OptProof): items numbered by position from `n`, every optional group holds at least one
    item and is not merely another group in brackets. For such trees `model_eq_spec_any_order` applies. -/
def wfB : List Elem → Nat → Bool
  | [], _ => true
  | .item i :: rest, n => i == n && wfB rest (n + 1)
  | .opt body :: rest, n =>
    wfB body n && decide (0 < countItems body) && (match body with | [.opt _] => false | _ => true)
      && wfB rest (n + countItems body)

/-- A version of the rule is a rule only if it keeps at least one item that the rule modifies (an optional group of the
    context may hold the only `_`); the all-context versions are not generated (warning 1521), just as the version
    with no items at all is not (warning 1511). `mods j` = item `j` is a modified item. -/
def isRuleVersion (mods : List Bool) (kept : List Nat) : Bool :=
  kept.any fun j => mods.getD j false

theorem isRuleVersion_nonempty (mods : List Bool) (kept : List Nat) (h : isRuleVersion mods kept = true) : kept ≠ [] := by
  intro hk; subst hk; simp [isRuleVersion] at h

/-- New 1-based index of original 0-based item `j` in the alternative that keeps `kept` (none = omitted). -/
def newIndex (kept : List Nat) (j : Nat) : Option Nat :=
  let i := kept.idxOf j
  if i < kept.length then some (i + 1) else none

/-- A kept item's new index is one more than the number of kept items before it. -/
theorem newIndex_count (kept : List Nat) (j : Nat) (h : j ∈ kept) (hs : kept.Pairwise (· < ·)) :
    newIndex kept j = some (1 + (kept.filter (· < j)).length) := by
  unfold newIndex
  have hi : kept.idxOf j < kept.length := List.idxOf_lt_length_iff.mpr h
  simp only [hi, if_true]
  congr 1
  induction kept with
  | nil => simp at h
  | cons k ks ih =>
    have hp := List.pairwise_cons.mp hs
    by_cases hk : k = j
    · subst hk
      have : ks.filter (· < k) = [] := by
        apply List.filter_eq_nil_iff.mpr
        intro x hx
        have := hp.1 x hx
        simp; omega
      simp [List.idxOf_cons_self, this]
    · have hj : j ∈ ks := by
        rcases List.mem_cons.mp h with h | h
        · exact absurd h.symm hk
        · exact h
      have hlt : k < j := hp.1 j hj
      have hi' : ks.idxOf j < ks.length := List.idxOf_lt_length_iff.mpr hj
      have := ih hj hp.2 hi'
      have hkb : (k == j) = false := by simp [hk]
      rw [List.idxOf_cons, hkb]
      simp only [cond_false, List.filter_cons, hlt, decide_true, if_true, List.length_cons]
      omega

theorem newIndex_none (kept : List Nat) (j : Nat) (h : j ∉ kept) : newIndex kept j = none := by
  unfold newIndex
  have : ¬ kept.idxOf j < kept.length := by
    intro hc; exact h (List.idxOf_lt_length_iff.mp hc)
  simp [this]

/-- Single-level optional items (no nesting): the spec of `pre ++ [opt [x]] ++ post` is "with x" variants first,
    then "without x" — the shape the compiler's recursion produces for one range. -/
theorem spec_single_optional (x : Nat) (rest : List Elem) :
    specAlternatives (.opt [.item x] :: rest) =
      (specAlternatives rest).map (fun r => x :: r) ++ specAlternatives rest := by
  simp [specAlternatives, altsElem.altsSeq, altsElem]

end Grc.Opt
