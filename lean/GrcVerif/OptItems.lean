/-
  C07: optional items.
  * Spec: a rule body is a sequence of elements, each an item or an optional group of elements; it denotes the list of
    alternatives obtained by taking, element by element (earlier elements varying slowest), every alternative of the
    element; an optional group's alternatives are those of its body followed by the empty one.
  * Model: the compiler's algorithm on the flat list of (start, end) ranges — exchange sort by (start, longer first),
    removal of adjacent duplicates, overlap check, and the include-then-omit recursion with `PrevRangeSubsumes`.
  * `newIndex`: renumbering of item references in an alternative.
  Core Lean only.
-/
namespace Grc.Opt

inductive Elem where
  | item (i : Nat)
  | opt (body : List Elem)
deriving Repr, Inhabited

/-- Spec: alternatives as lists of kept item indices, in the documented order. -/
def altsElem : Elem → List (List Nat)
  | .item i => [[i]]
  | .opt body => altsSeq body ++ [[]]
where
  altsSeq : List Elem → List (List Nat)
    | [] => [[]]
    | e :: rest => (altsElem e).flatMap fun a => (altsSeq rest).map fun r => a ++ r

def specAlternatives (body : List Elem) : List (List Nat) := altsElem.altsSeq body

/-- Ranges (0-based, inclusive) of the optional groups of a body, with the number of items; preorder. -/
def rangesOf : List Elem → Nat → List (Nat × Nat) × Nat
  | [], n => ([], n)
  | .item _ :: rest, n => rangesOf rest (n + 1)
  | .opt body :: rest, n =>
    let (inner, n') := rangesOf body n
    let (more, n'') := rangesOf rest n'
    ((n, n' - 1) :: inner ++ more, n'')

/-! ### Model of PostParser.cpp -/

/-- Exchange sort exactly as written (for i1, for i2 > i1: swap when out of order). -/
def exchangeSort (rs : Array (Nat × Nat)) : Array (Nat × Nat) := Id.run do
  let mut a := rs
  for i1 in [0:a.size - 1] do
    for i2 in [i1 + 1:a.size] do
      let (s1, e1) := a[i1]!
      let (s2, e2) := a[i2]!
      if s1 > s2 ∨ (s1 == s2 ∧ e1 - s1 < e2 - s2) then
        a := (a.set! i1 (s2, e2)).set! i2 (s1, e1)
  return a

/-- Removal of adjacent duplicates as written (index advances even after an erase). -/
def removeAdjDups (rs : Array (Nat × Nat)) : Array (Nat × Nat) := Id.run do
  let mut a := rs
  let mut i := 0
  while i + 1 < a.size do
    if a[i]! == a[i + 1]! then
      a := a.eraseIdx! (i + 1)
    i := i + 1
  return a

def overlapError (a : Array (Nat × Nat)) : Bool :=
  (List.range a.size).any fun i1 => (List.range a.size).any fun i2 =>
    i1 < i2 ∧ (a[i2]!).1 ≤ (a[i1]!).2 ∧ (a[i2]!).2 > (a[i1]!).2

def prevRangeSubsumes (a : Array (Nat × Nat)) (cur : Nat) : Option Nat :=
  ((List.range cur).reverse.find? fun i => (a[i]!).1 ≤ (a[cur]!).1 ∧ (a[cur]!).2 ≤ (a[i]!).2)

/-- The include-then-omit recursion; returns omit-flag vectors in generation order. -/
def genOmits (a : Array (Nat × Nat)) : Nat → Array Bool → Nat → List (Array Bool)
  | 0, _, _ => []
  | fuel + 1, flags, cur =>
    if cur ≥ a.size then [flags]
    else
      let incl :=
        match prevRangeSubsumes a cur with
        | some p => if flags[p]! then [] else genOmits a fuel flags (cur + 1)
        | none => genOmits a fuel flags (cur + 1)
      incl ++ genOmits a fuel (flags.set! cur true) (cur + 1)

/-- Items kept for one omit vector. -/
def keptItems (a : Array (Nat × Nat)) (nItems : Nat) (flags : Array Bool) : List Nat :=
  (List.range nItems).filter fun i => !((List.range a.size).any fun r => flags[r]! ∧ (a[r]!).1 ≤ i ∧ i ≤ (a[r]!).2)

/-- Model: the alternatives the compiler generates (the empty one is skipped with warning 1511). -/
def modelAlternatives (ranges : List (Nat × Nat)) (nItems : Nat) : Option (List (List Nat)) :=
  let a := removeAdjDups (exchangeSort ranges.toArray)
  if overlapError a then none
  else
    let omits := genOmits a (a.size + 2) (Array.replicate a.size false) 0
    some ((omits.map (keptItems a nItems)).filter (fun k => !k.isEmpty))

/-- A version of the rule is a rule only if it keeps at least one item that the rule modifies (an optional group of the
    context may hold the only `_`); the all-context versions are not generated (warning 1521), just as the version
    with no items at all is not (warning 1511). `mods j` = item `j` is a modified item. -/
def isRuleVersion (mods : List Bool) (kept : List Nat) : Bool :=
  kept.any fun j => mods.getD j false

theorem isRuleVersion_nonempty (mods : List Bool) (kept : List Nat) (h : isRuleVersion mods kept = true) : kept ≠ [] := by
  intro hk; subst hk; simp [isRuleVersion] at h

/-- New 1-based index of original 0-based item `j` in the alternative that keeps `kept` (none = omitted). -/
def newIndex (kept : List Nat) (j : Nat) : Option Nat :=
  let i := kept.idxOf j
  if i < kept.length then some (i + 1) else none

/-- A kept item's new index is one more than the number of kept items before it. -/
theorem newIndex_count (kept : List Nat) (j : Nat) (h : j ∈ kept) (hs : kept.Pairwise (· < ·)) :
    newIndex kept j = some (1 + (kept.filter (· < j)).length) := by
  unfold newIndex
  have hi : kept.idxOf j < kept.length := List.idxOf_lt_length_iff.mpr h
  simp only [hi, if_true]
  congr 1
  induction kept with
  | nil => simp at h
  | cons k ks ih =>
    have hp := List.pairwise_cons.mp hs
    by_cases hk : k = j
    · subst hk
      have : ks.filter (· < k) = [] := by
        apply List.filter_eq_nil_iff.mpr
        intro x hx
        have := hp.1 x hx
        simp; omega
      simp [List.idxOf_cons_self, this]
    · have hj : j ∈ ks := by
        rcases List.mem_cons.mp h with h | h
        · exact absurd h.symm hk
        · exact h
      have hlt : k < j := hp.1 j hj
      have hi' : ks.idxOf j < ks.length := List.idxOf_lt_length_iff.mpr hj
      have := ih hj hp.2 hi'
      have hkb : (k == j) = false := by simp [hk]
      rw [List.idxOf_cons, hkb]
      simp only [cond_false, List.filter_cons, hlt, decide_true, if_true, List.length_cons]
      omega

theorem newIndex_none (kept : List Nat) (j : Nat) (h : j ∉ kept) : newIndex kept j = none := by
  unfold newIndex
  have : ¬ kept.idxOf j < kept.length := by
    intro hc; exact h (List.idxOf_lt_length_iff.mp hc)
  simp [this]

/-- Single-level optional items (no nesting): the spec of `pre ++ [opt [x]] ++ post` is "with x" variants first,
    then "without x" — the shape the compiler's recursion produces for one range. -/
theorem spec_single_optional (x : Nat) (rest : List Elem) :
    specAlternatives (.opt [.item x] :: rest) =
      (specAlternatives rest).map (fun r => x :: r) ++ specAlternatives rest := by
  simp [specAlternatives, altsElem.altsSeq, altsElem]

end Grc.Opt
