/-
  Minimal JSON rendering for the driver's canonical dumps (core only).
-/
import GrcVerif.Silf
import GrcVerif.Tables
import GrcVerif.Sfnt
namespace Grc

inductive J where
  | n (v : Int)
  | s (v : String)
  | b (v : Bool)
  | a (v : List J)
  | o (v : List (String × J))
  | null

def jEscape (s : String) : String :=
  s.foldl (fun acc c =>
    if c == '"' then acc ++ "\\\""
    else if c == '\\' then acc ++ "\\\\"
    else if c == '\n' then acc ++ "\\n"
    else if c.toNat < 32 then acc ++ "?"
    else acc.push c) ""

partial def J.render : J → String
  | .n v => toString v
  | .s v => "\"" ++ jEscape v ++ "\""
  | .b v => if v then "true" else "false"
  | .null => "null"
  | .a vs => "[" ++ ",".intercalate (vs.map J.render) ++ "]"
  | .o kvs => "{" ++ ",".intercalate (kvs.map fun (k, v) => "\"" ++ jEscape k ++ "\":" ++ v.render) ++ "}"

def jNat (n : Nat) : J := .n n
def jNats (a : Array Nat) : J := .a (a.toList.map jNat)
def jBytes (b : ByteArray) : J := .a (b.toList.map fun x => jNat x.toNat)

def Pass.toJ (p : Pass) : J := .o [
  ("flags", jNat p.flags), ("maxRuleLoop", jNat p.maxRuleLoop), ("maxRuleContext", jNat p.maxRuleContext),
  ("maxBackup", jNat p.maxBackup), ("numRules", jNat p.numRules), ("numRows", jNat p.numRows),
  ("numTransitional", jNat p.numTransitional), ("numSuccess", jNat p.numSuccess), ("numColumns", jNat p.numColumns),
  ("ranges", .a (p.ranges.toList.map fun r => .a [jNat r.first, jNat r.last, jNat r.col])),
  ("oRuleMap", jNats p.oRuleMap), ("ruleMap", jNats p.ruleMap),
  ("minRulePreContext", jNat p.minRulePreContext), ("maxRulePreContext", jNat p.maxRulePreContext),
  ("startStates", jNats p.startStates), ("ruleSortKeys", jNats p.ruleSortKeys), ("rulePreContext", jNats p.rulePreContext),
  ("collisionThreshold", jNat p.collisionThreshold),
  ("stateTrans", .a (p.stateTrans.toList.map jNats)),
  ("passConstraint", jBytes p.passConstraint),
  ("ruleConstraints", .a (p.ruleConstraints.toList.map jBytes)),
  ("actions", .a (p.actions.toList.map jBytes))]

def Silf.toJ (s : Silf) : J := .o [
  ("version", jNat s.version), ("compilerVersion", jNat s.compilerVersion), ("ruleVersion", jNat s.ruleVersion),
  ("maxGlyphID", jNat s.maxGlyphID), ("extraAscent", .n s.extraAscent), ("extraDescent", .n s.extraDescent),
  ("numPasses", jNat s.numPasses), ("iSubst", jNat s.iSubst), ("iPos", jNat s.iPos), ("iJust", jNat s.iJust),
  ("iBidi", jNat s.iBidi), ("flags", jNat s.flags), ("maxPreContext", jNat s.maxPreContext),
  ("maxPostContext", jNat s.maxPostContext), ("attrPseudo", jNat s.attrPseudo),
  ("attrBreakWeight", jNat s.attrBreakWeight), ("attrDirectionality", jNat s.attrDirectionality),
  ("attrMirroring", jNat s.attrMirroring), ("attrSkipPasses", jNat s.attrSkipPasses),
  ("numJLevels", jNat s.numJLevels), ("jAttrs", .a (s.jAttrs.toList.map jNats)),
  ("numLigComp", jNat s.numLigComp), ("numUserDefn", jNat s.numUserDefn), ("maxCompPerLig", jNat s.maxCompPerLig),
  ("direction", jNat s.direction), ("attrCollisions", jNat s.attrCollisions),
  ("scriptTags", jNats s.scriptTags), ("lbGID", jNat s.lbGID),
  ("pseudoMap", .a (s.pseudoMap.toList.map fun (u, g) => .a [jNat u, jNat g])),
  ("numLinear", jNat s.classes.numLinear),
  ("linear", .a (s.classes.linear.toList.map jNats)),
  ("indexed", .a (s.classes.indexed.toList.map fun c => .a (c.toList.map fun (g, i) => .a [jNat g, jNat i]))),
  ("passes", .a (s.passes.toList.map Pass.toJ)),
  ("compressed", .b s.compressed)]

def Glat.toJ (g : Glat) : J := .o [
  ("version", jNat g.version), ("hasOctaboxes", .b g.hasOctaboxes), ("compressed", .b g.compressed),
  ("glyphs", .a (g.glyphs.toList.map fun ga => .o [
    ("octa", match ga.octa with
      | none => .null
      | some ob => .o [("bitmap", jNat ob.bitmap), ("diag", jNats ob.diag), ("sub", .a (ob.sub.toList.map jNats))]),
    ("attrs", .a (ga.attrs.toList.map fun (a, v) => .a [jNat a, .n v]))]))]

def Feat.toJ (f : Feat) : J := .o [
  ("version", jNat f.version),
  ("feats", .a (f.feats.toList.map fun d => .o [
    ("id", jNat d.id), ("flags", jNat d.flags), ("label", jNat d.label), ("offset", jNat d.offset),
    ("settings", .a (d.settings.toList.map fun s => .a [.n s.value, jNat s.label]))]))]

def sillToJ (ls : Array SillLang) : J :=
  .a (ls.toList.map fun l => .o [("code", jNat l.code), ("settings", .a (l.settings.toList.map fun (f, v) => .a [jNat f, .n v]))])

def nameToJ (rs : Array NameRec) : J :=
  .a (rs.toList.map fun r => .o [("p", jNat r.platform), ("e", jNat r.encoding), ("l", jNat r.language),
    ("id", jNat r.nameId), ("hex", .s (hexOfBytes r.str))])

end Grc
