/-
  C17: the compiler's own cmap lookups (TtfUtil::Cmap31Lookup - a binary search of the endCode array of a format-4
  subtable - and TtfUtil::Cmap310Lookup - a linear scan of the groups of a format-12 subtable) transcribed statement
  by statement, and the proof that on a subtable whose end codes are in ascending order they return what the format
  defines (`Cm.lookup`: the first segment whose end code is ≥ c decides), for every code point and every table size.
  The hypothesis (`endsSorted`) is evaluated by the driver on each input font. Core Lean only.
-/
import GrcVerif.Cmap
namespace Grc.Cm

/-! ### the binary search of Cmap31Lookup

  pLeft = &end_code[0]; n = nSeg;
  while (n > 0) { cMid = n >> 1; pMid = pLeft + cMid; chEnd = *pMid;
    if (u <= chEnd) { if (cMid == 0 || u > pMid[-1]) break; n = cMid; }
    else { pLeft = pMid + 1; n -= (cMid + 1); } }
  if (!n) return 0;

  `left` is the offset of pLeft from end_code, the result is the offset of pMid at the `break`. -/

def bsearch (e : Nat → Nat) (u : Nat) (left n : Nat) : Option Nat :=
  if n = 0 then none else
    let cMid := n / 2
    let mid := left + cMid
    if u ≤ e mid then
      if cMid = 0 ∨ u > e (mid - 1) then some mid
      else bsearch e u left cMid
    else bsearch e u (mid + 1) (n - (cMid + 1))
termination_by n
decreasing_by all_goals omega

/-- What the loop establishes, for every table size: with end codes in ascending order, stopping at `k` means `k` is
    the FIRST segment whose end code is ≥ u, and falling out of the loop means there is no such segment. -/
theorem bsearch_spec (e : Nat → Nat) (u sz : Nat) (mono : ∀ i j, i ≤ j → j < sz → e i ≤ e j) :
    ∀ n left, (∀ i, i < left → e i < u) → left + n ≤ sz → (left + n < sz → 0 < n ∧ u ≤ e (left + n - 1)) →
      match bsearch e u left n with
      | some k => k < sz ∧ u ≤ e k ∧ ∀ i, i < k → e i < u
      | none => ∀ i, i < sz → e i < u := by
  intro n
  induction n using Nat.strongRecOn with
  | _ n ih =>
    intro left hl hsz hr
    unfold bsearch
    by_cases hn : n = 0
    · simp only [hn, if_true]
      subst hn
      have : left = sz := by
        by_cases h : left + 0 < sz
        · exact absurd (hr h).1 (Nat.lt_irrefl 0)
        · omega
      subst this; exact hl
    · simp only [hn, if_false]
      by_cases hle : u ≤ e (left + n / 2)
      · simp only [hle, if_true]
        by_cases hc : n / 2 = 0 ∨ u > e (left + n / 2 - 1)
        · simp only [hc, if_true]
          refine ⟨by omega, hle, ?_⟩
          intro i hi
          rcases hc with h0 | hgt
          · exact hl i (by omega)
          · by_cases hil : i < left
            · exact hl i hil
            · have := mono i (left + n / 2 - 1) (by omega) (by omega)
              omega
        · simp only [hc, if_false]
          have hc' : n / 2 ≠ 0 ∧ u ≤ e (left + n / 2 - 1) := by
            constructor
            · intro h; exact hc (Or.inl h)
            · apply Nat.le_of_not_lt; intro h; exact hc (Or.inr h)
          exact ih (n / 2) (by omega) left hl (by omega) (fun _ => ⟨by omega, hc'.2⟩)
      · simp only [hle, if_false]
        have hlt : e (left + n / 2) < u := Nat.lt_of_not_le hle
        apply ih (n - (n / 2 + 1)) (by omega) (left + n / 2 + 1)
        · intro i hi
          by_cases hil : i < left
          · exact hl i hil
          · have := mono i (left + n / 2) (by omega) (by omega)
            omega
        · omega
        · intro h
          have h' : left + n < sz := by omega
          have ⟨_, hu⟩ := hr h'
          have e1 : left + n / 2 + 1 + (n - (n / 2 + 1)) - 1 = left + n - 1 := by omega
          rw [e1]
          refine ⟨?_, hu⟩
          -- the mid point is not the last element of the window: its end code is < u ≤ that of the last
          apply Nat.pos_of_ne_zero
          intro h0
          have : left + n / 2 = left + n - 1 := by omega
          rw [this] at hlt
          omega

/-! ### Cmap31Lookup and Cmap310Lookup as written -/

def endsSorted (segs : Array Seg4) : Bool :=
  (List.range segs.size).all fun i => i + 1 ≥ segs.size ∨ (segs.getD i default).endC ≤ (segs.getD (i + 1) default).endC

/-- TtfUtil::Cmap31Lookup on the parsed segments (`glyphs` is the glyphIdArray as addressed through the segment's
    idRangeOffset word). The results are truncated to 16 bits as the `uint16` / `gid16` return type does. -/
def lookup31 (segs : Array Seg4) (u : Nat) : Nat :=
  match bsearch (fun i => (segs.getD i default).endC) u 0 segs.size with
  | none => 0
  | some k =>
    let sg := segs.getD k default
    if sg.endC ≥ u ∧ u ≥ sg.startC then
      if sg.rangeOff == 0 then (sg.delta + u) % 65536
      else
        let g := sg.glyphs.getD (u - sg.startC) 0
        if g != 0 then (g + sg.delta) % 65536 else 0
    else 0

/-- TtfUtil::Cmap310Lookup: the first group that contains the code point. -/
def lookup310 (groups : Array (Nat × Nat × Nat)) (u : Nat) : Nat :=
  go groups.toList
where
  go : List (Nat × Nat × Nat) → Nat
    | [] => 0
    | (a, b, g) :: rest => if u ≥ a ∧ u ≤ b then (g + (u - a)) % 65536 else go rest

def lookupC (s : CmapSub) (u : Nat) : Nat :=
  match s with
  | .fmt4 segs => lookup31 segs u
  | .fmt12 groups => lookup310 groups u

private theorem mono_of_sorted (segs : Array Seg4) (h : endsSorted segs = true) :
    ∀ i j, i ≤ j → j < segs.size → (segs.getD i default).endC ≤ (segs.getD j default).endC := by
  have step : ∀ i, i + 1 < segs.size → (segs.getD i default).endC ≤ (segs.getD (i + 1) default).endC := by
    intro i hi
    unfold endsSorted at h
    rw [List.all_eq_true] at h
    have := h i (by simp; omega)
    simp only [decide_eq_true_eq] at this
    rcases this with h1 | h2
    · omega
    · exact h2
  intro i j hij hj
  induction j with
  | zero => have : i = 0 := by omega
            subst this; exact Nat.le_refl _
  | succ j ih =>
    by_cases hEq : i = j + 1
    · subst hEq; exact Nat.le_refl _
    · exact Nat.le_trans (ih (by omega) (by omega)) (step j hj)

/-- The compiler's format-4 lookup is the format's definition on every subtable with ascending end codes: for EVERY
    code point and every number of segments. -/
theorem lookup31_eq_lookup (segs : Array Seg4) (h : endsSorted segs = true)
    (hmax : ∀ i, i < segs.size → (segs.getD i default).endC ≤ 0xFFFF) (u : Nat) :
    lookup31 segs u = lookup (.fmt4 segs) u := by
  have spec := bsearch_spec (fun i => (segs.getD i default).endC) u segs.size (mono_of_sorted segs h)
    segs.size 0 (by intro i hi; omega) (by omega) (by intro h; omega)
  unfold lookup31 lookup
  cases hb : bsearch (fun i => (segs.getD i default).endC) u 0 segs.size with
  | none =>
    rw [hb] at spec
    simp only at spec
    have hnone : segs.toList.find? (fun sg => decide (u ≤ sg.endC)) = none := by
      rw [List.find?_eq_none]
      intro x hx
      rcases List.getElem_of_mem hx with ⟨i, hi, rfl⟩
      have := spec i (by simpa using hi)
      simp only [Array.getD_eq_getD_getElem?, Array.getElem?_eq_getElem (by simpa using hi), Option.getD_some] at this
      simp only [Array.getElem_toList, decide_eq_true_eq]
      omega
    simp only [hnone]
    split <;> rfl
  | some k =>
    rw [hb] at spec
    simp only at spec
    obtain ⟨hk, hle, hfirst⟩ := spec
    have hget : segs.getD k default = segs[k] := by
      simp [Array.getD_eq_getD_getElem?, Array.getElem?_eq_getElem hk]
    have hsome : segs.toList.find? (fun sg => decide (u ≤ sg.endC)) = some segs[k] := by
      rw [List.find?_eq_some_iff_getElem]
      refine ⟨by simpa [hget] using hle, k, by simpa using hk, by simp, ?_⟩
      intro j hj
      have := hfirst j hj
      have hjs : j < segs.size := by omega
      simp only [Array.getD_eq_getD_getElem?, Array.getElem?_eq_getElem hjs, Option.getD_some] at this
      simp only [Array.getElem_toList, Bool.not_eq_eq_eq_not, Bool.not_true, decide_eq_false_iff_not]
      omega
    have hu : ¬ u > 0xFFFF := by
      have := hmax k hk
      rw [hget] at this hle
      omega
    simp only [hsome, hu, if_false, hget]
    rw [hget] at hle
    by_cases hs : u < segs[k].startC
    · have : ¬ (segs[k].endC ≥ u ∧ u ≥ segs[k].startC) := by omega
      simp [this, hs]
    · have : segs[k].endC ≥ u ∧ u ≥ segs[k].startC := by omega
      simp only [this, and_self, if_true, hs, if_false]
      by_cases hr : segs[k].rangeOff == 0
      · simp [hr, Nat.add_comm]
      · simp only [hr]
        by_cases hg : segs[k].glyphs.getD (u - segs[k].startC) 0 = 0
        · simp [hg]
        · simp

/-- The compiler's format-12 lookup is the format's definition whenever the glyph ids stay within 16 bits (the
    compiler's glyph ids are 16-bit: `static_cast<gid16>`). -/
theorem lookup310_eq_lookup (groups : Array (Nat × Nat × Nat)) (u : Nat)
    (hfit : lookup (.fmt12 groups) u < 65536) :
    lookup310 groups u = lookup (.fmt12 groups) u := by
  unfold lookup310
  unfold lookup at *
  simp only at *
  generalize groups.toList = l at *
  induction l with
  | nil => simp [lookup310.go]
  | cons x rest ih =>
    obtain ⟨a, b, g⟩ := x
    simp only [lookup310.go, List.find?_cons]
    by_cases hin : a ≤ u ∧ u ≤ b
    · have h1 : (u ≥ a ∧ u ≤ b) := hin
      simp only [h1, and_self, if_true, decide_true]
      simp only [List.find?_cons, hin, and_self, decide_true] at hfit
      exact Nat.mod_eq_of_lt hfit
    · have h1 : ¬ (u ≥ a ∧ u ≤ b) := hin
      simp only [h1, if_false, decide_false]
      simp only [List.find?_cons, hin, decide_false] at hfit
      exact ih hfit

/-- Non-vacuity: a three-segment table (the last one the mandatory 0xFFFF segment) meets the hypotheses, and the search
    finds a code point in the middle segment. -/
example : endsSorted #[⟨0x41, 0x5A, 65472, 0, #[]⟩, ⟨0x61, 0x7A, 65500, 0, #[]⟩, ⟨0xFFFF, 0xFFFF, 1, 0, #[]⟩] = true
    ∧ lookup31 #[⟨0x41, 0x5A, 65472, 0, #[]⟩, ⟨0x61, 0x7A, 65500, 0, #[]⟩, ⟨0xFFFF, 0xFFFF, 1, 0, #[]⟩] 0x62 = 62 := by
  constructor
  · decide
  · simp [lookup31, bsearch]

end Grc.Cm
