/-
  C06: leading-context alignment, start-of-text behaviour and trial order.

  * `matchList`                — a rule's item classes against a glyph list (prefix match).
  * `matchList_pad`            — ANY-padding: the padded rule matches `maxPre` glyphs back iff the original
                                  rule matches `pre` glyphs back (all glyphs being members of ANY).
  * `run_append`, `stateAfter` — walking the table over a prefix then a suffix.
  * `start_state_fires_iff`    — near the start of text (d glyphs of context, d ≤ maxPre) the engine, starting in
                                  `startStates[maxPre-d]` and filtering by `rulePreContext`, fires exactly the rules
                                  whose own leading context fits (pre ≤ d) and whose items match.
  * `insertSorted_*`           — the engine's insertion of matched rules keeps them ordered by
                                  (sort key descending, rule index ascending).
  Core Lean only.
-/
import GrcVerif.Fsm
import GrcVerif.FsmCheck
namespace Grc.Prec

open Grc.Fsm

/-- Prefix match of item classes against glyphs. -/
def matchList (mem : Nat → Nat → Bool) : List Nat → List Nat → Bool
  | [], _ => true
  | _ :: _, [] => false
  | c :: cs, g :: gs => mem c g && matchList mem cs gs

theorem matchList_replicate_append (mem : Nat → Nat → Bool) (any : Nat) (items : List Nat) :
    ∀ (n : Nat) (xs : List Nat), (∀ g, g ∈ xs → mem any g = true) →
      matchList mem (List.replicate n any ++ items) xs = (decide (n ≤ xs.length) && matchList mem items (xs.drop n)) := by
  intro n
  induction n with
  | zero => intro xs _; simp
  | succ n ih =>
    intro xs hall
    cases xs with
    | nil =>
      simp [List.replicate_succ, matchList]
    | cons g gs =>
      have hg : mem any g = true := hall g (by simp)
      have hrest : ∀ g', g' ∈ gs → mem any g' = true := fun g' h => hall g' (by simp [h])
      simp only [List.replicate_succ, List.cons_append, matchList, hg, Bool.true_and, List.length_cons,
        List.drop_succ_cons]
      rw [ih gs hrest]
      simp

/-- A source rule: `pre` items of leading context, then the rest; `items` lists all input item classes. -/
structure SrcRule where
  pre : Nat
  items : List Nat

def SrcRule.padded (r : SrcRule) (any maxPre : Nat) : List Nat :=
  List.replicate (maxPre - r.pre) any ++ r.items

/-- The rule as written matches around scan position `pos` of `gs` (its first modified item at `pos`). -/
def SrcRule.matchesAt (mem : Nat → Nat → Bool) (r : SrcRule) (gs : List Nat) (pos : Nat) : Bool :=
  decide (r.pre ≤ pos) && matchList mem r.items (gs.drop (pos - r.pre))

/-- The padded rule matches starting `maxPre` glyphs before the scan position. -/
def SrcRule.paddedMatchesAt (mem : Nat → Nat → Bool) (r : SrcRule) (any maxPre : Nat) (gs : List Nat) (pos : Nat) : Bool :=
  decide (maxPre ≤ pos) && matchList mem (r.padded any maxPre) (gs.drop (pos - maxPre))

/-- C06 alignment: with at least `maxPre` glyphs of context, the padded rule and the original rule match at
    the same scan positions. -/
theorem padding_preserves_match (mem : Nat → Nat → Bool) (r : SrcRule) (any maxPre : Nat) (gs : List Nat) (pos : Nat)
    (hpre : r.pre ≤ maxPre) (hpos : maxPre ≤ pos) (hlen : pos ≤ gs.length)
    (hany : ∀ g, g ∈ gs → mem any g = true) :
    r.paddedMatchesAt mem any maxPre gs pos = r.matchesAt mem gs pos := by
  unfold SrcRule.paddedMatchesAt SrcRule.matchesAt SrcRule.padded
  have h1 : ∀ g, g ∈ gs.drop (pos - maxPre) → mem any g = true :=
    fun g h => hany g (List.mem_of_mem_drop h)
  rw [matchList_replicate_append mem any r.items _ _ h1, List.drop_drop]
  have e : maxPre - r.pre + (pos - maxPre) = pos - r.pre := by omega
  have e' : (pos - maxPre) + (maxPre - r.pre) = pos - r.pre := by omega
  simp only [List.length_drop]
  have d1 : decide (maxPre ≤ pos) = true := by simp [hpos]
  have d2 : decide (r.pre ≤ pos) = true := by simp; omega
  have d3 : decide (maxPre - r.pre ≤ gs.length - (pos - maxPre)) = true := by simp; omega
  rw [d1, d2, d3]
  simp only [Bool.true_and]
  first
    | rw [e]
    | rw [e']

/-! ### Walking the table over a prefix -/

/-- State reached after consuming `xs` from `s` (none = the walk stopped). -/
def stateAfter (t : FsmTable) : Nat → List Nat → Option Nat
  | s, [] => some s
  | s, g :: gs =>
    if s < t.numTrans then
      match t.col g with
      | none => none
      | some c =>
        let s' := t.trans s c
        if s' = 0 then none else stateAfter t s' gs
    else none

theorem run_append (t : FsmTable) : ∀ (xs ys : List Nat) (s : Nat),
    t.run s (xs ++ ys) = t.run s xs ++ (match stateAfter t s xs with | some s' => t.run s' ys | none => []) := by
  intro xs
  induction xs with
  | nil => intro ys s; simp [FsmTable.run, stateAfter]
  | cons g gs ih =>
    intro ys s
    simp only [List.cons_append, FsmTable.run, stateAfter]
    by_cases hs : s < t.numTrans
    · simp only [hs, if_true]
      cases hc : t.col g with
      | none => simp
      | some c =>
        simp only
        by_cases h0 : t.trans s c = 0
        · simp [h0]
        · simp only [h0, if_false, ih, List.append_assoc]
    · simp [hs]

/-! ### matchList vs the index-based `Matches` of Fsm.lean -/

theorem matches_iff_matchList (p : PassIR) (i : Nat) (hi : i < p.rules.size) (gs : List Nat)
    (hne : p.rules.getD i [] ≠ []) :
    Matches p.ruleSet i gs ↔ matchList p.mem (p.rules.getD i []) gs = true := by
  have key : ∀ (items : List Nat) (gs : List Nat),
      (items.length ≤ gs.length ∧ ∀ j, j < items.length → ∀ g, gs[j]? = some g →
        (match items[j]? with | some cls => p.mem cls g | none => false) = true)
      ↔ matchList p.mem items gs = true := by
    intro items
    induction items with
    | nil => intro gs; simp [matchList]
    | cons c cs ih =>
      intro gs
      cases gs with
      | nil => simp [matchList]
      | cons g gs' =>
        simp only [matchList, Bool.and_eq_true, ← ih gs', List.length_cons]
        constructor
        · rintro ⟨hl, hall⟩
          refine ⟨?_, by omega, ?_⟩
          · have := hall 0 (by omega) g (by simp)
            simpa using this
          · intro j hj g' hg'
            have := hall (j + 1) (by omega) g' (by simpa using hg')
            simpa using this
        · rintro ⟨h0, hl, hall⟩
          refine ⟨by omega, ?_⟩
          intro j hj g' hg'
          cases j with
          | zero => simp at hg'; subst hg'; simpa using h0
          | succ j =>
            have := hall j (by omega) g' (by simpa using hg')
            simpa using this
  unfold Matches
  simp only [PassIR.ruleSet, PassIR.len, PassIR.has]
  rw [← key]
  constructor
  · rintro ⟨_, hl, hall⟩; exact ⟨hl, hall⟩
  · rintro ⟨hl, hall⟩
    refine ⟨?_, hl, hall⟩
    cases h : p.rules.getD i [] with
    | nil => exact absurd h hne
    | cons _ _ => simp

/-! ### Start of text -/

/-- Pass-level data the engine uses besides the transition table. -/
structure PassHdr where
  minPre : Nat
  maxPre : Nat
  startStates : Nat → Nat        -- indexed by maxPre - context
  rulePre : Nat → Nat            -- rulePreContext

/-- The engine fires rule `i` with `d` glyphs of available context (`d ≤ maxPre`), `gs` being the glyphs from
    `d` before the scan position onward: reported by the FSM from the start state for `d`, and its own
    leading context fits. -/
def fires (t : FsmTable) (h : PassHdr) (d : Nat) (gs : List Nat) (i : Nat) : Prop :=
  i ∈ t.run (h.startStates (h.maxPre - d)) gs ∧ h.rulePre i ≤ d

/-- C06 start-of-text theorem. Hypotheses (all established by executable checks on the real font):
    the certificate for the padded rules; `startStates[k]` is the state after `k` phantom glyphs;
    `rulePreContext` is the rule's own (unpadded) leading-context length; the phantom glyph belongs to ANY. -/
theorem start_state_fires_iff (p : PassIR) (d : FsmData) (lab : Lab) (used : List Nat)
    (hcert : checkCert p d lab used 0 = true)
    (h : PassHdr) (srcs : Nat → SrcRule) (any phantom : Nat)
    (hpad : ∀ i, i < p.rules.size → p.rules.getD i [] = (srcs i).padded any h.maxPre)
    (hpre : ∀ i, i < p.rules.size → (srcs i).pre ≤ h.maxPre ∧ h.rulePre i = (srcs i).pre ∧ (srcs i).items ≠ [])
    (hstart : ∀ k, k ≤ h.maxPre - h.minPre → stateAfter d.table 0 (List.replicate k phantom) = some (h.startStates k))
    (hph : p.mem any phantom = true)
    (ctx : Nat) (hctx : ctx ≤ h.maxPre) (hmin : h.minPre ≤ ctx) (gs : List Nat) (hany : ∀ g, g ∈ gs → p.mem any g = true) (hlen : ctx ≤ gs.length)
    (i : Nat) :
    fires d.table h ctx gs i ↔ (i < p.rules.size ∧ (srcs i).matchesAt p.mem gs ctx = true) := by
  unfold fires
  let k := h.maxPre - ctx
  have hk : k ≤ h.maxPre - h.minPre := by omega
  -- the FSM walk over phantom^k ++ gs
  have hrun := run_append d.table (List.replicate k phantom) gs 0
  rw [hstart k hk] at hrun
  simp only at hrun
  have hall := checkCert_correct p d lab used 0 hcert (List.replicate k phantom ++ gs) i
  have hpref := checkCert_correct p d lab used 0 hcert (List.replicate k phantom) i
  constructor
  · rintro ⟨hmem, hle⟩
    have h1 : i ∈ d.table.run 0 (List.replicate k phantom ++ gs) := by
      rw [hrun]; exact List.mem_append_right _ hmem
    obtain ⟨hi, hm⟩ := hall.mp h1
    refine ⟨hi, ?_⟩
    obtain ⟨hp1, hp2, hp3⟩ := hpre i hi
    have hne : p.rules.getD i [] ≠ [] := by
      rw [hpad i hi]; unfold SrcRule.padded
      intro hc
      have := List.append_eq_nil_iff.mp hc
      exact hp3 this.2
    rw [matches_iff_matchList p i hi _ hne, hpad i hi] at hm
    -- view as padded match at position maxPre of the virtual string
    have hvirt : (srcs i).paddedMatchesAt p.mem any h.maxPre (List.replicate k phantom ++ gs) h.maxPre = true := by
      unfold SrcRule.paddedMatchesAt
      simp [hm]
    have hanyv : ∀ g, g ∈ List.replicate k phantom ++ gs → p.mem any g = true := by
      intro g hg
      rcases List.mem_append.mp hg with hg | hg
      · rw [(List.mem_replicate.mp hg).2]; exact hph
      · exact hany g hg
    rw [padding_preserves_match p.mem (srcs i) any h.maxPre _ h.maxPre hp1 (Nat.le_refl _)
      (by simp; omega) hanyv] at hvirt
    unfold SrcRule.matchesAt at hvirt ⊢
    rw [hp2] at hle
    simp only [Bool.and_eq_true, decide_eq_true_eq] at hvirt ⊢
    refine ⟨hle, ?_⟩
    have hd : (List.replicate k phantom ++ gs).drop (h.maxPre - (srcs i).pre) = gs.drop (ctx - (srcs i).pre) := by
      rw [List.drop_append]
      have : (List.replicate k phantom).drop (h.maxPre - (srcs i).pre) = [] := by
        apply List.drop_eq_nil_of_le; simp; omega
      simp only [this, List.nil_append, List.length_replicate]
      congr 1
      omega
    rw [← hd]; exact hvirt.2
  · rintro ⟨hi, hm⟩
    obtain ⟨hp1, hp2, hp3⟩ := hpre i hi
    unfold SrcRule.matchesAt at hm
    simp only [Bool.and_eq_true, decide_eq_true_eq] at hm
    obtain ⟨hle, hm⟩ := hm
    refine ⟨?_, by rw [hp2]; exact hle⟩
    have hne : p.rules.getD i [] ≠ [] := by
      rw [hpad i hi]; unfold SrcRule.padded
      intro hc
      have := List.append_eq_nil_iff.mp hc
      exact hp3 this.2
    have hanyv : ∀ g, g ∈ List.replicate k phantom ++ gs → p.mem any g = true := by
      intro g hg
      rcases List.mem_append.mp hg with hg | hg
      · rw [(List.mem_replicate.mp hg).2]; exact hph
      · exact hany g hg
    have hd : (List.replicate k phantom ++ gs).drop (h.maxPre - (srcs i).pre) = gs.drop (ctx - (srcs i).pre) := by
      rw [List.drop_append]
      have : (List.replicate k phantom).drop (h.maxPre - (srcs i).pre) = [] := by
        apply List.drop_eq_nil_of_le; simp; omega
      simp only [this, List.nil_append, List.length_replicate]
      congr 1
      omega
    have hvirt : (srcs i).matchesAt p.mem (List.replicate k phantom ++ gs) h.maxPre = true := by
      unfold SrcRule.matchesAt
      simp only [Bool.and_eq_true, decide_eq_true_eq]
      exact ⟨hp1, by rw [hd]; exact hm⟩
    rw [← padding_preserves_match p.mem (srcs i) any h.maxPre _ h.maxPre hp1 (Nat.le_refl _)
      (by simp; omega) hanyv] at hvirt
    unfold SrcRule.paddedMatchesAt at hvirt
    simp only [Nat.sub_self, List.drop_zero, Bool.and_eq_true, decide_eq_true_eq] at hvirt
    have hM : Matches p.ruleSet i (List.replicate k phantom ++ gs) := by
      rw [matches_iff_matchList p i hi _ hne, hpad i hi]; exact hvirt.2
    have h1 := hall.mpr ⟨hi, hM⟩
    rw [hrun] at h1
    rcases List.mem_append.mp h1 with h2 | h2
    · -- impossible: the rule is longer than the phantom prefix
      obtain ⟨_, hm2⟩ := hpref.mp h2
      have hl := hm2.2.1
      simp only [PassIR.ruleSet, PassIR.len, hpad i hi, SrcRule.padded, List.length_append,
        List.length_replicate] at hl
      have : 0 < (srcs i).items.length := List.length_pos_iff.mpr hp3
      omega
    · exact h2

/-! ### Trial order -/

/-- Engine comparator: `a` is tried before `b`. -/
def before (key : Nat → Nat) (a b : Nat) : Bool := key a > key b || (key a == key b && a < b)

/-- Insertion of a newly matched rule into the ordered list (as the engine accumulates rules). -/
def insertSorted (key : Nat → Nat) (r : Nat) : List Nat → List Nat
  | [] => [r]
  | x :: xs => if before key r x then r :: x :: xs else x :: insertSorted key r xs

def Ordered (key : Nat → Nat) : List Nat → Prop
  | [] => True
  | [_] => True
  | a :: b :: rest => (before key a b = true ∨ a = b) ∧ Ordered key (b :: rest)

theorem insertSorted_mem (key : Nat → Nat) (r : Nat) (l : List Nat) (x : Nat) :
    x ∈ insertSorted key r l ↔ x = r ∨ x ∈ l := by
  induction l with
  | nil => simp [insertSorted]
  | cons y ys ih =>
    unfold insertSorted
    split
    · simp
    · simp [ih]; constructor
      · rintro (h | h | h) <;> simp [h]
      · rintro (h | h | h) <;> simp [h]

theorem before_total (key : Nat → Nat) (a b : Nat) : before key a b = true ∨ a = b ∨ before key b a = true := by
  unfold before
  simp only [Bool.or_eq_true, decide_eq_true_eq, Bool.and_eq_true, beq_iff_eq]
  omega

theorem before_trans (key : Nat → Nat) (a b c : Nat) (h1 : before key a b = true) (h2 : before key b c = true) :
    before key a c = true := by
  unfold before at *
  simp only [Bool.or_eq_true, decide_eq_true_eq, Bool.and_eq_true, beq_iff_eq] at *
  omega

theorem insertSorted_ordered (key : Nat → Nat) (r : Nat) (l : List Nat) (h : Ordered key l) :
    Ordered key (insertSorted key r l) := by
  induction l with
  | nil => simp [insertSorted, Ordered]
  | cons y ys ih =>
    unfold insertSorted
    split
    · rename_i hb
      exact ⟨Or.inl hb, h⟩
    · rename_i hb
      have hy : before key y r = true ∨ y = r := by
        rcases before_total key r y with h1 | h1 | h1
        · exact absurd h1 hb
        · exact Or.inr h1.symm
        · exact Or.inl h1
      cases ys with
      | nil => simp [insertSorted, Ordered]; exact hy
      | cons z zs =>
        have hz := h.1
        have hrest : Ordered key (z :: zs) := h.2
        have ih' := ih hrest
        unfold insertSorted at ih' ⊢
        split
        · exact ⟨hy, by simpa [insertSorted, *] using ih'⟩
        · rename_i hb2
          simp only [hb2] at ih'
          exact ⟨hz, ih'⟩

end Grc.Prec
