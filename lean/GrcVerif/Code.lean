/-
  Stack-machine code: opcode table (numbering regenerated from constants.h), structured parsing of action and
  constraint byte strings, the well-formedness checker, and its soundness theorem:
  accepted code, run from an empty stack under ANY behaviour of the context-item tests, never underflows,
  never meets an unknown opcode or truncated operand, and ends in a return.
  Core Lean only.
-/
import GrcVerif.Generated.Tables
namespace Grc.Code
open Grc.Gen

structure OpInfo where
  nargs : Nat      -- operand bytes (for Assoc: the fixed part, i.e. the count byte)
  pops : Nat
  pushes : Nat
  ret : Bool
deriving Repr, DecidableEq

/-- Operand sizes and stack effects per doc/StackMachineCommands; opcode numbers from constants.h. -/
def opInfo (op : Nat) : Option OpInfo :=
  if op = kopNop then some ⟨0, 0, 0, false⟩
  else if op = kopPushByte ∨ op = kopPushByteU then some ⟨1, 0, 1, false⟩
  else if op = kopPushShort ∨ op = kopPushShortU then some ⟨2, 0, 1, false⟩
  else if op = kopPushLong then some ⟨4, 0, 1, false⟩
  else if op = kopAdd ∨ op = kopSub ∨ op = kopMul ∨ op = kopDiv ∨ op = kopMin ∨ op = kopMax then some ⟨0, 2, 1, false⟩
  else if op = kopNeg ∨ op = kopTrunc8 ∨ op = kopTrunc16 ∨ op = kopNot ∨ op = kopBitNot then some ⟨0, 1, 1, false⟩
  else if op = kopCond then some ⟨0, 3, 1, false⟩
  else if op = kopAnd ∨ op = kopOr ∨ op = kopEqual ∨ op = kopNotEq ∨ op = kopLess ∨ op = kopGtr ∨ op = kopLessEq
      ∨ op = kopGtrEq ∨ op = kopBitAnd ∨ op = kopBitOr then some ⟨0, 2, 1, false⟩
  else if op = kopNext ∨ op = kopCopyNext ∨ op = kopInsert ∨ op = kopDelete then some ⟨0, 0, 0, false⟩
  else if op = kopNextN then some ⟨1, 0, 0, false⟩
  else if op = kopPutGlyphV1_2 then some ⟨1, 0, 0, false⟩
  else if op = kopPutSubsV1_2 then some ⟨3, 0, 0, false⟩
  else if op = kopPutCopy then some ⟨1, 0, 0, false⟩
  else if op = kopAssoc then some ⟨1, 0, 0, false⟩
  else if op = kopAttrSet ∨ op = kopAttrAdd ∨ op = kopAttrSub ∨ op = kopAttrSetSlot then some ⟨1, 1, 0, false⟩
  else if op = kopIAttrSetSlot ∨ op = kopIAttrSet ∨ op = kopIAttrAdd ∨ op = kopIAttrSub then some ⟨2, 1, 0, false⟩
  else if op = kopPushSlotAttr ∨ op = kopPushGlyphAttrV1_2 ∨ op = kopPushFeat ∨ op = kopPushAttToGAttrV1_2 then some ⟨2, 0, 1, false⟩
  else if op = kopPushGlyphMetric ∨ op = kopPushAttToGlyphMetric ∨ op = kopPushISlotAttr ∨ op = kopPushIGlyphAttr
      ∨ op = kopPushGlyphAttr ∨ op = kopPushAttToGlyphAttr then some ⟨3, 0, 1, false⟩
  else if op = kopPopRet then some ⟨0, 1, 0, true⟩
  else if op = kopRetZero ∨ op = kopRetTrue then some ⟨0, 0, 0, true⟩
  else if op = kopPushProcState then some ⟨1, 0, 1, false⟩
  else if op = kopPushVersion then some ⟨0, 0, 1, false⟩
  else if op = kopPutSubs then some ⟨5, 0, 0, false⟩
  else if op = kopPutSubs2 ∨ op = kopPutSubs3 then none     -- never emitted by this compiler; not accepted
  else if op = kopPutGlyph then some ⟨2, 0, 0, false⟩
  else if op = kopSetBits then some ⟨4, 1, 1, false⟩
  else if op = kopFeatSet then some ⟨2, 1, 0, false⟩
  else none

/-- A plain instruction: opcode and operand bytes. -/
structure Ins where
  op : Nat
  args : List Nat
deriving Repr, DecidableEq, Inhabited

/-- Structured code: plain instructions, or a context-item block `CntxtItem slot len; body` whose body is
    executed only when the constraint is being tested at that slot (otherwise the engine skips it and pushes 1). -/
inductive Node where
  | ins (i : Ins)
  | ctx (slot : Nat) (body : List Ins)
deriving Repr, Inhabited

/-- Decode straight-line instructions from bytes. `fuel` bounds the recursion (bytes.length suffices). -/
def parseIns : Nat → List Nat → Option (List Ins)
  | _, [] => some []
  | 0, _ :: _ => none
  | fuel + 1, op :: rest =>
    if op = kopCntxtItem then none else
    match opInfo op with
    | none => none
    | some info =>
      let n := if op = kopAssoc then (match rest with | c :: _ => 1 + c | [] => 1) else info.nargs
      if rest.length < n then none
      else
        match parseIns fuel (rest.drop n) with
        | none => none
        | some more => some ({ op := op, args := rest.take n } :: more)

def parseNodes : Nat → List Nat → Option (List Node)
  | _, [] => some []
  | 0, _ :: _ => none
  | fuel + 1, op :: rest =>
    if op = kopCntxtItem then
      match rest with
      | slot :: len :: body =>
        if body.length < len then none
        else
          match parseIns len (body.take len), parseNodes fuel (body.drop len) with
          | some b, some more => some (.ctx slot b :: more)
          | _, _ => none
      | _ => none
    else
      match opInfo op with
      | none => none
      | some info =>
        let n := if op = kopAssoc then (match rest with | c :: _ => 1 + c | [] => 1) else info.nargs
        if rest.length < n then none
        else
          match parseNodes fuel (rest.drop n) with
          | none => none
          | some more => some (.ins { op := op, args := rest.take n } :: more)

def parse (bs : List Nat) : Option (List Node) := parseNodes (bs.length) bs

/-- Re-serialisation. -/
def encodeIns (l : List Ins) : List Nat := l.flatMap fun i => i.op :: i.args
def encodeNodes : List Node → List Nat
  | [] => []
  | .ins i :: rest => (i.op :: i.args) ++ encodeNodes rest
  | .ctx slot body :: rest => kopCntxtItem :: slot :: (encodeIns body).length :: encodeIns body ++ encodeNodes rest

/-! ### The depth machine -/

inductive Outcome where
  | ret          -- reached a return instruction with its operand available
  | underflow
  | fellOff      -- ran past the end of the block without returning
  | badOp
deriving Repr, DecidableEq

/-- Straight-line body of a context item: stack depth after it; `none` on underflow / unknown opcode / a return. -/
def runBody : List Ins → Nat → Option Nat
  | [], d => some d
  | i :: rest, d =>
    match opInfo i.op with
    | none => none
    | some info =>
      if info.ret then none
      else if d < info.pops then none
      else runBody rest (d - info.pops + info.pushes)

/-- Execution of structured code on the depth abstraction. `atItem k` tells whether the k-th context-item test
    (in program order) is being evaluated at its own slot. -/
def exec (atItem : Nat → Bool) : List Node → Nat → Nat → Outcome
  | [], _, _ => .fellOff
  | .ins i :: rest, k, d =>
    match opInfo i.op with
    | none => .badOp
    | some info =>
      if d < info.pops then .underflow
      else if info.ret then .ret
      else exec atItem rest k (d - info.pops + info.pushes)
  | .ctx _ body :: rest, k, d =>
    if atItem k then
      match runBody body d with
      | none => .underflow
      | some d' => exec atItem rest (k + 1) d'
    else exec atItem rest (k + 1) (d + 1)

/-- The checker: known opcodes, enough operands on the stack at every instruction on every path, each context-item
    body nets exactly one value, and the code ends in a return. -/
def check : List Node → Nat → Bool
  | [], _ => false
  | .ins i :: rest, d =>
    match opInfo i.op with
    | none => false
    | some info =>
      if d < info.pops then false
      else if info.ret then true
      else check rest (d - info.pops + info.pushes)
  | .ctx _ body :: rest, d =>
    match runBody body d with
    | some d' => d' == d + 1 && check rest (d + 1)
    | none => false

/-- Stricter than `check` (and what the engine enforces when it runs the code): the return is the last instruction and
    finds exactly its operand on the stack - nothing is left behind. -/
def exactReturn : List Node → Nat → Bool
  | [], _ => false
  | .ins i :: rest, d =>
    match opInfo i.op with
    | none => false
    | some info =>
      if d < info.pops then false
      else if info.ret then rest.isEmpty && d == info.pops
      else exactReturn rest (d - info.pops + info.pushes)
  | .ctx _ body :: rest, d =>
    match runBody body d with
    | some d' => d' == d + 1 && exactReturn rest (d + 1)
    | none => false

/-- Soundness: accepted code returns, whatever the context-item tests do. -/
theorem check_sound (atItem : Nat → Bool) : ∀ (nodes : List Node) (k d : Nat),
    check nodes d = true → exec atItem nodes k d = .ret := by
  intro nodes
  induction nodes with
  | nil => intro k d h; simp [check] at h
  | cons n rest ih =>
    intro k d h
    cases n with
    | ins i =>
      simp only [check] at h
      simp only [exec]
      cases hi : opInfo i.op with
      | none => simp [hi] at h
      | some info =>
        simp only [hi] at h ⊢
        by_cases hp : d < info.pops
        · simp [hp] at h
        · simp only [hp, if_false] at h ⊢
          by_cases hr : info.ret = true
          · simp [hr]
          · simp only [hr] at h ⊢
            exact ih k _ h
    | ctx slot body =>
      simp only [check] at h
      simp only [exec]
      cases hb : runBody body d with
      | none => simp [hb] at h
      | some d' =>
        simp only [hb, Bool.and_eq_true, beq_iff_eq] at h
        obtain ⟨hd, hc⟩ := h
        by_cases ha : atItem k = true
        · simp only [ha, if_true, hb]
          rw [hd]; exact ih (k + 1) _ hc
        · simp only [ha]
          exact ih (k + 1) _ hc

end Grc.Code
