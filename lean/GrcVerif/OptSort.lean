/-
  C07: the exchange sort of GdlRule::AdjustOptRanges (two nested index loops with swaps) sorts: its result is a
  permutation of its input in the compiler's order (start ascending, longer range first). Hence the order in which the
  parser happens to record the optional groups (it records a group when it closes, i.e. inner groups first) does not
  matter. Core Lean only.
-/
import GrcVerif.OptItems
namespace Grc.Opt

/-- One pass of the inner loop seen from outside: carry the current candidate along the rest of the list, exchanging
    it with every element it is out of order with. -/
def sweep : Rg → List Rg → Rg × List Rg
  | h, [] => (h, [])
  | h, y :: ys =>
    if outOfOrder h y then ((sweep y ys).1, h :: (sweep y ys).2) else ((sweep h ys).1, y :: (sweep h ys).2)

def esortF : Nat → List Rg → List Rg
  | 0, l => l
  | _ + 1, [] => []
  | f + 1, h :: t => (sweep h t).1 :: esortF f (sweep h t).2

theorem sweep_length (t : List Rg) : ∀ h, (sweep h t).2.length = t.length := by
  induction t with
  | nil => intro h; rfl
  | cons y ys ih => intro h; unfold sweep; split <;> simp [ih]

theorem getD_append_at (P : List Rg) (h : Rg) (T : List Rg) : (P ++ h :: T).getD P.length (0, 0) = h := by
  simp [List.getD]

theorem getD_append_after (P : List Rg) (h : Rg) (T : List Rg) (k : Nat) :
    (P ++ h :: T).getD (P.length + 1 + k) (0, 0) = T.getD k (0, 0) := by
  simp only [List.getD]
  rw [List.getElem?_append_right (by omega)]
  have : P.length + 1 + k - P.length = k + 1 := by omega
  rw [this, List.getElem?_cons_succ]

theorem set_append_at (P : List Rg) (h y : Rg) (T : List Rg) : (P ++ h :: T).set P.length y = P ++ y :: T := by
  rw [List.set_append_right _ _ (by omega)]
  simp

theorem set_append_after (P : List Rg) (h x : Rg) (T : List Rg) (k : Nat) :
    (P ++ h :: T).set (P.length + 1 + k) x = P ++ h :: T.set k x := by
  rw [List.set_append_right _ _ (by omega)]
  have : P.length + 1 + k - P.length = k + 1 := by omega
  rw [this, List.set_cons_succ]

theorem swapIf_at (P : List Rg) (h : Rg) (T : List Rg) (k : Nat) :
    swapIf (P ++ h :: T) (P.length, P.length + 1 + k)
      = if outOfOrder h (T.getD k (0, 0)) then P ++ T.getD k (0, 0) :: T.set k h else P ++ h :: T := by
  unfold swapIf
  simp only [getD_append_at, getD_append_after]
  split
  · rw [set_append_at, set_append_after]
  · rfl

/-- The inner loop for one value of i1 (= |P|) is `sweep`. -/
theorem inner_sweep (P : List Rg) : ∀ (suf pre : List Rg) (h : Rg),
    ((List.range' pre.length suf.length).map fun k => (P.length, P.length + 1 + k)).foldl swapIf (P ++ h :: (pre ++ suf))
      = P ++ (sweep h suf).1 :: (pre ++ (sweep h suf).2) := by
  intro suf
  induction suf with
  | nil => intro pre h; simp [sweep]
  | cons y ys ih =>
    intro pre h
    simp only [List.length_cons, List.range'_succ, List.map_cons, List.foldl_cons]
    rw [swapIf_at]
    have hget : (pre ++ y :: ys).getD pre.length (0, 0) = y := getD_append_at pre y ys
    have hset : (pre ++ y :: ys).set pre.length h = pre ++ h :: ys := set_append_at pre y h ys
    rw [hget, hset]
    unfold sweep
    by_cases hoo : outOfOrder h y = true
    · simp only [hoo, if_true]
      have := ih (pre ++ [h]) y
      simp only [List.length_append, List.length_cons, List.length_nil, List.append_assoc, List.cons_append, List.nil_append] at this
      rw [this]
    · simp only [hoo]
      have := ih (pre ++ [y]) h
      simp only [List.length_append, List.length_cons, List.length_nil, List.append_assoc, List.cons_append, List.nil_append] at this
      simp only [Bool.false_eq_true, if_false]
      rw [this]

/-- The outer loop from i1 = |P| on, over a list P ++ L of total length n. -/
theorem outer_esort (n : Nat) : ∀ (m : Nat) (L P : List Rg), L.length = m → P.length + L.length = n →
    ((List.range' P.length (L.length - 1)).flatMap fun i1 => (List.range (n - (i1 + 1))).map fun k => (i1, i1 + 1 + k)).foldl
        swapIf (P ++ L) = P ++ esortF L.length L := by
  intro m
  induction m with
  | zero =>
    intro L P hL _
    have : L = [] := List.eq_nil_of_length_eq_zero hL
    subst this
    simp [esortF]
  | succ m ih =>
    intro L P hL hn
    match L, hL with
    | h :: T, hL =>
      simp only [List.length_cons] at hL hn ⊢
      have hT : T.length = m := by omega
      simp only [Nat.add_sub_cancel]
      match T, hT with
      | [], _ => simp [esortF, sweep]
      | y :: ys, hT =>
        simp only [List.length_cons] at hT hn ⊢
        rw [List.range'_succ, List.flatMap_cons, List.foldl_append]
        have hcount : n - (P.length + 1) = (y :: ys).length := by simp only [List.length_cons]; omega
        rw [hcount, List.range_eq_range']
        have hin := inner_sweep P (y :: ys) [] h
        simp only [List.length_nil, List.nil_append] at hin
        rw [hin]
        have hlen := sweep_length (y :: ys) h
        have := ih (sweep h (y :: ys)).2 (P ++ [(sweep h (y :: ys)).1]) (by rw [hlen]; simp only [List.length_cons]; omega)
          (by rw [hlen]; simp only [List.length_append, List.length_cons, List.length_nil]; omega)
        simp only [List.length_append, List.length_cons, List.length_nil, List.append_assoc, List.cons_append, List.nil_append] at this
        rw [hlen] at this
        simp only [List.length_cons, Nat.add_sub_cancel] at this
        rw [this]
        simp only [esortF]

theorem exchangeSort_eq (a : List Rg) : exchangeSort a = esortF a.length a := by
  unfold exchangeSort idxPairs
  have := outer_esort a.length a.length a [] rfl (by simp)
  simp only [List.length_nil, List.nil_append] at this
  rw [List.range_eq_range']
  exact this

/-! ### `sweep` selects a least element; `esortF` sorts -/

theorem oo_iff (x y : Rg) : outOfOrder x y = true ↔ (x.1 > y.1 ∨ (x.1 = y.1 ∧ x.2 - x.1 < y.2 - y.1)) := by
  unfold outOfOrder
  simp only [Bool.or_eq_true, Bool.and_eq_true, decide_eq_true_eq, beq_iff_eq]

theorem oo_false_iff (x y : Rg) : outOfOrder x y = false ↔ ¬ (x.1 > y.1 ∨ (x.1 = y.1 ∧ x.2 - x.1 < y.2 - y.1)) := by
  rw [← oo_iff]; simp

/-- "not out of order" is transitive (the order is a total preorder on (start, -length)). -/
theorem le_trans' {x y z : Rg} (h1 : outOfOrder x y = false) (h2 : outOfOrder y z = false) : outOfOrder x z = false := by
  rw [oo_false_iff] at *
  omega

theorem lt_le_absurd {a h y : Rg} (h1 : outOfOrder h y = true) (h2 : outOfOrder a y = false) : outOfOrder a h = false := by
  rw [oo_iff] at h1; rw [oo_false_iff] at *
  omega

theorem sweep_perm (t : List Rg) : ∀ h, ((sweep h t).1 :: (sweep h t).2).Perm (h :: t) := by
  induction t with
  | nil => intro h; simp [sweep]
  | cons y ys ih =>
    intro h
    unfold sweep
    split
    · exact ((List.Perm.swap _ _ _).trans ((ih y).cons h))
    · exact ((List.Perm.swap _ _ _).trans (((ih h).cons y).trans (List.Perm.swap _ _ _)))

theorem sweep_least (t : List Rg) : ∀ h, outOfOrder (sweep h t).1 h = false ∧ ∀ y ∈ (sweep h t).2, outOfOrder (sweep h t).1 y = false := by
  induction t with
  | nil => intro h; simp [sweep, oo_false_iff]
  | cons y ys ih =>
    intro h
    unfold sweep
    by_cases hoo : outOfOrder h y = true
    · simp only [hoo, if_true]
      have ⟨a1, a2⟩ := ih y
      have hh : outOfOrder (sweep y ys).1 h = false := lt_le_absurd hoo a1
      refine ⟨hh, ?_⟩
      intro z hz
      rcases List.mem_cons.mp hz with rfl | hz
      · exact hh
      · exact a2 z hz
    · have hoo' : outOfOrder h y = false := by simpa using hoo
      simp only [hoo', Bool.false_eq_true, if_false]
      have ⟨a1, a2⟩ := ih h
      refine ⟨a1, ?_⟩
      intro z hz
      rcases List.mem_cons.mp hz with rfl | hz
      · exact le_trans' a1 hoo'
      · exact a2 z hz

theorem esortF_perm : ∀ (f : Nat) (l : List Rg), (esortF f l).Perm l := by
  intro f
  induction f with
  | zero => intro l; exact List.Perm.refl _
  | succ f ih =>
    intro l
    match l with
    | [] => exact List.Perm.refl _
    | h :: t =>
      simp only [esortF]
      exact ((ih _).cons _).trans (sweep_perm t h)

theorem esortF_sorted : ∀ (f : Nat) (l : List Rg), l.length ≤ f → (esortF f l).Pairwise (fun x y => outOfOrder x y = false) := by
  intro f
  induction f with
  | zero => intro l hl; have : l = [] := List.eq_nil_of_length_eq_zero (by omega); subst this; simp [esortF]
  | succ f ih =>
    intro l hl
    match l, hl with
    | [], _ => simp [esortF]
    | h :: t, hl =>
      simp only [esortF, List.pairwise_cons]
      refine ⟨?_, ih _ (by rw [sweep_length]; simp only [List.length_cons] at hl; omega)⟩
      intro z hz
      exact (sweep_least t h).2 z ((esortF_perm f _).mem_iff.mp hz)

/-- The exchange sort is a sort. -/
theorem exchangeSort_perm (a : List Rg) : (exchangeSort a).Perm a := by
  rw [exchangeSort_eq]; exact esortF_perm _ _

theorem exchangeSort_sorted (a : List Rg) : (exchangeSort a).Pairwise (fun x y => outOfOrder x y = false) := by
  rw [exchangeSort_eq]; exact esortF_sorted _ _ (Nat.le_refl _)

/-- Any listing of a duplicate-free family of proper ranges is brought into the one sorted listing. -/
theorem exchangeSort_unique (a r : List Rg) (hp : a.Perm r) (hs : r.Pairwise (fun x y => outOfOrder x y = false))
    (hv : ∀ x ∈ r, x.1 ≤ x.2) : exchangeSort a = r := by
  refine List.Perm.eq_of_pairwise (le := fun x y => outOfOrder x y = false) ?_ (exchangeSort_sorted a) hs
    ((exchangeSort_perm a).trans hp)
  intro x y hx hy h1 h2
  have hx' : x ∈ r := hp.mem_iff.mp ((exchangeSort_perm a).mem_iff.mp hx)
  have v1 := hv x hx'
  have v2 := hv y hy
  rw [oo_false_iff] at h1 h2
  have e1 : x.1 = y.1 := by omega
  have e2 : x.2 = y.2 := by omega
  exact Prod.ext e1 e2

end Grc.Opt
