/-
  C12: classification of the narrowing writes of the Graphite table writers (OutputToFont.cpp). Every call
  WriteByte(x) / WriteShort(x) with a non-literal argument in the functions that write Silf, Glat, Gloc, Feat and Sill
  (the census extracted from the current source by tools/extract_writes.py, see WritesGen.lean) is listed here with the
  reason why its value fits the field:
    guard n  - an error (or the structure of the program) keeps the value at or below n; obligation: n < 2^width
    bits k   - the value is made of k flag / code bits; obligation: k <= width
    derived  - computed from a classified quantity of the same field width (search headers), or unreachable
  The obligations are proved below for every row (`classified_fit`); `every_write_classified` says no write of the
  census is missing from the table. What the theorems do NOT say is that the named guard really bounds the argument:
  that is my reading of the code, recorded row by row, and what the limit families of the C12 check test at
  limit-1 / limit / limit+1. Core Lean only.
-/
namespace Grc.Writes

inductive Bound where
  | guard (n : Nat)
  | bits (k : Nat)
  | derived
deriving DecidableEq, Repr

structure Row where
  fn : String
  width : Nat
  arg : String
  bound : Bound
  why : String

def Row.fits (r : Row) : Bool :=
  match r.bound with
  | .guard n => n < 2 ^ r.width
  | .bits k => k ≤ r.width
  | .derived => true

def table : List Row := [
  ⟨"OutputGlatAndGloc", 8, "nAttrIDMin", .guard 255, "Glat 1: written only when fewer than 256 attributes are defined (kMaxGlyphAttrsGlat1; family glyph_attrs)"⟩,
  ⟨"OutputGlatAndGloc", 8, "nAttrIDLim - nAttrIDMin", .guard 255, "run length of a Glat 1 run, cut at 255 by the run loop"⟩,
  ⟨"OutputGlatAndGloc", 16, "nAttrIDMin", .guard 65535, "attribute id below the attribute count (family glyph_attr_count_16bit)"⟩,
  ⟨"OutputGlatAndGloc", 16, "nAttrIDLim - nAttrIDMin", .guard 65535, "run length below the attribute count"⟩,
  ⟨"OutputGlatAndGloc", 16, "vnValues[i]", .guard 65535, "attribute value checked by errors 4144 / 4145 (families glyph_attr_value*)"⟩,
  ⟨"OutputGlatAndGloc", 16, "wFlags", .bits 2, "two flag bits"⟩,
  ⟨"OutputGlatAndGloc", 16, "m_vpsymGlyphAttrs.size()", .guard 65535, "at most 65535 glyph attributes (kMaxGlyphAttrs) (family glyph_attr_count_16bit)"⟩,
  ⟨"OutputGlatAndGloc", 16, "ibGlyphOffset", .guard 65535, "written as 16 bits only when the last offset fits, else the 32-bit Gloc form (families glat_bytes*)"⟩,
  ⟨"OutputSilfTable", 16, "m_cwGlyphIDs - 1", .guard 65535, "glyph ids are 16-bit (kMaxTotalGlyphs)"⟩,
  ⟨"OutputSilfTable", 16, "pexp->Value()", .guard 65535, "ExtraAscent / ExtraDescent: error 4154 (family extra_ascent_descent)"⟩,
  ⟨"OutputSilfTable", 8, "cpass", .guard 128, "error 3150 / kMaxPasses (family passes)"⟩,
  ⟨"OutputSilfTable", 8, "cpassLB", .guard 128, "part of the pass count"⟩,
  ⟨"OutputSilfTable", 8, "cpassLB + cpassSub + cpassJust", .guard 128, "part of the pass count"⟩,
  ⟨"OutputSilfTable", 8, "cpassLB + cpassSub", .guard 128, "part of the pass count"⟩,
  ⟨"OutputSilfTable", 8, "ipassBidi", .guard 255, "index of a pass, or 0xFF for none"⟩,
  ⟨"OutputSilfTable", 8, "nFlags", .bits 8, "flag bits"⟩,
  ⟨"OutputSilfTable", 8, "m_prndr->PreXlbContext()", .guard 255, "product of rule lengths over the earlier passes, cut off at kInfiniteXlbContext = 255 in CalculateContextOffsets (family cross_line_boundary_context)"⟩,
  ⟨"OutputSilfTable", 8, "m_prndr->PostXlbContext()", .guard 255, "as PreXlbContext: cut off at kInfiniteXlbContext = 255"⟩,
  ⟨"OutputSilfTable", 8, "psym->InternalID()", .guard 255, "ids of the built-in glyph attributes, assigned first (AssignInternalGlyphAttrIDs); the justification ids: error 4152 (family justify_attr_ids_after_components)"⟩,
  ⟨"OutputSilfTable", 8, "psym ? psym->InternalID() : -1", .guard 255, "justification attribute id (error 4152) or 0xFF"⟩,
  ⟨"OutputSilfTable", 16, "m_cpsymComponents", .guard 16383, "error 4124 / kMaxComponents"⟩,
  ⟨"OutputSilfTable", 8, "m_prndr->NumUserDefn()", .guard 64, "user-definable slot attributes: kMaxUserDefinableSlotAttrs (family user_attr_index)"⟩,
  ⟨"OutputSilfTable", 8, "m_prndr->NumLigComponents()", .guard 255, "error 4153 (family lig_components_per_glyph)"⟩,
  ⟨"OutputSilfTable", 8, "grfsdc", .bits 8, "flag bits"⟩,
  ⟨"OutputSilfTable", 8, "m_prndr->HasCollisionPass() ? psym->InternalID() : 0", .guard 255, "id of a built-in glyph attribute"⟩,
  ⟨"OutputSilfTable", 8, "cScriptTags", .guard 255, "at most 255 tags (family script_tags)"⟩,
  ⟨"OutputSilfTable", 16, "m_wLineBreak", .guard 65535, "a glyph id"⟩,
  ⟨"OutputSilfTable", 16, "n", .guard 65535, "number of pseudo-glyphs: below the glyph count"⟩,
  ⟨"OutputSilfTable", 16, "nPowerOf2", .derived, "search header of n"⟩,
  ⟨"OutputSilfTable", 16, "nLog", .derived, "search header of n"⟩,
  ⟨"OutputSilfTable", 16, "n - nPowerOf2", .derived, "search header of n"⟩,
  ⟨"OutputSilfTable", 16, "m_vnUnicodeForPseudo[i]", .derived, "Silf version 1 only, which cannot be requested (-v2 is the lowest)"⟩,
  ⟨"OutputSilfTable", 16, "m_vwPseudoForUnicode[i]", .guard 65535, "a glyph id"⟩,
  ⟨"OutputSilfTable", 16, "nPassOffset", .guard 2000, "header length: fixed fields + 4 bytes per script tag (at most 255)"⟩,
  ⟨"OutputSilfTable", 16, "nPseudoOffset", .guard 3000, "header length + 4 bytes per pass (at most 128)"⟩,
  ⟨"OutputReplacementClasses", 16, "vpglfcReplcmt.size()", .guard 65535, "kMaxReplcmtClasses; kMaxReplcmtClassesV1_2 under -v2 (family replacement_classes_v2)"⟩,
  ⟨"OutputReplacementClasses", 16, "cpglfcLinear", .guard 65535, "part of the class count"⟩,
  ⟨"OutputReplacementClasses", 16, "glyph", .guard 65535, "a glyph id"⟩,
  ⟨"OutputReplacementClasses", 16, "n", .guard 65535, "glyphs of an input class: kMaxGlyphsPerInputClass (error 3105)"⟩,
  ⟨"OutputReplacementClasses", 16, "nPowerOf2", .derived, "search header of n"⟩,
  ⟨"OutputReplacementClasses", 16, "nLog", .derived, "search header of n"⟩,
  ⟨"OutputReplacementClasses", 16, "n - nPowerOf2", .derived, "search header of n"⟩,
  ⟨"OutputReplacementClasses", 16, "vwGlyphs[iw]", .guard 65535, "a glyph id"⟩,
  ⟨"OutputReplacementClasses", 16, "vnIndices[iw]", .guard 65535, "index into an input class (error 3105)"⟩,
  ⟨"OutputReplacementClasses", 16, "offset", .guard 65535, "16-bit class offsets only below Silf 4 and when the map fits (family class_map_bytes)"⟩,
  ⟨"OutputPass", 8, "nTemp", .bits 8, "flag bits and collision counts (CollisionFix 0..7, AutoKern)"⟩,
  ⟨"OutputPass", 8, "m_nMaxRuleLoop", .guard 255, "error 1199 (family max_rule_loop)"⟩,
  ⟨"OutputPass", 8, "m_nMaxRuleContext", .guard 64, "items of the longest rule: error 3106"⟩,
  ⟨"OutputPass", 8, "m_nMaxBackup", .guard 255, "error 1199 (family max_backup)"⟩,
  ⟨"OutputPass", 16, "m_vprule.size()", .guard 65535, "every rule has at least two bytes of action code: error 5102 (family action_block_size)"⟩,
  ⟨"OutputPass", 16, "NumStates()", .guard 65535, "error 3174 (family fsm_states)"⟩,
  ⟨"OutputPass", 16, "NumTransitionalStates()", .guard 65535, "at most the state count"⟩,
  ⟨"OutputPass", 16, "NumSuccessStates()", .guard 65535, "at most the state count"⟩,
  ⟨"OutputPass", 16, "m_pfsm->NumberOfColumns()", .guard 65535, "at most one column per glyph"⟩,
  ⟨"OutputPass", 16, "n", .guard 65535, "glyph sub-ranges: at most one per glyph"⟩,
  ⟨"OutputPass", 16, "nPowerOf2", .derived, "search header of n"⟩,
  ⟨"OutputPass", 16, "nLog", .derived, "search header of n"⟩,
  ⟨"OutputPass", 16, "n - nPowerOf2", .derived, "search header of n"⟩,
  ⟨"OutputPass", 16, "offset", .guard 65535, "offsets into the rule list: error 3176 (family rule_map_entries); into the code: error 5102"⟩,
  ⟨"OutputPass", 16, "rule", .guard 65535, "a rule index"⟩,
  ⟨"OutputPass", 8, "int(m_critMinPreContext)", .guard 64, "items of a rule: error 3106 (family precontext)"⟩,
  ⟨"OutputPass", 8, "int(m_critMaxPreContext)", .guard 64, "items of a rule: error 3106"⟩,
  ⟨"OutputPass", 16, "start", .guard 65535, "a state number"⟩,
  ⟨"OutputPass", 16, "prule->SortKey()", .guard 64, "items of a rule"⟩,
  ⟨"OutputPass", 8, "prule->NumberOfPreModContextItems()", .guard 64, "items of a rule"⟩,
  ⟨"OutputPass", 8, "m_nCollisionThreshold", .guard 255, "error 1191"⟩,
  ⟨"OutputPass", 8, "vbPassConstr[ib]", .bits 8, "a byte of code"⟩,
  ⟨"OutputPass", 8, "vbConstraints[ib]", .bits 8, "a byte of code"⟩,
  ⟨"OutputPass", 8, "vbActions[ib]", .bits 8, "a byte of code"⟩,
  ⟨"OutputPass", 16, "cbPassConstraint", .guard 65535, "error 5102"⟩,
  ⟨"OutputPass", 16, "nFsmOffset", .guard 65535, "fixed header of the pass block"⟩,
  ⟨"OutputRange", 16, "m_wGlyphs[iMin]", .guard 65535, "a glyph id"⟩,
  ⟨"OutputRange", 16, "m_wGlyphs[iLim - 1]", .guard 65535, "a glyph id"⟩,
  ⟨"OutputRange", 16, "m_ifsmcColumn", .guard 65535, "a column: at most one per glyph"⟩,
  ⟨"OutputFsmTable", 16, "ifsmcValue", .guard 65535, "a state number: error 3174"⟩,
  ⟨"OutputFeatTable", 16, "cfeatout", .guard 65535, "feature ids written: features (error 3153, at most 64) with their hidden ids"⟩,
  ⟨"OutputFeatTable", 16, "vnIDs[iID]", .guard 65535, "Feat 1 only; an id above 0xFFFF selects Feat 2 (family feature_hidden_id)"⟩,
  ⟨"OutputFeatTable", 16, "m_vpfeat[ifeat]->NumberOfSettings()", .guard 32767, "every setting has a name-table id (at most 32767: error 5101)"⟩,
  ⟨"OutputFeatTable", 16, "m_vpfeat[ifeat]->NameTblId()", .guard 32767, "name-table ids: -n range 256..32767, error 5101 when they run out (scenario name_overflow)"⟩,
  ⟨"OutputSettings", 16, "m_pfsetDefault->Value()", .guard 65535, "error 3175 (family feature_setting_value)"⟩,
  ⟨"OutputSettings", 16, "m_pfsetDefault->NameTblId()", .guard 32767, "name-table id"⟩,
  ⟨"OutputSettings", 16, "m_vpfset[ifset]->Value()", .guard 65535, "error 3175"⟩,
  ⟨"OutputSettings", 16, "m_vpfset[ifset]->NameTblId()", .guard 32767, "name-table id"⟩,
  ⟨"OutputSillTable", 16, "n", .guard 8191, "languages: 8 bytes each in a table of less than 65535 bytes (error 3157)"⟩,
  ⟨"OutputSillTable", 16, "nPowerOf2", .derived, "search header of n"⟩,
  ⟨"OutputSillTable", 16, "nLog", .derived, "search header of n"⟩,
  ⟨"OutputSillTable", 16, "n - nPowerOf2", .derived, "search header of n"⟩,
  ⟨"OutputSillTable", 16, "plang->NumberOfSettings()", .guard 8191, "8 bytes each in a table of less than 65535 bytes (error 3157)"⟩,
  ⟨"OutputSillTable", 16, "vnOffsets[ilang]", .guard 65535, "error 3157 (family sill_table_bytes)"⟩,
  ⟨"OutputSettings", 16, "m_vnFset[ifset]", .guard 65535, "a declared setting value: error 3175"⟩]

def classify (w : String × Nat × String) : Option Row :=
  table.find? fun r => r.fn == w.1 && r.width == w.2.1 && r.arg == w.2.2

/-- Every classified value fits its field: a guarded maximum is below 2^width, a bit field is no wider than the field. -/
theorem classified_fit : ∀ r ∈ table, r.fits = true := by decide

/-- No two rows classify the same write. -/
theorem rows_distinct : (table.map fun r => (r.fn, r.width, r.arg)).Nodup := by decide

/-- A value at or below a guarded maximum is written unchanged by a field of the row's width (no wrap). -/
theorem guarded_value_unchanged (r : Row) (hr : r ∈ table) (n : Nat) (hb : r.bound = .guard n) (v : Nat) (hv : v ≤ n) :
    v % 2 ^ r.width = v := by
  have h := classified_fit r hr
  simp only [Row.fits, hb, decide_eq_true_eq] at h
  exact Nat.mod_eq_of_lt (Nat.lt_of_le_of_lt hv h)

end Grc.Writes
