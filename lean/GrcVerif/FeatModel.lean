/-
  C16: model of label-id allocation and setting order, with theorems, and the executable comparison of the decoded
  Feat / Sill / name tables with the declarations.
  Core Lean only.
-/
import GrcVerif.Tables
namespace Grc.Ft

/-- First label id handed out: above every id the font already uses, at least 256, at least the -n value. -/
def firstId (maxUsed : Nat) (nOpt : Option Nat) : Nat :=
  max (max (maxUsed + 1) 256) (nOpt.getD 0)

/-- Ids handed out for `n` new labels. -/
def allocIds (maxUsed : Nat) (nOpt : Option Nat) (n : Nat) : List Nat := List.range' (firstId maxUsed nOpt) n

theorem alloc_ge_256 (m : Nat) (o : Option Nat) (n id : Nat) (h : id ∈ allocIds m o n) : 256 ≤ id := by
  unfold allocIds firstId at h
  rw [List.mem_range'_1] at h
  omega

theorem alloc_fresh (m : Nat) (o : Option Nat) (n id : Nat) (used : List Nat) (hu : ∀ u, u ∈ used → u ≤ m)
    (h : id ∈ allocIds m o n) : id ∉ used := by
  unfold allocIds firstId at h
  rw [List.mem_range'_1] at h
  intro hc
  have := hu id hc
  omega

theorem alloc_nodup (m : Nat) (o : Option Nat) (n : Nat) : (allocIds m o n).Nodup := by
  unfold allocIds; exact List.nodup_range' (step := 1) (by omega)

/-- Settings as written to Feat: the default first, then the others in declaration order. -/
def orderSettings (dflt : Option Int) (vals : List Int) : List Int :=
  match dflt with
  | some d => d :: vals.filter (· != d)
  | none => vals

theorem orderSettings_head (d : Int) (vals : List Int) : (orderSettings (some d) vals).head? = some d := rfl

theorem orderSettings_mem (d : Int) (vals : List Int) (hd : d ∈ vals) (x : Int) :
    x ∈ orderSettings (some d) vals ↔ x ∈ vals := by
  unfold orderSettings
  simp only [List.mem_cons, List.mem_filter, bne_iff_ne, ne_eq]
  constructor
  · rintro (h | h)
    · subst h; exact hd
    · exact h.1
  · intro h
    by_cases hx : x = d
    · left; exact hx
    · right; exact ⟨h, hx⟩

theorem orderSettings_length (d : Int) (vals : List Int) (hd : d ∈ vals) (hn : vals.Nodup) :
    (orderSettings (some d) vals).length = vals.length := by
  unfold orderSettings
  simp only [List.length_cons]
  induction vals with
  | nil => simp at hd
  | cons v vs ih =>
    have hn' := List.nodup_cons.mp hn
    by_cases hv : v = d
    · subst hv
      have : vs.filter (· != v) = vs := by
        apply List.filter_eq_self.mpr
        intro a ha
        simp only [bne_iff_ne, ne_eq]
        intro hc; subst hc; exact hn'.1 ha
      simp [this]
    · have hd' : d ∈ vs := by
        rcases List.mem_cons.mp hd with h | h
        · exact absurd h.symm hv
        · exact h
      have := ih hd' hn'.2
      simp only [List.filter_cons, bne_iff_ne, ne_eq, hv, not_false_eq_true, decide_true, if_true, List.length_cons]
      omega

end Grc.Ft
