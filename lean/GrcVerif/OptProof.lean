/-
  C07: the model of the compiler's optional-item algorithm (OptItems: exchangeSort, removeAdjDups, overlapError,
  genOmits, keptItems) yields exactly the specification's alternatives, in the specification's order, for EVERY
  well-formed tree of optional groups (any depth, any number of groups).
  Core Lean only.
-/
import GrcVerif.OptItems
import GrcVerif.OptSort
namespace Grc.Opt

/-! ### Part 1: a list of ranges that is in order, free of overlaps and of duplicates is left alone -/

theorem idxPairs_mem {n : Nat} {p : Nat × Nat} (h : p ∈ idxPairs n) : p.1 < p.2 ∧ p.2 < n := by
  simp only [idxPairs, List.mem_flatMap, List.mem_map, List.mem_range] at h
  obtain ⟨i1, hi1, k, hk, rfl⟩ := h
  simp only
  omega

theorem pairwise_getD {P : Rg → Rg → Prop} {a : List Rg} (h : a.Pairwise P) {i j : Nat} (hij : i < j) (hj : j < a.length) :
    P (a.getD i (0, 0)) (a.getD j (0, 0)) := by
  have hi : i < a.length := by omega
  simp only [List.getD, List.getElem?_eq_getElem hi, List.getElem?_eq_getElem hj, Option.getD_some]
  exact List.pairwise_iff_getElem.mp h i j hi hj hij

theorem exchangeSort_id (a : List Rg) (h : a.Pairwise (fun x y => outOfOrder x y = false)) : exchangeSort a = a := by
  unfold exchangeSort
  have : ∀ ps : List (Nat × Nat), (∀ p ∈ ps, p.1 < p.2 ∧ p.2 < a.length) → ps.foldl swapIf a = a := by
    intro ps
    induction ps with
    | nil => intro _; rfl
    | cons p ps ih =>
      intro hp
      have hp1 := hp p List.mem_cons_self
      have hs : swapIf a p = a := by
        unfold swapIf
        simp only [pairwise_getD h hp1.1 hp1.2]
        rfl
      rw [List.foldl_cons, hs]
      exact ih (fun q hq => hp q (List.mem_cons_of_mem _ hq))
  exact this _ (fun p hp => idxPairs_mem hp)

theorem removeAdjDups_id (a : List Rg) (h : a.Pairwise (· ≠ ·)) : removeAdjDups a = a := by
  unfold removeAdjDups
  have : ∀ f i, removeAdjDupsFrom f i a = a := by
    intro f
    induction f with
    | zero => intro i; rfl
    | succ f ih =>
      intro i
      unfold removeAdjDupsFrom
      split
      · rename_i hlt
        have hne : a.getD i (0, 0) ≠ a.getD (i + 1) (0, 0) := pairwise_getD h (Nat.lt_succ_self i) hlt
        have hb : (a.getD i (0, 0) == a.getD (i + 1) (0, 0)) = false := by simpa using hne
        simp only [hb]
        exact ih (i + 1)
      · rfl
  exact this _ _

theorem overlapError_false (a : List Rg) (h : a.Pairwise (fun x y => overlaps x y = false)) : overlapError a = false := by
  unfold overlapError
  rw [List.any_eq_false]
  intro p hp
  have := idxPairs_mem hp
  have := pairwise_getD h this.1 this.2
  simp only [this]; decide

/-! ### Part 2: the tree of optional groups and its ranges -/

/-- Well-formed from position `n` on: the items are numbered by their position; an optional group holds at least one
    item and is not just another optional group in brackets (`[[x]?]?` is the same group written twice). -/
def Wf : List Elem → Nat → Prop
  | [], _ => True
  | .item i :: rest, n => i = n ∧ Wf rest (n + 1)
  | .opt body :: rest, n =>
    Wf body n ∧ 0 < countItems body ∧ (∀ b, body ≠ [.opt b]) ∧ Wf rest (n + countItems body)

/-- The flag assignments in the specification's order: for a group, first every assignment that keeps it (its inner
    groups varying), then the one that omits it (all inner groups marked omitted as well). -/
def altFlags : List Elem → Nat → List (List (Rg × Bool))
  | [], _ => [[]]
  | .item _ :: rest, n => altFlags rest (n + 1)
  | .opt body :: rest, n =>
    let n' := n + countItems body
    ((altFlags body n).flatMap fun fb => (altFlags rest n').map fun fr => ((n, n' - 1), false) :: (fb ++ fr))
    ++ (altFlags rest n').map fun fr => ((n, n' - 1), true) :: (((rangesOf body n).1.map fun r => (r, true)) ++ fr)

theorem rangesOf_snd (es : List Elem) (n : Nat) : (rangesOf es n).2 = n + countItems es := by
  fun_induction rangesOf es n with
  | case1 n => simp [countItems]
  | case2 i rest n ih => simp only [countItems]; omega
  | case3 body rest n inner n' hb more n'' hr ihb ihr =>
    simp only [countItems]
    rw [hb] at ihb; rw [hr] at ihr
    simp only at ihb ihr
    omega

theorem rangesOf_opt (body rest : List Elem) (n : Nat) :
    rangesOf (.opt body :: rest) n =
      ((n, n + countItems body - 1) :: ((rangesOf body n).1 ++ (rangesOf rest (n + countItems body)).1),
        n + countItems body + countItems rest) := by
  have h1 := rangesOf_snd body n
  have h2 := rangesOf_snd rest (n + countItems body)
  rw [rangesOf]
  cases hb : rangesOf body n with
  | mk inner n' =>
    rw [hb] at h1; simp only at h1; subst h1
    cases hr : rangesOf rest (n + countItems body) with
    | mk more n'' =>
      rw [hr] at h2; simp only at h2; subst h2
      simp only [hr, List.cons_append]

theorem rangesOf_item (i : Nat) (rest : List Elem) (n : Nat) : rangesOf (.item i :: rest) n = rangesOf rest (n + 1) := by
  rw [rangesOf]

/-- Every range of a well-formed sequence at `n` lies inside the sequence's items and is not empty. -/
theorem ranges_in (es : List Elem) (n : Nat) (hw : Wf es n) :
    ∀ r ∈ (rangesOf es n).1, n ≤ r.1 ∧ r.1 ≤ r.2 ∧ r.2 < n + countItems es := by
  fun_induction altFlags es n with
  | case1 n => intro r hr; simp [rangesOf] at hr
  | case2 i rest n ih =>
    intro r hr
    rw [rangesOf_item] at hr
    simp only [Wf] at hw
    have := ih hw.2 r hr
    simp only [countItems]; omega
  | case3 body rest n n' ihr ihb =>
    intro r hr
    simp only [Wf] at hw
    obtain ⟨hwb, hpos, _, hwr⟩ := hw
    rw [rangesOf_opt] at hr
    simp only [List.mem_cons, List.mem_append] at hr
    simp only [countItems]
    rcases hr with rfl | hr | hr
    · simp only; omega
    · have := ihb hwb r hr; omega
    · have := ihr hwr r hr; omega

theorem flags_in (es : List Elem) (n : Nat) (hw : Wf es n) :
    ∀ fl ∈ altFlags es n, ∀ p ∈ fl, n ≤ p.1.1 ∧ p.1.1 ≤ p.1.2 ∧ p.1.2 < n + countItems es := by
  fun_induction altFlags es n with
  | case1 n => intro fl hfl p hp; simp at hfl; subst hfl; simp at hp
  | case2 i rest n ih =>
    intro fl hfl p hp
    simp only [Wf] at hw
    have := ih hw.2 fl hfl p hp
    simp only [countItems]; omega
  | case3 body rest n n' ihr ihb =>
    intro fl hfl p hp
    simp only [Wf] at hw
    obtain ⟨hwb, hpos, _, hwr⟩ := hw
    simp only [countItems]
    simp only [List.mem_append, List.mem_flatMap, List.mem_map] at hfl
    rcases hfl with ⟨fb, hfb, fr, hfr, rfl⟩ | ⟨fr, hfr, rfl⟩
    · simp only [List.mem_cons, List.mem_append] at hp
      rcases hp with rfl | hp | hp
      · simp only; omega
      · have := ihb hwb fb hfb p hp; omega
      · have := ihr hwr fr hfr p hp; omega
    · simp only [List.mem_cons, List.mem_append, List.mem_map] at hp
      rcases hp with rfl | ⟨r, hr, rfl⟩ | hp
      · simp only; omega
      · have := ranges_in body n hwb r hr; simp only; omega
      · have := ihr hwr fr hfr p hp; omega

def Good (x y : Rg) : Prop := outOfOrder x y = false ∧ overlaps x y = false ∧ x ≠ y

/-- In a group that is not just another group in brackets no inner range spans the whole group. -/
theorem no_full_range (es : List Elem) (n : Nat) (hw : Wf es n) (hne : ∀ b, es ≠ [.opt b]) :
    ∀ r ∈ (rangesOf es n).1, r ≠ (n, n + countItems es - 1) := by
  intro r hr heq
  subst heq
  match es, hw, hne, hr with
  | [], _, _, hr => simp [rangesOf] at hr
  | .item i :: rest, hw, _, hr =>
    rw [rangesOf_item] at hr
    simp only [Wf] at hw
    have := ranges_in rest (n + 1) hw.2 _ hr
    simp only at this; omega
  | .opt body :: rest, hw, hne, hr =>
    simp only [Wf] at hw
    obtain ⟨hwb, hpos, _, hwr⟩ := hw
    rw [rangesOf_opt] at hr
    simp only [countItems, List.mem_cons, List.mem_append] at hr
    rcases hr with heq | hr | hr
    · -- the group itself spans everything: the rest has no items, so it is empty
      have hc : countItems rest = 0 := by
        have := congrArg Prod.snd heq
        simp only at this; omega
      match rest, hc, hwr with
      | [], _, _ => exact hne body rfl
      | .item _ :: _, hc, _ => simp [countItems] at hc
      | .opt b2 :: _, hc, hwr2 => simp only [Wf] at hwr2; simp only [countItems] at hc; omega
    · have := ranges_in body n hwb _ hr
      simp only at this
      match rest, hwr, hne with
      | [], _, hne => exact hne body rfl
      | .item _ :: _, _, _ => simp only [countItems] at this; omega
      | .opt b2 :: _, hwr2, _ => simp only [Wf] at hwr2; simp only [countItems] at this; omega
    · have := ranges_in rest (n + countItems body) hwr _ hr
      simp only at this; omega

theorem outOfOrder_false {x y : Rg} (h1 : x.1 ≤ y.1) (h2 : x.1 = y.1 → y.2 - y.1 ≤ x.2 - x.1) : outOfOrder x y = false := by
  unfold outOfOrder
  simp only [Bool.or_eq_false_iff, Bool.and_eq_false_iff, decide_eq_false_iff_not, beq_eq_false_iff_ne]
  refine ⟨by omega, ?_⟩
  by_cases h : x.1 = y.1
  · right; have := h2 h; omega
  · left; exact h

theorem overlaps_false {x y : Rg} (h : x.2 < y.1 ∨ y.2 ≤ x.2) : overlaps x y = false := by
  unfold overlaps
  simp only [Bool.and_eq_false_iff, decide_eq_false_iff_not]
  omega

/-- The ranges of a well-formed tree, in the order `rangesOf` lists them (a group before what is inside it and before
    what follows it), are in the compiler's sort order, free of overlaps and pairwise different. -/
theorem ranges_good (es : List Elem) (n : Nat) (hw : Wf es n) : (rangesOf es n).1.Pairwise Good := by
  fun_induction altFlags es n with
  | case1 n => simp [rangesOf]
  | case2 i rest n ih => rw [rangesOf_item]; simp only [Wf] at hw; exact ih hw.2
  | case3 body rest n n' ihr ihb =>
    simp only [Wf] at hw
    obtain ⟨hwb, hpos, hne, hwr⟩ := hw
    rw [rangesOf_opt]
    simp only
    rw [List.pairwise_cons, List.pairwise_append]
    refine ⟨?_, ihb hwb, ihr hwr, ?_⟩
    · intro r hr
      rcases List.mem_append.mp hr with hr | hr
      · have h1 := ranges_in body n hwb r hr
        have h2 := no_full_range body n hwb hne r hr
        refine ⟨outOfOrder_false (by simp only; omega) (by simp only; omega), overlaps_false (by simp only; omega), ?_⟩
        exact fun h => h2 h.symm
      · have h1 := ranges_in rest _ hwr r hr
        refine ⟨outOfOrder_false (by simp only; omega) (by simp only; omega), overlaps_false (by simp only; omega), ?_⟩
        intro h; have := congrArg Prod.fst h; simp only at this; omega
    · intro x hx y hy
      have h1 := ranges_in body n hwb x hx
      have h2 := ranges_in rest _ hwr y hy
      refine ⟨outOfOrder_false (by omega) (by omega), overlaps_false (by omega), ?_⟩
      intro h; have := congrArg Prod.fst h; omega

/-! ### Part 3: the include-then-omit recursion enumerates `altFlags` -/

/-- No omitted range among the earlier ones can subsume a range that ends at or after `n` when all of them end before `n`. -/
theorem not_forced (done : List (Rg × Bool)) (r : Rg) (n : Nat) (hd : ∀ p ∈ done, p.2 = true → p.1.2 < n) (hr : n ≤ r.2) :
    forcedBy done r = false := by
  unfold forcedBy
  cases hf : done.find? (fun p => subsumes p.1 r) with
  | none => rfl
  | some p =>
    simp only
    have hmem := List.mem_of_find?_eq_some hf
    have hsub := List.find?_some hf
    cases hp2 : p.2 with
    | false => rfl
    | true =>
      have := hd p hmem hp2
      simp only [subsumes, Bool.and_eq_true, decide_eq_true_eq] at hsub
      omega

/-- Inside an omitted group every range is forced to be omitted: the nearest earlier range that subsumes it is the
    group itself or an inner range already marked. -/
theorem forced (g : Rg) (done0 : List (Rg × Bool)) (todo : List Rg) :
    ∀ (inner : List Rg) (pre : List (Rg × Bool)), (∀ p ∈ pre, p.2 = true) → (∀ r ∈ inner, subsumes g r = true) →
      genOmits (pre ++ (g, true) :: done0) (inner ++ todo)
        = genOmits ((inner.map fun r => (r, true)).reverse ++ (pre ++ (g, true) :: done0)) todo := by
  intro inner
  induction inner with
  | nil => intro pre _ _; simp
  | cons r inner ih =>
    intro pre hpre hin
    have hf : forcedBy (pre ++ (g, true) :: done0) r = true := by
      unfold forcedBy
      rw [List.find?_append]
      cases hp : pre.find? (fun p => subsumes p.1 r) with
      | some p => simp only [Option.some_or]; exact hpre p (List.mem_of_find?_eq_some hp)
      | none =>
        have : subsumes g r = true := hin r List.mem_cons_self
        simp [this]
    rw [List.cons_append, genOmits]
    rw [if_pos hf, List.nil_append]
    have := ih ((r, true) :: pre) (by
      intro p hp
      rcases List.mem_cons.mp hp with h | h
      · rw [h]
      · exact hpre p h)
      (fun r' hr' => hin r' (List.mem_cons_of_mem _ hr'))
    simp only [List.cons_append] at this
    rw [this]
    simp [List.map_cons, List.reverse_cons, List.append_assoc]

theorem flatMap_congr' {α β : Type} {l : List α} {f g : α → List β} (h : ∀ a ∈ l, f a = g a) : l.flatMap f = l.flatMap g := by
  induction l with
  | nil => rfl
  | cons a l ih =>
    simp only [List.flatMap_cons]
    rw [h a List.mem_cons_self, ih (fun b hb => h b (List.mem_cons_of_mem _ hb))]

/-- Where no earlier omitted range reaches into the sequence, the recursion over the sequence's ranges (followed by
    whatever comes after) runs through `altFlags` of the sequence in order, each time continuing with what follows. -/
theorem free (es : List Elem) (n : Nat) (hw : Wf es n) :
    ∀ (done : List (Rg × Bool)) (todo : List Rg), (∀ p ∈ done, p.2 = true → p.1.2 < n) →
      genOmits done ((rangesOf es n).1 ++ todo) = (altFlags es n).flatMap fun fl => genOmits (fl.reverse ++ done) todo := by
  fun_induction altFlags es n with
  | case1 n => intro done todo _; simp [rangesOf]
  | case2 i rest n ih =>
    intro done todo hd
    rw [rangesOf_item]
    simp only [Wf] at hw
    exact ih hw.2 done todo (fun p hp h => by have := hd p hp h; omega)
  | case3 body rest n n' ihr ihb =>
    intro done todo hd
    simp only [Wf] at hw
    obtain ⟨hwb, hpos, hne, hwr⟩ := hw
    rw [rangesOf_opt]
    simp only [List.cons_append, List.append_assoc]
    rw [genOmits, if_neg (by rw [not_forced done _ n hd (by simp only; omega)]; simp)]
    rw [List.flatMap_append]
    congr 1
    · -- the group is kept
      rw [ihb hwb ((( n, n + countItems body - 1), false) :: done) _
        (by intro p hp h
            rcases List.mem_cons.mp hp with h' | h'
            · rw [h'] at h; simp at h
            · exact hd p h' h)]
      rw [List.flatMap_assoc]
      apply flatMap_congr'
      intro fb hfb
      rw [ihr hwr (fb.reverse ++ ((n, n + countItems body - 1), false) :: done) todo
        (by intro p hp h
            rcases List.mem_append.mp hp with h' | h'
            · have := flags_in body n hwb fb hfb p (List.mem_reverse.mp h'); omega
            · rcases List.mem_cons.mp h' with h'' | h''
              · rw [h''] at h; simp at h
              · have := hd p h'' h; omega)]
      rw [List.flatMap_map]
      apply flatMap_congr'
      intro fr _
      simp only [List.reverse_cons, List.reverse_append, List.append_assoc, List.cons_append, List.nil_append]
      rfl
    · -- the group is omitted: everything inside is forced
      have hin : ∀ r ∈ (rangesOf body n).1, subsumes (n, n + countItems body - 1) r = true := by
        intro r hr
        have := ranges_in body n hwb r hr
        simp only [subsumes, Bool.and_eq_true, decide_eq_true_eq]
        omega
      have hf := forced (n, n + countItems body - 1) done ((rangesOf rest (n + countItems body)).1 ++ todo)
        (rangesOf body n).1 [] (by simp) hin
      simp only [List.nil_append] at hf
      rw [hf]
      rw [ihr hwr _ todo
        (by intro p hp h
            rcases List.mem_append.mp hp with h' | h'
            · obtain ⟨r, hr, hrp⟩ := List.mem_map.mp (List.mem_reverse.mp h')
              have := ranges_in body n hwb r hr
              rw [← hrp]; simp only; omega
            · rcases List.mem_cons.mp h' with h'' | h''
              · rw [h'']; simp only; omega
              · have := hd p h'' h; omega)]
      rw [List.flatMap_map]
      apply flatMap_congr'
      intro fr _
      simp only [List.reverse_cons, List.reverse_append, List.append_assoc, List.cons_append, List.nil_append]
      rfl

/-! ### Part 4: the items kept under each flag assignment are the specification's alternatives -/

theorem altsSeq_nil : altsElem.altsSeq [] = [[]] := by simp [altsElem.altsSeq]

theorem altsSeq_item (i : Nat) (rest : List Elem) :
    altsElem.altsSeq (.item i :: rest) = (altsElem.altsSeq rest).map (i :: ·) := by
  simp [altsElem.altsSeq, altsElem]

theorem altsSeq_opt (body rest : List Elem) :
    altsElem.altsSeq (.opt body :: rest)
      = (altsElem.altsSeq body ++ [[]]).flatMap fun a => (altsElem.altsSeq rest).map (a ++ ·) := by
  simp [altsElem.altsSeq, altsElem]

/-- The items of the region `[lo, lo+cnt)` that no omitted range covers. -/
def keptR (fl : List (Rg × Bool)) (lo cnt : Nat) : List Nat := (List.range' lo cnt).filter fun i => !covered fl i

theorem covered_append (a b : List (Rg × Bool)) (i : Nat) : covered (a ++ b) i = (covered a i || covered b i) := by
  simp [covered, List.any_append]

theorem covered_false_of_after (fl : List (Rg × Bool)) (i : Nat) (h : ∀ p ∈ fl, i < p.1.1) : covered fl i = false := by
  unfold covered
  rw [List.any_eq_false]
  intro p hp
  have := h p hp
  simp only [Bool.and_eq_true, decide_eq_true_eq, not_and]
  intro _ h2; omega

theorem covered_false_of_before (fl : List (Rg × Bool)) (i : Nat) (h : ∀ p ∈ fl, p.1.2 < i) : covered fl i = false := by
  unfold covered
  rw [List.any_eq_false]
  intro p hp
  have := h p hp
  simp only [Bool.and_eq_true, decide_eq_true_eq, not_and]
  intro _ _; omega

theorem covered_single_false (r : Rg) (i : Nat) : covered [(r, false)] i = false := by simp [covered]

theorem map_pairs {α β γ : Type} (l : List α) (l2 : List β) (F : α → β → γ) (K : γ → List Nat) (K1 : α → List Nat)
    (K2 : β → List Nat) (h : ∀ x ∈ l, ∀ y ∈ l2, K (F x y) = K1 x ++ K2 y) :
    (l.flatMap fun x => l2.map fun y => F x y).map K = (l.map K1).flatMap fun a => (l2.map K2).map (a ++ ·) := by
  induction l with
  | nil => rfl
  | cons x l ih =>
    simp only [List.flatMap_cons, List.map_append, List.map_cons]
    rw [ih (fun x' hx' => h x' (List.mem_cons_of_mem _ hx'))]
    congr 1
    rw [List.map_map, List.map_map]
    apply List.map_congr_left
    intro y hy
    simp only [Function.comp]
    exact h x List.mem_cons_self y hy

theorem kept_spec (es : List Elem) (n : Nat) (hw : Wf es n) :
    (altFlags es n).map (fun fl => keptR fl n (countItems es)) = altsElem.altsSeq es := by
  fun_induction altFlags es n with
  | case1 n => simp [altsSeq_nil, keptR, countItems]
  | case2 i rest n ih =>
    simp only [Wf] at hw
    obtain ⟨hi, hwr⟩ := hw
    subst hi
    rw [altsSeq_item, ← ih hwr, List.map_map]
    apply List.map_congr_left
    intro fl hfl
    simp only [Function.comp, keptR, countItems]
    rw [Nat.add_comm 1, List.range'_succ, List.filter_cons]
    have : covered fl i = false := covered_false_of_after fl i (fun p hp => by have := flags_in rest (i + 1) hwr fl hfl p hp; omega)
    simp [this]
  | case3 body rest n n' ihr ihb =>
    simp only [Wf] at hw
    obtain ⟨hwb, hpos, hne, hwr⟩ := hw
    rw [altsSeq_opt, List.flatMap_append, List.flatMap_singleton, List.map_append, ← ihb hwb, ← ihr hwr]
    congr 1
    · apply map_pairs
      intro fb hfb fr hfr
      simp only [keptR, countItems]
      rw [← List.range'_append_1, List.filter_append]
      congr 1
      · apply List.filter_congr
        intro i hi
        have hi' := List.mem_range'_1.mp hi
        have h1 : covered fr i = false := covered_false_of_after fr i (fun p hp => by have := flags_in rest n' hwr fr hfr p hp; omega)
        rw [show (((n, n' - 1), false) :: (fb ++ fr)) = [((n, n' - 1), false)] ++ (fb ++ fr) from rfl]
        simp only [covered_append, h1, covered_single_false, Bool.false_or, Bool.or_false]
      · apply List.filter_congr
        intro i hi
        have hi' := List.mem_range'_1.mp hi
        have h1 : covered fb i = false := covered_false_of_before fb i (fun p hp => by have := flags_in body n hwb fb hfb p hp; omega)
        rw [show (((n, n' - 1), false) :: (fb ++ fr)) = [((n, n' - 1), false)] ++ (fb ++ fr) from rfl]
        simp only [covered_append, h1, covered_single_false, Bool.false_or]
    · rw [List.map_map, List.map_map]
      apply List.map_congr_left
      intro fr hfr
      simp only [Function.comp, keptR, countItems, List.nil_append]
      rw [← List.range'_append_1, List.filter_append]
      have e1 : (List.range' n (countItems body)).filter (fun i => !covered (((n, n' - 1), true) :: (((rangesOf body n).1.map fun r => (r, true)) ++ fr)) i) = [] := by
        rw [List.filter_eq_nil_iff]
        intro i hi
        have hi' := List.mem_range'_1.mp hi
        have : covered (((n, n' - 1), true) :: (((rangesOf body n).1.map fun r => (r, true)) ++ fr)) i = true := by
          simp only [covered, List.any_cons, Bool.true_and, Bool.or_eq_true, Bool.and_eq_true, decide_eq_true_eq]
          left; omega
        simp [this]
      rw [e1, List.nil_append]
      apply List.filter_congr
      intro i hi
      have hi' := List.mem_range'_1.mp hi
      have h1 : covered ((rangesOf body n).1.map fun r => (r, true)) i = false :=
        covered_false_of_before _ i (fun p hp => by
          obtain ⟨r, hr, hrp⟩ := List.mem_map.mp hp
          have := ranges_in body n hwb r hr
          rw [← hrp]; simp only; omega)
      rw [show (((n, n' - 1), true) :: (((rangesOf body n).1.map fun r => (r, true)) ++ fr))
            = [((n, n' - 1), true)] ++ (((rangesOf body n).1.map fun r => (r, true)) ++ fr) from rfl]
      have h0 : covered [((n, n' - 1), true)] i = false :=
        covered_false_of_before _ i (fun p hp => by simp only [List.mem_singleton] at hp; rw [hp]; simp only; omega)
      simp only [covered_append, h1, h0, Bool.false_or]

/-! ### The theorem -/

theorem genOmits_all (es : List Elem) (hw : Wf es 0) : genOmits [] (rangesOf es 0).1 = altFlags es 0 := by
  have := free es 0 hw [] [] (by simp)
  rw [List.append_nil] at this
  rw [this]
  simp [genOmits]

/-- C07, model = specification: for every well-formed tree of optional groups - any nesting depth, any number of
    groups and items - the compiler's algorithm (sort of the ranges, removal of duplicates, overlap test, the
    include-then-omit recursion with `PrevRangeSubsumes`, the items left by each flag assignment, the all-omitted
    version dropped) produces exactly the alternatives of the specification, in the same order and with the same
    multiplicities. -/
theorem model_eq_spec (es : List Elem) (hw : Wf es 0) :
    modelAlternatives (rangesOf es 0).1 (countItems es) = some ((specAlternatives es).filter (fun k => !k.isEmpty)) := by
  have hg := ranges_good es 0 hw
  unfold modelAlternatives
  simp only [exchangeSort_id _ (hg.imp (fun h => h.1)), removeAdjDups_id _ (hg.imp (fun h => h.2.2)),
    overlapError_false _ (hg.imp (fun h => h.2.1)), Bool.false_eq_true, if_false]
  rw [genOmits_all es hw]
  have : (altFlags es 0).map (keptItems (countItems es)) = (altFlags es 0).map (fun fl => keptR fl 0 (countItems es)) := by
    apply List.map_congr_left
    intro fl _
    simp [keptItems, keptR, List.range_eq_range']
  rw [this, kept_spec es 0 hw]
  rfl

/-- The same for every order in which the ranges may be handed over (the parser records a group when it closes, so
    inner groups come first): the exchange sort brings any listing into the one sorted listing. -/
theorem model_eq_spec_any_order (es : List Elem) (hw : Wf es 0) (rs : List Rg) (hp : rs.Perm (rangesOf es 0).1) :
    modelAlternatives rs (countItems es) = some ((specAlternatives es).filter (fun k => !k.isEmpty)) := by
  have hg := ranges_good es 0 hw
  have hsort : exchangeSort rs = (rangesOf es 0).1 :=
    exchangeSort_unique rs _ hp (hg.imp (fun h => h.1)) (fun x hx => (ranges_in es 0 hw x hx).2.1)
  have h0 := model_eq_spec es hw
  unfold modelAlternatives at h0 ⊢
  rw [hsort]
  rw [exchangeSort_id _ (hg.imp (fun h => h.1))] at h0
  exact h0

/-- The executable test used by the driver establishes the hypothesis of the theorem. -/
theorem wfB_sound (es : List Elem) (n : Nat) (h : wfB es n = true) : Wf es n := by
  fun_induction altFlags es n with
  | case1 n => simp [Wf]
  | case2 i rest n ih =>
    simp only [wfB, Bool.and_eq_true, beq_iff_eq] at h
    simp only [Wf]
    exact ⟨h.1, ih h.2⟩
  | case3 body rest n n' ihr ihb =>
    unfold wfB at h
    simp only [Bool.and_eq_true, decide_eq_true_eq] at h
    obtain ⟨⟨⟨h1, h2⟩, h3⟩, h4⟩ := h
    simp only [Wf]
    refine ⟨ihb h1, h2, ?_, ihr h4⟩
    intro b hb
    subst hb
    simp at h3

/-- The hypotheses are met by trees with nesting (the example of PostParser.cpp: A [ B? [ C D? ]? ]? E). -/
example : Wf [.item 0, .opt [.opt [.item 1], .opt [.item 2, .opt [.item 3]]], .item 4] 0 := by
  simp [Wf, countItems]

/-- Outside the hypotheses model and specification differ in multiplicity only: a group in a second pair of brackets is
    one range for the compiler (duplicates are removed) and two nested groups for the specification. -/
example : (rangesOf [.item 0, .opt [.opt [.item 1]]] 0).1 = [(1, 1), (1, 1)]
    ∧ modelAlternatives [(1, 1), (1, 1)] 2 = some [[0, 1], [0]]
    ∧ (specAlternatives [.item 0, .opt [.opt [.item 1]]]).filter (fun k => !k.isEmpty) = [[0, 1], [0], [0]] := by
  refine ⟨by simp [rangesOf], by decide, by simp [specAlternatives, altsElem.altsSeq, altsElem]⟩

end Grc.Opt
