/-
  C01 (engine level): a reference interpreter of what the GDL rules of the IR say - passes in table order; inside a
  pass a left-to-right scan; at each position the first matching rule in precedence order (more matched items first,
  then source order); a rule matches when the glyphs from (position - leading context) on belong to its items'
  classes and its item constraints hold; applying it substitutes by class correspondence, inserts, deletes, copies,
  assigns user attributes (expression semantics of ExprSem: 32-bit arithmetic, 16-bit storage of user attributes),
  sets associations, and the scan resumes after the last modified item or where `^` says.

  It is written from the GDL documentation and the property text, not from the compiler; the check shapes the same
  texts with libgraphite2 on the compiled font and compares glyphs, user attributes and (where the rule language fixes
  them) associations.  The fragment: substitution passes without feature tests; `^` only forward of the first item it
  keeps; no line-break items.
-/
import GrcVerif.ExprSem
import GrcVerif.Rules
namespace Grc.Eng
open Grc.Sem

structure Slot where
  gid : Nat
  user : List Int
  before : Nat
  after : Nat
  assocOk : Bool := true     -- false: produced by a rule that deletes an item without saying what it is associated with
  advX : Int := 0            -- advance width (starts as the glyph's advance width; reset when the glyph is replaced)
  shiftX : Int := 0
  shiftY : Int := 0
  parent : Option Nat := none        -- index (in the slot stream) of the slot this one is attached to
  attAt : Int × Int := (0, 0)        -- attachment point on the parent's glyph
  attWith : Int × Int := (0, 0)      -- attachment point on the own glyph
  uid : Nat := 0                     -- identity of the slot object (the engine's highwater mark points at a slot)
deriving Repr, BEq, Inhabited

def w16 (v : Int) : Int := (v + 32768) % 65536 - 32768

/-- Static data of a program. -/
structure Prog where
  ir : ProgIR
  gvals : Nat → Nat → Int        -- glyph attribute value by (glyph, IR attribute number)
  nuser : Nat
  feats : Nat → Int := fun _ => 0   -- value of the feature with the given index in the Feat table, for this run
  advOf : Nat → Int := fun _ => 0   -- advance width of a glyph
  pointOf : String → Nat → Int × Int := fun _ _ => (0, 0)   -- attachment point (name, glyph)

def clsOf (p : Prog) (c : Nat) : List Nat := p.ir.classes.getD c []

/-- Value of a source expression. `slotAt j` = the slot the 1-based item number j denotes now (none: no such slot),
    `cur` = the slot of the item the expression is attached to. `none` = the machine stops. -/
def evalE (p : Prog) (slotAt : Nat → Option Slot) (cur : Option Slot) : Expr → Option Int
  | .lit n => some n
  | .userAttr slot k =>
    match (match slot with | some j => slotAt j | none => cur) with
    | some s => some (s.user.getD k 0)
    | none => none
  | .glyphAttr slot a =>
    match (match slot with | some j => slotAt j | none => cur) with
    | some s => some (p.gvals s.gid a)
    | none => none
  | .feat f => some (p.feats f)
  | .slotNamed slot name =>
    match (match slot with | some j => slotAt j | none => cur) with
    | some s => if name == "advance.x" then some s.advX else if name == "shift.x" then some s.shiftX
                else if name == "shift.y" then some s.shiftY else none
    | none => none
  | .metric slot name =>
    match (match slot with | some j => slotAt j | none => cur) with
    | some s => if name == "advancewidth" then some (p.advOf s.gid) else none
    | none => none
  | .un op e =>
    match op, evalE p slotAt cur e with
    | "-", some v => some (unVal .neg v)
    | "!", some v => some (unVal .not v)
    | _, _ => none
  | .bin op a b =>
    match evalE p slotAt cur a, evalE p slotAt cur b with
    | some va, some vb =>
      let o : Option BinOp := match op with
        | "+" => some .add | "-" => some .sub | "*" => some .mul | "/" => some .div | "min" => some .min | "max" => some .max
        | "&&" => some .and | "||" => some .or | "==" => some .eq | "!=" => some .ne | "<" => some .lt | ">" => some .gt
        | "<=" => some .le | ">=" => some .ge | _ => none
      o.bind fun o => binVal o va vb
    | _, _ => none
  | .cond c a b =>
    match evalE p slotAt cur c, evalE p slotAt cur a, evalE p slotAt cur b with
    | some vc, some va, some vb => some (if vc ≠ 0 then va else vb)
    | _, _, _ => none

/-- The input slots a rule would consume at this point: `out` = slots already produced by this pass (in order),
    `inp` = slots still to be processed. Returns the slots matched by the input items (in item order) or none. -/
def matchSlots (p : Prog) (r : RuleIR) (out inp : List Slot) : Option (List Slot) :=
  let pre := r.preCount
  if out.length < pre then none
  else
    let window := out.drop (out.length - pre) ++ inp
    let classes := r.inputClasses
    if window.length < classes.length then none
    else
      let ms := window.take classes.length
      if (ms.zip classes).all (fun (s, c) => (clsOf p c).contains s.gid) then some ms else none

/-- input index (position among the input items) of item `j` (0-based) -/
def inIdx (r : RuleIR) (j : Nat) : Nat := ((r.items.take j).filter (·.inCls.isSome)).length

/-- `none` = some constraint stops the machine (division by zero ...): outside the fragment. The conditions of the
    enclosing `if` branches (feature tests) come first. -/
def constraintsHold (p : Prog) (r : RuleIR) (ms : List Slot) : Option Bool :=
  let ifsOk : Option Bool := r.ifs.foldl (fun acc c =>
    match acc, evalE p (fun _ => none) none c with
    | some b, some v => some (b && v ≠ 0)
    | _, _ => none) (some true)
  r.items.zipIdx.foldl (fun acc (it, j) =>
    match acc, it.constraint with
    | none, _ => none
    | some b, none => some b
    | some b, some c =>
      let slotAt (k : Nat) : Option Slot :=
        match r.items[k - 1]? with
        | some itk => if itk.inCls.isSome then ms[inIdx r (k - 1)]? else none
        | none => none
      match evalE p slotAt (ms[inIdx r j]?) c with
      | some v => some (b && v ≠ 0)
      | none => none) ifsOk

/-- Apply a matched rule. Returns the slots produced for the items from the first modified one on (one entry per item:
    none for a deleted item), or none if the machine stops. `ms` = matched input slots. -/
def applyRule (p : Prog) (r : RuleIR) (ms : List Slot) (baseIdx : Nat := 0) : Option (List (Option Slot)) := Id.run do
  let pre := r.preCount
  let n := r.items.length
  -- current view of every item: starts as the input slot, replaced by the output once the item has been processed
  let mut view : Array (Option Slot) := (List.range n).toArray.map fun j =>
    match r.items[j]? with
    | some it => if it.inCls.isSome then ms[inIdx r j]? else none
    | none => none
  let mut res : List (Option Slot) := []
  let mut stop := false
  for j in [pre:n] do
    let it := r.items.getD j default
    let inSlot : Option Slot := if it.inCls.isSome then ms[inIdx r j]? else none
    if !it.mod then
      res := res ++ [inSlot]
    else
      match it.out with
      | some .del =>
        view := view.set! j none
        res := res ++ [none]
      | _ =>
        -- glyph
        let selItem := match it.out with | some (.cls _ (some s)) => s - 1 | _ => j
        let selCls := match r.items[selItem]? with | some si => si.inCls | none => none
        let selSlot : Option Slot := match r.items[selItem]? with
          | some si => if si.inCls.isSome then ms[inIdx r selItem]? else none
          | none => none
        let gid : Option Nat :=
          match it.out with
          | some (.cls oc _) =>
            let outVal := clsOf p oc
            if outVal.length == 1 then outVal[0]?
            else
              match selCls, selSlot with
              | some sc, some ss =>
                let sv := clsOf p sc
                let i := sv.idxOf ss.gid
                if i < sv.length then outVal[i]? else none
              | _, _ => outVal[0]?
          | some (.copy k) =>
            let src : Option Slot := match r.items[k - 1]? with
              | some itk => if itk.inCls.isSome then ms[inIdx r (k - 1)]? else none
              | none => none
            src.map (·.gid)
          | _ => inSlot.map (·.gid)
        -- associations: explicit, or the own input slot; an inserted item without associations takes the next input's
        let assocSlots : List Slot :=
          if it.assoc.isEmpty then (match inSlot with | some s => [s] | none => [])
          else it.assoc.filterMap fun a => match r.items[a - 1]? with
            | some ia => if ia.inCls.isSome then ms[inIdx r (a - 1)]? else none
            | none => none
        let before := assocSlots.foldl (fun m s => min m s.before) (match assocSlots with | s :: _ => s.before | [] => 0)
        let after := assocSlots.foldl (fun m s => max m s.after) 0
        let base : Slot := match it.out, inSlot with
          | some (.copy k), _ =>
            let src : Option Slot := match r.items[k - 1]? with
              | some itk => if itk.inCls.isSome then ms[inIdx r (k - 1)]? else none
              | none => none
            src.getD { gid := 0, user := [], before := 0, after := 0 }
          | _, some s => s
          | _, none => { gid := 0, user := List.replicate p.nuser 0, before := 0, after := 0 }
        let delNoAssoc := r.items.zipIdx.any fun (x, k) =>
          x.out == some OutSpec.del ∧ !(r.items.any fun y => y.assoc.contains (k + 1))
        let newGid := gid.getD 0
        -- a rule written with '>' puts a glyph into the slot, which resets the advance to that glyph's advance width
        let hasArrow0 : Bool := r.items.any fun x => x.mod && (x.out.isSome || x.inCls.isNone)
        let mut s : Slot := { base with gid := newGid, before := before, after := after,
                                        assocOk := !delNoAssoc && assocSlots.all (·.assocOk),
                                        advX := if hasArrow0 then p.advOf newGid else base.advX }
        -- attribute assignments, in order; reads see the current view (this slot included)
        for a in it.attrs do
          if a.attr == "advance.x" ∨ a.attr == "shift.x" ∨ a.attr == "shift.y" ∨ a.attr == "kern.x" then
            let hasArrow : Bool := r.items.any fun x => x.mod && (x.out.isSome || x.inCls.isNone)
            let changedItem (k0 : Nat) : Bool :=
              match r.items[k0]? with
              | some itk => (itk.mod && hasArrow && itk.out != some OutSpec.del)
              | none => false
            let slotAt (k : Nat) : Option Slot :=
              match r.items[k - 1]? with
              | some itk =>
                if itk.inCls.isNone then (if k - 1 == j then some s else none)
                else if changedItem (k - 1) then ms[inIdx r (k - 1)]?
                else if k - 1 == j then some s
                else view.getD (k - 1) none
              | none => none
            match evalE p slotAt (slotAt (j + 1)) a.val with
            | none => stop := true
            | some v =>
              let upd (old : Int) : Int := if a.op == "=" then v else if a.op == "+=" then old + v else old - v
              if a.attr == "advance.x" then s := { s with advX := upd s.advX }
              else if a.attr == "shift.x" then s := { s with shiftX := upd s.shiftX }
              else if a.attr == "shift.y" then s := { s with shiftY := upd s.shiftY }
              else s := { s with shiftX := v, advX := p.advOf s.gid + v }     -- kern.x = v
          if a.attr == "user" then
            -- Which state of a slot does a read see?  libgraphite2 keeps a copy of every slot that the rule both changes
            -- (put_glyph / put_subs / put_copy: every modified item of a rule written with '>') and reads (any @k, a read
            -- of the item's own attributes, or the item's own selector in a class-to-class substitution); reads of such a
            -- slot - also by its own item - see it as it was when the rule matched.  A slot on which the rule only sets
            -- attributes is changed in place, and reads see the assignments made so far.  This is the reference
            -- engine's behaviour; the GDL text itself only says that references denote the matched slots.
            let hasArrow : Bool := r.items.any fun x => x.mod && (x.out.isSome || x.inCls.isNone)
            let changedItem (k0 : Nat) : Bool :=
              match r.items[k0]? with
              | some itk =>
                let notSelfCopy : Bool := match itk.out with | some (.copy n) => n != k0 + 1 | _ => true
                (itk.mod && hasArrow && notSelfCopy && itk.out != some OutSpec.del)
              | none => false
            let slotAt (k : Nat) : Option Slot :=
              match r.items[k - 1]? with
              | some itk =>
                if itk.inCls.isNone then (if k - 1 == j then some s else none)
                else if changedItem (k - 1) then ms[inIdx r (k - 1)]?
                else if k - 1 == j then some s
                else view.getD (k - 1) none
              | none => none
            let curRead : Option Slot := slotAt (j + 1)
            match evalE p slotAt curRead a.val with
            | none => stop := true
            | some v =>
              let old := s.user.getD a.idx 0
              let nv := if a.op == "=" then v else if a.op == "+=" then wrap32 (old + v) else wrap32 (old - v)
              let u := if s.user.length ≤ a.idx then s.user ++ List.replicate (a.idx + 1 - s.user.length) 0 else s.user
              s := { s with user := u.set a.idx (w16 nv) }
        -- attachment: parent = the slot of the named item (its index in the stream: no slot is added or removed in a
        -- positioning pass), points taken from the parent's and the own glyph
        match it.attach with
        | some at_ =>
          match r.items[at_.to - 1]? with
          | some itt =>
            if itt.inCls.isSome then
              let tgt := (view.getD (at_.to - 1) none).getD default
              s := { s with parent := some (baseIdx + inIdx r (at_.to - 1)), attAt := p.pointOf at_.atP tgt.gid, attWith := p.pointOf at_.withP s.gid }
          | none => pure ()
        | none => pure ()
        view := view.set! j (some s)
        res := res ++ [some s]
  if stop then return none
  return some res

/-- Rules of a pass in trial order: more matched items first, source order among equals. -/
def trialLe (x y : RuleIR × Nat) : Bool := decide (x.1.sortKey > y.1.sortKey ∨ (x.1.sortKey == y.1.sortKey ∧ x.2 ≤ y.2))

def trialOrder (rules : List RuleIR) : List RuleIR := (rules.zipIdx.mergeSort trialLe).map (·.1)

/-- The trial order tries exactly the rules of the pass, each once ... -/
theorem trialOrder_perm (rules : List RuleIR) : (trialOrder rules).Perm rules := by
  unfold trialOrder
  have h := (List.mergeSort_perm rules.zipIdx trialLe).map (·.1)
  have h2 : rules.zipIdx.map (·.1) = rules := by simp
  rw [h2] at h
  exact h

/-- ... and never a rule with fewer matched items before one with more. -/
theorem trialOrder_sorted (rules : List RuleIR) :
    (trialOrder rules).Pairwise (fun a b => a.sortKey ≥ b.sortKey) := by
  unfold trialOrder
  have ht : ∀ (a b c : RuleIR × Nat), trialLe a b = true → trialLe b c = true → trialLe a c = true := by
    intro a b c hab hbc
    simp only [trialLe, decide_eq_true_eq, beq_iff_eq] at *
    omega
  have htot : ∀ (a b : RuleIR × Nat), (trialLe a b || trialLe b a) = true := by
    intro a b
    simp only [trialLe, Bool.or_eq_true, decide_eq_true_eq, beq_iff_eq]
    omega
  have hs := List.pairwise_mergeSort (le := trialLe) ht htot rules.zipIdx
  rw [List.pairwise_map]
  refine hs.imp ?_
  intro a b hab
  simp only [trialLe, decide_eq_true_eq, beq_iff_eq] at hab
  omega

/-- One pass: scan with fuel. The Bool is set when a rule application moves nothing to the output side (`^` at or before
    the first item it keeps): the engine then relies on its MaxRuleLoop counter, which this interpreter does not model;
    such a run is reported as outside the fragment. -/
def runPass (p : Prog) (rules : List RuleIR) : Nat → List Slot → List Slot → List Slot × Bool
  | 0, out, inp => (out ++ inp, !inp.isEmpty)
  | fuel + 1, out, inp =>
    match inp with
    | [] => (out, false)
    | first :: restInp =>
      -- first rule in trial order that matches; `Except` = a constraint stopped the machine
      let fired : Except Unit (Option (RuleIR × List Slot)) := (trialOrder rules).foldl (fun acc r =>
        match acc with
        | .error e => .error e
        | .ok (some x) => .ok (some x)
        | .ok none =>
          match matchSlots p r out inp with
          | some ms =>
            match constraintsHold p r ms with
            | some true => .ok (some (r, ms))
            | some false => .ok none
            | none => .error ()
          | none => .ok none) (.ok none)
      match fired with
      | .error _ => (out ++ inp, true)
      | .ok none => runPass p rules fuel (out ++ [first]) restInp
      | .ok (some (r, ms)) =>
        match applyRule p r ms (out.length - r.preCount) with
        | none => (out ++ inp, true)       -- the machine stopped in the action: outside the fragment
        | some produced =>
          let pre := r.preCount
          let n := r.items.length
          let limMod := n - (r.items.reverse.takeWhile (fun it => !it.mod)).length
          let caret := match r.caret with | some c => c | none => limMod
          -- items pre .. caret-1 go to the output side; the rest (with their new contents) is processed again
          let consumed := ((r.items.drop pre).filter (·.inCls.isSome)).length
          let left := (produced.take (caret - pre)).filterMap id
          let right := (produced.drop (caret - pre)).filterMap id
          let consumedLeft := (((r.items.drop pre).take (caret - pre)).filter (·.inCls.isSome)).length
          if consumedLeft == 0 then (out ++ inp, true)
          else runPass p rules fuel (out ++ left) (right ++ inp.drop consumed)

def initialSlots (p : Prog) (gids : List Nat) : List Slot :=
  gids.zipIdx.map fun (g, i) => { gid := g, user := List.replicate p.nuser 0, before := i, after := i, advX := p.advOf g, uid := i + 1 }

/-! ### The engine's scan loop (libgraphite2 Pass::runGraphite / findNDoRule / doAction / adjustSlot)

  `seg` is the slot stream, `pos` the index of the current slot `s` (= length: no slot, the pass ends). The engine keeps a
  *highwater mark* `hw` - the slot up to which input has been looked at for the first time - a flag `hp` saying that an
  action or a position adjustment went past it, and a counter `lc` of iterations made without reaching it: after
  MaxRuleLoop such iterations the scan is moved to the mark. A rule's action returns how many slots to move from the
  slot after the last item it handled (`^`); 0 without `^`. This interpreter follows that loop; when the counter runs out
  it reports the run as outside the fragment instead of guessing where the engine jumps to. -/

structure Scan where
  seg : List Slot
  pos : Nat
  hw : Option Nat        -- uid of the highwater slot; none = past the end
  hp : Bool
  lc : Nat
  fresh : Nat            -- next unused uid

def maxRuleLoop : Nat := 5

def uidAt (seg : List Slot) (i : Nat) : Option Nat := (seg[i]?).map (·.uid)

/-- One iteration of the loop. Returns the new state, or `none` with the segment when the run leaves the fragment. -/
def scanStep (p : Prog) (rules : List RuleIR) (st : Scan) : Except (List Slot) Scan :=
  let out := st.seg.take st.pos
  let inp := st.seg.drop st.pos
  let fired : Except Unit (Option (RuleIR × List Slot)) := (trialOrder rules).foldl (fun acc r =>
    match acc with
    | .error e => .error e
    | .ok (some x) => .ok (some x)
    | .ok none =>
      match matchSlots p r out inp with
      | some ms =>
        match constraintsHold p r ms with
        | some true => .ok (some (r, ms))
        | some false => .ok none
        | none => .error ()
      | none => .ok none) (.ok none)
  -- the check at the bottom of the engine's loop
  let finish (seg : List Slot) (pos : Nat) (hw : Option Nat) (hp : Bool) (fresh : Nat) : Except (List Slot) Scan :=
    if pos ≥ seg.length then .ok { seg, pos := seg.length, hw, hp, lc := st.lc, fresh }
    else if uidAt seg pos == hw ∨ hp then .ok { seg, pos, hw := uidAt seg (pos + 1), hp := false, lc := maxRuleLoop, fresh }
    else if st.lc ≤ 1 then
      -- MaxRuleLoop iterations without reaching the mark: the scan is moved to the mark
      match hw with
      | none => .ok { seg, pos := seg.length, hw, hp, lc := maxRuleLoop, fresh }
      | some u =>
        let j := seg.findIdx (·.uid == u)
        if j ≥ seg.length then .error seg      -- the marked slot is gone: not a state the engine can be in
        else .ok { seg, pos := j, hw := uidAt seg (j + 1), hp := false, lc := maxRuleLoop, fresh }
    else .ok { seg, pos, hw, hp, lc := st.lc - 1, fresh }
  match fired with
  | .error _ => .error st.seg
  | .ok none => finish st.seg (st.pos + 1) st.hw st.hp st.fresh
  | .ok (some (r, ms)) =>
    match applyRule p r ms (out.length - r.preCount) with
    | none => .error st.seg
    | some produced0 =>
      let pre := r.preCount
      let n := r.items.length
      let limMod := n - (r.items.reverse.takeWhile (fun it => !it.mod)).length
      -- identities: an item with an input slot is that slot object; an inserted item is a new one
      let (produced, fresh) := ((produced0.zip (List.range' pre (n - pre))).foldl (fun (acc : List (Option Slot) × Nat) (o, j) =>
          match o, (r.items.getD j default).inCls with
          | some s, some _ => (acc.1 ++ [some { s with uid := ((ms[inIdx r j]?).map (·.uid)).getD s.uid }], acc.2)
          | some s, none => (acc.1 ++ [some { s with uid := acc.2 }], acc.2 + 1)
          | none, _ => (acc.1 ++ [none], acc.2)) ([], st.fresh))
      let consumed := ((r.items.drop pre).filter (·.inCls.isSome)).length
      let newSeg := out ++ produced.filterMap id ++ inp.drop consumed
      -- the action's walk over the items it handles: `next` from the marked slot sets the flag; deleting the marked slot
      -- moves the mark to the slot after it; inserting before the marked slot clears the flag
      let handled := limMod
      let walk := (List.range' pre (handled - pre)).foldl (fun (acc : Option Nat × Bool × Option Nat) j =>
          -- acc = (hw, hp, uid of the last surviving slot before the current item)
          let (hw, hp, prevU) := acc
          let it := r.items.getD j default
          let inU : Option Nat := if it.inCls.isSome then (ms[inIdx r j]?).map (·.uid) else none
          match it.inCls, it.out with
          | none, _ =>
            -- insertion: `is` is the next input slot
            let nextIn : Option Nat := ((List.range' j (n - j)).filterMap fun k =>
              if (r.items.getD k default).inCls.isSome then (ms[inIdx r k]?).map (·.uid) else none).head?
            let nextIn' := match nextIn with | some u => some u | none => uidAt st.seg (st.pos + consumed)
            let hp' := if nextIn' == hw ∧ hw.isSome then false else hp
            let newU := ((produced[j - pre]?).bind id).map (·.uid)
            (hw, hp', newU)
          | some _, some .del =>
            -- deletion: the mark moves on if it was on this slot; then `next` is executed from the slot before
            let following : Option Nat := ((List.range' (j + 1) (n - (j + 1))).filterMap fun k =>
              if (r.items.getD k default).inCls.isSome then (ms[inIdx r k]?).map (·.uid) else none).head?
            let following' := match following with | some u => some u | none => uidAt st.seg (st.pos + consumed)
            let (hw1, hp1) := if inU == hw ∧ hw.isSome then (following', false) else (hw, hp)
            let from_ := match prevU with | some u => some u | none => (if st.pos + 0 == 0 ∧ j == pre then inU else uidAt st.seg (st.pos - 1))
            let hp2 := if from_ == hw1 ∧ hw1.isSome then true else hp1
            (hw1, hp2, prevU)
          | some _, _ =>
            let hp' := if inU == hw ∧ hw.isSome then true else hp
            (hw, hp', inU)) (st.hw, false, (if st.pos == 0 then none else uidAt st.seg (st.pos - 1)))
      let (hw1, hp1, _) := walk
      -- where the scan goes on
      let kept (k : Nat) : Int := (((r.items.take k).filter fun it => it.out != some OutSpec.del).length : Int)
      let adv : Int := match r.caret with | some c => kept c - kept handled | none => 0
      let keptHandled := ((produced.take (handled - pre)).filterMap id).length
      let idx0 := st.pos + keptHandled          -- the slot after the last item handled (= length: none)
      if newSeg.isEmpty then .ok { seg := newSeg, pos := 0, hw := none, hp := false, lc := st.lc, fresh }
      else
        let (idx1, delta, hp2) : Nat × Int × Bool :=
          if idx0 ≥ newSeg.length then
            if hp1 ∨ hw1.isNone then
              let last := newSeg.length - 1
              (last, adv + 1, if hw1.isNone ∨ hw1 == uidAt newSeg last then false else hp1)
            else (0, adv - 1, hp1)
          else (idx0, adv, hp1)
        -- move `delta` slots
        let rec move (fuel : Nat) (idx : Option Nat) (d : Int) (hp : Bool) : Option Nat × Bool :=
          match fuel, idx with
          | 0, _ => (idx, hp)
          | _, none => (none, hp)
          | f + 1, some i =>
            if d < 0 then
              if i == 0 then (none, hp)
              else
                let i' := i - 1
                move f (some i') (d + 1) (if hp ∧ hw1 == uidAt newSeg i' then false else hp)
            else if d > 0 then
              let hp' := if uidAt newSeg i == hw1 ∧ hw1.isSome then true else hp
              if i + 1 ≥ newSeg.length then (none, hp') else move f (some (i + 1)) (d - 1) hp'
            else (some i, hp)
        let (idx2, hp3) := move (newSeg.length + 4) (some idx1) delta hp2
        match idx2 with
        | none => .ok { seg := newSeg, pos := newSeg.length, hw := hw1, hp := hp3, lc := st.lc, fresh }
        | some i => finish newSeg i hw1 hp3 fresh

def runScan (p : Prog) (rules : List RuleIR) : Nat → Scan → List Slot × Bool
  | 0, st => (st.seg, st.pos < st.seg.length)
  | fuel + 1, st =>
    if st.pos ≥ st.seg.length then (st.seg, false)
    else
      match scanStep p rules st with
      | .error seg => (seg, true)
      | .ok st' => runScan p rules fuel st'

/-- One pass over the whole stream with the engine's loop. -/
def runPassE (p : Prog) (rules : List RuleIR) (fuel : Nat) (slots : List Slot) : List Slot × Bool :=
  if rules.isEmpty then (slots, false)
  else
    let fresh := (slots.foldl (fun m s => max m s.uid) 0) + 1
    runScan p rules fuel { seg := slots, pos := 0, hw := uidAt slots 1, hp := false, lc := maxRuleLoop, fresh }

def shape (p : Prog) (gids : List Nat) : List Slot × Bool :=
  p.ir.passes.foldl (fun (slots, st) pj =>
      let (o, st') := runPassE p pj.rules (8 * slots.length + 8 * (pj.rules.foldl (fun m r => m + r.items.length) 0) + 64) slots
      (o, st || st'))
    (initialSlots p gids, false)

/-! ### Final positions (the engine's `Slot::finalise`, left-to-right, no justification, no collision)

  A base slot (not attached) is placed at the running position plus its shift; an attached slot at its parent's
  position plus its own shift plus (point on the parent - point on itself).  The running position advances by the
  largest of: the base's advance, and for every attached slot with a non-zero advance its right edge
  (position + advance - shift).  If an attached slot with an advance (or a negative position) starts left of the
  cluster's origin, the whole cluster is moved right by that amount. -/

def children (slots : Array Slot) (i : Nat) : List Nat :=
  (List.range slots.size).filter fun j => j != i && (slots.getD j default).parent == some i

mutual
/-- returns (right edge contributed, positions, cluster minimum) -/
def finNode (slots : Array Slot) : Nat → Nat → Int × Int → Array (Int × Int) → Int → (Int × Array (Int × Int) × Int)
  | 0, _, _, pos, cmin => (0, pos, cmin)
  | fuel + 1, i, base, pos, cmin =>
    let s := slots.getD i default
    let isRoot := s.parent.isNone
    let p0 : Int × Int := (base.1 + s.shiftX, base.2 + s.shiftY)
    let pHere : Int × Int := if isRoot then p0 else (p0.1 + s.attAt.1 - s.attWith.1, p0.2 + s.attAt.2 - s.attWith.2)
    let hasAdv := s.advX ≥ 1
    let res0 : Int := if isRoot then base.1 + s.advX else (if hasAdv then pHere.1 + s.advX - s.shiftX else 0)
    let cmin1 : Int := if isRoot then pHere.1 else (if (hasAdv ∨ pHere.1 < 0) ∧ pHere.1 < cmin then pHere.1 else cmin)
    let pos1 := pos.set! i pHere
    let (resKids, pos2, cmin2) := finKids slots fuel (children slots i) pHere pos1 cmin1
    let res1 : Int := match resKids with
      | some rk => if (isRoot ∨ hasAdv) ∧ rk > res0 then rk else res0
      | none => res0
    if isRoot ∧ cmin2 < base.1 then
      let adj := pHere.1 - cmin2
      -- move the whole cluster (this slot and everything attached to it, directly or not)
      let inCluster (j : Nat) : Bool := Id.run do
        let mut k := j
        for _ in [0:slots.size] do
          if k == i then return true
          match (slots.getD k default).parent with
          | some q => k := q
          | none => return false
        return false
      let pos3 := (List.range slots.size).foldl (fun (a : Array (Int × Int)) j =>
        if inCluster j then a.set! j ((a.getD j (0, 0)).1 + adj, (a.getD j (0, 0)).2) else a) pos2
      (res1 + adj, pos3, cmin2)
    else (res1, pos2, cmin2)

def finKids (slots : Array Slot) : Nat → List Nat → Int × Int → Array (Int × Int) → Int → (Option Int × Array (Int × Int) × Int)
  | 0, _, _, pos, cmin => (none, pos, cmin)
  | _, [], _, pos, cmin => (none, pos, cmin)
  | fuel + 1, c :: rest, base, pos, cmin =>
    let (rc, pos1, cmin1) := finNode slots fuel c base pos cmin
    let (rr, pos2, cmin2) := finKids slots fuel rest base pos1 cmin1
    let r : Int := match rr with | some x => if x > rc then x else rc | none => rc
    (some r, pos2, cmin2)
end

def positions (slotsL : List Slot) : List (Int × Int) :=
  let slots := slotsL.toArray
  let n := slots.size
  let (_, pos) := (List.range n).foldl (fun (acc : Int × Array (Int × Int)) i =>
      if (slots.getD i default).parent.isNone then
        let (res, pos', _) := finNode slots (2 * n + 2) i (acc.1, 0) acc.2 acc.1
        (res, pos')
      else acc) ((0 : Int), Array.replicate n ((0 : Int), (0 : Int)))
  pos.toList

/-- If no rule of the pass matches anywhere, a step of the engine loop leaves the slot stream as it is (it only moves
    the position, the mark and the counter). -/
theorem scanStep_no_match (p : Prog) (rules : List RuleIR) (st : Scan)
    (h : ∀ r ∈ rules, ∀ out inp, matchSlots p r out inp = none) :
    (∃ st', scanStep p rules st = .ok st' ∧ st'.seg = st.seg) ∨ scanStep p rules st = .error st.seg := by
  have hf : ∀ (l : List RuleIR), (∀ r ∈ l, r ∈ rules) →
      l.foldl (fun (acc : Except Unit (Option (RuleIR × List Slot))) r =>
        match acc with
        | .error e => .error e
        | .ok (some x) => .ok (some x)
        | .ok none =>
          match matchSlots p r (st.seg.take st.pos) (st.seg.drop st.pos) with
          | some ms =>
            match constraintsHold p r ms with
            | some true => .ok (some (r, ms))
            | some false => .ok none
            | none => .error ()
          | none => .ok none) (.ok none) = .ok none := by
    intro l
    induction l with
    | nil => intro _; rfl
    | cons r l ih =>
      intro hl
      rw [List.foldl_cons]
      simp only [h r (hl r List.mem_cons_self)]
      exact ih (fun x hx => hl x (List.mem_cons_of_mem _ hx))
  have hfired := hf (trialOrder rules) (fun r hr => (trialOrder_perm rules).mem_iff.mp hr)
  unfold scanStep
  simp only [hfired]
  by_cases h1 : st.pos + 1 ≥ st.seg.length
  · left; simp only [h1, if_true]; exact ⟨_, rfl, rfl⟩
  · simp only [h1, if_false]
    by_cases h2 : uidAt st.seg (st.pos + 1) == st.hw ∨ st.hp
    · left; simp only [h2, if_true]; exact ⟨_, rfl, rfl⟩
    · simp only [h2, if_false]
      by_cases h3 : st.lc ≤ 1
      · simp only [h3, if_true]
        cases hhw : st.hw with
        | none => left; exact ⟨_, rfl, rfl⟩
        | some u =>
          simp only
          by_cases h4 : List.findIdx (fun x => x.uid == u) st.seg ≥ st.seg.length
          · right; simp only [h4, if_true]
          · left; simp only [h4, if_false]; exact ⟨_, rfl, rfl⟩
      · left; simp only [h3, if_false]; exact ⟨_, rfl, rfl⟩

/-- A pass none of whose rules matches anywhere is the identity on the slot stream, for every text, whatever the loop
    counter does. -/
theorem runPassE_no_match (p : Prog) (rules : List RuleIR) (fuel : Nat) (slots : List Slot)
    (h : ∀ r ∈ rules, ∀ out inp, matchSlots p r out inp = none) : (runPassE p rules fuel slots).1 = slots := by
  unfold runPassE
  split
  · rfl
  · have : ∀ (fuel : Nat) (st : Scan), (runScan p rules fuel st).1 = st.seg := by
      intro fuel
      induction fuel with
      | zero => intro st; rfl
      | succ f ih =>
        intro st
        unfold runScan
        split
        · rfl
        · rcases scanStep_no_match p rules st h with ⟨st', h1, h2⟩ | h1
          · rw [h1]; simp only; rw [ih st', h2]
          · rw [h1]
    rw [this]

/-- The scan never loses or invents slots when no rule applies: a pass without rules is the identity. -/
theorem runPass_no_rules (p : Prog) (fuel : Nat) (out inp : List Slot) (h : inp.length ≤ fuel) :
    (runPass p [] fuel out inp).1 = out ++ inp := by
  induction fuel generalizing out inp with
  | zero =>
    have : inp = [] := by cases inp <;> simp_all
    subst this; simp [runPass]
  | succ n ih =>
    cases inp with
    | nil => simp [runPass]
    | cons s rest =>
      simp only [runPass, trialOrder, List.zipIdx_nil, List.mergeSort_nil, List.map_nil, List.foldl_nil]
      rw [ih _ _ (by simp at h; omega)]
      simp

end Grc.Eng

