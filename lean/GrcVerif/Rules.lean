/-
  Model of the rule-level bookkeeping the compiler performs before building the FSM
  (GdlPass::FixRulePreContexts, GdlRule::CountRulePreContexts, GdlRule::SortKey, NumberOfInputItems).
-/
import GrcVerif.IR
namespace Grc

/-- Number of items before the first modified item (CountRulePreContexts). -/
def RuleIR.preCount (r : RuleIR) : Nat := (r.items.takeWhile (fun it => !it.mod)).length

def passMaxPre (rules : List RuleIR) : Nat := rules.foldl (fun m r => max m r.preCount) 0

def passMinPre (rules : List RuleIR) : Nat :=
  match rules with
  | [] => 0
  | r :: rs => rs.foldl (fun m r => min m r.preCount) r.preCount

/-- Classes of the items that consume an input glyph (insertions excluded), in order. -/
def RuleIR.inputClasses (r : RuleIR) : List Nat := r.items.filterMap (·.inCls)

/-- Items the FSM must match: ANY padding up to the pass's longest pre-context, then the input items. -/
def RuleIR.matchItems (r : RuleIR) (any maxPre : Nat) : List Nat :=
  List.replicate (maxPre - r.preCount) any ++ r.inputClasses

/-- Sort key written to the font: original item count minus insertions (= number of input items). -/
def RuleIR.sortKey (r : RuleIR) : Nat := r.inputClasses.length

end Grc
