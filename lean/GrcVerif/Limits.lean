/-
  C12: every size limit the compiler enforces (constants regenerated from constants.h on every run) fits the field
  of the binary format that stores the guarded quantity. If a limit is raised in the source beyond what its field can
  hold, `lake build` fails here.
  Core Lean only.
-/
import GrcVerif.Generated.Tables
namespace Grc.Lim
open Grc.Gen

structure Field where
  name : String
  /-- quantities q with q < bound are accepted by the compiler's guard -/
  bound : Nat
  /-- width in bits of the field that stores q (GTF) -/
  width : Nat
deriving Repr

/-- Guard (exclusive upper bound on accepted values) per field. `>=` guards give the constant itself,
    `>` guards give constant + 1. -/
def fields : List Field := [
  ⟨"Silf.numPasses (u8): pass number >= kMaxPasses is an error", kMaxPasses, 8⟩,
  ⟨"Pass.maxRuleContext (u8): more than kMaxSlotsPerRule slots is an error", kMaxSlotsPerRule + 1, 8⟩,
  ⟨"Feat.numFeat (u16): more than kMaxFeatures features is an error", kMaxFeatures + 1, 16⟩,
  ⟨"slot attribute index byte: user attribute index >= kMaxUserDefinableSlotAttrs is an error", kMaxUserDefinableSlotAttrs, 8⟩,
  ⟨"PutSubs/PutGlyph class operand (u16): class id >= kMaxReplcmtClasses is an error", kMaxReplcmtClasses, 16⟩,
  ⟨"Gloc.numAttrs (u16): >= kMaxGlyphAttrs attributes is an error", kMaxGlyphAttrs, 16⟩,
  ⟨"Glat v1 attribute id (u8): >= kMaxGlyphAttrsGlat1 attributes switches to Glat v2", kMaxGlyphAttrsGlat1, 8⟩,
  ⟨"Silf.numPseudo (u16): >= kMaxPseudos pseudo-glyphs is an error", kMaxPseudos, 16⟩,
  ⟨"Silf.numScriptTag (u8): more than kMaxScriptTags tags is an error", kMaxScriptTags + 1, 8⟩,
  ⟨"glyph id (u16): fonts above kMaxGlyphsPerFont glyphs are rejected", kMaxGlyphsPerFont + 1, 16⟩,
  ⟨"glyph attribute value (i16): |value| >= kMaxGlyphAttrValue is an error", kMaxGlyphAttrValue, 15⟩
]

/-- No accepted quantity wraps in its field. -/
theorem guarded_no_wrap : ∀ f, f ∈ fields → ∀ q, q < f.bound → q < 2 ^ f.width := by
  intro f hf q hq
  simp only [fields, List.mem_cons, List.mem_nil_iff, or_false] at hf
  rcases hf with h | h | h | h | h | h | h | h | h | h | h <;> subst h <;>
    simp only [kMaxPasses, kMaxSlotsPerRule, kMaxFeatures, kMaxUserDefinableSlotAttrs, kMaxReplcmtClasses,
      kMaxGlyphAttrs, kMaxGlyphAttrsGlat1, kMaxPseudos, kMaxScriptTags, kMaxGlyphsPerFont, kMaxGlyphAttrValue] at hq ⊢ <;> omega

end Grc.Lim
