/-
  C15: the theorems about the version ladder that depend on the numbers extracted from the source
  (Generated/Tables.lean): the proof obligations a change to CalculateSilfVersion / VersionForTable can break.
-/
import GrcVerif.Version
namespace Grc.Ver
open Grc.Gen

/-- The declared version supports every feature the table uses (for every request, every size). -/
theorem declared_version_conforms (req : Nat) (c k p : Bool) (sp : Nat) :
    (c = true → fmtCompress ≤ calcSilfVersion req c k p sp) ∧ (k = true → fmtCollision ≤ calcSilfVersion req c k p sp) ∧
    (p = true → fmtSkipPasses ≤ calcSilfVersion req c k p sp) ∧
    (sp > 0xFFFF → fmtLongClassOffsets ≤ calcSilfVersion req c k p sp) := by
  unfold calcSilfVersion
  refine ⟨?_, ?_, ?_, ?_⟩
  · intro h
    have h1 : fmtCompress ≤ bump c silfCompress req := by
      have := bump_reach c silfCompress req h; simpa [fmtCompress, silfCompress] using this
    exact Nat.le_trans (Nat.le_trans (Nat.le_trans h1 (bump_ge _ _ _)) (bump_ge _ _ _)) (bump_ge _ _ _)
  · intro h
    have h1 := bump_reach k silfCollision (bump c silfCompress req) h
    have h1' : fmtCollision ≤ bump k silfCollision (bump c silfCompress req) := by simpa [fmtCollision, silfCollision] using h1
    exact Nat.le_trans (Nat.le_trans h1' (bump_ge _ _ _)) (bump_ge _ _ _)
  · intro h
    have h1 := bump_reach p silfPassOpt (bump k silfCollision (bump c silfCompress req)) h
    have h1' : fmtSkipPasses ≤ bump p silfPassOpt (bump k silfCollision (bump c silfCompress req)) := by simpa [fmtSkipPasses, silfPassOpt] using h1
    exact Nat.le_trans h1' (bump_ge _ _ _)
  · intro h
    have hd : decide (sp > silfOffsetLimit) = true := by simp [silfOffsetLimit]; omega
    have h1 := bump_reach (decide (sp > silfOffsetLimit)) silfLongOffsets (bump p silfPassOpt (bump k silfCollision (bump c silfCompress req))) hd
    simpa [fmtLongClassOffsets, silfLongOffsets] using h1

/-- The two tables switch to their new formats at the same requested version. -/
theorem glat_gloc_switch_together (spec : Nat) :
    (glatVersionFor spec = glatNew ↔ glocVersionFor spec = glocNew) := by
  unfold glatVersionFor glocVersionFor
  simp only [glatThreshold, glocThreshold, glatNew, glatOld, glocNew, glocOld]
  by_cases h : spec ≥ 262145 <;> simp [h]

/-- Either the version has the pass-constraint field, or the request was explicit (and then no pass constraint is
    written: they are moved into the rules). T1 obligation: holds for the numbers found in the source. -/
theorem afterPassConstraints_ok (req : Nat) (u h : Bool) (hh : h = true) :
    fmtPassConstraints ≤ afterPassConstraints req u h ∨ (u = true ∧ afterPassConstraints req u h = req) := by
  unfold afterPassConstraints fmtPassConstraints
  subst hh
  simp only [passConstraintRequestLimit, passConstraintVersion]
  by_cases hr : req ≤ 196608
  · cases u <;> simp [hr]
  · left; simp [hr]; omega

theorem afterPassConstraints_ge (req : Nat) (u h : Bool) : req ≤ afterPassConstraints req u h := by
  unfold afterPassConstraints
  have hlim : passConstraintRequestLimit < passConstraintVersion := by decide
  by_cases hc : h = true ∧ req ≤ passConstraintRequestLimit ∧ ¬u = true
  · rw [if_pos hc]; omega
  · rw [if_neg hc]; omega

end Grc.Ver
