/-
  C08: validity of the sfnt container, preservation of the input font's tables, checksum algebra.
  Executable checks on real bytes + theorems about the word-sum used by the checks.
  Core Lean only.
-/
import GrcVerif.Sfnt
import GrcVerif.Tables
namespace Grc.SfntChk

/-! ### Word sums over byte lists (proof-friendly) -/

def be32 (a b c d : Nat) : Nat := ((a * 256 + b) * 256 + c) * 256 + d

/-- Sum of big-endian 32-bit words, the last word zero-padded, modulo 2^32. -/
def wordSum : List Nat → Nat
  | [] => 0
  | [a] => be32 a 0 0 0 % 4294967296
  | [a, b] => be32 a b 0 0 % 4294967296
  | [a, b, c] => be32 a b c 0 % 4294967296
  | a :: b :: c :: d :: rest => (be32 a b c d + wordSum rest) % 4294967296

theorem wordSum_lt (l : List Nat) : wordSum l < 4294967296 := by
  match l with
  | [] => simp [wordSum]
  | [a] => simp [wordSum]; omega
  | [a, b] => simp [wordSum]; omega
  | [a, b, c] => simp [wordSum]; omega
  | a :: b :: c :: d :: rest => simp [wordSum]; omega

/-- Additivity over 4-aligned concatenation: the checksum of a file is the sum of the checksums of its
    4-byte-aligned parts. -/
theorem wordSum_append (xs ys : List Nat) (h : xs.length % 4 = 0) :
    wordSum (xs ++ ys) = (wordSum xs + wordSum ys) % 4294967296 := by
  induction xs using wordSum.induct with
  | case1 => simp [wordSum, Nat.mod_eq_of_lt (wordSum_lt ys)]
  | case2 a => simp at h
  | case3 a b => simp at h
  | case4 a b c => simp at h
  | case5 a b c d rest ih =>
    have hr : rest.length % 4 = 0 := by simp at h; omega
    simp only [List.cons_append, wordSum, ih hr]
    omega

theorem wordSum_zeros (k : Nat) : wordSum (List.replicate k 0) = 0 := by
  induction k using Nat.strongRecOn with
  | _ k ih =>
    match k with
    | 0 => simp [wordSum]
    | 1 => simp [wordSum, be32, List.replicate]
    | 2 => simp [wordSum, be32, List.replicate]
    | 3 => simp [wordSum, be32, List.replicate]
    | k + 4 =>
      have := ih k (by omega)
      simp only [List.replicate_succ, wordSum, this, be32]

/-- Zero padding does not change the sum. -/
theorem wordSum_pad (xs : List Nat) (k : Nat) : wordSum (xs ++ List.replicate k 0) = wordSum xs := by
  induction xs using wordSum.induct generalizing k with
  | case1 => simpa [wordSum] using wordSum_zeros k
  | case2 a =>
    match k with
    | 0 => simp
    | 1 => simp [wordSum, List.replicate]
    | 2 => simp [wordSum, List.replicate]
    | k + 3 => simp [List.replicate_succ, wordSum, wordSum_zeros k]
  | case3 a b =>
    match k with
    | 0 => simp
    | 1 => simp [wordSum, List.replicate]
    | k + 2 => simp [List.replicate_succ, wordSum, wordSum_zeros k]
  | case4 a b c =>
    match k with
    | 0 => simp
    | k + 1 => simp [List.replicate_succ, wordSum, wordSum_zeros k]
  | case5 a b c d rest ih =>
    simp only [List.cons_append, wordSum, ih]

/-! ### Executable container check -/

def magic : Nat := 0xB1B0AFBA

def pad4 (n : Nat) : Nat := (n + 3) / 4 * 4

/-- All structural conditions of C08 on the output file. Returns the list of failures (empty = valid). -/
def checkContainer (buf : ByteArray) (f : Sfnt) : List String := Id.run do
  let mut out : List String := []
  let n := f.hdr.numTables
  if f.hdr.version != 0x00010000 ∧ f.hdr.version != 0x74727565 ∧ f.hdr.version != 0x4F54544F then
    out := out ++ [s!"sfnt version {f.hdr.version}"]
  let (p2, lg) := searchConsts n
  if f.hdr.searchRange != p2 * 16 ∨ f.hdr.entrySelector != lg ∨ f.hdr.rangeShift != n * 16 - p2 * 16 then
    out := out ++ [s!"search header ({f.hdr.searchRange},{f.hdr.entrySelector},{f.hdr.rangeShift}) wrong for {n} tables"]
  -- directory strictly sorted by tag
  for (a, b) in f.dir.zip (f.dir.drop 1) do
    if !(a.tag < b.tag) then out := out ++ [s!"directory not sorted/unique at {tagStr a.tag},{tagStr b.tag}"]
  let dataStart := 12 + 16 * n
  for e in f.dir do
    if e.offset % 4 != 0 then out := out ++ [s!"table {tagStr e.tag} offset {e.offset} not 4-byte aligned"]
    if e.offset < dataStart then out := out ++ [s!"table {tagStr e.tag} overlaps the directory"]
    if e.offset + e.length > buf.size then out := out ++ [s!"table {tagStr e.tag} [{e.offset},{e.offset + e.length}) beyond file size {buf.size}"]
  -- pairwise disjoint
  for a in f.dir do
    for b in f.dir do
      if a.tag < b.tag then
        if a.offset < b.offset + b.length ∧ b.offset < a.offset + a.length then
          out := out ++ [s!"tables {tagStr a.tag} and {tagStr b.tag} overlap"]
  -- checksums
  for e in f.dir do
    if e.offset + e.length ≤ buf.size then
      let cs :=
        if e.tag == tagHead ∧ e.length ≥ 12 then
          -- head is summed with checkSumAdjustment taken as zero
          let whole := checksumRange buf e.offset e.length
          let adj := beU32 buf (e.offset + 8)
          (whole + 4294967296 - adj) % 4294967296
        else checksumRange buf e.offset e.length
      if cs != e.checksum then out := out ++ [s!"table {tagStr e.tag} checksum {e.checksum} but content sums to {cs}"]
  -- whole file
  let total := checksumRange buf 0 buf.size
  if total != magic then out := out ++ [s!"file checksum {total} != 0xB1B0AFBA (head.checkSumAdjustment wrong)"]
  -- padding bytes between tables are zero / file is covered (informational strictness: file length is 4-aligned end of last table)
  return out

/-- Preservation: every table of the input other than name and Graphite tables is byte-identical in the output;
    the output adds exactly the five Graphite tables. -/
def checkPreserved (inBuf : ByteArray) (fi : Sfnt) (outBuf : ByteArray) (fo : Sfnt) : List String := Id.run do
  let mut out : List String := []
  for e in fi.dir do
    if !isGraphiteTag e.tag ∧ e.tag != tagName then
      match fo.find? e.tag with
      | none => out := out ++ [s!"input table {tagStr e.tag} missing from output"]
      | some eo =>
        match tableBytes inBuf e, tableBytes outBuf eo with
        | some a, some b =>
          -- head: identical apart from checkSumAdjustment (bytes 8..11), which must change with the file
          let same :=
            if e.tag == tagHead ∧ a.size == b.size ∧ a.size ≥ 12 then
              a.extract 0 8 == b.extract 0 8 ∧ a.extract 12 a.size == b.extract 12 b.size
            else a == b
          if !same then out := out ++ [s!"table {tagStr e.tag} differs from the input font"]
        | _, _ => out := out ++ [s!"table {tagStr e.tag} out of bounds"]
  for eo in fo.dir do
    if !isGraphiteTag eo.tag then
      if (fi.find? eo.tag).isNone then out := out ++ [s!"output has table {tagStr eo.tag} that the input lacks"]
  for t in [tagSilf, tagGlat, tagGloc, tagFeat, tagSill] do
    if (fo.dir.filter (·.tag == t)).length != 1 then out := out ++ [s!"output must contain exactly one {tagStr t}"]
  if (fo.find? tagSile).isSome then out := out ++ ["unexpected Sile table"]
  if (fi.find? tagName).isSome ∧ (fo.find? tagName).isNone then out := out ++ ["name table missing from output"]
  return out

/-- name table: every input record keeps its content, except family-derived ids when renaming; new records use ids
    that the input does not use. -/
def checkNames (inRecs outRecs : Array NameRec) (renamed : Bool) : List String := Id.run do
  let mut out : List String := []
  let derived : List Nat := [1, 3, 4, 6, 16, 18]
  let key (r : NameRec) := (r.platform, r.encoding, r.language, r.nameId)
  for r in inRecs do
    let cands := outRecs.filter (fun o => key o == key r)
    if cands.isEmpty then out := out ++ [s!"name record {key r} missing from output"]
    else
      -- renaming replaces the family-derived names of the ENGLISH (or language-neutral) records only: Unicode platform,
      -- Macintosh Roman / English, Microsoft with an English language id; names in other languages are kept (warning 5503)
      let english := r.platform == 0 ∨ (r.platform == 1 ∧ r.encoding == 0 ∧ r.language == 0) ∨ (r.platform == 3 ∧ r.language % 1024 == 9)
      if !(cands.any (fun o => o.str == r.str)) ∧ !(renamed ∧ english ∧ derived.contains r.nameId) then
        out := out ++ [s!"name record {key r} content changed"]
  let usedIds := inRecs.toList.map (·.nameId)
  for o in outRecs do
    if (inRecs.find? (fun r => key r == key o)).isNone then
      if usedIds.contains o.nameId then out := out ++ [s!"new name record {key o} reuses an id already used by the input font"]
      else if o.nameId < 256 then out := out ++ [s!"new name record {key o} has id < 256"]
  -- sorted as the format demands
  let lt4 (x y : Nat × Nat × Nat × Nat) : Bool :=
    x.1 < y.1 || (x.1 == y.1 && (x.2.1 < y.2.1 || (x.2.1 == y.2.1 && (x.2.2.1 < y.2.2.1 || (x.2.2.1 == y.2.2.1 && x.2.2.2 < y.2.2.2)))))
  for (a, b) in outRecs.toList.zip (outRecs.toList.drop 1) do
    -- strictly: two records with the same platform, encoding, language and name id are a duplicate
    if !(lt4 (key a) (key b)) then
      out := out ++ [if key a == key b then s!"duplicate name record {key a}" else s!"name records not sorted at {key a},{key b}"]
  return out

end Grc.SfntChk
