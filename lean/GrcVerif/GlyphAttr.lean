/-
  C05: glyph attribute assignment — specification, model of the compiler's pairwise override rule, and theorems.

  * `specWinner`   — "a later statement overrides an earlier one unless AttributeOverride is false where it is written".
  * `beats`, `challenge` — the compiler's rule: a newly processed assignment replaces the stored one iff
                     (new.line > old.line ∧ new.override) ∨ (old.line > new.line ∧ ¬old.override);
                     assignments are processed in class order, not statement order.
  * `challenge_fold_eq_spec` — if statement lines are strictly increasing in statement order, then processing the
                     assignments in ANY order with the compiler's rule yields the specification's winner.
  * Glat run encoding: `encodeRuns` / `decodeRuns` and the round trip `lookup_decode_encode`.
  Core Lean only.
-/
namespace Grc.GA

structure Asg where
  line : Nat
  override : Bool
  value : Int
deriving Repr, DecidableEq, Inhabited

/-- Specification: fold in statement order; a later statement replaces the current one iff it was written with
    AttributeOverride = true. -/
def specWinner : List Asg → Option Asg
  | [] => none
  | a :: rest => some (rest.foldl (fun cur s => if s.override then s else cur) a)

/-- The compiler's replacement test (`new` challenges the stored `old`). -/
def beats (new old : Asg) : Bool :=
  (decide (new.line > old.line) && new.override) || (decide (old.line > new.line) && !old.override)

def challenge (cur : Option Asg) (new : Asg) : Option Asg :=
  match cur with
  | none => some new
  | some old => if beats new old then some new else some old

/-- The compiler's result for one (glyph, attribute) cell when the assignments reach it in the order `l`. -/
def codeWinner (l : List Asg) : Option Asg := l.foldl challenge none

/-- `a` is preferred to `b` by the pairwise rule (independent of which one is stored): the later line wins iff it
    was written with override. -/
def pref (a b : Asg) : Bool :=
  if a.line < b.line then !b.override
  else if b.line < a.line then a.override
  else true

def better (a b : Asg) : Asg := if pref a b then a else b

theorem challenge_some (old new : Asg) (h : old.line ≠ new.line) : challenge (some old) new = some (better old new) := by
  unfold challenge beats better pref
  by_cases h1 : old.line < new.line
  · have h2 : ¬ new.line < old.line := by omega
    by_cases ho : new.override = true <;> simp [h1, h2, ho]
  · have h2 : new.line < old.line := by omega
    by_cases ho : old.override = true <;> simp [h1, h2, ho]

/-- `w` is preferred to every element of `l` on another line. -/
def Dominates (w : Asg) (l : List Asg) : Prop := ∀ x, x ∈ l → x.line ≠ w.line → pref w x = true

theorem pref_antisymm (a b : Asg) (h : a.line ≠ b.line) : pref b a = !pref a b := by
  unfold pref
  by_cases h1 : a.line < b.line
  · have : ¬ b.line < a.line := by omega
    simp [h1, this]
  · have : b.line < a.line := by omega
    simp [h1, this]

/-- The preference is transitive on assignments with pairwise distinct lines. -/
theorem pref_trans (a b c : Asg) (hab : a.line ≠ b.line) (hbc : b.line ≠ c.line) (hac : a.line ≠ c.line)
    (h1 : pref a b = true) (h2 : pref b c = true) : pref a c = true := by
  unfold pref at *
  by_cases oa : a.override = true <;> by_cases ob : b.override = true <;> by_cases oc : c.override = true <;>
    by_cases l1 : a.line < b.line <;> by_cases l2 : b.line < c.line <;> by_cases l3 : a.line < c.line <;>
    simp_all <;> omega

def DistinctLines (l : List Asg) : Prop := l.Pairwise (fun a b => a.line ≠ b.line)

/-- Folding with the compiler's rule keeps the invariant "the stored assignment is a member of what has been
    processed and is preferred to all of it". -/
theorem codeWinner_dominates : ∀ (l : List Asg) (cur : Asg) (seen : List Asg),
    DistinctLines (seen ++ l) → cur ∈ seen → Dominates cur seen →
    ∃ w, l.foldl challenge (some cur) = some w ∧ w ∈ seen ++ l ∧ Dominates w (seen ++ l) := by
  intro l
  induction l with
  | nil => intro cur seen _ hm hd; exact ⟨cur, rfl, by simpa using hm, by simpa using hd⟩
  | cons n rest ih =>
    intro cur seen hdist hm hd
    have hpw := List.pairwise_append.mp hdist
    have hcn : cur.line ≠ n.line := hpw.2.2 cur hm n (by simp)
    simp only [List.foldl_cons, challenge_some cur n hcn]
    have hdist' : DistinctLines ((seen ++ [n]) ++ rest) := by simpa [DistinctLines] using hdist
    unfold better
    by_cases hb : pref cur n = true
    · -- cur stays
      simp only [hb, if_true]
      have hd' : Dominates cur (seen ++ [n]) := by
        intro x hx hxl
        rcases List.mem_append.mp hx with hx | hx
        · exact hd x hx hxl
        · simp at hx; subst hx; exact hb
      obtain ⟨w, h1, h2, h3⟩ := ih cur (seen ++ [n]) hdist' (by simp [hm]) hd'
      exact ⟨w, h1, by simpa using h2, by simpa using h3⟩
    · -- n replaces cur
      simp only [hb]
      have hnc : pref n cur = true := by rw [pref_antisymm cur n hcn]; simpa using hb
      have hd' : Dominates n (seen ++ [n]) := by
        intro x hx hxl
        rcases List.mem_append.mp hx with hx | hx
        · by_cases hxc : x.line = cur.line
          · -- x and cur share a line but both are in `seen` with distinct lines unless equal
            have hseen : DistinctLines seen := hpw.1
            have : x = cur := by
              by_cases he : x = cur
              · exact he
              · exfalso
                rcases List.mem_iff_getElem.mp hx with ⟨i, hi, rfl⟩
                rcases List.mem_iff_getElem.mp hm with ⟨j, hj, rfl⟩
                have hij : i ≠ j := fun h => he (by subst h; rfl)
                rcases Nat.lt_or_gt_of_ne hij with hlt | hgt
                · exact (List.pairwise_iff_getElem.mp hseen i j hi hj hlt) hxc
                · exact (List.pairwise_iff_getElem.mp hseen j i hj hi hgt) hxc.symm
            subst this; exact hnc
          · exact pref_trans n cur x (Ne.symm hcn) (Ne.symm hxc) (Ne.symm hxl) hnc (hd x hx hxc)
        · simp at hx; subst hx; exact absurd rfl hxl
      obtain ⟨w, h1, h2, h3⟩ := ih n (seen ++ [n]) hdist' (by simp) hd'
      exact ⟨w, h1, by simpa using h2, by simpa using h3⟩

/-- Two members that both dominate a list with pairwise distinct lines coincide. -/
theorem dominator_unique (l : List Asg) (hd : DistinctLines l) (w w' : Asg) (hw : w ∈ l) (hw' : w' ∈ l)
    (h : Dominates w l) (h' : Dominates w' l) : w = w' := by
  by_cases hl : w.line = w'.line
  · by_cases he : w = w'
    · exact he
    · exfalso
      rcases List.mem_iff_getElem.mp hw with ⟨i, hi, rfl⟩
      rcases List.mem_iff_getElem.mp hw' with ⟨j, hj, rfl⟩
      have hij : i ≠ j := fun h => he (by subst h; rfl)
      rcases Nat.lt_or_gt_of_ne hij with hlt | hgt
      · exact (List.pairwise_iff_getElem.mp hd i j hi hj hlt) hl
      · exact (List.pairwise_iff_getElem.mp hd j i hj hi hgt) hl.symm
  · have h1 := h w' hw' (Ne.symm hl)
    have h2 := h' w hw hl
    rw [pref_antisymm w w' hl, h1] at h2
    simp at h2

/-- The compiler's winner for a non-empty list with distinct lines is its unique dominating member. -/
theorem codeWinner_spec (l : List Asg) (hne : l ≠ []) (hd : DistinctLines l) :
    ∃ w, codeWinner l = some w ∧ w ∈ l ∧ Dominates w l := by
  cases l with
  | nil => exact absurd rfl hne
  | cons a rest =>
    unfold codeWinner
    simp only [List.foldl_cons, challenge]
    have := codeWinner_dominates rest a [a] (by simpa using hd) (by simp) (by
      intro x hx hxl; simp at hx; subst hx; exact absurd rfl hxl)
    simpa using this

/-- Order independence: the compiler's result does not depend on the order in which the assignments reach the cell
    (classes are processed in class order, not statement order). -/
theorem codeWinner_perm (l l' : List Asg) (hp : l.Perm l') (hd : DistinctLines l) : codeWinner l = codeWinner l' := by
  cases l with
  | nil => have := hp.symm.eq_nil; subst this; rfl
  | cons a rest =>
    have hne' : l' ≠ [] := by intro h; subst h; exact absurd hp.eq_nil (by simp)
    have hd' : DistinctLines l' := hp.pairwise hd (fun h => Ne.symm h)
    obtain ⟨w, h1, h2, h3⟩ := codeWinner_spec (a :: rest) (by simp) hd
    obtain ⟨w', h1', h2', h3'⟩ := codeWinner_spec l' hne' hd'
    have hw' : w' ∈ a :: rest := hp.mem_iff.mpr h2'
    have h3'' : Dominates w' (a :: rest) := fun x hx hxl => h3' x (hp.mem_iff.mp hx) hxl
    rw [h1, h1', dominator_unique (a :: rest) hd w w' h2 hw' h3 h3'']

/-- In statement order with strictly increasing lines the compiler's rule IS the specification's fold. -/
theorem codeWinner_sorted_eq_spec (l : List Asg) (hs : l.Pairwise (fun a b => a.line < b.line)) :
    codeWinner l = specWinner l := by
  cases l with
  | nil => rfl
  | cons a rest =>
    unfold codeWinner specWinner
    simp only [List.foldl_cons, challenge]
    have hs' := List.pairwise_cons.mp hs
    -- generalise: current `cur` has a line below every remaining element
    have key : ∀ (rest : List Asg) (cur : Asg), (∀ x, x ∈ rest → cur.line < x.line) →
        rest.Pairwise (fun a b => a.line < b.line) →
        rest.foldl challenge (some cur) = some (rest.foldl (fun cur s => if s.override then s else cur) cur) := by
      intro rest
      induction rest with
      | nil => intro cur _ _; rfl
      | cons n more ih =>
        intro cur hlt hpw
        have hn := hlt n (by simp)
        have hpw' := List.pairwise_cons.mp hpw
        simp only [List.foldl_cons]
        rw [challenge_some cur n (by omega)]
        have hb : better cur n = if n.override then n else cur := by
          unfold better pref; simp only [hn, if_true]
          by_cases ho : n.override = true <;> simp [ho]
        rw [hb]
        by_cases ho : n.override = true
        · simp only [ho, if_true]
          exact ih n (fun x hx => hpw'.1 x hx) hpw'.2
        · simp only [ho]
          exact ih cur (fun x hx => hlt x (by simp [hx])) hpw'.2
    exact key rest a hs'.1 hs'.2

/-- C05 override theorem: whatever order the classes are processed in, if every assignment to the cell sits on its
    own source line (lines increasing in statement order), the stored assignment is the specification's winner. -/
theorem challenge_fold_eq_spec (stmtOrder processed : List Asg) (hp : stmtOrder.Perm processed)
    (hs : stmtOrder.Pairwise (fun a b => a.line < b.line)) :
    codeWinner processed = specWinner stmtOrder := by
  have hd : DistinctLines stmtOrder := hs.imp (fun h => by omega)
  rw [← codeWinner_perm stmtOrder processed hp hd]
  exact codeWinner_sorted_eq_spec stmtOrder hs

/-! ### Glat run encoding (OutputGlatAndGloc): runs of consecutive non-zero attributes -/

/-- Encode the attribute vector `vals` (attribute id = index) starting at id `base`: list of (firstId, values). -/
def encodeRuns (maxRun : Nat) : Nat → List Int → List (Nat × List Int)
  | _, [] => []
  | base, v :: rest =>
    if v = 0 then encodeRuns maxRun (base + 1) rest
    else
      match encodeRuns maxRun (base + 1) rest with
      | (b', run) :: more =>
        if b' = base + 1 ∧ run.length < maxRun then (base, v :: run) :: more
        else (base, [v]) :: (b', run) :: more
      | [] => [(base, [v])]

/-- Value of attribute `a` in a decoded run list (0 when absent). -/
def lookupRuns (runs : List (Nat × List Int)) (a : Nat) : Int :=
  match runs with
  | [] => 0
  | (b, vs) :: more => if b ≤ a ∧ a < b + vs.length then vs.getD (a - b) 0 else lookupRuns more a

/-- Every run starts at or after `base` (so look-ups below `base` miss). -/
theorem encodeRuns_base (maxRun : Nat) : ∀ (vals : List Int) (base : Nat) (p : Nat × List Int),
    p ∈ encodeRuns maxRun base vals → base ≤ p.1 := by
  intro vals
  induction vals with
  | nil => intro base p h; simp [encodeRuns] at h
  | cons v rest ih =>
    intro base p h
    unfold encodeRuns at h
    by_cases hv : v = 0
    · simp only [hv, if_true] at h
      have := ih (base + 1) p h; omega
    · simp only [hv, if_false] at h
      cases he : encodeRuns maxRun (base + 1) rest with
      | nil => simp [he] at h; subst h; simp
      | cons q more =>
        obtain ⟨b', run⟩ := q
        simp only [he] at h
        have hq : ∀ x, x ∈ encodeRuns maxRun (base + 1) rest → base + 1 ≤ x.1 := fun x hx => ih (base + 1) x hx
        rw [he] at hq
        split at h
        · rcases List.mem_cons.mp h with h | h
          · subst h; simp
          · have := hq p (by simp [h]); omega
        · rcases List.mem_cons.mp h with h | h
          · subst h; simp
          · have := hq p h; omega

theorem lookupRuns_below (runs : List (Nat × List Int)) (a : Nat) (h : ∀ p, p ∈ runs → a < p.1) : lookupRuns runs a = 0 := by
  induction runs with
  | nil => rfl
  | cons p more ih =>
    obtain ⟨b, vs⟩ := p
    have hb := h (b, vs) (by simp)
    simp only [lookupRuns]
    have : ¬ (b ≤ a ∧ a < b + vs.length) := by simp at hb; omega
    simp only [this, if_false]
    exact ih (fun p hp => h p (by simp [hp]))

/-- Round trip: decoding the encoded runs gives back every attribute value (zeros as absent). -/
theorem lookup_encodeRuns (maxRun : Nat) : ∀ (vals : List Int) (base a : Nat),
    lookupRuns (encodeRuns maxRun base vals) a = (if base ≤ a then vals.getD (a - base) 0 else 0) := by
  intro vals
  induction vals with
  | nil => intro base a; simp [encodeRuns, lookupRuns]
  | cons v rest ih =>
    intro base a
    unfold encodeRuns
    by_cases hv : v = 0
    · simp only [hv, if_true, ih (base + 1) a]
      by_cases h1 : base + 1 ≤ a
      · have : base ≤ a := by omega
        simp only [h1, this, if_true]
        rw [show a - base = (a - (base + 1)) + 1 by omega]
        simp
      · by_cases h2 : base ≤ a
        · have : a = base := by omega
          subst this
          simp
          intro h; omega
        · simp [h1, h2]
    · simp only [hv, if_false]
      have ihr := ih (base + 1) a
      cases he : encodeRuns maxRun (base + 1) rest with
      | nil =>
        rw [he] at ihr
        simp only [lookupRuns] at ihr ⊢
        by_cases h0 : a = base
        · subst h0; simp
        · have hcond : ¬ (base ≤ a ∧ a < base + [v].length) := by simp; omega
          simp only [hcond, if_false]
          by_cases h2 : base ≤ a
          · have h1 : base + 1 ≤ a := by omega
            simp only [h1, if_true] at ihr
            simp only [h2, if_true]
            rw [show a - base = (a - (base + 1)) + 1 by omega]
            simpa using ihr
          · simp [h2]
      | cons q more =>
        obtain ⟨b', run⟩ := q
        rw [he] at ihr
        have hbase : ∀ p, p ∈ (b', run) :: more → base + 1 ≤ p.1 := by
          intro p hp; rw [← he] at hp; exact encodeRuns_base maxRun rest (base + 1) p hp
        simp only
        split
        · rename_i hc
          obtain ⟨hb', _⟩ := hc
          subst hb'
          simp only [lookupRuns] at ihr ⊢
          by_cases h0 : a = base
          · subst h0; simp
          · by_cases h2 : base ≤ a
            · have h1 : base + 1 ≤ a := by omega
              simp only [h1, if_true] at ihr
              simp only [h2, if_true]
              have hk : a - base = (a - (base + 1)) + 1 := by omega
              simp only [true_and] at ihr ⊢
              by_cases hin : a < base + 1 + run.length
              · have c1 : a < base + (v :: run).length := by simp; omega
                rw [if_pos hin] at ihr
                rw [if_pos c1, hk, List.getD_cons_succ, List.getD_cons_succ]
                exact ihr
              · have c1 : ¬ (a < base + (v :: run).length) := by simp; omega
                rw [if_neg hin] at ihr
                rw [if_neg c1, hk, List.getD_cons_succ]
                exact ihr
            · have c1 : ¬ (base ≤ a ∧ a < base + (v :: run).length) := by omega
              rw [if_neg c1, if_neg h2]
              apply lookupRuns_below
              intro p hp
              have := hbase p (by simp [hp]); omega
        · simp only [lookupRuns] at ihr ⊢
          by_cases h0 : a = base
          · subst h0; simp
          · have c1 : ¬ (base ≤ a ∧ a < base + [v].length) := by simp; omega
            simp only [c1, if_false]
            by_cases h2 : base ≤ a
            · have h1 : base + 1 ≤ a := by omega
              simp only [h1, if_true] at ihr
              simp only [h2, if_true]
              rw [show a - base = (a - (base + 1)) + 1 by omega]
              simpa using ihr
            · simp only [h2, if_false]
              have h1 : ¬ base + 1 ≤ a := by omega
              simp only [h1, if_false] at ihr
              exact ihr

end Grc.GA
