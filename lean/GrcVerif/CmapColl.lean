/-
  C17: the collision scan of GrcFont::ScanGlyfIds transcribed (the per-glyph table `prgnUsed`: 0 = glyph not seen,
  a code point = seen once, 0xFFFF = collision already recorded) and what it computes, for every cmap and every number
  of code points: a code point is recorded iff another scanned code point has the same glyph, and no code point is
  recorded twice - so every code point that shares its glyph gets exactly one automatic pseudo-glyph
  (`alloc` hands out one id per list position).  Hypothesis: the scanned code points are pairwise different and none is
  0 or 0xFFFF (the table uses these two values as marks; 0xFFFE/0xFFFF are never scanned, U+0000 mapped to a shared
  glyph is the excluded point - see DESIGN).  Core Lean only.
-/
namespace Grc.Cm

/-- One turn of the loop over the code points: `used` is prgnUsed, `out` is m_vnCollisions. -/
def collStep (look : Nat → Nat) (st : (Nat → Nat) × List Nat) (c : Nat) : (Nat → Nat) × List Nat :=
  let g := look c
  let used := st.1
  if used g = 0 then (fun x => if x = g then c else used x, st.2)
  else
    let prev := used g
    if prev ≠ 0xFFFF then (fun x => if x = g then 0xFFFF else used x, st.2 ++ [prev] ++ [c])
    else (used, st.2 ++ [c])

def collScan (look : Nat → Nat) (cps : List Nat) : List Nat :=
  (cps.foldl (collStep look) (fun _ => 0, [])).2

/-- State invariant after the prefix `P` has been scanned. -/
structure CollInv (look : Nat → Nat) (P : List Nat) (st : (Nat → Nat) × List Nat) : Prop where
  unseen : ∀ g, st.1 g = 0 ↔ ∀ c ∈ P, look c ≠ g
  once : ∀ g c0, st.1 g = c0 → c0 ≠ 0 → c0 ≠ 0xFFFF → c0 ∈ P ∧ look c0 = g ∧ ∀ c ∈ P, look c = g → c = c0
  many : ∀ g, st.1 g = 0xFFFF → ∃ c ∈ P, ∃ c' ∈ P, c ≠ c' ∧ look c = g ∧ look c' = g
  mem : ∀ c, c ∈ st.2 ↔ c ∈ P ∧ ∃ c' ∈ P, c' ≠ c ∧ look c' = look c
  marked : ∀ c ∈ P, (∃ c' ∈ P, c' ≠ c ∧ look c' = look c) → st.1 (look c) = 0xFFFF
  nodup : st.2.Nodup

theorem collInv_nil (look : Nat → Nat) : CollInv look [] (fun _ => 0, []) where
  unseen := by intro g; simp
  once := by intro g c0 h h0 _; simp at h; exact absurd h.symm h0
  many := by intro g h; simp at h
  mem := by intro c; simp
  marked := by intro c hc; simp at hc
  nodup := List.nodup_nil

theorem collInv_step (look : Nat → Nat) (P : List Nat) (st : (Nat → Nat) × List Nat) (c : Nat)
    (inv : CollInv look P st) (hnew : c ∉ P) (h0 : c ≠ 0) (hF : c ≠ 0xFFFF) :
    CollInv look (P ++ [c]) (collStep look st c) := by
  unfold collStep
  by_cases hu : st.1 (look c) = 0
  · -- glyph not seen before
    have hfresh : ∀ c' ∈ P, look c' ≠ look c := (inv.unseen (look c)).1 hu
    simp only [hu, if_true]
    refine ⟨?_, ?_, ?_, ?_, ?_, ?_⟩
    · intro g
      by_cases hg : g = look c
      · subst hg
        simp only [if_true]
        constructor
        · intro h; exact absurd h h0
        · intro h; exact absurd rfl (h c (by simp))
      · simp only [hg, if_false]
        rw [inv.unseen g]
        constructor
        · intro h c' hc'
          rcases List.mem_append.1 hc' with h1 | h1
          · exact h c' h1
          · simp at h1; subst h1; exact fun e => hg e.symm
        · intro h c' hc'; exact h c' (List.mem_append_left _ hc')
    · intro g c0 hst hc0 hcF
      by_cases hg : g = look c
      · subst hg
        simp only [if_true] at hst
        subst hst
        refine ⟨by simp, rfl, ?_⟩
        intro c' hc' hl
        rcases List.mem_append.1 hc' with h1 | h1
        · exact absurd hl (hfresh c' h1)
        · simpa using h1
      · simp only [hg, if_false] at hst
        obtain ⟨h1, h2, h3⟩ := inv.once g c0 hst hc0 hcF
        refine ⟨List.mem_append_left _ h1, h2, ?_⟩
        intro c' hc' hl
        rcases List.mem_append.1 hc' with h4 | h4
        · exact h3 c' h4 hl
        · simp at h4; subst h4; exact absurd hl.symm hg
    · intro g hst
      by_cases hg : g = look c
      · subst hg; simp only [if_true] at hst; exact absurd hst hF
      · simp only [hg, if_false] at hst
        obtain ⟨a, ha, b, hb, hab, h1, h2⟩ := inv.many g hst
        exact ⟨a, List.mem_append_left _ ha, b, List.mem_append_left _ hb, hab, h1, h2⟩
    · intro x
      simp only
      rw [inv.mem x]
      constructor
      · rintro ⟨hx, c', hc', hne, hl⟩
        exact ⟨List.mem_append_left _ hx, c', List.mem_append_left _ hc', hne, hl⟩
      · rintro ⟨hx, c', hc', hne, hl⟩
        rcases List.mem_append.1 hx with hx1 | hx1
        · rcases List.mem_append.1 hc' with h1 | h1
          · exact ⟨hx1, c', h1, hne, hl⟩
          · simp at h1; subst h1; exact absurd hl.symm (hfresh x hx1)
        · simp at hx1; subst hx1
          rcases List.mem_append.1 hc' with h1 | h1
          · exact absurd hl (hfresh c' h1)
          · simp at h1; exact absurd h1 hne
    · intro x hx ⟨c', hc', hne, hl⟩
      rcases List.mem_append.1 hx with hx1 | hx1
      · have hc'P : c' ∈ P := by
          rcases List.mem_append.1 hc' with h1 | h1
          · exact h1
          · simp at h1; subst h1; exact absurd hl.symm (hfresh x hx1)
        have hxg : look x ≠ look c := hfresh x hx1
        simp only [hxg, if_false]
        exact inv.marked x hx1 ⟨c', hc'P, hne, hl⟩
      · simp at hx1; subst hx1
        rcases List.mem_append.1 hc' with h1 | h1
        · exact absurd hl (hfresh c' h1)
        · simp at h1; exact absurd h1 hne
    · exact inv.nodup
  · -- glyph seen before
    have hseen : ∃ c' ∈ P, look c' = look c := by
      apply Classical.byContradiction
      intro hno
      apply hu
      apply (inv.unseen (look c)).2
      intro c' hc' hl
      exact hno ⟨c', hc', hl⟩
    simp only [hu, if_false]
    by_cases hp : st.1 (look c) ≠ 0xFFFF
    · -- first collision on this glyph: the earlier code point is recorded too
      rw [if_pos hp]
      obtain ⟨hprevP, hprevL, hprevU⟩ := inv.once (look c) (st.1 (look c)) rfl hu hp
      have hprev_not_out : st.1 (look c) ∉ st.2 := by
        intro hmem
        obtain ⟨_, c', hc', hne, hl⟩ := (inv.mem _).1 hmem
        exact hne (hprevU c' hc' (by rw [hl, hprevL]))
      have hc_not_out : c ∉ st.2 := fun hmem => hnew ((inv.mem c).1 hmem).1
      have hprev_ne_c : st.1 (look c) ≠ c := fun e => hnew (e ▸ hprevP)
      refine ⟨?_, ?_, ?_, ?_, ?_, ?_⟩
      · intro g
        by_cases hg : g = look c
        · subst hg
          simp only [if_true]
          constructor
          · intro h; exact absurd h (by decide)
          · intro h; exact absurd rfl (h c (by simp))
        · simp only [hg, if_false]
          rw [inv.unseen g]
          constructor
          · intro h c' hc'
            rcases List.mem_append.1 hc' with h1 | h1
            · exact h c' h1
            · simp at h1; subst h1; exact fun e => hg e.symm
          · intro h c' hc'; exact h c' (List.mem_append_left _ hc')
      · intro g c0 hst hc0 hcF
        by_cases hg : g = look c
        · subst hg; simp only [if_true] at hst; exact absurd hst.symm hcF
        · simp only [hg, if_false] at hst
          obtain ⟨h1, h2, h3⟩ := inv.once g c0 hst hc0 hcF
          refine ⟨List.mem_append_left _ h1, h2, ?_⟩
          intro c' hc' hl
          rcases List.mem_append.1 hc' with h4 | h4
          · exact h3 c' h4 hl
          · simp at h4; subst h4; exact absurd hl.symm hg
      · intro g hst
        by_cases hg : g = look c
        · subst hg
          exact ⟨st.1 (look c), List.mem_append_left _ hprevP, c, by simp, hprev_ne_c, hprevL, rfl⟩
        · simp only [hg, if_false] at hst
          obtain ⟨a, ha, b, hb, hab, h1, h2⟩ := inv.many g hst
          exact ⟨a, List.mem_append_left _ ha, b, List.mem_append_left _ hb, hab, h1, h2⟩
      · intro x
        simp only [List.mem_append, List.mem_singleton, List.mem_cons, List.mem_nil_iff, or_false]
        constructor
        · rintro ((hx | hx) | hx)
          · obtain ⟨hxP, c', hc', hne, hl⟩ := (inv.mem x).1 hx
            exact ⟨Or.inl hxP, c', Or.inl hc', hne, hl⟩
          · subst hx
            exact ⟨Or.inl hprevP, c, Or.inr rfl, fun e => hprev_ne_c e.symm, hprevL.symm⟩
          · subst hx
            exact ⟨Or.inr rfl, st.1 (look x), Or.inl hprevP, hprev_ne_c, hprevL⟩
        · rintro ⟨hx, c', hc', hne, hl⟩
          rcases hx with hxP | hxc
          · rcases hc' with h1 | h1
            · exact Or.inl (Or.inl ((inv.mem x).2 ⟨hxP, c', h1, hne, hl⟩))
            · subst h1
              -- x is an earlier code point with c's glyph: it is the one remembered in the table
              exact Or.inl (Or.inr (hprevU x hxP hl.symm))
          · exact Or.inr hxc
      · intro x hx ⟨c', hc', hne, hl⟩
        by_cases hxg : look x = look c
        · simp only [hxg, if_true]
        · simp only [hxg, if_false]
          rcases List.mem_append.1 hx with hx1 | hx1
          · have hc'P : c' ∈ P := by
              rcases List.mem_append.1 hc' with h1 | h1
              · exact h1
              · simp at h1; subst h1; exact absurd hl.symm hxg
            exact inv.marked x hx1 ⟨c', hc'P, hne, hl⟩
          · simp at hx1; subst hx1; exact absurd rfl hxg
      · rw [List.append_assoc]
        apply List.nodup_append.2
        refine ⟨inv.nodup, ?_, ?_⟩
        · simp only [List.cons_append, List.nil_append, List.nodup_cons, List.mem_singleton, List.not_mem_nil,
            not_false_eq_true, List.nodup_nil, and_true]
          exact hprev_ne_c
        · intro a ha b hb
          simp only [List.cons_append, List.nil_append, List.mem_cons, List.mem_nil_iff, or_false] at hb
          rcases hb with hb | hb
          · subst hb; exact fun e => hprev_not_out (e ▸ ha)
          · subst hb; exact fun e => hc_not_out (e ▸ ha)
    · -- a collision on this glyph has been recorded already
      have hp' : st.1 (look c) = 0xFFFF := by
        by_cases h : st.1 (look c) = 0xFFFF
        · exact h
        · exact absurd h hp
      rw [if_neg hp]
      have hc_not_out : c ∉ st.2 := fun hmem => hnew ((inv.mem c).1 hmem).1
      refine ⟨?_, ?_, ?_, ?_, ?_, ?_⟩
      · intro g
        rw [inv.unseen g]
        constructor
        · intro h c' hc'
          rcases List.mem_append.1 hc' with h1 | h1
          · exact h c' h1
          · simp at h1; subst h1
            intro e
            obtain ⟨c2, hc2, hl2⟩ := hseen
            exact h c2 hc2 (by rw [hl2, e])
        · intro h c' hc'; exact h c' (List.mem_append_left _ hc')
      · intro g c0 hst hc0 hcF
        obtain ⟨h1, h2, h3⟩ := inv.once g c0 hst hc0 hcF
        refine ⟨List.mem_append_left _ h1, h2, ?_⟩
        intro c' hc' hl
        rcases List.mem_append.1 hc' with h4 | h4
        · exact h3 c' h4 hl
        · simp at h4; subst h4
          -- then g is c's glyph, whose entry is the mark, not c0
          rw [← hl] at hst
          rw [hp'] at hst
          exact absurd hst.symm hcF
      · intro g hst
        obtain ⟨a, ha, b, hb, hab, h1, h2⟩ := inv.many g hst
        exact ⟨a, List.mem_append_left _ ha, b, List.mem_append_left _ hb, hab, h1, h2⟩
      · intro x
        simp only [List.mem_append, List.mem_singleton, List.mem_cons, List.mem_nil_iff, or_false]
        constructor
        · rintro (hx | hx)
          · obtain ⟨hxP, c', hc', hne, hl⟩ := (inv.mem x).1 hx
            exact ⟨Or.inl hxP, c', Or.inl hc', hne, hl⟩
          · subst hx
            obtain ⟨c2, hc2, hl2⟩ := hseen
            exact ⟨Or.inr rfl, c2, Or.inl hc2, fun e => hnew (e ▸ hc2), hl2⟩
        · rintro ⟨hx, c', hc', hne, hl⟩
          rcases hx with hxP | hxc
          · rcases hc' with h1 | h1
            · exact Or.inl ((inv.mem x).2 ⟨hxP, c', h1, hne, hl⟩)
            · subst h1
              -- x shares c's glyph, on which two earlier code points have collided: x is one of the recorded ones
              obtain ⟨a, ha, b, hb, hab, h1, h2⟩ := inv.many (look c') hp'
              by_cases hxa : x = a
              · subst hxa; exact Or.inl ((inv.mem x).2 ⟨hxP, b, hb, fun e => hab e.symm, by rw [h2, hl]⟩)
              · exact Or.inl ((inv.mem x).2 ⟨hxP, a, ha, fun e => hxa e.symm, by rw [h1, hl]⟩)
          · exact Or.inr hxc
      · intro x hx ⟨c', hc', hne, hl⟩
        rcases List.mem_append.1 hx with hx1 | hx1
        · rcases List.mem_append.1 hc' with h1 | h1
          · exact inv.marked x hx1 ⟨c', h1, hne, hl⟩
          · simp at h1; subst h1; rw [← hl]; exact hp'
        · simp at hx1; subst hx1; exact hp'
      · apply List.nodup_append.2
        refine ⟨inv.nodup, by simp, ?_⟩
        intro a ha b hb
        simp at hb; subst hb
        exact fun e => hc_not_out (e ▸ ha)

theorem collInv_foldl (look : Nat → Nat) : ∀ (cps P : List Nat) (st : (Nat → Nat) × List Nat),
    CollInv look P st → (P ++ cps).Nodup → (∀ c ∈ cps, c ≠ 0 ∧ c ≠ 0xFFFF) →
    CollInv look (P ++ cps) (cps.foldl (collStep look) st) := by
  intro cps
  induction cps with
  | nil => intro P st inv _ _; simpa using inv
  | cons c rest ih =>
    intro P st inv hnd hne
    have hc : c ∉ P := by
      intro h
      have := List.nodup_append.1 hnd
      exact this.2.2 c h c (by simp) rfl
    have h1 := collInv_step look P st c inv hc (hne c (by simp)).1 (hne c (by simp)).2
    have := ih (P ++ [c]) (collStep look st c) h1 (by simpa [List.append_assoc] using hnd)
      (fun x hx => hne x (List.mem_cons_of_mem _ hx))
    simpa [List.append_assoc] using this

/-- The scan records a code point iff another scanned code point has the same glyph, for every lookup function and every
    list of pairwise different code points other than 0 and 0xFFFF. -/
theorem mem_collScan_iff (look : Nat → Nat) (cps : List Nat) (hnd : cps.Nodup) (hne : ∀ c ∈ cps, c ≠ 0 ∧ c ≠ 0xFFFF) (c : Nat) :
    c ∈ collScan look cps ↔ c ∈ cps ∧ ∃ c' ∈ cps, c' ≠ c ∧ look c' = look c := by
  have := collInv_foldl look cps [] _ (collInv_nil look) (by simpa using hnd) hne
  simpa [collScan] using this.mem c

/-- ... and records none twice: one automatic pseudo-glyph per code point. -/
theorem collScan_nodup (look : Nat → Nat) (cps : List Nat) (hnd : cps.Nodup) (hne : ∀ c ∈ cps, c ≠ 0 ∧ c ≠ 0xFFFF) :
    (collScan look cps).Nodup := by
  have := collInv_foldl look cps [] _ (collInv_nil look) (by simpa using hnd) hne
  simpa [collScan] using this.nodup

/-- `eraseDups` leaves no element twice (not in core). -/
theorem nodup_eraseDups : ∀ (l : List Nat), l.eraseDups.Nodup := by
  intro l
  induction h : l.length using Nat.strongRecOn generalizing l with
  | _ n ih =>
    cases l with
    | nil => simp
    | cons a as =>
      rw [List.eraseDups_cons]
      apply List.nodup_cons.2
      constructor
      · intro hmem
        rw [List.mem_eraseDups, List.mem_filter] at hmem
        simp at hmem
      · apply ih (as.filter fun b => !b == a).length _ _ rfl
        subst h
        exact Nat.lt_succ_of_le (List.length_filter_le _ _)

example : collScan (fun c => if c = 0x2D ∨ c = 0xAD ∨ c = 0x2010 then 15 else c) [0x20, 0x2D, 0x41, 0xAD, 0x2010] = [0x2D, 0xAD, 0x2010] := by
  decide

end Grc.Cm
