/-
  LZ4 block decoder (the format written by LZ4_compress_HC), and the Graphite table framing:
  bytes 0-3 version, bytes 4-7 = (scheme << 27) | uncompressedSize, then the LZ4 block of the whole plain table.
-/
import GrcVerif.Bytes
namespace Grc

/-- Decode one LZ4 block. Strict: any malformed sequence is an error. -/
partial def lz4DecodeLoop (src : ByteArray) (i : Nat) (out : ByteArray) : Except String ByteArray :=
  if i ≥ src.size then .ok out else
  let tok := (src.get! i).toNat
  let i := i + 1
  -- literal length
  let rec ext (i : Nat) (acc : Nat) : Except String (Nat × Nat) :=
    if i ≥ src.size then .error "lz4: truncated length" else
    let b := (src.get! i).toNat
    if b == 255 then ext (i+1) (acc + 255) else .ok (i+1, acc + b)
  let litLen0 := tok / 16
  match (if litLen0 == 15 then ext i 15 else .ok (i, litLen0)) with
  | .error e => .error e
  | .ok (i, litLen) =>
    if i + litLen > src.size then .error "lz4: literal run beyond input" else
    let out := out ++ src.extract i (i + litLen)
    let i := i + litLen
    if i ≥ src.size then .ok out   -- last sequence has only literals
    else if i + 2 > src.size then .error "lz4: truncated offset" else
    let off := (src.get! i).toNat + 256 * (src.get! (i+1)).toNat
    let i := i + 2
    if off == 0 ∨ off > out.size then .error "lz4: bad match offset" else
    let ml0 := tok % 16
    match (if ml0 == 15 then ext i 15 else .ok (i, ml0)) with
    | .error e => .error e
    | .ok (i, ml) =>
      let ml := ml + 4
      let out := Id.run do
        let mut o := out
        for _ in [0:ml] do
          o := o.push (o.get! (o.size - off))
        return o
      lz4DecodeLoop src i out

def lz4Decode (src : ByteArray) : Except String ByteArray := lz4DecodeLoop src 0 ByteArray.empty

/-- Undo the table framing. Returns (plain table, wasCompressed). `minVersion`: compression only allowed at/after it. -/
def unframe (tbl : ByteArray) (minVersion : Nat) : Except String (ByteArray × Bool) :=
  if tbl.size < 8 then .ok (tbl, false) else
  let v := beU32 tbl 0
  let h := beU32 tbl 4
  let scheme := h / 134217728   -- >> 27
  if v < minVersion ∨ scheme == 0 then .ok (tbl, false)
  else if scheme != 1 then .error s!"unknown compression scheme {scheme}"
  else
    let size := h % 134217728
    match lz4Decode (tbl.extract 8 tbl.size) with
    | .error e => .error e
    | .ok plain =>
      if plain.size != size then .error s!"lz4: declared size {size} but decoded {plain.size}"
      else if plain.size < 4 ∨ beU32 plain 0 != v then .error "lz4: version mismatch between frame and payload"
      else .ok (plain, true)

end Grc
