/-
  Byte-level reading: a tiny bounds-checked big-endian reader over `ByteArray`.
  Core Lean only (this file is in the import closure of the compiled driver).
-/
namespace Grc

abbrev Bytes := ByteArray

/-- Strict reader: position + error. Nothing is defaulted; reading past the end is an error. -/
structure Rd where
  buf : ByteArray
  pos : Nat
  lim : Nat          -- exclusive limit (≤ buf.size)

abbrev P := StateT Rd (Except String)

namespace P

def fail {α} (msg : String) : P α := fun _ => .error msg

def pos : P Nat := do return (← get).pos
def lim : P Nat := do return (← get).lim
def remaining : P Nat := do let s ← get; return s.lim - s.pos

def seek (p : Nat) : P Unit := do
  let s ← get
  if p > s.lim then fail s!"seek {p} beyond limit {s.lim}"
  else set { s with pos := p }

def u8 : P Nat := do
  let s ← get
  if s.pos + 1 > s.lim then fail s!"read u8 at {s.pos} beyond limit {s.lim}"
  else
    set { s with pos := s.pos + 1 }
    return (s.buf.get! s.pos).toNat

def u16 : P Nat := do
  let a ← u8; let b ← u8
  return a * 256 + b

def u32 : P Nat := do
  let a ← u16; let b ← u16
  return a * 65536 + b

def i8 : P Int := do
  let a ← u8
  return if a ≥ 128 then (a : Int) - 256 else a

def i16 : P Int := do
  let a ← u16
  return if a ≥ 32768 then (a : Int) - 65536 else a

def i32 : P Int := do
  let a ← u32
  return if a ≥ 2147483648 then (a : Int) - 4294967296 else a

def times {α} (n : Nat) (p : P α) : P (Array α) := do
  let mut out : Array α := Array.mkEmpty n
  for _ in [0:n] do
    out := out.push (← p)
  return out

def bytes (n : Nat) : P ByteArray := do
  let s ← get
  if s.pos + n > s.lim then fail s!"read {n} bytes at {s.pos} beyond limit {s.lim}"
  else
    set { s with pos := s.pos + n }
    return s.buf.extract s.pos (s.pos + n)

def guard (c : Bool) (msg : String) : P Unit := if c then pure () else fail msg

def run {α} (p : P α) (buf : ByteArray) (start : Nat := 0) (limit : Option Nat := none) : Except String α :=
  let l := match limit with | some l => min l buf.size | none => buf.size
  match p { buf := buf, pos := start, lim := l } with
  | .ok (a, _) => .ok a
  | .error e => .error e

end P

def beU16 (b : ByteArray) (i : Nat) : Nat := (b.get! i).toNat * 256 + (b.get! (i+1)).toNat
def beU32 (b : ByteArray) (i : Nat) : Nat := beU16 b i * 65536 + beU16 b (i+2)

def tagStr (t : Nat) : String :=
  String.ofList [Char.ofNat (t / 16777216 % 256), Char.ofNat (t / 65536 % 256), Char.ofNat (t / 256 % 256), Char.ofNat (t % 256)]

def strTag (s : String) : Nat :=
  s.toList.foldl (fun acc c => acc * 256 + c.toNat) 0

end Grc
