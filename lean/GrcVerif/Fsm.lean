/-
  C02 core: the engine's reading of a pass FSM, the meaning of a rule list, and a certificate
  that ties the two for ALL glyph strings.

  * `FsmTable.run`   — how a conforming engine walks the transition table (GTF "Pass Contents";
                        stop on: glyph without column, final (non-transitional) state, transition to 0).
  * `RuleSet`, `specRun`, `Matches` — what the rules say.
  * `Cert`           — local conditions on a labelling of states; `cert_sound` proves that they imply
                        `run = specRun` on every glyph string, and `specRun_spec` characterises `specRun`
                        as "rule i is reported iff each of its items contains the corresponding glyph".
  Core Lean only.
-/
namespace Grc.Fsm

/-- Abstract view of the transition table of one pass. -/
structure FsmTable where
  numTrans : Nat                 -- states < numTrans have a transition row
  col : Nat → Option Nat         -- glyph id → machine column
  trans : Nat → Nat → Nat        -- state → column → state (0 = no match)
  success : Nat → List Nat       -- rules reported when a state is entered

/-- The engine's walk from state `s` over the glyphs: rules reported, in the order found. -/
def FsmTable.run (t : FsmTable) : Nat → List Nat → List Nat
  | _, [] => []
  | s, g :: gs =>
    if s < t.numTrans then
      match t.col g with
      | none => []
      | some c =>
        let s' := t.trans s c
        if s' = 0 then [] else t.success s' ++ t.run s' gs
    else []

/-- The rules of a pass, abstractly: `len i` items, `has i k g` = glyph g belongs to item k's class. -/
structure RuleSet where
  n : Nat
  len : Nat → Nat
  has : Nat → Nat → Nat → Bool

/-- Rules still alive after seeing glyph `g` at depth `k`. -/
def specStep (R : RuleSet) (k : Nat) (alive : List Nat) (g : Nat) : List Nat :=
  alive.filter (fun i => decide (k < R.len i) && R.has i k g)

/-- Rules completed at depth `k+1`. -/
def done (R : RuleSet) (k : Nat) (alive : List Nat) : List Nat :=
  alive.filter (fun i => R.len i == k + 1)

/-- Reference semantics: walk the glyphs keeping the set of alive rules; report those that complete. -/
def specRun (R : RuleSet) : Nat → List Nat → List Nat → List Nat
  | _, _, [] => []
  | k, alive, g :: gs =>
    let a := specStep R k alive g
    done R k a ++ specRun R (k + 1) a gs

/-- Rule `i` matches at the start of `gs`, given that `k` items were already matched and consumed. -/
def MatchesFrom (R : RuleSet) (i k : Nat) (gs : List Nat) : Prop :=
  k < R.len i ∧ R.len i - k ≤ gs.length ∧ ∀ j, j < R.len i - k → ∀ g, gs[j]? = some g → R.has i (k + j) g = true

theorem specRun_nil_alive (R : RuleSet) (k : Nat) (gs : List Nat) : specRun R k [] gs = [] := by
  induction gs generalizing k with
  | nil => rfl
  | cons g gs ih => simp [specRun, specStep, done, ih]

/-- `specRun` reports exactly the alive rules whose remaining items match the glyphs. -/
theorem mem_specRun (R : RuleSet) (i : Nat) : ∀ (gs : List Nat) (k : Nat) (alive : List Nat),
    i ∈ specRun R k alive gs ↔ (i ∈ alive ∧ MatchesFrom R i k gs) := by
  intro gs
  induction gs with
  | nil =>
    intro k alive
    simp only [specRun, List.not_mem_nil, false_iff, not_and]
    intro _ h
    have := h.2.1
    have := h.1
    simp at *
    omega
  | cons g gs ih =>
    intro k alive
    simp only [specRun, List.mem_append, ih]
    simp only [done, specStep, List.mem_filter, Bool.and_eq_true, decide_eq_true_eq, beq_iff_eq]
    constructor
    · rintro (⟨⟨hi, hk, hh⟩, hl⟩ | ⟨⟨hi, hk, hh⟩, hm⟩)
      · refine ⟨hi, hk, ?_, ?_⟩
        · simp; omega
        · intro j hj g' hg'
          have : j = 0 := by omega
          subst this
          simp at hg'
          subst hg'
          simpa using hh
      · refine ⟨hi, hk, ?_, ?_⟩
        · have := hm.2.1
          simp
          omega
        · intro j hj g' hg'
          cases j with
          | zero => simp at hg'; subst hg'; simpa using hh
          | succ j =>
            simp at hg'
            have := hm.2.2 j (by omega) g' hg'
            rw [show k + (j + 1) = k + 1 + j by omega]
            exact this
    · rintro ⟨hi, hk, hlen, hall⟩
      have h0 : R.has i k g = true := by
        have := hall 0 (by omega) g (by simp)
        simpa using this
      by_cases hl : R.len i = k + 1
      · left; exact ⟨⟨hi, hk, h0⟩, hl⟩
      · right
        refine ⟨⟨hi, hk, h0⟩, by omega, ?_, ?_⟩
        · simp at hlen; omega
        · intro j hj g' hg'
          have := hall (j + 1) (by omega) g' (by simpa using hg')
          rw [show k + 1 + j = k + (j + 1) by omega]
          exact this

/-- Whole-rule matching at the scan position (no items consumed yet). -/
def Matches (R : RuleSet) (i : Nat) (gs : List Nat) : Prop :=
  0 < R.len i ∧ R.len i ≤ gs.length ∧ ∀ j, j < R.len i → ∀ g, gs[j]? = some g → R.has i j g = true

theorem matchesFrom_zero (R : RuleSet) (i : Nat) (gs : List Nat) : MatchesFrom R i 0 gs ↔ Matches R i gs := by
  simp [MatchesFrom, Matches]

/-- Labelling certificate: `lab s = some (k, alive)` says state `s` is reached after `k` glyphs with
    exactly the rules `alive` still matching. The fields are local, finitely checkable conditions. -/
structure Cert (t : FsmTable) (R : RuleSet) (lab : Nat → Option (Nat × List Nat)) (rep : Nat → Nat) : Prop where
  /-- glyphs that share a column are indistinguishable by every rule item -/
  col_consistent : ∀ g c, t.col g = some c → ∀ i k, R.has i k g = R.has i k (rep c)
  /-- a glyph without a column belongs to no item of any rule -/
  col_cover : ∀ g, t.col g = none → ∀ i k, R.has i k g = false
  /-- transitions agree with the spec step, evaluated on the column representative -/
  step : ∀ s k a, lab s = some (k, a) → s < t.numTrans → ∀ c, (∃ g, t.col g = some c) →
    let a' := specStep R k a (rep c)
    (t.trans s c = 0 → a' = []) ∧
    (t.trans s c ≠ 0 → lab (t.trans s c) = some (k + 1, a') ∧ t.success (t.trans s c) = done R k a')
  /-- a final state (no transition row) has no rule that could still grow -/
  final : ∀ s k a, lab s = some (k, a) → ¬ s < t.numTrans → ∀ i, i ∈ a → ¬ k < R.len i

theorem specStep_congr (R : RuleSet) (k : Nat) (a : List Nat) (g h : Nat)
    (hh : ∀ i k, R.has i k g = R.has i k h) : specStep R k a g = specStep R k a h := by
  unfold specStep
  congr 1
  funext i
  rw [hh]

/-- Soundness: a certified table reports, on EVERY glyph string, exactly what the reference semantics reports. -/
theorem cert_sound (t : FsmTable) (R : RuleSet) (lab : Nat → Option (Nat × List Nat)) (rep : Nat → Nat) (C : Cert t R lab rep) :
    ∀ (gs : List Nat) (s k : Nat) (a : List Nat), lab s = some (k, a) → t.run s gs = specRun R k a gs := by
  intro gs
  induction gs with
  | nil => intros; rfl
  | cons g gs ih =>
    intro s k a hlab
    unfold FsmTable.run specRun
    by_cases hs : s < t.numTrans
    · simp only [hs, if_true]
      cases hc : t.col g with
      | none =>
        have : specStep R k a g = [] := by
          unfold specStep
          apply List.filter_eq_nil_iff.mpr
          intro i _
          simp [C.col_cover g hc i k]
        simp [this, done, specRun_nil_alive]
      | some c =>
        have hcongr : specStep R k a g = specStep R k a (rep c) :=
          specStep_congr R k a g (rep c) (C.col_consistent g c hc)
        have hstep := C.step s k a hlab hs c ⟨g, hc⟩
        simp only at hstep
        by_cases h0 : t.trans s c = 0
        · have := hstep.1 h0
          simp [h0, hcongr, this, done, specRun_nil_alive]
        · have ⟨hl, hsucc⟩ := hstep.2 h0
          simp only [h0, if_false]
          rw [hcongr, hsucc, ih _ _ _ hl]
    · simp only [hs, if_false]
      have : specStep R k a g = [] := by
        unfold specStep
        apply List.filter_eq_nil_iff.mpr
        intro i hi
        have := C.final s k a hlab hs i hi
        simp [this]
      simp [this, done, specRun_nil_alive]

/-- Headline statement for a pass: from the start state (labelled with all rules alive at depth 0), the table
    reports rule `i` on a glyph string iff `i` is a rule of the pass and every one of its items contains the
    corresponding glyph. -/
theorem fsm_reports_iff_matches (t : FsmTable) (R : RuleSet) (lab : Nat → Option (Nat × List Nat))
    (rep : Nat → Nat) (C : Cert t R lab rep) (s0 : Nat) (h0 : lab s0 = some (0, List.range R.n)) (gs : List Nat) (i : Nat) :
    i ∈ t.run s0 gs ↔ (i < R.n ∧ Matches R i gs) := by
  rw [cert_sound t R lab rep C gs s0 0 _ h0, mem_specRun, matchesFrom_zero]
  simp

/-- Column facts implied by a certificate (second sentence of C02). -/
theorem member_has_column (t : FsmTable) (R : RuleSet) (lab) (rep : Nat → Nat) (C : Cert t R lab rep) (g i k : Nat)
    (h : R.has i k g = true) : (t.col g).isSome := by
  cases hc : t.col g with
  | none => have := C.col_cover g hc i k; simp [this] at h
  | some c => rfl

theorem shared_column_indistinguishable (t : FsmTable) (R : RuleSet) (lab) (rep : Nat → Nat) (C : Cert t R lab rep) (g h c : Nat)
    (hg : t.col g = some c) (hh : t.col h = some c) : ∀ i k, R.has i k g = R.has i k h := by
  intro i k
  rw [C.col_consistent g c hg, C.col_consistent h c hh]

end Grc.Fsm
