/-
  C14: pass-skipping bits.
  The engine skips pass p when every glyph that has been in the segment carries bit p of *skipPasses*.
  `skip_sound`: if every effective rule of the pass has an input item whose class members all have the bit cleared
  (`checkBits`), then on a glyph string all of whose glyphs have the bit set NO effective rule matches at ANY
  position — so skipping the pass cannot change the result.
  Core Lean only.
-/
import GrcVerif.Precedence
namespace Grc.PB
open Grc.Prec

/-- One rule's input item classes (as glyph lists). -/
abbrev RuleItems := List (List Nat)

def memL (cls : List Nat) (g : Nat) : Bool := cls.contains g

/-- Prefix match of a rule (items given as glyph lists). -/
def matchItems : RuleItems → List Nat → Bool
  | [], _ => true
  | _ :: _, [] => false
  | c :: cs, g :: gs => memL c g && matchItems cs gs

/-- The executable condition: some item of the rule has all its glyphs cleared (bit not set). -/
def ruleHasKey (bitSet : Nat → Bool) (r : RuleItems) : Bool :=
  r.any fun cls => cls.all fun g => !bitSet g

def checkBits (bitSet : Nat → Bool) (rules : List RuleItems) : Bool := rules.all (ruleHasKey bitSet)

theorem match_needs_key (bitSet : Nat → Bool) : ∀ (r : RuleItems) (gs : List Nat),
    ruleHasKey bitSet r = true → matchItems r gs = true → ∃ g, g ∈ gs ∧ bitSet g = false := by
  intro r
  induction r with
  | nil => intro gs h; simp [ruleHasKey] at h
  | cons c cs ih =>
    intro gs hk hm
    cases gs with
    | nil => simp [matchItems] at hm
    | cons g gs' =>
      simp only [matchItems, Bool.and_eq_true] at hm
      simp only [ruleHasKey, List.any_cons, Bool.or_eq_true] at hk
      rcases hk with hk | hk
      · rw [List.all_eq_true] at hk
        have hg : g ∈ c := by simpa [memL] using hm.1
        have := hk g hg
        exact ⟨g, by simp, by simpa using this⟩
      · obtain ⟨g', hg', hb⟩ := ih gs' (by simpa [ruleHasKey] using hk) hm.2
        exact ⟨g', by simp [hg'], hb⟩

/-- C14 soundness: on a glyph string whose glyphs all carry the skip bit, no rule with a key item matches anywhere. -/
theorem skip_sound (bitSet : Nat → Bool) (rules : List RuleItems) (hc : checkBits bitSet rules = true)
    (gs : List Nat) (hall : ∀ g, g ∈ gs → bitSet g = true) :
    ∀ r, r ∈ rules → ∀ pos, matchItems r (gs.drop pos) = false := by
  intro r hr pos
  cases hm : matchItems r (gs.drop pos) with
  | false => rfl
  | true =>
    exfalso
    unfold checkBits at hc
    rw [List.all_eq_true] at hc
    obtain ⟨g, hg, hb⟩ := match_needs_key bitSet r (gs.drop pos) (hc r hr) hm
    have := hall g (List.mem_of_mem_drop hg)
    rw [this] at hb
    exact absurd hb (by simp)

end Grc.PB
