/-
  Strict decoder for the Silf table (versions 2.0 – 5.0) as written by OutputSilfTable/OutputPass.
  Every offset and count is cross-checked; nothing is defaulted.
-/
import GrcVerif.Bytes
import GrcVerif.Lz4
namespace Grc

structure GRange where
  first : Nat
  last : Nat
  col : Nat
deriving Repr, BEq, Inhabited

structure Pass where
  flags : Nat
  maxRuleLoop : Nat
  maxRuleContext : Nat
  maxBackup : Nat
  numRules : Nat
  numRows : Nat
  numTransitional : Nat
  numSuccess : Nat
  numColumns : Nat
  ranges : Array GRange
  oRuleMap : Array Nat
  ruleMap : Array Nat
  minRulePreContext : Nat
  maxRulePreContext : Nat
  startStates : Array Nat
  ruleSortKeys : Array Nat
  rulePreContext : Array Nat
  collisionThreshold : Nat
  stateTrans : Array (Array Nat)
  passConstraint : ByteArray
  ruleConstraints : Array ByteArray    -- empty = none
  actions : Array ByteArray
deriving Inhabited

structure ClassMap where
  numLinear : Nat
  /-- linear (output) classes: glyph at index i -/
  linear : Array (Array Nat)
  /-- indexed (input) classes: sorted (glyph, index) pairs -/
  indexed : Array (Array (Nat × Nat))
deriving Inhabited

structure Silf where
  version : Nat
  compilerVersion : Nat
  ruleVersion : Nat
  maxGlyphID : Nat
  extraAscent : Int
  extraDescent : Int
  numPasses : Nat
  iSubst : Nat
  iPos : Nat
  iJust : Nat
  iBidi : Nat
  flags : Nat
  maxPreContext : Nat
  maxPostContext : Nat
  attrPseudo : Nat
  attrBreakWeight : Nat
  attrDirectionality : Nat
  attrMirroring : Nat
  attrSkipPasses : Nat
  numJLevels : Nat
  jAttrs : Array (Array Nat)
  numLigComp : Nat
  numUserDefn : Nat
  maxCompPerLig : Nat
  direction : Nat
  attrCollisions : Nat
  numCritFeatures : Nat
  scriptTags : Array Nat
  lbGID : Nat
  pseudoMap : Array (Nat × Nat)   -- (unicode, pseudo glyph)
  classes : ClassMap
  passes : Array Pass
  compressed : Bool
deriving Inhabited

def parseSearchHeader (n : Nat) (what : String) : P Unit := do
  let sr ← P.u16; let es ← P.u16; let rs ← P.u16
  let p2 := if n = 0 then 0 else 2 ^ Nat.log2 n
  let lg := if n = 0 then 0 else Nat.log2 n
  P.guard (sr == p2 ∧ es == lg ∧ rs == n - p2) s!"{what}: bad search header ({sr},{es},{rs}) for n={n}"

def parseClassMap (longOffsets : Bool) : P ClassMap := do
  let start ← P.pos
  let numClass ← P.u16
  let numLinear ← P.u16
  P.guard (numLinear ≤ numClass) "classmap: numLinear > numClass"
  let offs ← P.times (numClass + 1) (if longOffsets then P.u32 else P.u16)
  let hdrEnd ← P.pos
  let mut lin : Array (Array Nat) := #[]
  let mut idx : Array (Array (Nat × Nat)) := #[]
  let mut expect := hdrEnd - start
  for i in [0:numClass] do
    let o := offs[i]!
    let o' := offs[i+1]!
    P.guard (o == expect) s!"classmap: class {i} offset {o} but previous data ends at {expect}"
    P.guard (o ≤ o') s!"classmap: class {i} offsets decreasing"
    P.seek (start + o)
    if i < numLinear then
      P.guard ((o' - o) % 2 == 0) s!"classmap: linear class {i} odd length"
      let gl ← P.times ((o' - o) / 2) P.u16
      lin := lin.push gl
    else
      let n ← P.u16
      parseSearchHeader n s!"classmap class {i}"
      P.guard (o' - o == 8 + 4 * n) s!"classmap: indexed class {i} length {o' - o} vs count {n}"
      let ps ← P.times n (do let g ← P.u16; let ix ← P.u16; pure (g, ix))
      -- sorted by glyph id (non-strict: duplicates are representable)
      for k in [1:n] do
        P.guard ((ps[k-1]!).1 ≤ (ps[k]!).1) s!"classmap: indexed class {i} not sorted at {k}"
      idx := idx.push ps
    expect := o'
  P.seek (start + offs[numClass]!)
  return { numLinear, linear := lin, indexed := idx }

/-- Decode one pass. `subStart`: absolute position of the sub-table; `passStart`, `passEnd` absolute. -/
def parsePass (version : Nat) (subStart passStart passEnd : Nat) : P Pass := do
  P.seek passStart
  let flags ← P.u8
  let maxRuleLoop ← P.u8
  let maxRuleContext ← P.u8
  let maxBackup ← P.u8
  let numRules ← P.u16
  let fsmOffset ← P.u16
  let pcCode ← P.u32
  let rcCode ← P.u32
  let aCode ← P.u32
  let _dCode ← P.u32
  let here ← P.pos
  if version ≥ 0x00030000 then
    P.guard (passStart + fsmOffset == here) s!"pass: fsmOffset {fsmOffset} does not point at the FSM header"
  let numRows ← P.u16
  let numTransitional ← P.u16
  let numSuccess ← P.u16
  let numColumns ← P.u16
  P.guard (numTransitional ≤ numRows ∧ numSuccess ≤ numRows) "pass: state counts inconsistent"
  let numRange ← P.u16
  parseSearchHeader numRange "pass ranges"
  let ranges ← P.times numRange (do
    let a ← P.u16; let b ← P.u16; let c ← P.u16
    pure ({ first := a, last := b, col := c } : GRange))
  for k in [0:numRange] do
    let r := ranges[k]!
    P.guard (r.first ≤ r.last) s!"pass: range {k} first > last"
    P.guard (r.col < numColumns) s!"pass: range {k} column {r.col} ≥ numColumns {numColumns}"
    if k > 0 then
      P.guard ((ranges[k-1]!).last < r.first) s!"pass: ranges not ascending/disjoint at {k}"
  let oRuleMap ← P.times (numSuccess + 1) P.u16
  for k in [0:numSuccess] do
    P.guard (oRuleMap[k]! ≤ oRuleMap[k+1]!) "pass: oRuleMap not monotone"
  P.guard (oRuleMap[0]! == 0) "pass: oRuleMap[0] != 0"
  let ruleMap ← P.times (oRuleMap[numSuccess]!) P.u16
  for r in ruleMap do
    P.guard (r < numRules) s!"pass: ruleMap entry {r} ≥ numRules {numRules}"
  let minPre ← P.u8
  let maxPre ← P.u8
  P.guard (minPre ≤ maxPre) "pass: minRulePreContext > maxRulePreContext"
  let startStates ← P.times (maxPre - minPre + 1) P.u16
  for s in startStates do
    P.guard (s < numRows ∨ numRows == 0) s!"pass: start state {s} ≥ numRows {numRows}"
  let sortKeys ← P.times numRules P.u16
  let preCtx ← P.times numRules P.u8
  for p in preCtx do
    P.guard (minPre ≤ p ∧ p ≤ maxPre ∨ numRows == 0) s!"pass: rulePreContext {p} outside [{minPre},{maxPre}]"
  let collThreshold ← P.u8
  let pConstraintLen ← P.u16
  let oConstraints ← P.times (numRules + 1) P.u16
  let oActions ← P.times (numRules + 1) P.u16
  let trans ← P.times numTransitional (P.times numColumns P.u16)
  for row in trans do
    for s in row do
      P.guard (s < numRows) s!"pass: transition to state {s} ≥ numRows {numRows}"
  let _pad ← P.u8
  let p0 ← P.pos
  P.guard (p0 == subStart + pcCode) s!"pass: pcCode {pcCode} does not follow the FSM (at {p0 - subStart})"
  let passConstraint ← P.bytes pConstraintLen
  let p1 ← P.pos
  P.guard (p1 == subStart + rcCode) s!"pass: rcCode {rcCode} does not follow pass constraint"
  P.guard (subStart + rcCode ≤ subStart + aCode ∧ subStart + aCode ≤ passEnd) "pass: code offsets out of order"
  -- rule constraints: offset 0 = none; otherwise block runs to the next nonzero offset / final offset
  let rcLen := oConstraints[numRules]!
  P.guard (subStart + rcCode + rcLen == subStart + aCode) s!"pass: constraint block length {rcLen} does not reach aCode"
  let mut rcs : Array ByteArray := #[]
  for i in [0:numRules] do
    let o := oConstraints[i]!
    if o == 0 then rcs := rcs.push ByteArray.empty
    else
      -- next boundary
      let mut nxt := rcLen
      for j in [i+1:numRules+1] do
        let oj := oConstraints[j]!
        if oj != 0 then
          nxt := oj
          break
      P.guard (o ≤ nxt ∧ nxt ≤ rcLen) s!"pass: constraint offsets out of order at rule {i}"
      P.seek (subStart + rcCode + o)
      rcs := rcs.push (← P.bytes (nxt - o))
  let aLen := oActions[numRules]!
  P.guard (subStart + aCode + aLen == passEnd) s!"pass: action block end {subStart + aCode + aLen} != pass end {passEnd}"
  let mut acts : Array ByteArray := #[]
  for i in [0:numRules] do
    let o := oActions[i]!; let o' := oActions[i+1]!
    P.guard (o ≤ o') s!"pass: action offsets decreasing at rule {i}"
    P.seek (subStart + aCode + o)
    acts := acts.push (← P.bytes (o' - o))
  return {
    flags, maxRuleLoop, maxRuleContext, maxBackup, numRules, numRows, numTransitional, numSuccess, numColumns,
    ranges, oRuleMap, ruleMap, minRulePreContext := minPre, maxRulePreContext := maxPre, startStates,
    ruleSortKeys := sortKeys, rulePreContext := preCtx, collisionThreshold := collThreshold,
    stateTrans := trans, passConstraint, ruleConstraints := rcs, actions := acts }

def parseSilfPlain (compressed : Bool) : P Silf := do
  let version ← P.u32
  P.guard (version ≥ 0x00020000 ∧ version ≤ 0x00050000) s!"Silf: unsupported version {version}"
  let compilerVersion ← if version ≥ 0x00030000 then P.u32 else pure 0
  let numSub ← P.u16
  P.guard (numSub == 1) "Silf: numSub != 1"
  let _res ← P.u16
  let off0 ← P.u32
  let here ← P.pos
  P.guard (off0 == here) s!"Silf: subtable offset {off0} != {here}"
  let subStart := here
  let ruleVersion ← if version ≥ 0x00030000 then P.u32 else pure 0
  let (passOffset, pseudosOffset) ← if version ≥ 0x00030000 then (do let a ← P.u16; let b ← P.u16; pure (a, b)) else pure (0, 0)
  let maxGlyphID ← P.u16
  let extraAscent ← P.i16
  let extraDescent ← P.i16
  let numPasses ← P.u8
  let iSubst ← P.u8
  let iPos ← P.u8
  let iJust ← P.u8
  let iBidi ← P.u8
  let flags ← P.u8
  let maxPreContext ← P.u8
  let maxPostContext ← P.u8
  let attrPseudo ← P.u8
  let attrBreakWeight ← P.u8
  let attrDirectionality ← P.u8
  let attrMirroring ← P.u8
  let attrSkipPasses ← P.u8
  let numJLevels ← P.u8
  let jAttrs ← P.times numJLevels (P.times 8 P.u8)
  let numLigComp ← P.u16
  let numUserDefn ← P.u8
  let maxCompPerLig ← P.u8
  let direction ← P.u8
  let attrCollisions ← P.u8
  let _r1 ← P.u8; let _r2 ← P.u8; let _r3 ← P.u8
  let numCritFeatures ← P.u8
  let _crit ← P.times numCritFeatures P.u16
  let _r4 ← P.u8
  let numScriptTag ← P.u8
  let scriptTags ← P.times numScriptTag P.u32
  let lbGID ← P.u16
  let poPos ← P.pos
  if version ≥ 0x00030000 then
    P.guard (subStart + passOffset == poPos) s!"Silf: passOffset {passOffset} wrong"
  let oPasses ← P.times (numPasses + 1) P.u32
  let psPos ← P.pos
  if version ≥ 0x00030000 then
    P.guard (subStart + pseudosOffset == psPos) s!"Silf: pseudosOffset {pseudosOffset} wrong"
  let numPseudo ← P.u16
  parseSearchHeader numPseudo "pseudo map"
  let pseudoMap ← P.times numPseudo (do let u ← P.u32; let g ← P.u16; pure (u, g))
  let classes ← parseClassMap (version ≥ 0x00040000)
  let cmEnd ← P.pos
  P.guard (iSubst ≤ iJust ∧ iJust ≤ iPos ∧ iPos ≤ numPasses) "Silf: pass indices out of order"
  P.guard (iBidi == 255 ∨ iBidi ≤ numPasses) "Silf: bad bidi pass index"
  let lim ← P.lim
  let mut passes : Array Pass := #[]
  let mut expect := cmEnd
  for i in [0:numPasses] do
    let a := subStart + oPasses[i]!
    let b := subStart + oPasses[i+1]!
    P.guard (a == expect) s!"Silf: pass {i} starts at {a} but previous data ends at {expect}"
    P.guard (a ≤ b ∧ b ≤ lim) s!"Silf: pass {i} offsets out of bounds"
    passes := passes.push (← parsePass version subStart a b)
    expect := b
  P.guard (subStart + oPasses[numPasses]! == lim) s!"Silf: last pass offset does not reach the end of the table"
  return {
    version, compilerVersion, ruleVersion, maxGlyphID, extraAscent, extraDescent, numPasses, iSubst, iPos, iJust, iBidi,
    flags, maxPreContext, maxPostContext, attrPseudo, attrBreakWeight, attrDirectionality, attrMirroring,
    attrSkipPasses, numJLevels, jAttrs, numLigComp, numUserDefn, maxCompPerLig, direction, attrCollisions,
    numCritFeatures, scriptTags, lbGID, pseudoMap, classes, passes, compressed }

def decodeSilf (tbl : ByteArray) : Except String Silf :=
  match unframe tbl 0x00050000 with
  | .error e => .error s!"Silf: {e}"
  | .ok (plain, c) => P.run (parseSilfPlain c) plain

end Grc
