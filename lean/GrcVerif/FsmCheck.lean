/-
  C02: executable certificate checker for a decoded pass against the rules of the pass, and the proof that
  acceptance implies the `Cert` conditions of `Fsm.lean` (hence `run = specRun` on all glyph strings).
  Core Lean only.
-/
import GrcVerif.Fsm
import GrcVerif.Silf
namespace Grc.Fsm

/-- Rules of one pass as the checker sees them: glyph classes and, per rule, the class of each item
    (leading context already padded to the pass's longest, optional items expanded). -/
structure PassIR where
  classes : Array (List Nat)
  rules : Array (List Nat)

def PassIR.mem (p : PassIR) (cls g : Nat) : Bool := (p.classes.getD cls []).contains g

def PassIR.len (p : PassIR) (i : Nat) : Nat := (p.rules.getD i []).length

def PassIR.has (p : PassIR) (i k g : Nat) : Bool :=
  match (p.rules.getD i [])[k]? with
  | some cls => p.mem cls g
  | none => false

def PassIR.ruleSet (p : PassIR) : RuleSet := { n := p.rules.size, len := p.len, has := p.has }

/-- The FSM part of a pass, in list/array form. -/
structure FsmData where
  numRows : Nat
  numTrans : Nat
  numSuccess : Nat
  numCols : Nat
  ranges : List GRange
  trans : Array (Array Nat)
  oRuleMap : Array Nat
  ruleMap : Array Nat

def FsmData.ofPass (p : Pass) : FsmData :=
  { numRows := p.numRows, numTrans := p.numTransitional, numSuccess := p.numSuccess, numCols := p.numColumns,
    ranges := p.ranges.toList, trans := p.stateTrans, oRuleMap := p.oRuleMap, ruleMap := p.ruleMap }

def FsmData.col (d : FsmData) (g : Nat) : Option Nat :=
  (d.ranges.find? (fun r => decide (r.first ≤ g) && decide (g ≤ r.last))).map (·.col)

def FsmData.transAt (d : FsmData) (s c : Nat) : Nat := (d.trans.getD s #[]).getD c 0

def FsmData.success (d : FsmData) (s : Nat) : List Nat :=
  if s < d.numRows - d.numSuccess then []
  else
    let j := s - (d.numRows - d.numSuccess)
    ((d.ruleMap.toList.drop (d.oRuleMap.getD j 0)).take (d.oRuleMap.getD (j + 1) 0 - d.oRuleMap.getD j 0))

def FsmData.table (d : FsmData) : FsmTable :=
  { numTrans := d.numTrans, col := d.col, trans := d.transAt, success := d.success }

def FsmData.rep (d : FsmData) (c : Nat) : Nat :=
  match d.ranges.find? (fun r => r.col == c) with
  | some r => r.first
  | none => 0

abbrev Lab := Array (Option (Nat × List Nat))

def labAt (lab : Lab) (s : Nat) : Option (Nat × List Nat) := (lab.getD s none)

/-- All glyphs of a range. -/
def _root_.Grc.GRange.glyphs (r : GRange) : List Nat := List.range' r.first (r.last + 1 - r.first)

/-- (1) every glyph in a range has the same class memberships (over `used`) as the column representative. -/
def checkConsistent (p : PassIR) (d : FsmData) (used : List Nat) : Bool :=
  d.ranges.all fun r => r.glyphs.all fun g => used.all fun cls => p.mem cls g == p.mem cls (d.rep r.col)

/-- (0) `used` really lists every class that occurs as a rule item. -/
def checkUsed (p : PassIR) (used : List Nat) : Bool :=
  p.rules.toList.all fun r => r.all fun cls => used.contains cls

/-- (2) every glyph of every used class has a column. -/
def checkCover (p : PassIR) (d : FsmData) (used : List Nat) : Bool :=
  used.all fun cls => (p.classes.getD cls []).all fun g => (d.col g).isSome

def checkState (p : PassIR) (d : FsmData) (lab : Lab) (s : Nat) : Bool :=
  match labAt lab s with
  | none => true
  | some (k, a) =>
    if s < d.numTrans then
      (List.range d.numCols).all fun c =>
        let a' := specStep p.ruleSet k a (d.rep c)
        let s' := d.transAt s c
        if s' = 0 then a'.isEmpty
        else labAt lab s' == some (k + 1, a') && d.success s' == done p.ruleSet k a'
    else a.all fun i => !decide (k < p.len i)

def checkStates (p : PassIR) (d : FsmData) (lab : Lab) : Bool :=
  (List.range lab.size).all (checkState p d lab)

def checkRangesCols (d : FsmData) : Bool := d.ranges.all fun r => decide (r.col < d.numCols)

/-- The whole check. `lab` and `used` are untrusted hints (computed by search); acceptance is what counts. -/
def checkCert (p : PassIR) (d : FsmData) (lab : Lab) (used : List Nat) (s0 : Nat) : Bool :=
  checkUsed p used && checkConsistent p d used && checkCover p d used && checkRangesCols d &&
  checkStates p d lab && (labAt lab s0 == some (0, List.range p.rules.size))

/-! ### Soundness of the checker -/

theorem col_some_range (d : FsmData) (g c : Nat) (h : d.col g = some c) :
    ∃ r, r ∈ d.ranges ∧ g ∈ r.glyphs ∧ r.col = c := by
  unfold FsmData.col at h
  cases hf : d.ranges.find? (fun r => decide (r.first ≤ g) && decide (g ≤ r.last)) with
  | none => simp [hf] at h
  | some r =>
    simp [hf] at h
    have hm := List.mem_of_find?_eq_some hf
    have hp := List.find?_some hf
    simp at hp
    refine ⟨r, hm, ?_, h⟩
    unfold GRange.glyphs
    rw [List.mem_range'_1]
    omega

theorem has_of_used (p : PassIR) (used : List Nat) (hu : checkUsed p used = true) (g h : Nat)
    (hs : ∀ cls, cls ∈ used → p.mem cls g = p.mem cls h) : ∀ i k, p.has i k g = p.has i k h := by
  intro i k
  unfold PassIR.has
  cases hk : (p.rules.getD i [])[k]? with
  | none => rfl
  | some cls =>
    simp only
    apply hs
    -- cls is an item of rule i, which is a rule of p (else getD gives [] and [k]? is none)
    have hmem : cls ∈ p.rules.getD i [] := List.mem_of_getElem? hk
    unfold checkUsed at hu
    rw [List.all_eq_true] at hu
    by_cases hi : i < p.rules.size
    · have hr : p.rules.getD i [] ∈ p.rules.toList := by
        simp [Array.getD, hi]
      have := hu _ hr
      rw [List.all_eq_true] at this
      have := this cls hmem
      simpa using this
    · simp [Array.getD, hi] at hmem

theorem has_true_mem (p : PassIR) (used : List Nat) (hu : checkUsed p used = true) (i k g : Nat)
    (h : p.has i k g = true) : ∃ cls, cls ∈ used ∧ g ∈ p.classes.getD cls [] := by
  unfold PassIR.has at h
  cases hk : (p.rules.getD i [])[k]? with
  | none => rw [hk] at h; simp at h
  | some cls =>
    rw [hk] at h
    simp only [PassIR.mem, List.contains_eq_mem, decide_eq_true_eq] at h
    have hmem : cls ∈ p.rules.getD i [] := List.mem_of_getElem? hk
    unfold checkUsed at hu
    rw [List.all_eq_true] at hu
    by_cases hi : i < p.rules.size
    · have hr : p.rules.getD i [] ∈ p.rules.toList := by
        simp [Array.getD, hi]
      have := hu _ hr
      rw [List.all_eq_true] at this
      have := this cls hmem
      exact ⟨cls, by simpa using this, h⟩
    · simp [Array.getD, hi] at hmem

theorem rep_of_range (d : FsmData) (r : GRange) (hr : r ∈ d.ranges) :
    ∃ r', r' ∈ d.ranges ∧ r'.col = r.col ∧ d.rep r.col = r'.first := by
  unfold FsmData.rep
  cases hf : d.ranges.find? (fun x => x.col == r.col) with
  | none =>
    have := List.find?_eq_none.mp hf r hr
    simp at this
  | some r' =>
    have hm := List.mem_of_find?_eq_some hf
    have hp := List.find?_some hf
    simp at hp
    exact ⟨r', hm, hp, rfl⟩

/-- Acceptance by `checkCert` establishes the certificate conditions. -/
theorem checkCert_sound (p : PassIR) (d : FsmData) (lab : Lab) (used : List Nat) (s0 : Nat)
    (h : checkCert p d lab used s0 = true) :
    Cert d.table p.ruleSet (labAt lab) d.rep ∧ labAt lab s0 = some (0, List.range p.ruleSet.n) := by
  unfold checkCert at h
  simp only [Bool.and_eq_true] at h
  obtain ⟨⟨⟨⟨⟨hu, hcons⟩, hcov⟩, hrc⟩, hst⟩, hs0⟩ := h
  refine ⟨?_, by simpa [PassIR.ruleSet] using hs0⟩
  constructor
  · -- col_consistent
    intro g c hc
    obtain ⟨r, hr, hg, hcol⟩ := col_some_range d g c hc
    subst hcol
    apply has_of_used p used hu
    intro cls hcls
    unfold checkConsistent at hcons
    rw [List.all_eq_true] at hcons
    have := hcons r hr
    rw [List.all_eq_true] at this
    have := this g hg
    rw [List.all_eq_true] at this
    have := this cls hcls
    simpa using this
  · -- col_cover
    intro g hg i k
    cases hh : p.ruleSet.has i k g with
    | false => rfl
    | true =>
      obtain ⟨cls, hcls, hmem⟩ := has_true_mem p used hu i k g hh
      unfold checkCover at hcov
      rw [List.all_eq_true] at hcov
      have := hcov cls hcls
      rw [List.all_eq_true] at this
      have := this g hmem
      have hg' : d.col g = none := hg
      simp [hg'] at this
  · -- step
    intro s k a hlab hs c hex
    have hsz : s < lab.size := by
      by_cases hn : s < lab.size
      · exact hn
      · simp [labAt, Array.getD, hn] at hlab
    unfold checkStates at hst
    rw [List.all_eq_true] at hst
    have hS := hst s (List.mem_range.mpr hsz)
    unfold checkState at hS
    have hs' : s < d.numTrans := hs
    simp only [hlab, hs', if_true] at hS
    rw [List.all_eq_true] at hS
    have hc : c < d.numCols := by
      obtain ⟨g, hg⟩ := hex
      obtain ⟨r, hr, _, hcol⟩ := col_some_range d g c hg
      unfold checkRangesCols at hrc
      rw [List.all_eq_true] at hrc
      have := hrc r hr
      simp at this
      omega
    have hC := hS c (List.mem_range.mpr hc)
    show (d.transAt s c = 0 → _) ∧ (d.transAt s c ≠ 0 → _)
    constructor
    · intro h0
      simp only [h0, if_true] at hC
      simpa using hC
    · intro h0
      simp only [h0, if_false, Bool.and_eq_true] at hC
      obtain ⟨h1, h2⟩ := hC
      exact ⟨by simpa [FsmData.table] using h1, by simpa [FsmData.table] using h2⟩
  · -- final
    intro s k a hlab hs i hi
    have hsz : s < lab.size := by
      by_cases hn : s < lab.size
      · exact hn
      · simp [labAt, Array.getD, hn] at hlab
    unfold checkStates at hst
    rw [List.all_eq_true] at hst
    have hS := hst s (List.mem_range.mpr hsz)
    unfold checkState at hS
    have hs' : ¬ s < d.numTrans := hs
    simp only [hlab, hs', if_false] at hS
    rw [List.all_eq_true] at hS
    have := hS i hi
    simpa [PassIR.ruleSet] using this

/-- End-to-end statement used by the C02 check: if `checkCert` accepts, then for EVERY glyph string the engine's
    walk of the decoded table from the start state reports rule `i` iff it is a rule of the pass whose every item
    contains the corresponding glyph. -/
theorem checkCert_correct (p : PassIR) (d : FsmData) (lab : Lab) (used : List Nat) (s0 : Nat)
    (h : checkCert p d lab used s0 = true) (gs : List Nat) (i : Nat) :
    i ∈ d.table.run s0 gs ↔ (i < p.rules.size ∧ Matches p.ruleSet i gs) := by
  obtain ⟨C, h0⟩ := checkCert_sound p d lab used s0 h
  exact fsm_reports_iff_matches d.table p.ruleSet (labAt lab) d.rep C s0 h0 gs i

/-! ### Untrusted search for the labelling (breadth-first from the start state) -/

def computeLab (p : PassIR) (d : FsmData) (s0 : Nat) : Lab := Id.run do
  let mut lab : Lab := Array.replicate d.numRows none
  if s0 < d.numRows then
    lab := lab.set! s0 (some (0, List.range p.rules.size))
  let mut work : Array Nat := #[s0]
  let mut idx := 0
  let mut fuel := d.numRows + 1
  while idx < work.size ∧ fuel > 0 do
    let s := work[idx]!
    idx := idx + 1
    if s < d.numTrans then
      match labAt lab s with
      | none => pure ()
      | some (k, a) =>
        for c in [0:d.numCols] do
          let s' := d.transAt s c
          if s' != 0 ∧ s' < d.numRows then
            match labAt lab s' with
            | some _ => pure ()
            | none =>
              lab := lab.set! s' (some (k + 1, specStep p.ruleSet k a (d.rep c)))
              work := work.push s'
              fuel := fuel  -- keep linter quiet
  return lab

def computeUsed (p : PassIR) : List Nat :=
  (p.rules.toList.flatMap id).eraseDups

end Grc.Fsm
