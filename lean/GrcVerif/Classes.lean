/-
  C04: glyph class semantics, the model of the compiler's class evaluation and class-map construction,
  and the theorems relating them.

  * `ClassDef`, `value`                  — what a class definition denotes (members in order of mention, nested
                                           classes expanded, `&=` intersection, `-=` difference).
  * `interList`, `diffList`              — the compiler's ComputeMembers algorithms; `mem_interList`, `mem_diffList`.
  * `sortedPairs`                        — the (glyph, index) list of an input class as built by AddGlyphsToSortedList.
  * `lookup_sortedPairs`, `putsubs_correct` — the engine's lookup in that list returns the position of the glyph in
                                           the class as written, so the i-th selector glyph is replaced by the i-th
                                           output glyph.
  Core Lean only.
-/
namespace Grc.Cls

inductive ClassDef where
  | glyphs (l : List Nat)
  | ref (c : Nat)
  | union (ms : List ClassDef)
  | inter (a b : ClassDef)
  | diff (a b : ClassDef)
deriving Repr, Inhabited

/-- Intersection as computed by the compiler: members of `a`, in `a`'s order, that occur in `b`. -/
def interList (a b : List Nat) : List Nat := a.filter (fun g => b.contains g)

/-- Difference as computed by the compiler: for each member of `b` in turn, remove its first occurrence from `a`. -/
def diffList (a b : List Nat) : List Nat := b.foldl (fun acc g => acc.erase g) a

/-- Value of a definition; `defs c` is the definition of class `c`; `fuel` bounds reference depth. -/
def value (defs : Nat → ClassDef) : Nat → ClassDef → List Nat
  | _, .glyphs l => l
  | 0, .ref _ => []
  | fuel + 1, .ref c => value defs fuel (defs c)
  | fuel, .union ms => valueList defs fuel ms
  | fuel, .inter a b => interList (value defs fuel a) (value defs fuel b)
  | fuel, .diff a b => diffList (value defs fuel a) (value defs fuel b)
where
  valueList (defs : Nat → ClassDef) : Nat → List ClassDef → List Nat
    | _, [] => []
    | fuel, m :: ms => value defs fuel m ++ valueList defs fuel ms

theorem mem_interList (a b : List Nat) (x : Nat) : x ∈ interList a b ↔ x ∈ a ∧ x ∈ b := by
  simp [interList, List.mem_filter]

theorem interList_sublist (a b : List Nat) : (interList a b).Sublist a := by
  unfold interList; exact List.filter_sublist

theorem diffList_sublist (a b : List Nat) : (diffList a b).Sublist a := by
  unfold diffList
  induction b generalizing a with
  | nil => exact List.Sublist.refl a
  | cons g gs ih =>
    simp only [List.foldl_cons]
    exact (ih (a.erase g)).trans List.erase_sublist

theorem nodup_diffList (a b : List Nat) (h : a.Nodup) : (diffList a b).Nodup :=
  List.Nodup.sublist (diffList_sublist a b) h

/-- On a duplicate-free first operand, the compiler's difference is set difference (order of `a` kept). -/
theorem mem_diffList (a b : List Nat) (h : a.Nodup) (x : Nat) : x ∈ diffList a b ↔ x ∈ a ∧ x ∉ b := by
  unfold diffList
  induction b generalizing a with
  | nil => simp
  | cons g gs ih =>
    simp only [List.foldl_cons, List.mem_cons, not_or]
    rw [ih (a.erase g) (List.Nodup.sublist List.erase_sublist h)]
    rw [List.Nodup.mem_erase_iff h]
    constructor
    · rintro ⟨⟨h1, h2⟩, h3⟩; exact ⟨h2, h1, h3⟩
    · rintro ⟨h2, h1, h3⟩; exact ⟨⟨h1, h2⟩, h3⟩

/-! ### Input-class (glyph, index) list -/

/-- Insert keeping glyph order (position of the first pair whose glyph is ≥ the new one). -/
def insPair (p : Nat × Nat) : List (Nat × Nat) → List (Nat × Nat)
  | [] => [p]
  | q :: qs => if p.1 ≤ q.1 then p :: q :: qs else q :: insPair p qs

def sortedPairsAux : List Nat → Nat → List (Nat × Nat) → List (Nat × Nat)
  | [], _, acc => acc
  | g :: gs, i, acc => sortedPairsAux gs (i + 1) (insPair (g, i) acc)

/-- Model of AddGlyphsToSortedList: glyphs sorted by id, each with its index in the class as written. -/
def sortedPairs (sel : List Nat) : List (Nat × Nat) := sortedPairsAux sel 0 []

theorem mem_insPair (p x : Nat × Nat) (l : List (Nat × Nat)) : x ∈ insPair p l ↔ x = p ∨ x ∈ l := by
  induction l with
  | nil => simp [insPair]
  | cons q qs ih =>
    unfold insPair
    split
    · simp
    · simp only [List.mem_cons, ih]
      constructor
      · rintro (h | h | h) <;> simp [h]
      · rintro (h | h | h) <;> simp [h]

theorem mem_sortedPairsAux (gs : List Nat) : ∀ (i : Nat) (acc : List (Nat × Nat)) (x : Nat × Nat),
    x ∈ sortedPairsAux gs i acc ↔ x ∈ acc ∨ ∃ j, ∃ (h : j < gs.length), x = (gs[j], i + j) := by
  induction gs with
  | nil => intro i acc x; simp [sortedPairsAux]
  | cons g gs ih =>
    intro i acc x
    simp only [sortedPairsAux, ih, mem_insPair]
    constructor
    · rintro ((h | h) | ⟨j, hj, h⟩)
      · right; exact ⟨0, by simp, by simp [h]⟩
      · left; exact h
      · right; refine ⟨j + 1, by simp; omega, ?_⟩
        simp only [List.getElem_cons_succ]
        rw [h]; congr 1; omega
    · rintro (h | ⟨j, hj, h⟩)
      · left; right; exact h
      · cases j with
        | zero => left; left; simpa using h
        | succ j =>
          right
          refine ⟨j, by simp at hj; omega, ?_⟩
          simp only [List.getElem_cons_succ] at h
          rw [h]; congr 1; omega

theorem mem_sortedPairs (sel : List Nat) (x : Nat × Nat) :
    x ∈ sortedPairs sel ↔ ∃ j, ∃ (h : j < sel.length), x = (sel[j], j) := by
  unfold sortedPairs
  rw [mem_sortedPairsAux]
  simp

def SortedByGlyph (l : List (Nat × Nat)) : Prop := l.Pairwise (fun a b => a.1 ≤ b.1)

theorem sorted_insPair (p : Nat × Nat) (l : List (Nat × Nat)) (h : SortedByGlyph l) : SortedByGlyph (insPair p l) := by
  induction l with
  | nil => simp [insPair, SortedByGlyph]
  | cons q qs ih =>
    unfold insPair
    unfold SortedByGlyph at *
    rw [List.pairwise_cons] at h
    split
    · rename_i hle
      rw [List.pairwise_cons]
      refine ⟨?_, List.pairwise_cons.mpr h⟩
      intro a ha
      rcases List.mem_cons.mp ha with rfl | ha
      · exact hle
      · exact Nat.le_trans hle (h.1 a ha)
    · rename_i hnle
      rw [List.pairwise_cons]
      refine ⟨?_, ih h.2⟩
      intro a ha
      rcases (mem_insPair p a qs).mp ha with rfl | ha
      · omega
      · exact h.1 a ha

theorem sorted_sortedPairsAux (gs : List Nat) : ∀ (i : Nat) (acc : List (Nat × Nat)),
    SortedByGlyph acc → SortedByGlyph (sortedPairsAux gs i acc) := by
  induction gs with
  | nil => intro i acc h; exact h
  | cons g gs ih => intro i acc h; exact ih (i + 1) _ (sorted_insPair _ _ h)

/-- The stored list is sorted by glyph id (what the engine's binary search requires). -/
theorem sorted_sortedPairs (sel : List Nat) : SortedByGlyph (sortedPairs sel) :=
  sorted_sortedPairsAux sel 0 [] (by simp [SortedByGlyph])

/-- Engine lookup in an indexed class: the index stored with the glyph (modelled as a search by glyph id). -/
def lookup (pairs : List (Nat × Nat)) (g : Nat) : Option Nat :=
  (pairs.find? (fun q => q.1 == g)).map (·.2)

theorem lookup_sortedPairs (sel : List Nat) (hnd : sel.Nodup) (i : Nat) (hi : i < sel.length) :
    lookup (sortedPairs sel) sel[i] = some i := by
  unfold lookup
  cases hf : (sortedPairs sel).find? (fun q => q.1 == sel[i]) with
  | none =>
    have := List.find?_eq_none.mp hf (sel[i], i) ((mem_sortedPairs sel _).mpr ⟨i, hi, rfl⟩)
    simp at this
  | some q =>
    have hm := List.mem_of_find?_eq_some hf
    have hp := List.find?_some hf
    obtain ⟨j, hj, rfl⟩ := (mem_sortedPairs sel q).mp hm
    simp only [beq_iff_eq] at hp
    have : j = i := (List.getElem_inj hnd).mp hp
    simp [this]

theorem lookup_not_mem (sel : List Nat) (g : Nat) (h : g ∉ sel) : lookup (sortedPairs sel) g = none := by
  unfold lookup
  cases hf : (sortedPairs sel).find? (fun q => q.1 == g) with
  | none => rfl
  | some q =>
    have hm := List.mem_of_find?_eq_some hf
    have hp := List.find?_some hf
    obtain ⟨j, hj, rfl⟩ := (mem_sortedPairs sel q).mp hm
    simp only [beq_iff_eq] at hp
    exact absurd (hp ▸ List.getElem_mem hj) h

/-- The engine's PutSubs: look the glyph up in the input class, take the element of the output class at that index. -/
def putSubs (pairs : List (Nat × Nat)) (out : List Nat) (g : Nat) : Option Nat :=
  match lookup pairs g with
  | some i => out[i]?
  | none => none

/-- C04 substitution correspondence: the i-th glyph of the selector class is replaced by the i-th glyph of the
    output class. -/
theorem putsubs_correct (sel out : List Nat) (hnd : sel.Nodup) (i : Nat) (hi : i < sel.length) (ho : i < out.length) :
    putSubs (sortedPairs sel) out sel[i] = some out[i] := by
  unfold putSubs
  rw [lookup_sortedPairs sel hnd i hi]
  simp [ho]

end Grc.Cls
