/-
  C03 / C04 executable checks on the decoded real output: code well-formedness (`Code.check`), reference validity,
  and class-map substitution behaviour against the IR.
-/
import GrcVerif.Silf
import GrcVerif.Tables
import GrcVerif.Code
import GrcVerif.IR
import GrcVerif.Rules
import GrcVerif.Classes
namespace Grc.Chk
open Grc.Code Grc.Gen

structure RefEnv where
  numClasses : Nat
  numGlyphAttrs : Nat
  numFeats : Nat
  numUser : Nat

def maxSlat : Nat := kslatSeqValignWt
def maxGmet : Nat := kgmetDescent

/-- Reference validity of one instruction: class, glyph-attribute, feature, slot-attribute and metric operands exist. -/
def insRefsOk (e : RefEnv) (i : Ins) : Option String :=
  let a (k : Nat) := i.args.getD k 0
  if i.op = kopPutGlyph then (if a 0 * 256 + a 1 < e.numClasses then none else some s!"PutGlyph class {a 0 * 256 + a 1} ≥ {e.numClasses}")
  else if i.op = kopPutGlyphV1_2 then (if a 0 < e.numClasses then none else some s!"PutGlyph(8) class {a 0}")
  else if i.op = kopPutSubs then
    (if a 1 * 256 + a 2 < e.numClasses ∧ a 3 * 256 + a 4 < e.numClasses then none else some s!"PutSubs classes {a 1 * 256 + a 2},{a 3 * 256 + a 4} ≥ {e.numClasses}")
  else if i.op = kopPutSubsV1_2 then (if a 1 < e.numClasses ∧ a 2 < e.numClasses then none else some "PutSubs(8) class")
  else if i.op = kopPushGlyphAttr ∨ i.op = kopPushAttToGlyphAttr then
    (if a 0 * 256 + a 1 < e.numGlyphAttrs then none else some s!"glyph attr {a 0 * 256 + a 1} ≥ {e.numGlyphAttrs}")
  else if i.op = kopPushGlyphAttrV1_2 ∨ i.op = kopPushAttToGAttrV1_2 then
    (if a 0 < e.numGlyphAttrs then none else some s!"glyph attr(8) {a 0} ≥ {e.numGlyphAttrs}")
  else if i.op = kopPushFeat ∨ i.op = kopFeatSet then (if a 0 < e.numFeats then none else some s!"feature index {a 0} ≥ {e.numFeats}")
  else if i.op = kopPushSlotAttr ∨ i.op = kopAttrSet ∨ i.op = kopAttrAdd ∨ i.op = kopAttrSub ∨ i.op = kopAttrSetSlot then
    (if a 0 ≤ maxSlat then none else some s!"slot attr {a 0}")
  else if i.op = kopPushISlotAttr then
    (if a 0 ≤ maxSlat ∧ (a 0 ≠ kslatUserDefn ∨ a 2 < e.numUser) then none else some s!"indexed slot attr {a 0}[{a 2}] (numUser {e.numUser})")
  else if i.op = kopIAttrSet ∨ i.op = kopIAttrAdd ∨ i.op = kopIAttrSub ∨ i.op = kopIAttrSetSlot then
    (if a 0 ≤ maxSlat ∧ (a 0 ≠ kslatUserDefn ∨ a 1 < e.numUser) then none else some s!"indexed slot attr set {a 0}[{a 1}] (numUser {e.numUser})")
  else if i.op = kopPushGlyphMetric ∨ i.op = kopPushAttToGlyphMetric then (if a 0 ≤ maxGmet then none else some s!"glyph metric {a 0}")
  else none

def nodesRefs (e : RefEnv) (ns : List Node) : List String :=
  ns.flatMap fun n => match n with
    | .ins i => (insRefsOk e i).toList
    | .ctx _ body => body.flatMap fun i => (insRefsOk e i).toList

/-- Check one code block. `what` names it in messages. Empty block allowed only if `allowEmpty`. -/
def codeBlockOk (e : RefEnv) (what : String) (allowEmpty : Bool) (b : ByteArray) : List String :=
  if b.size == 0 then (if allowEmpty then [] else [s!"{what}: empty code block"]) else
  let bytes := b.toList.map (·.toNat)
  match parse bytes with
  | none => [s!"{what}: does not parse (unknown opcode or truncated operands): {bytes}"]
  | some nodes =>
    (if check nodes 0 then [] else [s!"{what}: stack discipline / missing return: {bytes}"]) ++
    (if check nodes 0 ∧ !exactReturn nodes 0 then [s!"{what}: values are left on the stack at the return, or code follows it: {bytes}"] else []) ++
    (nodesRefs e nodes).map (fun m => s!"{what}: {m}")

def passCodeOk (e : RefEnv) (pi : Nat) (p : Pass) : List String := Id.run do
  let mut out : List String := codeBlockOk e s!"pass {pi} pass-constraint" true p.passConstraint
  for r in [0:p.numRules] do
    out := out ++ codeBlockOk e s!"pass {pi} rule {r} constraint" true (p.ruleConstraints.getD r ByteArray.empty)
    out := out ++ codeBlockOk e s!"pass {pi} rule {r} action" false (p.actions.getD r ByteArray.empty)
  -- FSM cross references
  if p.numRows > 0 ∧ p.numRows < p.numTransitional then out := out ++ [s!"pass {pi}: numTransitional > numRows"]
  if p.numSuccess > p.numRows then out := out ++ [s!"pass {pi}: numSuccess > numRows"]
  if p.numRows > 0 ∧ p.numTransitional + p.numSuccess < p.numRows then
    out := out ++ [s!"pass {pi}: {p.numRows - p.numTransitional - p.numSuccess} states are neither transitional nor success"]
  return out

/-! ### C04: substitution behaviour of the class map -/

/-- Engine view of class lookup: index of glyph `g` in class `c`. -/
def classIndexOf (cm : ClassMap) (c g : Nat) : Option Nat :=
  if c < cm.numLinear then
    let l := (cm.linear.getD c #[]).toList
    let i := l.idxOf g
    if i < l.length then some i else none
  else Cls.lookup ((cm.indexed.getD (c - cm.numLinear) #[]).toList) g

/-- Engine view: glyph at index `i` of class `c`. -/
def classGlyphAt (cm : ClassMap) (c i : Nat) : Option Nat :=
  if c < cm.numLinear then (cm.linear.getD c #[])[i]?
  else ((cm.indexed.getD (c - cm.numLinear) #[]).toList.find? (fun q => q.2 == i)).map (·.1)

/-- Split structured action code into per-item segments (each ends with Next or CopyNext); the trailing return
    sequence is dropped. -/
def splitItems (ns : List Node) : List (List Ins) := Id.run do
  let mut segs : List (List Ins) := []
  let mut cur : List Ins := []
  for n in ns do
    match n with
    | .ins i =>
      cur := cur ++ [i]
      if i.op = kopNext ∨ i.op = kopCopyNext then
        segs := segs ++ [cur]
        cur := []
    | .ctx _ _ => pure ()
  return segs

def checkRuleSubst (ir : ProgIR) (cm : ClassMap) (r : RuleIR) (action : ByteArray) : List String := Id.run do
  let bytes := action.toList.map (·.toNat)
  match parse bytes with
  | none => return ["action does not parse"]
  | some nodes =>
    let segs := splitItems nodes
    let pre := r.preCount
    -- index one past the last modified item
    let limMod := r.items.length - (r.items.reverse.takeWhile (fun it => !it.mod)).length
    let modItems := (r.items.drop pre).take (limMod - pre)
    let mut out : List String := []
    if segs.length < modItems.length then
      return [s!"action has {segs.length} item segments, rule has {modItems.length} items from first to last modified"]
    for (it, seg, k') in (modItems.zip segs).zipIdx.map (fun ((a, b), c) => (a, b, c)) do
      let k := k'
      match it.out with
      | some (.cls oc sel) =>
        let outVal := ir.classes.getD oc []
        let selItemIdx := match sel with | some s => s - 1 | none => pre + k
        let selCls := match r.items[selItemIdx]? with | some si => si.inCls | none => none
        let selVal := match selCls with | some c => ir.classes.getD c [] | none => []
        -- what the font does
        let putG := seg.find? (fun i => i.op = kopPutGlyph)
        let putS := seg.find? (fun i => i.op = kopPutSubs)
        match putG, putS with
        | some i, _ =>
          let c := i.args.getD 0 0 * 256 + i.args.getD 1 0
          let g0 := classGlyphAt cm c 0
          -- the rule denotes a constant replacement only if there is no correspondence to follow
          if outVal.length ≤ 1 ∨ selVal.isEmpty then
            if g0 != outVal[0]? then
              out := out ++ [s!"item {pre + k}: PutGlyph class {c} gives {g0}, rule says {outVal[0]?}"]
          else
            out := out ++ [s!"item {pre + k}: font replaces by a constant glyph but the rule denotes a class correspondence ({selVal.length} -> {outVal.length})"]
        | none, some i =>
          let icls := i.args.getD 1 0 * 256 + i.args.getD 2 0
          let ocls := i.args.getD 3 0 * 256 + i.args.getD 4 0
          for (g, idx) in selVal.zipIdx do
            if selVal.idxOf g == idx then   -- first occurrence defines the correspondence
              let got := match classIndexOf cm icls g with
                | some j => classGlyphAt cm ocls j
                | none => none
              let want := if outVal.length == 1 then outVal[0]? else outVal[idx]?
              if want.isSome ∧ got != want then
                out := out ++ [s!"item {pre + k}: glyph {g} (index {idx} of selector class) is replaced by {got}, rule says {want} (PutSubs classes {icls}->{ocls})"]
        | none, none => out := out ++ [s!"item {pre + k}: rule substitutes a class but the action has no PutGlyph/PutSubs"]
      | some (.copy k) =>
        -- @k: the engine copies the slot at (input index of item k) - (input index of this item)
        let ii (j : Nat) : Int := ((r.items.take j).filter (fun x => x.inCls.isSome)).length
        let cur : Int := if it.inCls.isSome then ii (pre + k') else ii (pre + k') - 1
        let want : Int := ii (k - 1) - cur
        match seg.find? (fun i => i.op = kopPutCopy) with
        | some i =>
          let raw := i.args.getD 0 0
          let got : Int := if raw ≥ 128 then (raw : Int) - 256 else raw
          if got != want then out := out ++ [s!"item {pre + k'}: PutCopy offset {got}, but @{k} is {want} input slots away"]
        | none => out := out ++ [s!"item {pre + k'}: rule copies @{k} but the action has no PutCopy"]
      | _ => pure ()
      -- associations
      if !it.assoc.isEmpty then
        let ii (j : Nat) : Int := ((r.items.take j).filter (fun x => x.inCls.isSome)).length
        let cur : Int := if it.inCls.isSome then ii (pre + k') else ii (pre + k') - 1
        let want : List Int := it.assoc.map fun a => ii (a - 1) - cur
        match seg.find? (fun i => i.op = kopAssoc) with
        | some i =>
          let got : List Int := (i.args.drop 1).map fun (raw : Nat) => if raw ≥ 128 then (raw : Int) - 256 else (raw : Int)
          if got != want then out := out ++ [s!"item {pre + k'}: Assoc offsets {got}, rule's associations {it.assoc} are {want} input slots away"]
        | none => out := out ++ [s!"item {pre + k'}: rule associates {it.assoc} but the action has no Assoc"]
    return out

end Grc.Chk
