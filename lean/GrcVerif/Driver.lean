/-
  Command interpreter for the grcv driver (core only).
-/
import GrcVerif.Bytes
import GrcVerif.Sfnt
import GrcVerif.Silf
import GrcVerif.Tables
import GrcVerif.Json
import GrcVerif.FsmCheck
import GrcVerif.IR
import GrcVerif.Rules
import GrcVerif.Precedence
import GrcVerif.Check03
import GrcVerif.SfntCheck
import GrcVerif.GlyphAttr
import GrcVerif.PassBits
import GrcVerif.MainSM
import GrcVerif.Version
import GrcVerif.FeatModel
import GrcVerif.Cmap
import GrcVerif.CmapSearch
import GrcVerif.LineMap
import GrcVerif.StaticRules
import GrcVerif.Octabox
import GrcVerif.Args
import GrcVerif.Check01
import GrcVerif.Engine
import GrcVerif.Generated.ArgConsts
namespace Grc.Driver

structure State where
  font : Option ByteArray := none
  sfnt : Option Sfnt := none
  inFont : Option ByteArray := none
  inSfnt : Option Sfnt := none
  ir : ProgIR := {}

def getTable (st : State) (tag : Nat) : Except String ByteArray :=
  match st.font, st.sfnt with
  | some buf, some f =>
    match f.find? tag with
    | none => .error s!"missing table {tagStr tag}"
    | some e =>
      match tableBytes buf e with
      | none => .error s!"table {tagStr tag} out of bounds"
      | some b => .ok b
  | _, _ => .error "no font loaded"

def getSilf (st : State) : Except String Silf := do
  let t ← getTable st tagSilf
  decodeSilf t

def getGlat (st : State) : Except String (Gloc × Glat) := do
  let silf ← getSilf st
  let n := silf.maxGlyphID + 1
  let gl ← getTable st tagGloc
  let gloc ← P.run (parseGloc n) gl
  let ga ← getTable st tagGlat
  let glat ← decodeGlat ga gloc n
  return (gloc, glat)

/-! Untrusted counterexample search for C02: breadth-first over glyph strings, comparing `run` with `specRun`. -/
open Fsm in
def findCex (p : PassIR) (d : FsmData) (s0 : Nat) (alphabet : List Nat) (maxDepth : Nat) : Option (List Nat) := Id.run do
  -- frontier entries: (glyphs so far reversed, table state (none = stopped), k, alive)
  let R := p.ruleSet
  let mut frontier : Array (List Nat × Option Nat × Nat × List Nat) := #[([], some s0, 0, List.range p.rules.size)]
  let mut seen : Array (Option Nat × Nat × List Nat) := #[]
  for _ in [0:maxDepth] do
    let mut next : Array (List Nat × Option Nat × Nat × List Nat) := #[]
    for (gsr, ts, k, alive) in frontier do
      for g in alphabet do
        -- one step of each side
        let a' := specStep R k alive g
        let specOut := done R k a'
        let (ts', tabOut) : Option Nat × List Nat :=
          match ts with
          | none => (none, [])
          | some s =>
            if s < d.numTrans then
              match d.col g with
              | none => (none, [])
              | some c =>
                let s' := d.transAt s c
                if s' = 0 then (none, []) else (some s', d.success s')
            else (none, [])
        if specOut != tabOut then
          return some (g :: gsr).reverse
        let key := (ts', k + 1, a')
        if (ts'.isSome ∨ !a'.isEmpty) ∧ !(seen.contains key) then
          seen := seen.push key
          next := next.push (g :: gsr, ts', k + 1, a')
    frontier := next
    if frontier.isEmpty then break
  return none

structure PassRules where
  passIndex : Nat
  rules : Array (List Nat)

open Fsm in
def cmdC02 (st : State) : Except String (List String) := do
  let silf ← getSilf st
  let mut out : List String := []
  for pj in st.ir.passes do
    let mp := passMaxPre pj.rules
    let pr : PassRules := { passIndex := pj.index, rules := (pj.rules.map fun r => r.matchItems st.ir.anyClass mp).toArray }
    match silf.passes[pr.passIndex]? with
    | none => out := out ++ [s!"pass {pr.passIndex} FAIL no-such-pass-in-font numPasses={silf.numPasses}"]
    | some pass =>
      let p : PassIR := { classes := st.ir.classes, rules := pr.rules }
      let d := FsmData.ofPass pass
      let s0 := 0
      let lab := computeLab p d s0
      let used := computeUsed p
      if pass.numRules != pr.rules.size then
        out := out ++ [s!"pass {pr.passIndex} FAIL rule-count font={pass.numRules} ir={pr.rules.size}"]
      else if checkCert p d lab used s0 then
        let nlab := lab.foldl (fun n l => if l.isSome then n + 1 else n) 0
        out := out ++ [s!"pass {pr.passIndex} ok rules={pr.rules.size} rows={d.numRows} cols={d.numCols} labelled={nlab}"]
      else
        let why :=
          if !checkUsed p used then "used"
          else if !checkConsistent p d used then "column-consistency"
          else if !checkCover p d used then "column-cover"
          else if !checkRangesCols d then "range-cols"
          else if !checkStates p d lab then "states"
          else "start-label"
        -- alphabet: every glyph of a used class, first glyph of each range, one glyph outside everything
        let classGlyphs := (used.flatMap fun c => p.classes.getD c []).eraseDups
        let alpha := (classGlyphs ++ d.ranges.map (·.first) ++ [st.ir.numGlyphs]).eraseDups
        let maxLen := pr.rules.foldl (fun m r => max m r.length) 0
        let cex := findCex p d s0 alpha (maxLen + 1)
        let cexs := match cex with
          | some gs => "cex=" ++ ",".intercalate (gs.map toString)
          | none => "cex=none"
        out := out ++ [s!"pass {pr.passIndex} FAIL cert-rejected why={why} {cexs}"]
  return out ++ ["done"]


/-- C06: header fields of each pass against the model of FixRulePreContexts/SortKey, and the start-state
    hypothesis of `Prec.start_state_fires_iff` evaluated on the decoded table. -/
def cmdC06 (st : State) : Except String (List String) := do
  let silf ← getSilf st
  let mut out : List String := []
  for pj in st.ir.passes do
    match silf.passes[pj.index]? with
    | none => out := out ++ [s!"pass {pj.index} FAIL no-such-pass-in-font"]
    | some pass =>
      let mp := passMaxPre pj.rules
      let mn := passMinPre pj.rules
      let keys := pj.rules.map (·.sortKey)
      let pres := pj.rules.map (·.preCount)
      let d := Fsm.FsmData.ofPass pass
      let mut fails : List String := []
      if pass.numRules != pj.rules.length then fails := fails ++ [s!"rule-count font={pass.numRules} ir={pj.rules.length}"]
      if pass.maxRulePreContext != mp then fails := fails ++ [s!"maxRulePreContext font={pass.maxRulePreContext} model={mp}"]
      if pass.minRulePreContext != mn then fails := fails ++ [s!"minRulePreContext font={pass.minRulePreContext} model={mn}"]
      if pass.ruleSortKeys.toList != keys then fails := fails ++ [s!"ruleSortKeys font={pass.ruleSortKeys.toList} model={keys}"]
      if pass.rulePreContext.toList != pres then fails := fails ++ [s!"rulePreContext font={pass.rulePreContext.toList} model={pres}"]
      -- start states: state after k phantom glyphs
      for k in [0:mp - mn + 1] do
        let sa := Prec.stateAfter d.table 0 (List.replicate k st.ir.phantom)
        let fs := pass.startStates[k]?
        if sa != fs then fails := fails ++ [s!"startStates[{k}] font={fs} walk-over-phantoms={sa}"]
      -- phantom in ANY, every rule has an input item
      if !((st.ir.classes.getD st.ir.anyClass []).contains st.ir.phantom) then fails := fails ++ ["ir: phantom not in ANY"]
      if pj.rules.any (fun r => r.inputClasses.isEmpty) then fails := fails ++ ["ir: rule without input items"]
      -- rule map order inside each success state ascending (source order among equals)
      for j in [0:pass.numSuccess] do
        let a := pass.oRuleMap.getD j 0
        let b := pass.oRuleMap.getD (j+1) 0
        let seg := (pass.ruleMap.toList.drop a).take (b - a)
        if !(seg.zip (seg.drop 1)).all (fun (x, y) => x < y) then fails := fails ++ [s!"ruleMap of success state {j} not ascending: {seg}"]
      if fails.isEmpty then
        out := out ++ [s!"pass {pj.index} ok rules={pj.rules.length} minPre={mn} maxPre={mp} keys={keys}"]
      else
        out := out ++ [s!"pass {pj.index} FAIL " ++ " ; ".intercalate fails]
  return out ++ ["done"]

/-- C03: everything decodes strictly, all code blocks are well-formed stack-machine programs with valid references. -/
def cmdC03 (st : State) : Except String (List String) := do
  let mut fails : List String := []
  let silf? := getSilf st
  match silf? with
  | .error e => return [s!"FAIL Silf: {e}", "done"]
  | .ok silf =>
    let n := silf.maxGlyphID + 1
    let glat? := getGlat st
    let mut numAttrs := 0
    match glat? with
    | .error e => fails := fails ++ [s!"Glat/Gloc: {e}"]
    | .ok (gloc, glat) =>
      numAttrs := gloc.numAttrs
      if glat.glyphs.size != n then fails := fails ++ ["Glat glyph count"]
      for a in [silf.attrPseudo, silf.attrBreakWeight, silf.attrDirectionality] do
        if a ≥ gloc.numAttrs then fails := fails ++ [s!"Silf header names glyph attribute {a} ≥ numAttrs {gloc.numAttrs}"]
    let feat? := (do let t ← getTable st tagFeat; P.run parseFeat t)
    let mut numFeats := 0
    match feat? with
    | .error e => fails := fails ++ [s!"Feat: {e}"]
    | .ok f => numFeats := f.feats.size
    match (do let t ← getTable st tagSill; P.run parseSill t) with
    | .error e => fails := fails ++ [s!"Sill: {e}"]
    | .ok _ => pure ()
    match (do let t ← getTable st tagName; P.run parseName t) with
    | .error e => fails := fails ++ [s!"name: {e}"]
    | .ok _ => pure ()
    if silf.lbGID > silf.maxGlyphID then fails := fails ++ ["lbGID > maxGlyphID"]
    for (u, g) in silf.pseudoMap do
      if g > silf.maxGlyphID then fails := fails ++ [s!"pseudo glyph {g} for U+{u} > maxGlyphID"]
    let numClasses := silf.classes.linear.size + silf.classes.indexed.size
    for c in silf.classes.linear do
      for g in c do
        if g ≥ n then fails := fails ++ [s!"class glyph {g} > maxGlyphID"]
    for c in silf.classes.indexed do
      for (g, i) in c do
        if g ≥ n then fails := fails ++ [s!"class glyph {g} > maxGlyphID"]
        if i ≥ c.size then fails := fails ++ [s!"class index {i} ≥ class size {c.size}"]
    let env : Chk.RefEnv := { numClasses, numGlyphAttrs := numAttrs, numFeats, numUser := silf.numUserDefn }
    let mut pi := 0
    for p in silf.passes do
      fails := fails ++ Chk.passCodeOk env pi p
      for r in p.ranges do
        if r.last ≥ n then fails := fails ++ [s!"pass {pi}: range glyph {r.last} > maxGlyphID"]
      pi := pi + 1
    let codeBlocks := silf.passes.foldl (fun a p => a + 1 + 2 * p.numRules) 0
    if fails.isEmpty then
      return [s!"ok silfVersion={silf.version} passes={silf.numPasses} classes={numClasses} codeBlocks={codeBlocks} glyphs={n} compressed={silf.compressed}", "done"]
    else return (fails.map (fun f => s!"FAIL {f}")) ++ ["done"]

/-- C04: class values (Lean ClassSem on the IR definitions) and substitution behaviour of the stored class map. -/
def cmdC04 (st : State) : Except String (List String) := do
  let silf ← getSilf st
  let ir := st.ir
  let mut out : List String := []
  -- (a) IR self-check: class values recomputed by the Lean semantics from the definition trees
  let defsFn : Nat → Cls.ClassDef := fun c => ir.classDefs.getD c (.glyphs [])
  let mut nDefs := 0
  for c in [0:ir.classDefs.size] do
    let v := Cls.value defsFn (ir.classDefs.size + 1) (defsFn c)
    nDefs := nDefs + 1
    if v != ir.classes.getD c [] then
      out := out ++ [s!"IRERR class {c}: Lean ClassSem value {v} differs from generator value {ir.classes.getD c []}"]
  let mut nItems := 0
  for pj in ir.passes do
    match silf.passes[pj.index]? with
    | none => out := out ++ [s!"FAIL pass {pj.index}: no such pass in font"]
    | some pass =>
      let mut ri := 0
      for r in pj.rules do
        nItems := nItems + (r.items.filter (fun it => match it.out with | some (.cls _ _) => true | _ => false)).length
        for m in Chk.checkRuleSubst ir silf.classes r (pass.actions.getD ri ByteArray.empty) do
          out := out ++ [s!"FAIL pass {pj.index} rule {ri} (line {r.line}): {m}"]
        ri := ri + 1
  if out.isEmpty then return [s!"ok classDefs={nDefs} substItems={nItems} linear={silf.classes.linear.size} indexed={silf.classes.indexed.size}", "done"]
  return out ++ ["done"]

/-- C08: container validity of the loaded output font, preservation relative to the loaded input font. -/
def cmdC08 (st : State) (renamed : Bool) : List String :=
  match st.font, st.sfnt with
  | some ob, some fo =>
    let c := SfntChk.checkContainer ob fo
    let rest : List String :=
      match st.inFont, st.inSfnt with
      | some ib, some fi =>
        let pres := SfntChk.checkPreserved ib fi ob fo
        let names : List String :=
          match fi.find? tagName, fo.find? tagName with
          | some ei, some eo =>
            match tableBytes ib ei, tableBytes ob eo with
            | some ti, some to =>
              match P.run parseName ti, P.run parseName to with
              | .ok ri, .ok ro => SfntChk.checkNames ri ro renamed
              | .error e, _ => [s!"input name table: {e}"]
              | _, .error e => [s!"output name table: {e}"]
            | _, _ => ["name table out of bounds"]
          | _, _ => []
        pres ++ names
      | _, _ => ["no input font loaded"]
    let all := c ++ rest
    if all.isEmpty then [s!"ok tables={fo.dir.length} size={ob.size}", "done"]
    else all.map (fun m => s!"FAIL {m}") ++ ["done"]
  | _, _ => ["error no font", "done"]

/-- C05: glyph attribute matrix of the real font against the specification's winner per (glyph, attribute). -/
def cmdC05 (st : State) : Except String (List String) := do
  let silf ← getSilf st
  let (gloc, glat) ← getGlat st
  let some ga := st.ir.gattr | throw "IR has no gattr section"
  let mut out : List String := []
  let n := silf.maxGlyphID + 1
  -- recover attribute ids from the marker glyph
  let mg := glat.glyphs.getD ga.marker default
  let mut ids : Array Nat := #[]
  for j in [0:ga.numAttrs] do
    let want := ga.markerBase + j
    let cands := mg.attrs.toList.filter (fun (_, v) => v == want)
    match cands with
    | [(a, _)] => ids := ids.push a
    | _ => out := out ++ [s!"FAIL marker glyph {ga.marker}: attribute {j} (marker value {want}) found {cands.length} times"]; ids := ids.push 100000
  let bwId := silf.attrBreakWeight
  let mut cells := 0
  let mut nonDefault := 0
  for g in [0:n] do
    let gat := glat.glyphs.getD g default
    let mine := fun (attr : Nat) =>
      ((ga.assigns.filter (fun a => a.attr == attr ∧ (st.ir.classes.getD a.cls []).contains g)).mergeSort (fun a b => a.order ≤ b.order)).map
        (fun a => ({ line := a.line, override := a.override,
                     value := ((a.perGlyph.find? (·.1 == g)).map (·.2)).getD a.value } : GA.Asg))
    for j in [0:ga.numAttrs] do
      if g != ga.marker then
        let want : Int := match GA.specWinner (mine j) with | some w => w.value | none => 0
        let got := gat.get (ids.getD j 100000)
        cells := cells + 1
        if want != 0 then nonDefault := nonDefault + 1
        if got != want then out := out ++ [s!"FAIL glyph {g} attribute ua{j} (id {ids.getD j 0}): font has {got}, glyph table denotes {want}"]
    -- breakweight: explicit winner, else documented default (letter = 30, white space = 15 for format >= 2)
    let wantBw : Int := match GA.specWinner (mine 1000) with
      | some w => w.value
      | none => if ga.spaceGlyphs.contains g then 15 else 30
    let gotBw := gat.get bwId
    cells := cells + 1
    if gotBw != wantBw then out := out ++ [s!"FAIL glyph {g} breakweight (id {bwId}): font has {gotBw}, glyph table denotes {wantBw}"]
    -- only non-zero values are stored
    for (a, v) in gat.attrs do
      if v == 0 then out := out ++ [s!"FAIL glyph {g}: zero value stored for attribute {a}"]
  if out.isEmpty then return [s!"ok cells={cells} nonDefault={nonDefault} numAttrs={gloc.numAttrs} glatVersion={glat.version}", "done"]
  return out ++ ["done"]

/-- C01: action and constraint code of every rule of the real font against the expressions of the IR
    (decompiled trees = denoted trees after constant folding; see Check01.lean). -/
def cmdC01 (st : State) : Except String (List String) := do
  let silf ← getSilf st
  let mut out : List String := []
  -- glyph-attribute ids from the marker glyph (as in C05), when the program has glyph attributes
  let mut ids : Array Nat := #[]
  match st.ir.gattr with
  | some ga =>
    let (_gloc, glat) ← getGlat st
    let mg := glat.glyphs.getD ga.marker default
    for j in [0:ga.numAttrs] do
      let want := ga.markerBase + j
      match mg.attrs.toList.filter (fun (_, v) => v == want) with
      | [(a, _)] => ids := ids.push a
      | cands => out := out ++ [s!"FAIL marker glyph {ga.marker}: attribute {j} (marker value {want}) found {cands.length} times"]; ids := ids.push 100000
  | none => pure ()
  -- (attribute 1000 of the IR is breakweight, as in C05: `glyph.breakweight` in a rule reads the glyph attribute the Silf
  -- header names for it)
  let gmap : Nat → Nat := fun a => if a == 1000 then silf.attrBreakWeight else ids.getD a 100000
  let mut nRules := 0
  let mut nSets := 0
  let mut nCons := 0
  for pj in st.ir.passes do
    match silf.passes[pj.index]? with
    | none => out := out ++ [s!"FAIL pass {pj.index}: no such pass in font"]
    | some pass =>
      -- the pass header says what the directives of the pass say
      for (nm, want, got) in [("flags (CollisionFix | AutoKern << 3)", pj.flags, pass.flags),
                              ("MaxRuleLoop", pj.maxRuleLoop, pass.maxRuleLoop), ("MaxBackup", pj.maxBackup, pass.maxBackup)] do
        match want with
        | some w => if w != got then out := out ++ [s!"FAIL pass {pj.index}: header {nm} is {got}, the program says {w}"]
        | none => pure ()
      let mut ri := 0
      for r in pj.rules do
        nRules := nRules + 1
        let (msgs, a, c) := Chk01.checkRule st.ir gmap r (pass.actions.getD ri ByteArray.empty) (pass.ruleConstraints.getD ri ByteArray.empty)
        nSets := nSets + a
        nCons := nCons + c
        for m in msgs do
          out := out ++ [s!"FAIL pass {pj.index} rule {ri} (line {r.line}): {m}"]
        ri := ri + 1
  if out.isEmpty then return [s!"ok rules={nRules} attrValues={nSets} itemConstraints={nCons}", "done"]
  return out ++ ["done"]

/-- C01 (engine level): shape a glyph string with the reference interpreter of the IR's rules. -/
def cmdShape (st : State) (fv : List Int) (gs : List String) : List String :=
  match gs.mapM (·.toNat?) with
  | none => ["bad-op"]
  | some gids =>
    let tbl := st.ir.gattrValues
    let p : Eng.Prog := { ir := st.ir, nuser := st.ir.numUser, feats := fun f => fv.getD f 0, advOf := fun g => st.ir.advances.getD g 0,
                          pointOf := fun nm g => match st.ir.points.find? (·.1 == nm) with
                            | some (_, vs) => (match vs.find? (·.1 == g) with | some (_, x, y) => (x, y) | none => (0, 0))
                            | none => (0, 0),
                          gvals := fun g a => match tbl.find? (·.1 == g) with | some (_, vs) => vs.getD a 0 | none => 0 }
    let (out, stalled) := Eng.shape p gids
    let pos := Eng.positions out
    let item (sp : Eng.Slot × (Int × Int)) : String :=
      let s := sp.1
      "[" ++ toString s.gid ++ "," ++ toString s.before ++ "," ++ toString s.after ++ ",[" ++ ",".intercalate (s.user.map toString) ++ "]," ++ (if s.assocOk then "1" else "0")
        ++ "," ++ toString sp.2.1 ++ "," ++ toString sp.2.2 ++ "," ++ toString s.advX ++ "]"
    [(if stalled then "stalled " else "") ++ "[" ++ ",".intercalate ((out.zip pos).map item) ++ "]"]

def _root_.Grc.RuleIR.effective (r : RuleIR) : Bool :=
  r.items.any fun it => it.mod ∧ (it.inCls.isNone ∨ it.out.isSome ∨ !it.attrs.isEmpty)

/-- C14: the hypothesis of `PB.skip_sound` evaluated on the decoded *skipPasses* attributes of the real font. -/
def cmdC14 (st : State) : Except String (List String) := do
  let silf ← getSilf st
  let (_, glat) ← getGlat st
  let mut out : List String := []
  if silf.attrSkipPasses == 0 then return ["ok noopt (no skip-passes attribute: every pass always runs)", "done"]
  for pj in st.ir.passes do
    let p := pj.index
    if p ≥ 32 then
      out := out ++ [s!"pass {p} ok always-run (index >= 32)"]
    else
      let attr := silf.attrSkipPasses + p / 16
      let bitSet : Nat → Bool := fun g =>
        let v := (glat.glyphs.getD g default).get attr
        ((v.toNat / 2 ^ (p % 16)) % 2 == 1)
      let eff := pj.rules.filter RuleIR.effective
      let rules : List PB.RuleItems := eff.map fun r => r.inputClasses.map fun c => st.ir.classes.getD c []
      if PB.checkBits bitSet rules then
        let nset := (List.range (silf.maxGlyphID + 1)).foldl (fun n g => if bitSet g then n + 1 else n) 0
        out := out ++ [s!"pass {p} ok effectiveRules={eff.length} of={pj.rules.length} glyphsSkippable={nset} of={silf.maxGlyphID + 1}"]
      else
        -- failing input: a rule none of whose items is fully cleared; exhibit one glyph string of skippable glyphs that it matches
        for (r, ri) in pj.rules.zipIdx do
          if r.effective then
            let items := r.inputClasses.map fun c => st.ir.classes.getD c []
            if !PB.ruleHasKey bitSet items then
              let witness := items.map fun (cls : List Nat) => (cls.find? bitSet).getD 0
              out := out ++ [s!"pass {p} FAIL rule {ri} (line {r.line}) has no key item: glyph string {witness} consists only of glyphs marked skippable for pass {p} yet the rule matches it"]
  return out ++ ["done"]

/-- `args h1 h2 ...`: each argument hex-encoded (`.` = empty string). Runs the model of main's argument handling
    at the constants extracted from the source. -/
def cmdArgs (hs : List String) : List String :=
  let dec (h : String) : Option Args.CStr :=
    if h == "." then some [] else
      let cs := h.toList
      if cs.length % 2 != 0 then none else
        let rec go : List Char → Option (List Nat)
          | a :: b :: rest =>
            let hv (c : Char) : Option Nat :=
              if c.isDigit then some (c.toNat - 48) else if 'a' ≤ c ∧ c ≤ 'f' then some (c.toNat - 87) else none
            match hv a, hv b, go rest with
            | some x, some y, some r => some ((x * 16 + y) :: r)
            | _, _, _ => none
          | [] => some []
          | _ => none
        go cs
  match hs.mapM dec with
  | none => ["bad-op"]
  | some argv =>
    let r := Args.parseArgs Gen.argConsts argv
    let hex (l : Args.CStr) : String :=
      if l.isEmpty then "." else String.join (l.map fun n =>
        let d (k : Nat) : Char := if k < 10 then Char.ofNat (48 + k) else Char.ofNat (87 + k)
        String.ofList [d (n / 16), d (n % 16)])
    let maxw (b : Args.Buf) : String :=
      match (r.writes.filter (·.buf == b)).map (·.idx) |>.foldl (fun (a : Option Nat) x => some (match a with | some m => max m x | none => x)) none with
      | some m => toString m
      | none => "-"
    let tail := s!" maxrgch={maxw .rgch} maxout={maxw .outFile} maxfam={maxw .family}"
    match r.outcome with
    | .crash why => [s!"outcome=crash why={why}" ++ tail]
    | .usage => ["outcome=usage" ++ tail]
    | .tooLong => ["outcome=toolong" ++ tail]
    | .tooLongDerived => ["outcome=toolongderived" ++ tail]
    | .proceed o g f out fam =>
      let b (x : Bool) := if x then "1" else "0"
      [s!"outcome=proceed gdl={hex g} font={hex f} out={hex out} fam={match fam with | some x => hex x | none => "-"} err={match o.errFile with | some x => hex x | none => "-"} quiet={b o.quiet} dbgxml={b o.dbgXml} dbgall={b o.dbgAll} compress={b o.compress}" ++ tail]

def cmdMainSM (args : List String) : List String :=
  match args.mapM (fun a => if a == "1" then some true else if a == "0" then some false else none) with
  | some [x1, x2, x3, x4, x5, x6, x7, x8, x9, x10, x11, x12, x13, x14, x15, x16] =>
    let s : MainSM.Scn := {
      sameInOut := x1, gdlOpens := x2, encodingOk := x3, tmpOk := x4, ppOk := x5, parseOk := x6,
      postParseOk := x7, fontOk := x8, optsOk := x9, preCompileOk := x10, dbgFiles := x11, dbgXml := x12,
      outOpens := x13, outWrites := x14, errFileOpens := x15, fsmOk := x16 }
    let r := MainSM.run s
    let opName (x : MainSM.Op) : String := (toString (repr x)).replace "Grc.MainSM.Op." ""
    let opsStr := ",".intercalate (r.ops.map opName)
    [s!"exit={r.exit} errors={r.errors} complete={r.fontComplete} ops={opsStr}"]
  | _ => ["bad-op"]

def utf16be (s : String) : ByteArray :=
  s.toList.foldl (fun (b : ByteArray) c =>
    let n := c.toNat
    if n < 0x10000 then (b.push (UInt8.ofNat (n / 256))).push (UInt8.ofNat (n % 256))
    else
      let v := n - 0x10000
      let hi := 0xD800 + v / 1024
      let lo := 0xDC00 + v % 1024
      (((b.push (UInt8.ofNat (hi / 256))).push (UInt8.ofNat (hi % 256))).push (UInt8.ofNat (lo / 256))).push (UInt8.ofNat (lo % 256))) ByteArray.empty

/-- C16: Feat / Sill / name of the real font against the declarations of the IR. -/
def cmdC16 (st : State) : Except String (List String) := do
  let some decls := st.ir.features | throw "IR has no features section"
  let feat ← (do let t ← getTable st tagFeat; P.run parseFeat t)
  let sill ← (do let t ← getTable st tagSill; P.run parseSill t)
  let names ← (do let t ← getTable st tagName; P.run parseName t)
  let inNames : Array NameRec ← match st.inFont, st.inSfnt with
    | some ib, some fi =>
      match fi.find? tagName with
      | some e => match tableBytes ib e with
        | some t => P.run parseName t
        | none => throw "input name table out of bounds"
      | none => pure #[]
    | _, _ => throw "no input font loaded (infont)"
  let usedIds := inNames.toList.map (·.nameId)
  let maxUsed := usedIds.foldl max 0
  let first := Ft.firstId maxUsed st.ir.nameStart
  let mut out : List String := []
  let hasPlat0 := names.any (·.platform == 0)
  let resolve := fun (what : String) (labelId : Nat) (labels : List (Nat × String)) => Id.run do
    let mut errs : List String := []
    if labels.isEmpty then return errs
    if labelId < 256 then errs := errs ++ [s!"{what}: label id {labelId} < 256"]
    for (lang, str) in labels do
      let want := utf16be str
      let recs := names.filter (fun r => r.platform == 3 ∧ (r.encoding == 1 ∨ r.encoding == 0) ∧ r.language == lang ∧ r.nameId == labelId)
      if !(recs.any (fun r => r.str == want)) then
        errs := errs ++ [s!"{what}: label id {labelId} does not resolve to \"{str}\" for Microsoft language {lang} (found {recs.size} record(s))"]
      if hasPlat0 ∧ lang == 1033 then
        let r0 := names.filter (fun r => r.platform == 0 ∧ r.nameId == labelId)
        if !(r0.any (fun r => r.str == want)) then
          errs := errs ++ [s!"{what}: label id {labelId} does not resolve to \"{str}\" in the Unicode platform records"]
    return errs
  let mut nLabels := 0
  for f in decls do
    for id in f.ids do
      match feat.feats.toList.filter (·.id == id) with
      | [e] =>
        let gotVals := e.settings.toList.map (·.value)
        let declVals := f.settings.map (·.value)
        let wantVals := Ft.orderSettings f.dflt declVals
        -- default first; the remaining settings as a set (the format does not fix their order).
        -- A feature declared without settings is boolean: the compiler supplies 0 (default) and 1.
        if declVals.isEmpty then
          -- the two values 0 and 1, the declared default (0 when none is declared) first
          let wantD := match f.dflt with | some d => d | none => 0
          if gotVals.head? != some wantD ∨ gotVals.mergeSort (· ≤ ·) != [0, 1] then
            out := out ++ [s!"FAIL feature {id}: declared without settings (default {wantD}) but Feat lists {gotVals}"]
        else if gotVals.head? != wantVals.head? ∨ gotVals.mergeSort (· ≤ ·) != wantVals.mergeSort (· ≤ ·) then
          out := out ++ [s!"FAIL feature {id}: settings in Feat {gotVals}, declared (default first) {wantVals}"]
        out := out ++ (resolve s!"feature {id}" e.label f.labels).map (fun m => "FAIL " ++ m)
        nLabels := nLabels + f.labels.length
        for sd in f.settings do
          match e.settings.toList.find? (·.value == sd.value) with
          | some s' =>
            out := out ++ (resolve s!"feature {id} setting {sd.value}" s'.label sd.labels).map (fun m => "FAIL " ++ m)
            nLabels := nLabels + sd.labels.length
          | none => pure ()
      | l => out := out ++ [s!"FAIL feature id {id} occurs {l.length} times in Feat"]
  -- every label id used by Feat either existed with that content before or is fresh and >= first
  let newRecs := names.filter (fun r => !(inNames.any (fun i => i.platform == r.platform ∧ i.encoding == r.encoding ∧ i.language == r.language ∧ i.nameId == r.nameId)))
  for r in newRecs do
    if usedIds.contains r.nameId then out := out ++ [s!"FAIL new name record ({r.platform},{r.encoding},{r.language},{r.nameId}) collides with an id used by the input font"]
    else if r.nameId < first then out := out ++ [s!"FAIL new name record id {r.nameId} below the first allowed id {first}"]
  -- every label id in Feat resolves to some record (no dangling ids), except the 'no name' marker 32767
  for e in feat.feats do
    for lid in e.label :: e.settings.toList.map (·.label) do
      if lid != 32767 ∧ !(names.any (·.nameId == lid)) then
        out := out ++ [s!"FAIL feature {e.id}: label id {lid} has no record in the name table"]
  -- languages
  for l in st.ir.languages do
    match sill.toList.filter (·.code == l.code) with
    | [e] =>
      let got := e.settings.toList.mergeSort (fun a b => a.1 ≤ b.1)
      let want := l.values.mergeSort (fun a b => a.1 ≤ b.1)
      if got != want then out := out ++ [s!"FAIL language {tagStr l.code}: Sill has {got}, declared {want}"]
    | x => out := out ++ [s!"FAIL language {tagStr l.code} occurs {x.length} times in Sill"]
  if sill.size != st.ir.languages.length then out := out ++ [s!"FAIL Sill has {sill.size} languages, declared {st.ir.languages.length}"]
  if out.isEmpty then
    return [s!"ok features={decls.length} featEntries={feat.feats.size} labels={nLabels} languages={sill.size} firstId={first} newNameRecords={newRecs.size}", "done"]
  return out ++ ["done"]

/-- C17: resolve the IR's glyph references through the INPUT font with the Lean cmap/post readers and the pseudo-glyph
    allocation model, install the resolved classes in the IR (so c02/c04 check membership and substitution against
    them), and compare the Silf pseudo map / lbGID / maxGlyphID / actualForPseudo attribute of the output font. -/
def cmdC17 (st : State) : Except String (State × List String) := do
  let some refs := st.ir.classRefs | throw "IR has no classRefs section"
  let (ib, fi) ← match st.inFont, st.inSfnt with
    | some a, some b => pure (a, b)
    | _, _ => throw "no input font loaded (infont)"
  let tbl (tag : String) : Except String ByteArray :=
    match fi.find? (strTag tag) with
    | some e => match tableBytes ib e with | some t => pure t | none => throw s!"input table {tag} out of bounds"
    | none => throw s!"input font lacks table {tag}"
  let cm ← P.run Cm.parseCmap (← tbl "cmap")
  -- hypotheses of Cm.lookup31_eq_lookup (end codes ascending and within 16 bits) evaluated on this font; the lookups
  -- the compiler makes through GrcFont::GlyphFromCmap are run with the transcription of its own search (Cm.lookupC)
  let cmHyp : Bool := match cm with
    | .fmt4 segs => Cm.endsSorted segs && segs.all (fun sg => sg.endC ≤ 0xFFFF)
    | .fmt12 _ => true
  let maxp ← tbl "maxp"
  let numGlyphs := beU16 maxp 4
  let mapped := Cm.mappedCodepoints cm
  let maxGid := mapped.foldl (fun m c => max m (Cm.lookup cm c)) 0
  let n := max numGlyphs (maxGid + 1)
  let coll := if st.ir.autoPseudo then Cm.collisions cm else []
  -- explicit pseudo-glyphs: pseudo(unicode(cp) | glyphid(g), input). Their ids (and, when there are any, those of the
  -- automatic ones) are read from the font's own Unicode-to-pseudo map: which id a pseudo-glyph gets is not fixed by the
  -- language; that every id is used once, lies between the line-break and the phantom glyph, and stands for the right
  -- real glyph is checked below.
  let explicit : List (Nat × Option Nat × Option Nat) := refs.toList.flatten.filterMap fun r =>
    match r with | .pseudo i c g => some (i, c, g) | _ => none
  let silf0 ← getSilf st
  let fontMap : List (Nat × Nat) := silf0.pseudoMap.toList
  let A0 := Cm.alloc n coll
  let A : Cm.Alloc := if explicit.isEmpty then A0 else
    let cps := (A0.pseudos.map (·.1) ++ explicit.map (·.1)).eraseDups
    let ps := cps.map fun c => (c, ((fontMap.find? (·.1 == c)).map (·.2)).getD 0)
    { A0 with pseudos := ps, phantom := n + 1 + cps.length, numIds := n + 2 + cps.length }
  let psNames ← P.run (Cm.parsePostNames numGlyphs) (← tbl "post")
  let resolveU := fun (c : Nat) =>
    match A.pseudos.find? (·.1 == c) with
    | some (_, g) => g
    | none => Cm.lookupC cm c
  let mut classes : Array (List Nat) := #[]
  let mut missing : List String := []
  for rl in refs do
    let mut gl : List Nat := []
    for r in rl do
      match r with
      | .glyphid l => gl := gl ++ l
      | .grange a b => gl := gl ++ (if a ≤ b then List.range' a (b - a + 1) else [])
      | .unicode l =>
        for c in l do
          let g := resolveU c
          if g == 0 then missing := missing ++ [s!"U+{c}"] else gl := gl ++ [g]
      | .urange a b =>
        for c in (if a ≤ b then List.range' a (b - a + 1) else []) do
          let g := resolveU c
          if g == 0 then missing := missing ++ [s!"U+{c}"] else gl := gl ++ [g]
      | .ps nm =>
        match psNames.toList.idxOf nm with
        | i => if i < psNames.size ∧ i != 0 then gl := gl ++ [i] else missing := missing ++ [s!"postscript({nm})"]
      | .cls c => gl := gl ++ classes.getD c []
      | .pseudo i _ _ =>
        let g := resolveU i
        if g == 0 then missing := missing ++ [s!"pseudo for U+{i}"] else gl := gl ++ [g]
    classes := classes.push gl
  let anyId := classes.size
  classes := classes.push (List.range A.numIds)
  let ir' := { st.ir with classes := classes, anyClass := anyId, numGlyphs := A.numIds, numReal := n, lb := A.lb, phantom := A.phantom }
  let st' := { st with ir := ir' }
  -- Silf side
  let silf ← getSilf st
  let (_, glat) ← getGlat st
  let mut out : List String := []
  if silf.lbGID != A.lb then out := out ++ [s!"FAIL lbGID {silf.lbGID}, model {A.lb} (first id above the {n} real glyphs)"]
  if silf.maxGlyphID != A.phantom then out := out ++ [s!"FAIL maxGlyphID {silf.maxGlyphID}, model {A.phantom} (phantom = last allocated id)"]
  let wantMap := (A.pseudos.mergeSort (fun a b => a.1 ≤ b.1))
  if silf.pseudoMap.toList != wantMap then out := out ++ [s!"FAIL pseudo map {silf.pseudoMap.toList}, model {wantMap}"]
  for (x, y) in silf.pseudoMap.toList.zip (silf.pseudoMap.toList.drop 1) do
    if !(x.1 < y.1) then out := out ++ [s!"FAIL pseudo map not strictly sorted at U+{x.1}, U+{y.1}"]
  for (c, g) in A.pseudos do
    let got := (glat.glyphs.getD g default).get silf.attrPseudo
    -- the real glyph: for an automatic pseudo-glyph what the cmap gives for its own code point; for an explicit one
    -- what its definition names - through the cmap, never through another pseudo-glyph
    let want : Nat := match explicit.find? (·.1 == c) with
      | some (_, some cp, _) => Cm.lookupC cm cp
      | some (_, none, some gid) => gid
      | _ => Cm.lookupC cm c
    if got != Int.ofNat want then out := out ++ [s!"FAIL pseudo glyph {g} (U+{c}) records actual glyph {got}, its definition / the cmap gives {want}"]
  if !explicit.isEmpty then
    let ids := A.pseudos.map (·.2)
    if ids.eraseDups.length != ids.length ∨ ids.any (fun g => g ≤ A.lb ∨ g ≥ A.phantom) then
      out := out ++ [s!"FAIL pseudo-glyph ids {ids} are not distinct ids between the line-break glyph {A.lb} and the phantom glyph {A.phantom}"]
  for g in [0:silf.maxGlyphID + 1] do
    if !(A.pseudos.any (·.2 == g)) then
      let got := (glat.glyphs.getD g default).get silf.attrPseudo
      if got != 0 ∧ silf.attrPseudo != silf.attrBreakWeight then
        -- attribute 0 is shared with nothing else; a non-pseudo glyph must not carry an actual-glyph value
        out := out ++ [s!"FAIL non-pseudo glyph {g} carries actualForPseudo = {got}"]
  if out.isEmpty then
    return (st', [s!"ok realGlyphs={n} pseudos={A.pseudos.length} lb={A.lb} phantom={A.phantom} missing={missing.length} classes={classes.size} cmapEndCodesAscending={cmHyp} u0000Unmapped={!(mapped.contains 0)}", "done"])
  return (st', out ++ ["done"])

/-- Renumber the slot references of an expression for the alternative that keeps `kept` (none: refers to an omitted item). -/
partial def renExpr (kept : List Nat) : Expr → Option Expr
  | .userAttr (some s) k => do let n ← Opt.newIndex kept (s - 1); pure (.userAttr (some n) k)
  | .glyphAttr (some s) a => do let n ← Opt.newIndex kept (s - 1); pure (.glyphAttr (some n) a)
  | .slotNamed (some s) nm => do let n ← Opt.newIndex kept (s - 1); pure (.slotNamed (some n) nm)
  | .metric (some s) nm => do let n ← Opt.newIndex kept (s - 1); pure (.metric (some n) nm)
  | .un op e => do let e' ← renExpr kept e; pure (.un op e')
  | .bin op a b => do let a' ← renExpr kept a; let b' ← renExpr kept b; pure (.bin op a' b')
  | .cond c a b => do let c' ← renExpr kept c; let a' ← renExpr kept a; let b' ← renExpr kept b; pure (.cond c' a' b')
  | e => some e

/-- One alternative of a rule: keep the items in `kept`, renumber references. None if a reference points at an
    omitted item (the compiler diagnoses that). -/
def alternativeOf (r : RuleIR) (kept : List Nat) : Option RuleIR := do
  let mut items : List ItemIR := []
  for j in kept do
    let it0 := r.items.getD j default
    let attrs ← it0.attrs.mapM fun a => do let v ← renExpr kept a.val; pure { a with val := v }
    let constraint ← match it0.constraint with
      | some c => do let c' ← renExpr kept c; pure (some c')
      | none => pure none
    let it := { it0 with attrs := attrs, constraint := constraint }
    let out ← match it.out with
      | some (.cls c (some sel)) => do let n ← Opt.newIndex kept (sel - 1); pure (some (OutSpec.cls c (some n)))
      | some (.copy k) => do let n ← Opt.newIndex kept (k - 1); pure (some (OutSpec.copy n))
      | o => pure o
    let assoc ← it.assoc.mapM fun a => Opt.newIndex kept (a - 1)
    items := items ++ [{ it with out := out, assoc := assoc }]
  let caret := match r.caret with
    | none => none
    | some c =>
      -- first kept item at or after the old position; else after the last item
      match kept.find? (· ≥ c) with
      | some j => (Opt.newIndex kept j).map (· - 1)
      | none => some kept.length
  return { items := items, caret := caret, opt := [], line := r.line, tree := none, ifs := r.ifs }

/-- C07: replace every rule that has optional items by its alternatives (spec semantics), after checking that the
    model of the compiler's range algorithm yields the same alternatives in the same order. -/
def cmdExpand (st : State) : State × List String := Id.run do
  let mut out : List String := []
  let mut passes : List PassIRj := []
  let mut nOpt := 0
  let mut nAlt := 0
  let mut nWf := 0
  for pj in st.ir.passes do
    let mut rules : List RuleIR := []
    let mut ri := 0
    for r in pj.rules do
      match r.tree with
      | none => rules := rules ++ [r]
      | some tree =>
        nOpt := nOpt + 1
        let mods := r.items.map (·.mod)
        let spec := (Opt.specAlternatives tree).filter (Opt.isRuleVersion mods)
        let (treeRanges, nItems) := Opt.rangesOf tree 0
        if nItems != r.items.length then out := out ++ [s!"IRERR pass {pj.index} rule {ri}: tree has {nItems} items, rule has {r.items.length}"]
        if treeRanges.mergeSort (fun a b => a.1 < b.1 ∨ (a.1 == b.1 ∧ a.2 ≥ b.2)) != r.opt.mergeSort (fun a b => a.1 < b.1 ∨ (a.1 == b.1 ∧ a.2 ≥ b.2)) then
          out := out ++ [s!"IRERR pass {pj.index} rule {ri}: ranges {r.opt} do not describe the tree ({treeRanges})"]
        -- The model must give the spec's alternatives in the spec's order; repeated alternatives (which the two
        -- enumerate with different multiplicity when a group is wrapped in an identical group) are behaviourally
        -- idempotent: a later copy of a rule can never fire. The list installed is the model's, so that rule counts
        -- and indices are compared exactly with the font.
        let mut use := spec
        match (Opt.modelAlternatives r.opt r.items.length).map (·.filter (Opt.isRuleVersion mods)) with
        | none => out := out ++ [s!"MODELDIFF pass {pj.index} rule {ri}: model reports overlapping ranges for a laminar tree"]
        | some m =>
          -- For well-formed trees (wfB: the hypothesis of Opt.model_eq_spec_any_order) model and specification are the
          -- same list, multiplicities included - a theorem; the comparison is repeated here on the concrete rule so
          -- that a change of the model's definitions that the proofs do not cover cannot go unnoticed.
          let wf := Opt.wfB tree 0
          if wf then nWf := nWf + 1
          if wf ∧ m != spec then out := out ++ [s!"MODELDIFF pass {pj.index} rule {ri}: well-formed tree, model {m} spec {spec}"]
          else if m.eraseDups != spec.eraseDups then out := out ++ [s!"MODELDIFF pass {pj.index} rule {ri}: model {m} spec {spec}"]
          else use := m
        for kept in use do
          match alternativeOf r kept with
          | some a => rules := rules ++ [a]; nAlt := nAlt + 1
          | none => out := out ++ [s!"REFOMITTED pass {pj.index} rule {ri} alternative {kept}"]
      ri := ri + 1
    passes := passes ++ [{ pj with rules := rules }]
  let st' := { st with ir := { st.ir with passes := passes } }
  (st', out ++ [s!"ok expanded optionalRules={nOpt} alternatives={nAlt} wellFormedTrees={nWf}", "done"])

def parsePLines (text : String) : List (LM.PLine × String) :=
  (text.splitOn "\n").map fun line =>
    if line.startsWith "#line " then
      let rest := (line.drop 6).trimAscii.toString
      let toks := (rest.splitOn " ").filter (· ≠ "")
      match toks with
      | n :: more =>
        let file := match more with
          | f :: _ => if f.startsWith "\"" then some ((f.drop 1).dropRight 1).toString else none
          | [] => none
        (LM.PLine.marker (n.toNat?.getD 0) file, line)
      | [] => (LM.PLine.text, line)
    else (LM.PLine.text, line)

/-- C18: where does the (first) line containing `token` of a preprocessed file come from — by the specification
    (markers) and by the model of the compiler's token-stream filter. -/
def cmdLineMap (path token : String) : IO (List String) := do
  try
    let text ← IO.FS.readFile path
    let pls := parsePLines text
    let ls := pls.map (·.1)
    match (pls.zipIdx.find? fun ((pl, raw), _) => pl == LM.PLine.text ∧ (raw.splitOn token).length > 1) with
    | none => return [s!"notfound {token}"]
    | some (_, i) =>
      let p := i + 1
      let spec := LM.originLine ls p
      let specFile := LM.lastFile path (ls.take (p - 1))
      let rep := LM.reported path ls p
      return [s!"ok ppline={p} spec={specFile}({spec}) model={rep.1}({rep.2})"]
  catch e => return [s!"error io: {e}"]

/-- C10: static-rule violations of every rule of the IR (declarative specification). -/
def cmdC10 (st : State) : List String := Id.run do
  let mut out : List String := []
  for pj in st.ir.passes do
    for (r, ri) in pj.rules.zipIdx do
      let v := SR.ruleViolations pj.table r
      if !v.isEmpty then out := out ++ [s!"violation pass {pj.index} rule {ri} line {r.line}: " ++ " ; ".intercalate v]
  out ++ [s!"ok violations={out.length}", "done"]

/-- C20: octabox records of the output font's Glat against the glyf outlines of the INPUT font. -/
def cmdC20 (st : State) (complex : List Nat := []) : Except String (List String) := do
  let (ib, fi) ← match st.inFont, st.inSfnt with
    | some a, some b => pure (a, b)
    | _, _ => throw "no input font loaded (infont)"
  let tbl (tag : String) : Except String ByteArray :=
    match fi.find? (strTag tag) with
    | some e => match tableBytes ib e with | some t => pure t | none => throw s!"input table {tag} out of bounds"
    | none => throw s!"input font lacks table {tag}"
  let glyf ← tbl "glyf"
  let loca ← tbl "loca"
  let head ← tbl "head"
  let maxp ← tbl "maxp"
  let longLoca := beU16 head 50 == 1
  let numGlyphs := beU16 maxp 4
  let (_, glat) ← getGlat st
  if !glat.hasOctaboxes then return ["FAIL Glat has no octaboxes", "done"]
  let mut out : List String := []
  let mut nPts := 0
  let mut nSub := 0
  let mut degenerate := 0
  for g in [0:glat.glyphs.size] do
    let some ob := (glat.glyphs.getD g default).octa | out := out ++ [s!"FAIL glyph {g}: no octabox record"]
    let pts : List Octa.Pt :=
      if g < numGlyphs then (Octa.glyphPoints glyf loca longLoca g).getD [] else []
    nPts := nPts + pts.length
    nSub := nSub + ob.sub.size
    let comps := if g < numGlyphs then Octa.componentIds glyf loca longLoca g else []
    let repeats := comps.length != comps.eraseDups.length
    for m in Octa.checkGlyph g pts ob (complex.contains g) do
      if m.startsWith "DEGENERATE" then degenerate := degenerate + 1
      else out := out ++ ["FAIL " ++ m ++ (if repeats then " [composite repeats a component]" else "")]
  if out.isEmpty then return [s!"ok glyphs={glat.glyphs.size} points={nPts} subBoxes={nSub} degenerate={degenerate}", "done"]
  return out ++ ["done"]

def step (st : State) (toks : List String) : IO (State × List String) := do
  match toks with
  | [] => return (st, [])
  | ["font", path] =>
    try
      let buf ← IO.FS.readBinFile path
      match P.run parseSfnt buf with
      | .ok f => return ({ st with font := some buf, sfnt := some f }, [s!"ok font size={buf.size} tables={f.dir.length}"])
      | .error e => return ({ st with font := some buf, sfnt := none }, [s!"error sfnt: {e}"])
    catch e => return (st, [s!"error io: {e}"])
  | ["infont", path] =>
    try
      let buf ← IO.FS.readBinFile path
      match P.run parseSfnt buf with
      | .ok f => return ({ st with inFont := some buf, inSfnt := some f }, [s!"ok infont size={buf.size} tables={f.dir.length}"])
      | .error e => return ({ st with inFont := none, inSfnt := none }, [s!"error sfnt: {e}"])
    catch e => return (st, [s!"error io: {e}"])
  | ["c08"] => return (st, cmdC08 st false)
  | ["c08", "renamed"] => return (st, cmdC08 st true)
  | ["ir", path] =>
    try
      let text ← IO.FS.readFile path
      match parseProgIR text with
      | .ok ir => return ({ st with ir := ir }, [s!"ok ir classes={ir.classes.size} passes={ir.passes.length}"])
      | .error e => return (st, [s!"error {e}"])
    catch e => return (st, [s!"error io: {e}"])
  | ["dump", "dir"] =>
    match st.sfnt with
    | some f => return (st, [(J.o [("numTables", jNat f.hdr.numTables), ("searchRange", jNat f.hdr.searchRange),
        ("entrySelector", jNat f.hdr.entrySelector), ("rangeShift", jNat f.hdr.rangeShift), ("version", jNat f.hdr.version),
        ("dir", .a (f.dir.map fun e => .a [.s (tagStr e.tag), jNat e.checksum, jNat e.offset, jNat e.length]))]).render])
    | none => return (st, ["error no font"])
  | ["dump", "silf"] =>
    match getSilf st with
    | .ok s => return (st, [s.toJ.render])
    | .error e => return (st, [s!"error {e}"])
  | ["dump", "glat"] =>
    match getGlat st with
    | .ok (gloc, g) => return (st, [(J.o [("numAttrs", jNat gloc.numAttrs), ("glocFlags", jNat gloc.flags),
        ("glocVersion", jNat gloc.version), ("glat", g.toJ)]).render])
    | .error e => return (st, [s!"error {e}"])
  | ["dump", "feat"] =>
    match (do let t ← getTable st tagFeat; P.run parseFeat t) with
    | .ok f => return (st, [f.toJ.render])
    | .error e => return (st, [s!"error {e}"])
  | ["dump", "sill"] =>
    match (do let t ← getTable st tagSill; P.run parseSill t) with
    | .ok f => return (st, [(sillToJ f).render])
    | .error e => return (st, [s!"error {e}"])
  | ["dump", "name"] =>
    match (do let t ← getTable st tagName; P.run parseName t) with
    | .ok f => return (st, [(nameToJ f).render])
    | .error e => return (st, [s!"error {e}"])
  | ["c02"] =>
    match cmdC02 st with
    | .ok ls => return (st, ls)
    | .error e => return (st, [s!"error {e}", "done"])
  | ["c03"] =>
    match cmdC03 st with
    | .ok ls => return (st, ls)
    | .error e => return (st, [s!"error {e}", "done"])
  | ["c04"] =>
    match cmdC04 st with
    | .ok ls => return (st, ls)
    | .error e => return (st, [s!"error {e}", "done"])
  | ["c05"] =>
    match cmdC05 st with
    | .ok ls => return (st, ls)
    | .error e => return (st, [s!"error {e}", "done"])
  | ["c14"] =>
    match cmdC14 st with
    | .ok ls => return (st, ls)
    | .error e => return (st, [s!"error {e}", "done"])
  | "mainsm" :: args => return (st, cmdMainSM args)
  | "args" :: hs => return (st, cmdArgs hs)
  | ["plainhex", tag] =>
    -- table bytes with the compression framing undone (Silf >= 5.0, Glat >= 3.0), as hex
    match getTable st (strTag tag) with
    | .error e => return (st, [s!"error {e}"])
    | .ok t =>
      let minV := if tag == "Silf" then 0x00050000 else if tag == "Glat" then 0x00030000 else 0xFFFFFFFF
      match unframe t minV with
      | .ok (plain, c) => return (st, [s!"ok compressed={c} size={plain.size} hex={hexOfBytes plain}"])
      | .error e => return (st, [s!"error {e}"])
  | ["silfversion2", req, u, h, c, k, p, sp] =>
    -- with the pass-constraint adjustment of DetermineTableVersion: u = user specified, h = has pass constraints
    match (if req == "default" then some Gen.defaultSilfVersion else req.toNat?), sp.toNat? with
    | some r, some s' => return (st, [s!"{Ver.calcSilfVersion (Ver.afterPassConstraints r (u == "1") (h == "1")) (c == "1") (k == "1") (p == "1") s'}"])
    | _, _ => return (st, ["bad-op"])
  | ["silfversion", req, c, k, p, sp] =>
    match (if req == "default" then some Gen.defaultSilfVersion else req.toNat?), sp.toNat? with
    | some r, some s' => return (st, [s!"{Ver.calcSilfVersion r (c == "1") (k == "1") (p == "1") s'}"])
    | _, _ => return (st, ["bad-op"])
  | ["c16"] =>
    match cmdC16 st with
    | .ok ls => return (st, ls)
    | .error e => return (st, [s!"error {e}", "done"])
  | ["c17"] =>
    match cmdC17 st with
    | .ok (st', ls) => return (st', ls)
    | .error e => return (st, [s!"error {e}", "done"])
  | ["expand"] =>
    let (st', ls) := cmdExpand st
    return (st', ls)
  | ["linemap", path, token] => return (st, ← cmdLineMap path token)
  | ["c10"] => return (st, cmdC10 st)
  | "shape" :: gs => return (st, cmdShape st [] gs)
  | "shapef" :: fvs :: gs =>
    -- shapef v0,v1,... g1 g2 ... : feature values by index in the Feat table
    match ((fvs.splitOn ",").filter (· ≠ "")).mapM (·.toInt?) with
    | some fv => return (st, cmdShape st fv gs)
    | none => return (st, ["bad-op"])
  | ["c01"] =>
    match cmdC01 st with
    | .ok ls => return (st, ls)
    | .error e => return (st, [s!"error {e}", "done"])
  | ["c20", lst] =>
    -- the glyphs for which the program sets collision.complexFit (comma-separated ids)
    match cmdC20 st ((lst.splitOn ",").filterMap String.toNat?) with
    | .ok l => return (st, l)
    | .error e => return (st, [s!"error {e}", "done"])
  | ["c20"] =>
    match cmdC20 st with
    | .ok ls => return (st, ls)
    | .error e => return (st, [s!"error {e}", "done"])
  | ["c06"] =>
    match cmdC06 st with
    | .ok ls => return (st, ls)
    | .error e => return (st, [s!"error {e}", "done"])
  | _ => return (st, ["bad-op"])

end Grc.Driver
