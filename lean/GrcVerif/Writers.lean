/-
  C03: the two small pieces of OutputToFont.cpp / GrcBinaryStream that every Graphite table goes through, transcribed
  and proved against what the strict decoders demand:
  * `BinarySearchConstants` (the loop that doubles a power of two while it does not exceed n) computes exactly
    (2^⌊log2 n⌋, ⌊log2 n⌋) - the value `Sfnt.searchConsts` and the Silf / class-map / Sill decoders require of every
    search header - for EVERY n;
  * `write_16bits_be` / `write_32bits_be` put out the bytes that `beU16` / `beU32` read back as the value modulo
    2^16 / 2^32, for EVERY value: the decoders read the byte order the writer writes, and a value is stored unchanged
    exactly when it is below the width of the field (which is what C12's census is about).
  Core Lean only.
-/
import GrcVerif.Bytes
import GrcVerif.Sfnt
namespace Grc.Wr

/-! ### BinarySearchConstants

  *pnPowerOf2 = 1; *pnLog = 0;
  while ((*pnPowerOf2 << 1) <= n) { *pnPowerOf2 = *pnPowerOf2 << 1; *pnLog = *pnLog + 1; }   (and (0, 0) for n = 0) -/

def bscLoop (n : Nat) (p l : Nat) (fuel : Nat) : Nat × Nat :=
  match fuel with
  | 0 => (p, l)
  | fuel + 1 => if p * 2 ≤ n then bscLoop n (p * 2) (l + 1) fuel else (p, l)

/-- The loop as written (the fuel n is never used up: the power doubles at every turn). -/
def binarySearchConstants (n : Nat) : Nat × Nat :=
  if n = 0 then (0, 0) else bscLoop n 1 0 n

theorem bscLoop_spec (n : Nat) : ∀ fuel p l, p = 2 ^ l → 0 < p → p ≤ n → n < p * 2 ^ fuel →
    let r := bscLoop n p l fuel
    r.1 = 2 ^ r.2 ∧ r.1 ≤ n ∧ n < r.1 * 2 := by
  intro fuel
  induction fuel with
  | zero =>
    intro p l hp hpos hle hlt
    simp only [bscLoop]
    omega
  | succ f ih =>
    intro p l hp hpos hle hlt
    simp only [bscLoop]
    by_cases h : p * 2 ≤ n
    · simp only [h, if_true]
      apply ih (p * 2) (l + 1)
      · rw [hp, Nat.pow_succ]
      · omega
      · exact h
      · rw [Nat.pow_succ] at hlt
        have : p * (2 ^ f * 2) = p * 2 * 2 ^ f := by
          rw [Nat.mul_comm (2 ^ f) 2, ← Nat.mul_assoc]
        omega
    · simp only [h, if_false]
      exact ⟨hp, hle, by omega⟩

/-- For every n > 0 the loop returns the power of two p = 2^l with p ≤ n < 2p. -/
theorem binarySearchConstants_spec (n : Nat) (hn : 0 < n) :
    (binarySearchConstants n).1 = 2 ^ (binarySearchConstants n).2 ∧ (binarySearchConstants n).1 ≤ n
      ∧ n < (binarySearchConstants n).1 * 2 := by
  unfold binarySearchConstants
  have h0 : n ≠ 0 := by omega
  simp only [h0, if_false]
  have := bscLoop_spec n n 1 0 (by simp) (by omega) (by omega) (by
    have : n < 2 ^ n := Nat.lt_two_pow_self
    omega)
  exact this

/-- ... which is what the decoders demand of a search header: (2^⌊log2 n⌋, ⌊log2 n⌋). -/
theorem binarySearchConstants_eq_searchConsts (n : Nat) : binarySearchConstants n = searchConsts n := by
  by_cases hn : n = 0
  · subst hn; rfl
  · have hpos : 0 < n := by omega
    obtain ⟨h1, h2, h3⟩ := binarySearchConstants_spec n hpos
    have hl : (binarySearchConstants n).2 = Nat.log2 n := by
      have hlog : (binarySearchConstants n).2 ≤ Nat.log2 n := by
        rw [Nat.le_log2 hn, ← h1]; exact h2
      have hlog2 : Nat.log2 n < (binarySearchConstants n).2 + 1 := by
        rw [Nat.log2_lt hn, Nat.pow_succ, ← h1]; exact h3
      omega
    unfold searchConsts
    simp only [hn, if_false]
    apply Prod.ext
    · simp only; rw [h1, hl]
    · simp only; exact hl

/-! ### big-endian writers -/

/-- `write_16bits_be`: uint8_t(x >> 8 & 0xFF), uint8_t(x & 0xFF). -/
def write16 (x : Nat) : ByteArray :=
  ByteArray.mk #[UInt8.ofNat (x / 256 % 256), UInt8.ofNat (x % 256)]

/-- `write_32bits_be`: the four bytes from the most significant one down. -/
def write32 (x : Nat) : ByteArray :=
  ByteArray.mk #[UInt8.ofNat (x / 16777216 % 256), UInt8.ofNat (x / 65536 % 256), UInt8.ofNat (x / 256 % 256), UInt8.ofNat (x % 256)]

private theorem u8 (v : Nat) (h : v < 256) : (UInt8.ofNat v).toNat = v := by
  simp [UInt8.toNat_ofNat, Nat.mod_eq_of_lt h]

/-- What the decoder reads back from a written 16-bit field is the value modulo 2^16, for every value. -/
theorem beU16_write16 (x : Nat) : beU16 (write16 x) 0 = x % 65536 := by
  have h1 : x / 256 % 256 < 256 := Nat.mod_lt _ (by decide)
  have h2 : x % 256 < 256 := Nat.mod_lt _ (by decide)
  simp only [beU16, write16, ByteArray.get!, Array.getElem!_eq_getD, Array.getD, List.size_toArray, List.length_cons,
    List.length_nil]
  simp [u8 _ h1, u8 _ h2]
  omega

theorem beU32_write32 (x : Nat) : beU32 (write32 x) 0 = x % 4294967296 := by
  have h1 : x / 16777216 % 256 < 256 := Nat.mod_lt _ (by decide)
  have h2 : x / 65536 % 256 < 256 := Nat.mod_lt _ (by decide)
  have h3 : x / 256 % 256 < 256 := Nat.mod_lt _ (by decide)
  have h4 : x % 256 < 256 := Nat.mod_lt _ (by decide)
  simp only [beU32, beU16, write32, ByteArray.get!, Array.getElem!_eq_getD, Array.getD, List.size_toArray, List.length_cons,
    List.length_nil]
  simp [u8 _ h1, u8 _ h2, u8 _ h3, u8 _ h4]
  omega

/-- A value below the width of its field is read back unchanged. -/
theorem beU16_write16_of_lt (x : Nat) (h : x < 65536) : beU16 (write16 x) 0 = x := by
  rw [beU16_write16, Nat.mod_eq_of_lt h]

example : binarySearchConstants 12 = (8, 3) ∧ binarySearchConstants 1 = (1, 0) ∧ binarySearchConstants 16 = (16, 4) := by decide
example : beU16 (write16 0x1234) 0 = 0x1234 := by decide

end Grc.Wr
