/-
  C15: the table-version ladder (CalculateSilfVersion / VersionForTable) with constants regenerated from the source,
  (definitions and the lemmas that do not depend on the extracted numbers; the theorems that do are in VersionThm.lean,
  so that a change of a threshold in the source breaks only C15's obligations and not the driver).
  Core Lean only.
-/
import GrcVerif.Generated.Tables
namespace Grc.Ver
open Grc.Gen

/-- One step of the ladder: raise `v` to `target` when `cond` holds and `v` is below it. -/
def bump (cond : Bool) (target v : Nat) : Nat := if cond ∧ v < target then target else v

theorem bump_ge (c : Bool) (t v : Nat) : v ≤ bump c t v := by
  unfold bump; split <;> omega

theorem bump_reach (c : Bool) (t v : Nat) (h : c = true) : t ≤ bump c t v := by
  unfold bump; subst h; simp only [true_and]; split <;> omega

/-- Model of GrcManager::CalculateSilfVersion. `req` = requested (or default) version. -/
def calcSilfVersion (req : Nat) (compress collision passOpt : Bool) (classMapSpace : Nat) : Nat :=
  bump (decide (classMapSpace > silfOffsetLimit)) silfLongOffsets
    (bump passOpt silfPassOpt (bump collision silfCollision (bump compress silfCompress req)))

/-- Layout requirements of the format (GTF): compression needs 5.0, collision data 4.1, a non-zero skip-passes
    attribute 4.0, 32-bit class offsets 4.0. These numbers are the FORMAT's, stated independently of the source. -/
def fmtCompress : Nat := 0x00050000
def fmtCollision : Nat := 0x00040001
def fmtSkipPasses : Nat := 0x00040000
def fmtLongClassOffsets : Nat := 0x00040000

theorem version_ge_requested (req : Nat) (c k p : Bool) (sp : Nat) : req ≤ calcSilfVersion req c k p sp := by
  unfold calcSilfVersion
  exact Nat.le_trans (Nat.le_trans (Nat.le_trans (bump_ge _ _ _) (bump_ge _ _ _)) (bump_ge _ _ _)) (bump_ge _ _ _)

/-- GrcManager::DetermineTableVersion, the part about pass-level constraints (`if (...) pass(n) ... endif`): the pass
    constraint field exists from Silf 3.1. A request at or below 3.0 that the user did not make explicitly is raised to
    3.1 (warning 3501); an explicit request is kept and the constraints are copied into every rule of the pass
    instead (warning 3530). -/
def fmtPassConstraints : Nat := 0x00030001

/-- (The two numbers are re-extracted from GdlPass::CompatibleWithVersion and DetermineTableVersion on every run.) -/
def afterPassConstraints (req : Nat) (userSpecified hasPassConstraints : Bool) : Nat :=
  if hasPassConstraints ∧ req ≤ passConstraintRequestLimit ∧ ¬ userSpecified then passConstraintVersion else req

/-- Glat / Gloc versions as chosen by VersionForTable from the requested Silf version. -/
def glatVersionFor (spec : Nat) : Nat := if spec ≥ glatThreshold then glatNew else glatOld
def glocVersionFor (spec : Nat) : Nat := if spec ≥ glocThreshold then glocNew else glocOld

end Grc.Ver
