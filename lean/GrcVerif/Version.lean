/-
  C15: the table-version ladder (CalculateSilfVersion / VersionForTable) with constants regenerated from the source,
  and the theorems that the version written is one whose layout supports what the font contains.
  Core Lean only.
-/
import GrcVerif.Generated.Tables
namespace Grc.Ver
open Grc.Gen

/-- One step of the ladder: raise `v` to `target` when `cond` holds and `v` is below it. -/
def bump (cond : Bool) (target v : Nat) : Nat := if cond ∧ v < target then target else v

theorem bump_ge (c : Bool) (t v : Nat) : v ≤ bump c t v := by
  unfold bump; split <;> omega

theorem bump_reach (c : Bool) (t v : Nat) (h : c = true) : t ≤ bump c t v := by
  unfold bump; subst h; simp only [true_and]; split <;> omega

/-- Model of GrcManager::CalculateSilfVersion. `req` = requested (or default) version. -/
def calcSilfVersion (req : Nat) (compress collision passOpt : Bool) (classMapSpace : Nat) : Nat :=
  bump (decide (classMapSpace > silfOffsetLimit)) silfLongOffsets
    (bump passOpt silfPassOpt (bump collision silfCollision (bump compress silfCompress req)))

/-- Layout requirements of the format (GTF): compression needs 5.0, collision data 4.1, a non-zero skip-passes
    attribute 4.0, 32-bit class offsets 4.0. These numbers are the FORMAT's, stated independently of the source. -/
def fmtCompress : Nat := 0x00050000
def fmtCollision : Nat := 0x00040001
def fmtSkipPasses : Nat := 0x00040000
def fmtLongClassOffsets : Nat := 0x00040000

theorem version_ge_requested (req : Nat) (c k p : Bool) (sp : Nat) : req ≤ calcSilfVersion req c k p sp := by
  unfold calcSilfVersion
  exact Nat.le_trans (Nat.le_trans (Nat.le_trans (bump_ge _ _ _) (bump_ge _ _ _)) (bump_ge _ _ _)) (bump_ge _ _ _)

/-- The declared version supports every feature the table uses (for every request, every size). -/
theorem declared_version_conforms (req : Nat) (c k p : Bool) (sp : Nat) :
    (c = true → fmtCompress ≤ calcSilfVersion req c k p sp) ∧ (k = true → fmtCollision ≤ calcSilfVersion req c k p sp) ∧
    (p = true → fmtSkipPasses ≤ calcSilfVersion req c k p sp) ∧
    (sp > 0xFFFF → fmtLongClassOffsets ≤ calcSilfVersion req c k p sp) := by
  unfold calcSilfVersion
  refine ⟨?_, ?_, ?_, ?_⟩
  · intro h
    have h1 : fmtCompress ≤ bump c silfCompress req := by
      have := bump_reach c silfCompress req h; simpa [fmtCompress, silfCompress] using this
    exact Nat.le_trans (Nat.le_trans (Nat.le_trans h1 (bump_ge _ _ _)) (bump_ge _ _ _)) (bump_ge _ _ _)
  · intro h
    have h1 := bump_reach k silfCollision (bump c silfCompress req) h
    have h1' : fmtCollision ≤ bump k silfCollision (bump c silfCompress req) := by simpa [fmtCollision, silfCollision] using h1
    exact Nat.le_trans (Nat.le_trans h1' (bump_ge _ _ _)) (bump_ge _ _ _)
  · intro h
    have h1 := bump_reach p silfPassOpt (bump k silfCollision (bump c silfCompress req)) h
    have h1' : fmtSkipPasses ≤ bump p silfPassOpt (bump k silfCollision (bump c silfCompress req)) := by simpa [fmtSkipPasses, silfPassOpt] using h1
    exact Nat.le_trans h1' (bump_ge _ _ _)
  · intro h
    have hd : decide (sp > silfOffsetLimit) = true := by simp [silfOffsetLimit]; omega
    have h1 := bump_reach (decide (sp > silfOffsetLimit)) silfLongOffsets (bump p silfPassOpt (bump k silfCollision (bump c silfCompress req))) hd
    simpa [fmtLongClassOffsets, silfLongOffsets] using h1

/-- Glat / Gloc versions as chosen by VersionForTable from the requested Silf version. -/
def glatVersionFor (spec : Nat) : Nat := if spec ≥ glatThreshold then glatNew else glatOld
def glocVersionFor (spec : Nat) : Nat := if spec ≥ glocThreshold then glocNew else glocOld

/-- The two tables switch to their new formats at the same requested version. -/
theorem glat_gloc_switch_together (spec : Nat) :
    (glatVersionFor spec = glatNew ↔ glocVersionFor spec = glocNew) := by
  unfold glatVersionFor glocVersionFor
  simp only [glatThreshold, glocThreshold, glatNew, glatOld, glocNew, glocOld]
  by_cases h : spec ≥ 262145 <;> simp [h]

end Grc.Ver
