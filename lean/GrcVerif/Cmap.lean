/-
  C17: reading glyph references through the input font (cmap formats 4 and 12, post format 2 names), the model of
  pseudo-glyph allocation (line-break glyph, auto-pseudos for code points sharing a glyph, phantom), and theorems.
  Core Lean only.
-/
import GrcVerif.Bytes
import GrcVerif.Sfnt
import GrcVerif.CmapColl
namespace Grc.Cm

structure Seg4 where
  startC : Nat
  endC : Nat
  delta : Nat
  rangeOff : Nat
  glyphs : Array Nat     -- the glyphIdArray as seen from this segment's idRangeOffset word (resolved eagerly)
deriving Inhabited

inductive CmapSub where
  | fmt4 (segs : Array Seg4)
  | fmt12 (groups : Array (Nat × Nat × Nat))
deriving Inhabited

def parseFmt4 : P CmapSub := do
  let _fmt ← P.u16
  let _len ← P.u16
  let _lang ← P.u16
  let segX2 ← P.u16
  let n := segX2 / 2
  let _ ← P.u16; let _ ← P.u16; let _ ← P.u16
  let ends ← P.times n P.u16
  let _pad ← P.u16
  let starts ← P.times n P.u16
  let deltas ← P.times n P.u16
  let roPos ← P.pos
  let ros ← P.times n P.u16
  let mut segs : Array Seg4 := #[]
  for i in [0:n] do
    let ro := ros[i]!
    let mut gl : Array Nat := #[]
    if ro != 0 then
      let base := roPos + 2 * i + ro
      for k in [0:ends[i]! - starts[i]! + 1] do
        P.seek (base + 2 * k)
        gl := gl.push (← P.u16)
    segs := segs.push { startC := starts[i]!, endC := ends[i]!, delta := deltas[i]!, rangeOff := ro, glyphs := gl }
  return .fmt4 segs

def parseFmt12 : P CmapSub := do
  let _fmt ← P.u16; let _ ← P.u16; let _len ← P.u32; let _lang ← P.u32
  let n ← P.u32
  let gs ← P.times n (do let a ← P.u32; let b ← P.u32; let g ← P.u32; pure (a, b, g))
  return .fmt12 gs

/-- Choose the subtable as the compiler does: (3,10) if present, else (3,1), else (3,0). -/
def parseCmap : P CmapSub := do
  let _v ← P.u16
  let n ← P.u16
  let recs ← P.times n (do let p ← P.u16; let e ← P.u16; let o ← P.u32; pure (p, e, o))
  let pick (p e : Nat) := recs.find? (fun r => r.1 == p ∧ r.2.1 == e)
  match pick 3 10 with
  | some r => P.seek r.2.2; parseFmt12
  | none =>
    match pick 3 1 with
    | some r => P.seek r.2.2; parseFmt4
    | none =>
      match pick 3 0 with
      | some r => P.seek r.2.2; parseFmt4
      | none => P.fail "cmap: no (3,10), (3,1) or (3,0) subtable"

/-- Format semantics (linear scan: the first segment whose end code is ≥ c decides). -/
def lookup (s : CmapSub) (c : Nat) : Nat :=
  match s with
  | .fmt4 segs =>
    if c > 0xFFFF then 0 else
    match segs.toList.find? (fun sg => c ≤ sg.endC) with
    | none => 0
    | some sg =>
      if c < sg.startC then 0
      else if sg.rangeOff == 0 then (c + sg.delta) % 65536
      else
        let g := sg.glyphs.getD (c - sg.startC) 0
        if g == 0 then 0 else (g + sg.delta) % 65536
  | .fmt12 groups =>
    match groups.toList.find? (fun (a, b, _) => a ≤ c ∧ c ≤ b) with
    | some (a, _, g) => g + (c - a)
    | none => 0

/-- All mapped code points in ascending order (code points mapping to glyph 0 and U+FFFE/FFFF excluded). -/
def mappedCodepoints (s : CmapSub) : List Nat :=
  let cands : List Nat := match s with
    | .fmt4 segs => segs.toList.flatMap fun sg => if sg.startC ≤ sg.endC then List.range' sg.startC (sg.endC - sg.startC + 1) else []
    | .fmt12 groups => groups.toList.flatMap fun (a, b, _) => if a ≤ b then List.range' a (b - a + 1) else []
  (cands.filter fun c => c != 0xFFFE ∧ c != 0xFFFF ∧ lookup s c != 0).mergeSort (· ≤ ·) |>.eraseDups

/-- Code points that share a glyph with another code point, in the order the compiler records them
    (GrcFont::ScanGlyfIds, transcribed in CmapColl.lean): on the second code point of a glyph the first is recorded too. -/
def collisions (s : CmapSub) : List Nat := collScan (lookup s) (mappedCodepoints s)

theorem mappedCodepoints_nodup (s : CmapSub) : (mappedCodepoints s).Nodup := by
  unfold mappedCodepoints
  exact nodup_eraseDups _

theorem mappedCodepoints_ne_ffff (s : CmapSub) (c : Nat) (h : c ∈ mappedCodepoints s) : c ≠ 0xFFFF := by
  unfold mappedCodepoints at h
  rw [List.mem_eraseDups, List.mem_mergeSort, List.mem_filter] at h
  intro e
  have := h.2
  simp [e] at this

/-- The compiler's scan records exactly the mapped code points whose glyph another mapped code point has too, each
    once - for every cmap in which U+0000 is not mapped (the scan uses 0 as its "glyph not seen" mark). -/
theorem mem_collisions_iff (s : CmapSub) (h0 : 0 ∉ mappedCodepoints s) (c : Nat) :
    c ∈ collisions s ↔ c ∈ mappedCodepoints s ∧ ∃ c' ∈ mappedCodepoints s, c' ≠ c ∧ lookup s c' = lookup s c :=
  mem_collScan_iff (lookup s) _ (mappedCodepoints_nodup s)
    (fun x hx => ⟨fun e => h0 (e ▸ hx), mappedCodepoints_ne_ffff s x hx⟩) c

theorem collisions_nodup (s : CmapSub) (h0 : 0 ∉ mappedCodepoints s) : (collisions s).Nodup :=
  collScan_nodup (lookup s) _ (mappedCodepoints_nodup s)
    (fun x hx => ⟨fun e => h0 (e ▸ hx), mappedCodepoints_ne_ffff s x hx⟩)

/-! ### Pseudo-glyph allocation -/

structure Alloc where
  lb : Nat
  pseudos : List (Nat × Nat)     -- (code point, pseudo glyph id) in allocation order
  phantom : Nat
  numIds : Nat
deriving Repr, Inhabited

/-- Model of GeneratePseudoGlyphs without explicit pseudos: `n` = first free glyph id. -/
def alloc (n : Nat) (coll : List Nat) : Alloc :=
  { lb := n,
    pseudos := coll.zipIdx.map (fun (c, i) => (c, n + 1 + i)),
    phantom := n + 1 + coll.length,
    numIds := n + 2 + coll.length }

theorem alloc_pseudo_range (n : Nat) (coll : List Nat) (c g : Nat) (h : (c, g) ∈ (alloc n coll).pseudos) :
    n < g ∧ g < (alloc n coll).phantom ∧ g ≠ (alloc n coll).lb := by
  simp only [alloc, List.mem_map] at h
  obtain ⟨⟨c', i⟩, hm, he⟩ := h
  have hi := List.mem_zipIdx hm
  simp only [Prod.mk.injEq] at he
  obtain ⟨_, hg⟩ := he
  simp only [alloc]
  simp at hi
  omega

theorem alloc_above_real (n : Nat) (coll : List Nat) :
    n ≤ (alloc n coll).lb ∧ (alloc n coll).lb < (alloc n coll).phantom ∧ (alloc n coll).phantom + 1 = (alloc n coll).numIds := by
  simp [alloc]; omega

/-- Distinct pseudo ids: the i-th and j-th entries differ when i ≠ j. -/
theorem alloc_pseudo_ids_distinct (n : Nat) (coll : List Nat) :
    ((alloc n coll).pseudos.map (·.2)).Nodup := by
  simp only [alloc, List.map_map]
  have : (coll.zipIdx.map ((fun x => x.2) ∘ fun (p : Nat × Nat) => (p.1, n + 1 + p.2))) = (List.range' 0 coll.length).map (fun i => n + 1 + i) := by
    have h := List.zipIdx_map_snd (l := coll) 0
    rw [← h, List.map_map]
    rfl
  show (List.map ((fun x => x.2) ∘ fun x => match x with | (c, i) => (c, n + 1 + i)) coll.zipIdx).Nodup
  have e : ((fun (x : Nat × Nat) => x.2) ∘ fun x => match x with | (c, i) => (c, n + 1 + i)) = ((fun x => x.2) ∘ fun (p : Nat × Nat) => (p.1, n + 1 + p.2)) := by
    funext ⟨a, b⟩; rfl
  rw [e, this]
  have hr : (List.range' 0 coll.length).Nodup := List.nodup_range' (step := 1) (by omega)
  exact List.Pairwise.map (fun i => n + 1 + i) (fun a b (h : a ≠ b) => by omega) hr

/-! ### post table names (format 2) -/

def parsePostNames (numGlyphs : Nat) : P (Array String) := do
  let ver ← P.u32
  if ver != 0x00020000 then return #[]
  let _ ← P.bytes 28
  let n ← P.u16
  let idx ← P.times n P.u16
  let lim ← P.lim
  let mut strs : Array String := #[]
  let mut fuel := lim
  while (← P.pos) < lim ∧ fuel > 0 do
    fuel := fuel - 1
    let l ← P.u8
    let b ← P.bytes l
    strs := strs.push (String.ofList (b.toList.map (fun x => Char.ofNat x.toNat)))
  let mut out : Array String := #[]
  for i in [0:min n numGlyphs] do
    let k := idx[i]!
    out := out.push (if k < 258 then s!"<std{k}>" else strs.getD (k - 258) "")
  return out

end Grc.Cm
