/-
  C01 (expressions): the value-computing part of the Graphite stack machine, a symbolic decompiler for it with its
  soundness theorem, constant folding with its correctness theorem, and the encoding of integer constants.

  * `AOp`      - abstract value instructions (push constant, arithmetic/comparison/logic, conditional, slot attribute,
                 glyph attribute, feature); `classify` decodes them from real bytes (opcode numbers regenerated from
                 constants.h, operand sign conventions per doc/StackMachineCommands and the engine).
  * `runA`     - the machine on a value stack (32-bit two's-complement results; division by zero and
                 INT_MIN / -1 stop the machine, as in the engine).
  * `SExpr`, `evalS` - expression trees with relative slot offsets and their meaning.
  * `decompA`  - symbolic execution producing expression trees;
                 `decomp_sound`: whatever the environment, running the code computes exactly the values of the trees.
  * `fold`     - constant folding (what the compiler does at compile time); `evalS_fold`.
  * `encodeConst` / `decodeConst` - choice of push_byte / push_short / push_long; `decode_encode`: every 32-bit
                 integer is pushed back as itself.
  Core Lean only.
-/
import GrcVerif.Code
namespace Grc.Sem
open Grc.Gen

def wrap32 (x : Int) : Int := (x + 2147483648) % 4294967296 - 2147483648

theorem wrap32_id (x : Int) (h1 : -2147483648 ≤ x) (h2 : x < 2147483648) : wrap32 x = x := by
  unfold wrap32; omega

inductive BinOp where
  | add | sub | mul | div | min | max | and | or | eq | ne | lt | gt | le | ge
  deriving DecidableEq, Repr

inductive UnOp where
  | neg | not
  deriving DecidableEq, Repr

def b2i (b : Bool) : Int := if b then 1 else 0

/-- Result of a binary instruction; `none` = the machine stops (division by zero, INT_MIN / -1). -/
def binVal (op : BinOp) (a b : Int) : Option Int :=
  match op with
  | .add => some (wrap32 (a + b))
  | .sub => some (wrap32 (a - b))
  | .mul => some (wrap32 (a * b))
  | .div => if b = 0 ∨ (a = -2147483648 ∧ b = -1) then none else some (Int.tdiv a b)
  | .min => some (if a < b then a else b)
  | .max => some (if a > b then a else b)
  | .and => some (b2i (a ≠ 0 ∧ b ≠ 0))
  | .or => some (b2i (a ≠ 0 ∨ b ≠ 0))
  | .eq => some (b2i (a = b))
  | .ne => some (b2i (a ≠ b))
  | .lt => some (b2i (a < b))
  | .gt => some (b2i (a > b))
  | .le => some (b2i (a ≤ b))
  | .ge => some (b2i (a ≥ b))

def unVal (op : UnOp) (a : Int) : Int :=
  match op with
  | .neg => wrap32 (-a)
  | .not => b2i (a = 0)

/-- What the code can read: attributes of the slots around the current one (relative offset), glyph attributes of
    their glyphs, feature values. -/
structure Env where
  slotAttr : Nat → Int → Nat → Int     -- attribute id, slot offset, index (user attributes)
  glyphAttr : Nat → Int → Int          -- glyph attribute id, slot offset
  feat : Nat → Int → Int               -- feature index, slot offset
  metric : Nat → Int → Int := fun _ _ => 0   -- glyph metric id (advance width ...), slot offset
  attGlyphAttr : Nat → Int → Int := fun _ _ => 0   -- glyph attribute of the slot's attach.to target (+ offset)

inductive AOp where
  | push (n : Int)
  | bin (op : BinOp)
  | un (op : UnOp)
  | cond
  | slotAttr (attr : Nat) (off : Int) (idx : Nat)
  | glyphAttr (id : Nat) (off : Int)
  | feat (f : Nat) (off : Int)
  | metric (m : Nat) (off : Int)
  | attGlyphAttr (id : Nat) (off : Int)
  deriving Repr, DecidableEq

/-- One instruction on the value stack (top first). -/
def stepA (env : Env) (op : AOp) (st : List Int) : Option (List Int) :=
  match op, st with
  | .push n, st => some (n :: st)
  | .bin o, b :: a :: rest => (binVal o a b).map (· :: rest)
  | .bin _, _ => none
  | .un o, a :: rest => some (unVal o a :: rest)
  | .un _, _ => none
  | .cond, f :: t :: c :: rest => some ((if c ≠ 0 then t else f) :: rest)
  | .cond, _ => none
  | .slotAttr a off i, st => some (env.slotAttr a off i :: st)
  | .glyphAttr g off, st => some (env.glyphAttr g off :: st)
  | .feat f off, st => some (env.feat f off :: st)
  | .metric m off, st => some (env.metric m off :: st)
  | .attGlyphAttr g off, st => some (env.attGlyphAttr g off :: st)

def runA (env : Env) : List AOp → List Int → Option (List Int)
  | [], st => some st
  | op :: rest, st => (stepA env op st).bind (runA env rest)

/-! ### Expression trees -/

inductive SExpr where
  | const (n : Int)
  | slotAttr (attr : Nat) (off : Int) (idx : Nat)
  | glyphAttr (id : Nat) (off : Int)
  | feat (f : Nat) (off : Int)
  | metric (m : Nat) (off : Int)
  | attGlyphAttr (id : Nat) (off : Int)
  | un (op : UnOp) (e : SExpr)
  | bin (op : BinOp) (a b : SExpr)
  | cond (c t f : SExpr)
  deriving Repr, DecidableEq, Inhabited

/-- Meaning of a tree; all operands are evaluated (the machine has no lazy operators). -/
def evalS (env : Env) : SExpr → Option Int
  | .const n => some n
  | .slotAttr a off i => some (env.slotAttr a off i)
  | .glyphAttr g off => some (env.glyphAttr g off)
  | .feat f off => some (env.feat f off)
  | .metric m off => some (env.metric m off)
  | .attGlyphAttr g off => some (env.attGlyphAttr g off)
  | .un o e => (evalS env e).map (unVal o)
  | .bin o a b =>
    match evalS env a, evalS env b with
    | some va, some vb => binVal o va vb
    | _, _ => none
  | .cond c t f =>
    match evalS env c, evalS env t, evalS env f with
    | some vc, some vt, some vf => some (if vc ≠ 0 then vt else vf)
    | _, _, _ => none

/-- Values of a symbolic stack; `none` if any entry stops the machine. -/
def evalStack (env : Env) : List SExpr → Option (List Int)
  | [] => some []
  | e :: rest =>
    match evalS env e, evalStack env rest with
    | some v, some vs => some (v :: vs)
    | _, _ => none

/-- Symbolic execution of one instruction. -/
def dstepA (op : AOp) (st : List SExpr) : Option (List SExpr) :=
  match op, st with
  | .push n, st => some (.const n :: st)
  | .bin o, b :: a :: rest => some (.bin o a b :: rest)
  | .bin _, _ => none
  | .un o, a :: rest => some (.un o a :: rest)
  | .un _, _ => none
  | .cond, f :: t :: c :: rest => some (.cond c t f :: rest)
  | .cond, _ => none
  | .slotAttr a off i, st => some (.slotAttr a off i :: st)
  | .glyphAttr g off, st => some (.glyphAttr g off :: st)
  | .feat f off, st => some (.feat f off :: st)
  | .metric m off, st => some (.metric m off :: st)
  | .attGlyphAttr g off, st => some (.attGlyphAttr g off :: st)

def decompA : List AOp → List SExpr → Option (List SExpr)
  | [], st => some st
  | op :: rest, st => (dstepA op st).bind (decompA rest)

theorem dstep_sound (env : Env) (op : AOp) (st st' : List SExpr) (h : dstepA op st = some st') :
    (evalStack env st).bind (stepA env op) = evalStack env st' := by
  cases op with
  | push n => simp [dstepA] at h; subst h; simp [evalStack, evalS]; cases evalStack env st <;> simp [stepA]
  | slotAttr a off i => simp [dstepA] at h; subst h; simp [evalStack, evalS]; cases evalStack env st <;> simp [stepA]
  | glyphAttr g off => simp [dstepA] at h; subst h; simp [evalStack, evalS]; cases evalStack env st <;> simp [stepA]
  | feat f off => simp [dstepA] at h; subst h; simp [evalStack, evalS]; cases evalStack env st <;> simp [stepA]
  | metric m off => simp [dstepA] at h; subst h; simp [evalStack, evalS]; cases evalStack env st <;> simp [stepA]
  | attGlyphAttr g off => simp [dstepA] at h; subst h; simp [evalStack, evalS]; cases evalStack env st <;> simp [stepA]
  | un o =>
    match st, h with
    | a :: rest, h =>
      simp [dstepA] at h; subst h
      simp only [evalStack, evalS]
      cases evalS env a <;> cases evalStack env rest <;> simp [stepA]
  | bin o =>
    match st, h with
    | b :: a :: rest, h =>
      simp [dstepA] at h; subst h
      simp only [evalStack, evalS]
      cases hb : evalS env b with
      | none => cases evalS env a <;> simp
      | some vb =>
        cases ha : evalS env a with
        | none => simp
        | some va =>
          cases hr : evalStack env rest with
          | none => cases binVal o va vb <;> simp
          | some vr => simp [stepA]; cases binVal o va vb <;> simp
  | cond =>
    match st, h with
    | f :: t :: c :: rest, h =>
      simp [dstepA] at h; subst h
      simp only [evalStack, evalS]
      cases evalS env f <;> cases evalS env t <;> cases evalS env c <;> cases evalStack env rest <;> simp [stepA]

/-- **Soundness of the decompiler**: for every environment, running the instructions on the values of the symbolic
    stack gives the values of the resulting symbolic stack (including the cases where the machine stops). -/
theorem decomp_sound (env : Env) (ops : List AOp) (st st' : List SExpr) (h : decompA ops st = some st') :
    (evalStack env st).bind (runA env ops) = evalStack env st' := by
  induction ops generalizing st with
  | nil => simp [decompA] at h; subst h; cases evalStack env st <;> simp [runA]
  | cons op rest ih =>
    simp only [decompA] at h
    cases hd : dstepA op st with
    | none => simp [hd] at h
    | some mid =>
      simp [hd] at h
      have h1 := dstep_sound env op st mid hd
      have h2 := ih mid h
      rw [← h2, ← h1]
      cases evalStack env st <;> simp [runA]

/-- An attribute value: code that starts on an empty stack and leaves one tree computes that tree. -/
theorem decomp_value (env : Env) (ops : List AOp) (e : SExpr) (h : decompA ops [] = some [e]) :
    runA env ops [] = (evalS env e).map (fun v => [v]) := by
  have := decomp_sound env ops [] [e] h
  simp [evalStack] at this
  rw [this]
  cases evalS env e <;> simp

/-! ### Constant folding -/

/-- No division inside: such a tree has a value in every state. -/
def noDiv : SExpr → Bool
  | .un _ e => noDiv e
  | .bin o a b => o != .div && noDiv a && noDiv b
  | .cond c t f => noDiv c && noDiv t && noDiv f
  | _ => true

theorem noDiv_total (env : Env) (e : SExpr) (h : noDiv e = true) : ∃ v, evalS env e = some v := by
  induction e with
  | const n => exact ⟨_, rfl⟩
  | slotAttr a off i => exact ⟨_, rfl⟩
  | glyphAttr g off => exact ⟨_, rfl⟩
  | feat f off => exact ⟨_, rfl⟩
  | metric m off => exact ⟨_, rfl⟩
  | attGlyphAttr g off => exact ⟨_, rfl⟩
  | un o e ih =>
    simp [noDiv] at h
    obtain ⟨v, hv⟩ := ih h
    exact ⟨unVal o v, by simp [evalS, hv]⟩
  | bin o a b iha ihb =>
    simp [noDiv] at h
    obtain ⟨va, hva⟩ := iha h.1.2
    obtain ⟨vb, hvb⟩ := ihb h.2
    cases o <;> simp_all [evalS, binVal]
  | cond c t f ihc iht ihf =>
    simp [noDiv] at h
    obtain ⟨vc, hvc⟩ := ihc h.1.1
    obtain ⟨vt, hvt⟩ := iht h.1.2
    obtain ⟨vf, hvf⟩ := ihf h.2
    exact ⟨if vc ≠ 0 then vt else vf, by simp [evalS, hvc, hvt, hvf]⟩

/-- Constant folding as the compiler does it: constant operands are computed at compile time, and a conditional
    with a constant test is replaced by the chosen branch (only when the dropped branch cannot stop the machine). -/
def fold : SExpr → SExpr
  | .un o e =>
    match fold e with
    | .const n => .const (unVal o n)
    | e' => .un o e'
  | .bin o a b =>
    match fold a, fold b with
    | .const x, .const y =>
      match binVal o x y with
      | some v => .const v
      | none => .bin o (.const x) (.const y)
    | a', b' => .bin o a' b'
  | .cond c t f =>
    match fold c with
    | .const n =>
      if n ≠ 0 then (if noDiv (fold f) then fold t else .cond (.const n) (fold t) (fold f))
      else (if noDiv (fold t) then fold f else .cond (.const n) (fold t) (fold f))
    | c' => .cond c' (fold t) (fold f)
  | e => e

theorem evalS_fold (env : Env) (e : SExpr) : evalS env (fold e) = evalS env e := by
  induction e with
  | const n => rfl
  | slotAttr a off i => rfl
  | glyphAttr g off => rfl
  | feat f off => rfl
  | metric m off => rfl
  | attGlyphAttr g off => rfl
  | un o e ih =>
    simp only [fold]
    split
    · rename_i n hn; rw [hn] at ih; simp [evalS] at ih ⊢; rw [← ih]; simp
    · simp [evalS, ih]
  | bin o a b iha ihb =>
    simp only [fold]
    split
    · rename_i x y hx hy
      rw [hx] at iha; rw [hy] at ihb
      simp only [evalS] at iha ihb
      split
      · rename_i v hv; simp only [evalS, ← iha, ← ihb, hv]
      · simp only [evalS, ← iha, ← ihb]
    · simp [evalS, iha, ihb]
  | cond c t f ihc iht ihf =>
    simp only [fold]
    split
    · rename_i n hn
      rw [hn] at ihc
      simp only [evalS] at ihc
      split
      · rename_i hne
        split
        · rename_i hnd
          obtain ⟨vf, hvf⟩ := noDiv_total env _ hnd
          rw [ihf] at hvf
          simp only [evalS, ← ihc, hvf, iht]
          cases evalS env t <;> simp [hne]
        · simp [evalS, iht, ihf, ← ihc]
      · rename_i hne
        have hn0 : n = 0 := by
          cases Decidable.em (n = 0) with
          | inl h => exact h
          | inr h => exact absurd h hne
        split
        · rename_i hnd
          obtain ⟨vt, hvt⟩ := noDiv_total env _ hnd
          rw [iht] at hvt
          simp only [evalS, ← ihc, hvt, ihf]
          cases evalS env f <;> simp [hn0]
        · simp [evalS, iht, ihf, ← ihc]
    · simp [evalS, ihc, iht, ihf]

/-- Folding as the compiler really does it: a conditional with a constant test is replaced by the chosen branch even if
    the other branch could stop the machine (it is never compiled). The folded code is *more* defined than the strict
    meaning: wherever the strict meaning has a value, the folded code computes that value (`evalS_foldC`). -/
def foldC : SExpr → SExpr
  | .un o e =>
    match foldC e with
    | .const n => .const (unVal o n)
    | e' => .un o e'
  | .bin o a b =>
    match foldC a, foldC b with
    | .const x, .const y =>
      match binVal o x y with
      | some v => .const v
      | none => .bin o (.const x) (.const y)
    | a', b' => .bin o a' b'
  | .cond c t f =>
    match foldC c with
    | .const n => if n ≠ 0 then foldC t else foldC f
    | c' => .cond c' (foldC t) (foldC f)
  | e => e

theorem evalS_foldC (env : Env) (e : SExpr) (v : Int) (h : evalS env e = some v) : evalS env (foldC e) = some v := by
  induction e generalizing v with
  | const n => exact h
  | slotAttr a off i => exact h
  | glyphAttr g off => exact h
  | feat f off => exact h
  | metric m off => exact h
  | attGlyphAttr g off => exact h
  | un o e ih =>
    simp only [evalS] at h
    cases he : evalS env e with
    | none => simp [he] at h
    | some w =>
      simp [he] at h
      have := ih w he
      simp only [foldC]
      split
      · rename_i n hn; rw [hn] at this; simp [evalS] at this ⊢; rw [this]; exact h
      · simp [evalS, this, h]
  | bin o a b iha ihb =>
    simp only [evalS] at h
    cases ha : evalS env a with
    | none => simp [ha] at h
    | some va =>
      cases hb : evalS env b with
      | none => simp [ha, hb] at h
      | some vb =>
        simp [ha, hb] at h
        have h1 := iha va ha
        have h2 := ihb vb hb
        simp only [foldC]
        split
        · rename_i x y hx hy
          rw [hx] at h1; rw [hy] at h2
          simp [evalS] at h1 h2
          subst h1 h2
          split
          · rename_i w hw; rw [hw] at h; simp [evalS]; exact Option.some.inj h
          · rename_i hw; rw [hw] at h; cases h
        · simp [evalS, h1, h2, h]
  | cond c t f ihc iht ihf =>
    simp only [evalS] at h
    cases hc : evalS env c with
    | none => simp [hc] at h
    | some vc =>
      cases ht : evalS env t with
      | none => simp [hc, ht] at h
      | some vt =>
        cases hf : evalS env f with
        | none => simp [hc, ht, hf] at h
        | some vf =>
          simp [hc, ht, hf] at h
          have h1 := ihc vc hc
          have h2 := iht vt ht
          have h3 := ihf vf hf
          simp only [foldC]
          split
          · rename_i n hn
            rw [hn] at h1
            simp [evalS] at h1
            split
            · rename_i hne
              have hvc : vc ≠ 0 := by rw [← h1]; exact hne
              rw [h2]; simp [hvc] at h; rw [h]
            · rename_i hne
              have hvc : vc = 0 := by
                rw [← h1]
                cases Decidable.em (n = 0) with
                | inl q => exact q
                | inr q => exact absurd q hne
              rw [h3]; simp [hvc] at h; rw [h]
          · simp [evalS, h1, h2, h3, h]

/-! ### Integer constants -/

inductive ConstEnc where
  | byte (b : Nat)                     -- push_byte: one byte, sign-extended
  | short (hi lo : Nat)                -- push_short: two bytes big-endian, sign-extended
  | long (b3 b2 b1 b0 : Nat)           -- push_long: four bytes big-endian, two's complement
  deriving Repr, DecidableEq

def sext (bits : Nat) (v : Nat) : Int := if v < 2 ^ (bits - 1) then (v : Int) else (v : Int) - (2 ^ bits : Nat)

def decodeConst : ConstEnc → Int
  | .byte b => sext 8 b
  | .short hi lo => sext 16 (hi * 256 + lo)
  | .long b3 b2 b1 b0 => sext 32 (((b3 * 256 + b2) * 256 + b1) * 256 + b0)

/-- The encoding the compiler must choose: the shortest form whose sign extension gives the value back. -/
def encodeConst (n : Int) : ConstEnc :=
  if -128 ≤ n ∧ n < 128 then .byte ((n % 256).toNat)
  else if -32768 ≤ n ∧ n < 32768 then
    let u := (n % 65536).toNat
    .short (u / 256) (u % 256)
  else
    let u := (n % 4294967296).toNat
    .long (u / 16777216) (u / 65536 % 256) (u / 256 % 256) (u % 256)

theorem decode_encode (n : Int) (h1 : -2147483648 ≤ n) (h2 : n < 2147483648) : decodeConst (encodeConst n) = n := by
  unfold encodeConst
  split
  · simp only [decodeConst, sext]; split <;> omega
  · split
    · simp only [decodeConst, sext]
      have : (n % 65536).toNat / 256 * 256 + (n % 65536).toNat % 256 = (n % 65536).toNat := by omega
      rw [this]; split <;> omega
    · simp only [decodeConst, sext]
      have : (((n % 4294967296).toNat / 16777216 * 256 + (n % 4294967296).toNat / 65536 % 256) * 256
          + (n % 4294967296).toNat / 256 % 256) * 256 + (n % 4294967296).toNat % 256 = (n % 4294967296).toNat := by omega
      rw [this]; split <;> omega

/-- The slip of the 16-bit test (values 32768..65535 taken for shorts) is visible in the model: -/
example : decodeConst (.short (40000 / 256) (40000 % 256)) = -25536 := by decide

/-! ### Decoding value instructions from bytes -/

def s8 (b : Nat) : Int := sext 8 b

def classify (i : Code.Ins) : Option AOp :=
  let a := i.args
  if i.op = kopPushByte then (match a with | [b] => some (.push (sext 8 b)) | _ => none)
  else if i.op = kopPushByteU then (match a with | [b] => some (.push b) | _ => none)
  else if i.op = kopPushShort then (match a with | [h, l] => some (.push (sext 16 (h * 256 + l))) | _ => none)
  else if i.op = kopPushShortU then (match a with | [h, l] => some (.push ((h * 256 + l : Nat) : Int)) | _ => none)
  else if i.op = kopPushLong then (match a with | [b3, b2, b1, b0] => some (.push (sext 32 (((b3 * 256 + b2) * 256 + b1) * 256 + b0))) | _ => none)
  else if i.op = kopAdd then some (.bin .add)
  else if i.op = kopSub then some (.bin .sub)
  else if i.op = kopMul then some (.bin .mul)
  else if i.op = kopDiv then some (.bin .div)
  else if i.op = kopMin then some (.bin .min)
  else if i.op = kopMax then some (.bin .max)
  else if i.op = kopAnd then some (.bin .and)
  else if i.op = kopOr then some (.bin .or)
  else if i.op = kopEqual then some (.bin .eq)
  else if i.op = kopNotEq then some (.bin .ne)
  else if i.op = kopLess then some (.bin .lt)
  else if i.op = kopGtr then some (.bin .gt)
  else if i.op = kopLessEq then some (.bin .le)
  else if i.op = kopGtrEq then some (.bin .ge)
  else if i.op = kopNeg then some (.un .neg)
  else if i.op = kopNot then some (.un .not)
  else if i.op = kopCond then some .cond
  else if i.op = kopPushSlotAttr then (match a with | [at_, off] => some (.slotAttr at_ (s8 off) 0) | _ => none)
  else if i.op = kopPushISlotAttr then (match a with | [at_, off, ix] => some (.slotAttr at_ (s8 off) ix) | _ => none)
  else if i.op = kopPushGlyphAttrV1_2 then (match a with | [g, off] => some (.glyphAttr g (s8 off)) | _ => none)
  else if i.op = kopPushGlyphAttr then (match a with | [gh, gl, off] => some (.glyphAttr (gh * 256 + gl) (s8 off)) | _ => none)
  else if i.op = kopPushFeat then (match a with | [f, off] => some (.feat f (s8 off)) | _ => none)
  else if i.op = kopPushGlyphMetric then (match a with | [m, off, _lvl] => some (.metric m (s8 off)) | _ => none)
  else if i.op = kopPushAttToGAttrV1_2 then (match a with | [g, off] => some (.attGlyphAttr g (s8 off)) | _ => none)
  else if i.op = kopPushAttToGlyphAttr then (match a with | [gh, gl, off] => some (.attGlyphAttr (gh * 256 + gl) (s8 off)) | _ => none)
  else none

end Grc.Sem
