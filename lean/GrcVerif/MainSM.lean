/-
  C09 / C19: the driver's stage machine (main.cpp) as a pure function from a scenario (which stage fails, which
  environment fault occurs) to exit status, error count and the ordered file-system operations, and the theorems
  about it. The correspondence check replays scenarios on the real binary under strace and compares.
  Core Lean only.
-/
namespace Grc.MainSM

inductive Op where
  | readFont | readGdl
  | createTmp | execPP | readTmp | unlinkTmp
  | writeDebugFiles | writeDebugXml
  | truncOut | writeOut | removeOut
  | writeErrFile
deriving DecidableEq, Repr, Inhabited

structure Scn where
  sameInOut : Bool       -- output path spelled exactly like the input font path
  gdlOpens : Bool
  encodingOk : Bool
  tmpOk : Bool           -- mkstemp succeeds
  ppOk : Bool            -- the pre-processor can be run and exits 0
  parseOk : Bool         -- parser reports no fatal error
  postParseOk : Bool
  fontOk : Bool
  optsOk : Bool          -- -v / -n values valid, no fatal error so far
  preCompileOk : Bool
  fsmOk : Bool           -- the state machines fit the font tables (the check made after they are generated, error 3174)
  dbgFiles : Bool        -- -D
  dbgXml : Bool          -- -d or -D
  outOpens : Bool        -- destination can be created
  outWrites : Bool       -- every table is written (OutputToFont returns 0 once the destination is open)
  errFileOpens : Bool
deriving Repr, Inhabited

structure Res where
  exit : Nat
  errors : Nat
  ops : List Op
  fontComplete : Bool
deriving Repr

def b2n (b : Bool) : Nat := if b then 1 else 0

/-- Stage failure flags, in program order: g1 same-file, g2 GDL missing, g3 encoding, g4 pre-process/parse,
    g5 post-parse, g6 font, g7 options, g8 pre-compile, g9 state machines too large / output, g10 error file cannot be written (error 106). -/
def exitOf (g1 g2 g3 g4 g5 g6 g7 g8 g9 g10 : Bool) : Nat :=
  if g1 || g2 || g3 || g4 || g5 || g6 || g7 || g8 || g9 || g10 then 1 else 0

/-- Errors recorded: the same-file and GDL-open checks always run; every later stage runs only if nothing failed
    before it. -/
def errorsOf (g1 g2 g3 g4 g5 g6 g7 g8 g9 g10 : Bool) : Nat :=
  b2n g1 + b2n g2 + b2n (!(g1 || g2) && g3) + b2n (!(g1 || g2 || g3) && g4) + b2n (!(g1 || g2 || g3 || g4) && g5)
  + b2n (!(g1 || g2 || g3 || g4 || g5) && g6) + b2n (!(g1 || g2 || g3 || g4 || g5 || g6) && g7)
  + b2n (!(g1 || g2 || g3 || g4 || g5 || g6 || g7) && g8) + b2n (!(g1 || g2 || g3 || g4 || g5 || g6 || g7 || g8) && g9)
  + b2n g10

theorem exitOf_zero_iff (g1 g2 g3 g4 g5 g6 g7 g8 g9 g10 : Bool) :
    exitOf g1 g2 g3 g4 g5 g6 g7 g8 g9 g10 = 0 ↔ errorsOf g1 g2 g3 g4 g5 g6 g7 g8 g9 g10 = 0 := by
  cases g1 <;> cases g2 <;> cases g3 <;> cases g4 <;> cases g5 <;> cases g6 <;> cases g7 <;> cases g8 <;> cases g9 <;>
    cases g10 <;> decide

def Scn.preFail (s : Scn) : Bool :=
  s.sameInOut || !s.gdlOpens || !s.encodingOk || !(s.tmpOk && s.ppOk && s.parseOk) || !s.postParseOk || !s.fontOk
    || !s.optsOk || !s.preCompileOk

def Scn.parseRan (s : Scn) : Bool := !(s.sameInOut || !s.gdlOpens || !s.encodingOk)

def parseOps (s : Scn) : List Op :=
  if s.parseRan then
    (if s.tmpOk then [Op.createTmp, Op.execPP] ++ (if s.ppOk then [Op.readTmp] else []) ++
      -- (the input font is opened inside the parse stage: with an unreadable font the parse "fails" too and its debug
      -- listing is not written)
      (if s.ppOk && s.parseOk && s.fontOk && s.dbgFiles then [Op.writeDebugFiles] else []) ++ [Op.unlinkTmp] else [])
  else []

def outOps (s : Scn) : List Op :=
  if s.preFail then []
  else
    (if s.dbgXml then [Op.writeDebugXml] else []) ++
    (if !s.fsmOk then []      -- the debug files are written, the destination is not touched at all
     -- (a destination that cannot be created is left alone: what is at that path - a directory, say - is not the run's)
     else if s.outOpens then [Op.truncOut] ++ (if s.outWrites then [Op.writeOut] else [Op.removeOut]) else [])

def Scn.outFail (s : Scn) : Bool := !s.preFail && !(s.fsmOk && s.outOpens && s.outWrites)

def run (s : Scn) : Res :=
  let g4 := !(s.tmpOk && s.ppOk && s.parseOk)
  { exit := exitOf s.sameInOut (!s.gdlOpens) (!s.encodingOk) g4 (!s.postParseOk) (!s.fontOk) (!s.optsOk) (!s.preCompileOk) s.outFail (!s.errFileOpens),
    errors := errorsOf s.sameInOut (!s.gdlOpens) (!s.encodingOk) g4 (!s.postParseOk) (!s.fontOk) (!s.optsOk) (!s.preCompileOk) s.outFail (!s.errFileOpens),
    ops := [Op.readFont, Op.readGdl] ++ parseOps s ++ outOps s ++ (if s.errFileOpens then [Op.writeErrFile] else []),
    fontComplete := !s.preFail && s.fsmOk && s.outOpens && s.outWrites }

/-- Exit status 0 exactly when no error was reported. -/
theorem exit_zero_iff_no_error (s : Scn) : (run s).exit = 0 ↔ (run s).errors = 0 := by
  simp only [run]; exact exitOf_zero_iff _ _ _ _ _ _ _ _ _ _

theorem exit_le_one (s : Scn) : (run s).exit ≤ 1 := by
  simp only [run, exitOf]; split <;> omega

theorem exit_zero_pre (s : Scn) (h : (run s).exit = 0) :
    s.preFail = false ∧ s.outOpens = true ∧ s.outWrites = true ∧ s.errFileOpens = true ∧ s.fsmOk = true := by
  simp only [run, exitOf] at h
  split at h
  · omega
  · rename_i hn
    simp only [Bool.or_eq_true, not_or, Bool.not_eq_true] at hn
    obtain ⟨⟨⟨⟨⟨⟨⟨⟨⟨h1, h2⟩, h3⟩, h4⟩, h5⟩, h6⟩, h7⟩, h8⟩, h9⟩, h10⟩ := hn
    have hp : s.preFail = false := by
      simp only [Scn.preFail, h1, h2, h3, h4, h5, h6, h7, h8, Bool.or_self]
    refine ⟨hp, ?_⟩
    simp only [Scn.outFail, hp, Bool.not_false, Bool.true_and, Bool.not_eq_false', Bool.and_eq_true] at h9
    exact ⟨h9.1.2, h9.2, by simpa using h10, h9.1.1⟩

theorem mem_ops (s : Scn) (o : Op) : o ∈ (run s).ops ↔
    (o = Op.readFont ∨ o = Op.readGdl ∨ o ∈ parseOps s ∨ o ∈ outOps s ∨ (s.errFileOpens = true ∧ o = Op.writeErrFile)) := by
  simp only [run, List.mem_append, List.mem_cons, List.mem_nil_iff, or_false]
  by_cases he : s.errFileOpens = true <;> simp [he, or_assoc]

theorem out_not_in_parse (s : Scn) : Op.truncOut ∉ parseOps s ∧ Op.removeOut ∉ parseOps s ∧ Op.writeOut ∉ parseOps s := by
  unfold parseOps
  cases s.parseRan <;> cases s.tmpOk <;> cases s.ppOk <;> cases s.parseOk <;> cases s.fontOk <;> cases s.dbgFiles <;> simp

/-- Success: the destination was created by this run, written completely, and not removed. -/
theorem success_font_complete (s : Scn) (h : (run s).exit = 0) :
    Op.truncOut ∈ (run s).ops ∧ Op.writeOut ∈ (run s).ops ∧ Op.removeOut ∉ (run s).ops ∧ (run s).fontComplete = true := by
  obtain ⟨hp, ho, hw, _, hf⟩ := exit_zero_pre s h
  have hout : outOps s = (if s.dbgXml then [Op.writeDebugXml] else []) ++ [Op.truncOut, Op.writeOut] := by
    simp [outOps, hp, ho, hw, hf]
  have hnp := out_not_in_parse s
  refine ⟨?_, ?_, ?_, ?_⟩
  · rw [mem_ops]; right; right; right; left; rw [hout]; simp
  · rw [mem_ops]; right; right; right; left; rw [hout]; simp
  · rw [mem_ops]
    intro hc
    rcases hc with hc | hc | hc | hc | hc
    · cases hc
    · cases hc
    · exact hnp.2.1 hc
    · rw [hout] at hc
      cases s.dbgXml <;> simp at hc
    · exact absurd hc.2 (by decide)
  · simp [run, hp, ho, hw, hf]

/-- Failure (other than the error file itself being unwritable): the destination is either never touched, or
    removed again — no partial font is left behind. -/
theorem failure_leaves_no_font (s : Scn) (h : (run s).exit ≠ 0) (he : s.errFileOpens = true) :
    Op.truncOut ∉ (run s).ops ∨ Op.removeOut ∈ (run s).ops := by
  by_cases hp : s.preFail = true
  · left
    rw [mem_ops]
    have hnp := out_not_in_parse s
    intro hc
    rcases hc with hc | hc | hc | hc | hc
    · cases hc
    · cases hc
    · exact hnp.1 hc
    · simp [outOps, hp] at hc
    · exact absurd hc.2 (by decide)
  · have hp' : s.preFail = false := by simpa using hp
    by_cases hf : s.fsmOk = true
    case neg =>
      -- the state machines do not fit: the destination is never opened
      left
      rw [mem_ops]
      have hnp := out_not_in_parse s
      intro hc
      rcases hc with hc | hc | hc | hc | hc
      · cases hc
      · cases hc
      · exact hnp.1 hc
      · simp only [outOps, hp', Bool.false_eq_true, if_false] at hc
        cases hx : s.dbgXml <;> simp_all
      · exact absurd hc.2 (by decide)
    by_cases hok : (s.outOpens && s.outWrites) = true
    · exfalso; apply h
      simp only [run, exitOf]
      have : s.outFail = false := by
        simp only [Bool.and_eq_true] at hok
        simp [Scn.outFail, hp', hok.1, hok.2, hf]
      simp only [Scn.preFail, Bool.or_eq_false_iff] at hp'
      obtain ⟨⟨⟨⟨⟨⟨⟨h1, h2⟩, h3⟩, h4⟩, h5⟩, h6⟩, h7⟩, h8⟩ := hp'
      simp [h1, h2, h3, h4, h5, h6, h7, h8, this, he]
    · cases ho : s.outOpens with
      | false =>
        -- the destination could not be created: it is not touched at all
        left
        rw [mem_ops]
        have hnp := out_not_in_parse s
        intro hc
        rcases hc with hc | hc | hc | hc | hc
        · cases hc
        · cases hc
        · exact hnp.1 hc
        · simp only [outOps, hp', Bool.false_eq_true, if_false, hf, ho] at hc
          cases hx : s.dbgXml <;> simp_all
        · exact absurd hc.2 (by decide)
      | true =>
        right
        rw [mem_ops]; right; right; right; left
        simp only [outOps, hp', Bool.false_eq_true, if_false, hf]
        cases hw : s.outWrites <;> cases hx : s.dbgXml <;> simp_all

/-- State machines that do not fit the font tables (found after they are generated): exit status 1 and the destination
    is neither opened nor removed. -/
theorem fsm_failure_touches_nothing (s : Scn) (hp : s.preFail = false) (hf : s.fsmOk = false) :
    (run s).exit = 1 ∧ Op.truncOut ∉ (run s).ops ∧ Op.removeOut ∉ (run s).ops ∧ Op.writeOut ∉ (run s).ops := by
  have hnp := out_not_in_parse s
  have hout : outOps s = (if s.dbgXml then [Op.writeDebugXml] else []) := by simp [outOps, hp, hf]
  have hof : s.outFail = true := by simp [Scn.outFail, hp, hf]
  refine ⟨?_, ?_, ?_, ?_⟩
  · simp [run, exitOf, hof]
  all_goals
    rw [mem_ops]
    intro hc
    rcases hc with hc | hc | hc | hc | hc
    · cases hc
    · cases hc
    · first | exact hnp.1 hc | exact hnp.2.1 hc | exact hnp.2.2 hc
    · rw [hout] at hc
      cases s.dbgXml <;> simp at hc
    · exact absurd hc.2 (by decide)

example : ({ sameInOut := false, gdlOpens := true, encodingOk := true, tmpOk := true, ppOk := true, parseOk := true,
             postParseOk := true, fontOk := true, optsOk := true, preCompileOk := true, fsmOk := false, dbgFiles := false,
             dbgXml := true, outOpens := true, outWrites := true, errFileOpens := true } : Scn).preFail = false := by decide

/-- The destination is not touched before every check has passed. -/
theorem no_output_before_checks (s : Scn) (h : Op.truncOut ∈ (run s).ops) : s.preFail = false := by
  rw [mem_ops] at h
  have hnp := out_not_in_parse s
  rcases h with h | h | h | h | h
  · cases h
  · cases h
  · exact absurd h hnp.1
  · cases hp : s.preFail with
    | false => rfl
    | true => simp [outOps, hp] at h
  · exact absurd h.2 (by decide)

/-- Any reported error reaches the error file (when that file can be written). -/
theorem errors_reach_errfile (s : Scn) (he : s.errFileOpens = true) : Op.writeErrFile ∈ (run s).ops := by
  rw [mem_ops]; right; right; right; right; exact ⟨he, rfl⟩

/-- C19: the temporary file is removed in every run that created it. -/
theorem tmp_removed (s : Scn) (h : Op.createTmp ∈ (run s).ops) : Op.unlinkTmp ∈ (run s).ops := by
  rw [mem_ops] at h ⊢
  rcases h with h | h | h | h | h
  · cases h
  · cases h
  · right; right; left
    unfold parseOps at h ⊢
    cases hr : s.parseRan <;> cases ht : s.tmpOk <;> cases hpp : s.ppOk <;> cases hk : s.parseOk <;> cases hfo : s.fontOk <;> cases hd : s.dbgFiles <;> simp_all
  · exfalso
    unfold outOps at h
    cases hp : s.preFail <;> cases hx : s.dbgXml <;> cases ho : s.outOpens <;> cases hw : s.outWrites <;> simp_all
  · exact absurd h.2 (by decide)

/-- C19: debug files are written only when requested. -/
theorem debug_only_if_requested (s : Scn) :
    (Op.writeDebugFiles ∈ (run s).ops → s.dbgFiles = true) ∧ (Op.writeDebugXml ∈ (run s).ops → s.dbgXml = true) := by
  constructor <;> intro h <;> rw [mem_ops] at h <;> rcases h with h | h | h | h | h
  all_goals first
    | (exact absurd h.2 (by decide))
    | cases h
    | (unfold parseOps at h
       cases hr : s.parseRan <;> cases ht : s.tmpOk <;> cases hpp : s.ppOk <;> cases hk : s.parseOk <;> cases hfo : s.fontOk <;> cases hd : s.dbgFiles <;> simp_all)
    | (unfold outOps at h
       cases hp : s.preFail <;> cases hx : s.dbgXml <;> cases ho : s.outOpens <;> cases hw : s.outWrites <;> simp_all)

end Grc.MainSM
