/-
  C20: collision octaboxes. Exact integer arithmetic (no floats): a value v = a/b in [0,1] is stored as
  q = min(floor(255 a / b), 255). `quant_bounds` proves q/255 ≤ v < (q+1)/255 (or v = 1, q = 255); hence a stored
  minimum never exceeds, and a stored maximum plus one step is never below, any value it was computed from.
  The executable checker `checkGlyph` evaluates the enclosure property on the real bytes against the glyf points.
  Core Lean only.
-/
import GrcVerif.Bytes
import GrcVerif.Tables
namespace Grc.Octa

/-- Quantisation as written in OutputGlatSubBox / OutputGlatFullDiagonals, on the exact fraction a/b. -/
def quant (a b : Nat) : Nat := min (255 * a / b) 255

theorem quant_bounds (a b : Nat) (hb : 0 < b) (hab : a ≤ b) :
    quant a b * b ≤ 255 * a ∧ (255 * a < (quant a b + 1) * b ∨ a = b) := by
  unfold quant
  have hdiv : 255 * a / b * b ≤ 255 * a := Nat.div_mul_le_self _ _
  have hlt : 255 * a < (255 * a / b + 1) * b := by
    have := Nat.lt_div_mul_add hb (a := 255 * a)
    rw [Nat.add_mul, Nat.one_mul]; omega
  by_cases h : 255 * a / b ≤ 255
  · rw [Nat.min_eq_left h]
    exact ⟨hdiv, Or.inl hlt⟩
  · -- floor(255 a / b) > 255 is impossible when a ≤ b
    exfalso
    have h1 : 255 * a ≤ 255 * b := Nat.mul_le_mul_left _ hab
    have h2 : 255 * a / b ≤ 255 := by
      calc 255 * a / b ≤ 255 * b / b := Nat.div_le_div_right h1
        _ = 255 := Nat.mul_div_cancel _ hb
    exact h h2

/-- A stored lower bound (computed from the minimum m over the points) is below every point's value x ≥ m;
    a stored upper bound, widened by one quantisation step, is above every x ≤ M. -/
theorem min_bound_encloses (m x b : Nat) (hb : 0 < b) (hm : m ≤ b) (hx : m ≤ x) :
    quant m b * b ≤ 255 * x := by
  have := (quant_bounds m b hb hm).1
  calc quant m b * b ≤ 255 * m := this
    _ ≤ 255 * x := Nat.mul_le_mul_left _ hx

theorem max_bound_encloses (M x b : Nat) (hb : 0 < b) (hM : M ≤ b) (hx : x ≤ M) :
    255 * x ≤ (quant M b + 1) * b := by
  rcases (quant_bounds M b hb hM).2 with h | h
  · have : 255 * x ≤ 255 * M := Nat.mul_le_mul_left _ hx
    omega
  · subst h
    have h1 := (quant_bounds M M hb (Nat.le_refl _)).1
    have : 255 * x ≤ 255 * M := Nat.mul_le_mul_left _ hx
    -- quant M M = 255
    have hq : quant M M = 255 := by
      unfold quant
      rw [Nat.mul_div_cancel _ hb]
      simp
    rw [hq]; omega

/-! ### glyf outline points -/

structure Pt where
  x : Int
  y : Int
deriving Repr, Inhabited, BEq

/-- Points of a simple glyph (all points, on and off curve). -/
def parseSimple (nContours : Nat) : P (List Pt) := do
  let _bbox ← P.times 4 P.i16
  let ends ← P.times nContours P.u16
  let nPts := if nContours == 0 then 0 else ends[nContours - 1]! + 1
  let nInstr ← P.u16
  let _ ← P.bytes nInstr
  let mut flags : Array Nat := #[]
  let mut fuel := nPts + 1
  while flags.size < nPts ∧ fuel > 0 do
    fuel := fuel - 1
    let f ← P.u8
    flags := flags.push f
    if f / 8 % 2 == 1 then
      let rep ← P.u8
      for _ in [0:rep] do
        flags := flags.push f
  let mut xs : Array Int := #[]
  let mut cur : Int := 0
  for i in [0:nPts] do
    let f := flags[i]!
    if f / 2 % 2 == 1 then
      let d ← P.u8
      cur := if f / 16 % 2 == 1 then cur + d else cur - d
    else if f / 16 % 2 == 0 then
      cur := cur + (← P.i16)
    xs := xs.push cur
  let mut ys : Array Int := #[]
  cur := 0
  for i in [0:nPts] do
    let f := flags[i]!
    if f / 4 % 2 == 1 then
      let d ← P.u8
      cur := if f / 32 % 2 == 1 then cur + d else cur - d
    else if f / 32 % 2 == 0 then
      cur := cur + (← P.i16)
    ys := ys.push cur
  return (List.range nPts).map fun i => { x := xs[i]!, y := ys[i]! }

/-- Points of glyph `g` (composites expanded with their x/y offsets or matched points, x/y scales and 2x2 transforms). -/
partial def glyphPoints (glyf loca : ByteArray) (longLoca : Bool) (g : Nat) (depth : Nat := 0) : Option (List Pt) :=
  if depth > 8 then none else
  let off (i : Nat) : Nat := if longLoca then beU32 loca (4 * i) else 2 * beU16 loca (2 * i)
  if (if longLoca then 4 * (g + 2) else 2 * (g + 2)) > loca.size then none else
  let a := off g
  let b := off (g + 1)
  if a == b then some [] else
  if b > glyf.size ∨ a + 10 > b then none else
  let nc := beU16 glyf a
  if nc < 32768 then
    match P.run (parseSimple nc) glyf (a + 2) (some b) with
    | .ok pts => some pts
    | .error _ => none
  else
    -- composite
    let rec comps (p : Nat) (acc : List Pt) (fuel : Nat) : Option (List Pt) :=
      if fuel == 0 ∨ p + 4 > b then none else
      let flags := beU16 glyf p
      let gid := beU16 glyf (p + 2)
      let words := flags % 2 == 1
      let xy := flags / 2 % 2 == 1
      let (dx, dy, p') : Int × Int × Nat :=
        if words then
          let s (v : Nat) : Int := if v ≥ 32768 then (v : Int) - 65536 else v
          (s (beU16 glyf (p + 4)), s (beU16 glyf (p + 6)), p + 8)
        else
          let s (v : Nat) : Int := if v ≥ 128 then (v : Int) - 256 else v
          (s (glyf.get! (p + 4)).toNat, s (glyf.get! (p + 5)).toNat, p + 6)
      let f2 (q : Nat) : Int := let v := beU16 glyf q; if v ≥ 32768 then (v : Int) - 65536 else v
      -- the transform in F2Dot14 units, as the format defines it: x' = xscale*x + scale10*y, y' = scale01*x + yscale*y
      -- (WE_HAVE_A_TWO_BY_TWO stores xscale, scale01, scale10, yscale in this order); the offset is not transformed
      -- ("ignore fTransOff for now" in TtfUtil.cpp)
      let (sx, s01, s10, sy, p'') : Int × Int × Int × Int × Nat :=
        if flags / 8 % 2 == 1 then (f2 p', 0, 0, f2 p', p' + 2)
        else if flags / 64 % 2 == 1 then (f2 p', 0, 0, f2 (p' + 2), p' + 4)
        else if flags / 128 % 2 == 1 then (f2 p', f2 (p' + 2), f2 (p' + 4), f2 (p' + 6), p' + 8)
        else (16384, 0, 0, 16384, p')
      match glyphPoints glyf loca longLoca gid (depth + 1) with
      | none => none
      | some pts =>
        -- a transformed coordinate is cut to an integer toward zero, as `(int)(x * flt11 + y * flt21)` does
        let tr (v s w t : Int) : Int := if s == 16384 ∧ t == 0 then v else Int.tdiv (v * s + w * t) 16384
        let tpts : List Pt := pts.map fun q => { x := tr q.x sx q.y s10, y := tr q.y sy q.x s01 }
        -- placement: x/y offsets (ARGS_ARE_XY_VALUES), or point matching - the two arguments are unsigned point numbers,
        -- the first among the points of the composite collected so far, the second among the (transformed) points of
        -- this component, and the component is moved so that the two points coincide
        let place : Option (Int × Int) :=
          if xy then some (dx, dy)
          else
            let ua : Nat := if words then beU16 glyf (p + 4) else (glyf.get! (p + 4)).toNat
            let ub : Nat := if words then beU16 glyf (p + 6) else (glyf.get! (p + 5)).toNat
            match acc[ua]?, tpts[ub]? with
            | some pa, some pb => some (pa.x - pb.x, pa.y - pb.y)
            | _, _ => none
        match place with
        | none => none
        | some (ox, oy) =>
          let acc' := acc ++ tpts.map fun q => { x := q.x + ox, y := q.y + oy }
          if flags / 32 % 2 == 1 then comps p'' acc' (fuel - 1) else some acc'
    comps (a + 10) [] 64

/-- Component glyph ids of a composite glyph (empty for simple glyphs). -/
def componentIds (glyf loca : ByteArray) (longLoca : Bool) (g : Nat) : List Nat := Id.run do
  let off (i : Nat) : Nat := if longLoca then beU32 loca (4 * i) else 2 * beU16 loca (2 * i)
  if (if longLoca then 4 * (g + 2) else 2 * (g + 2)) > loca.size then return []
  let a := off g
  let b := off (g + 1)
  if a + 10 > b ∨ b > glyf.size then return []
  if beU16 glyf a < 32768 then return []
  let mut p := a + 10
  let mut out : List Nat := []
  let mut fuel := 64
  while fuel > 0 ∧ p + 4 ≤ b do
    fuel := fuel - 1
    let flags := beU16 glyf p
    out := out ++ [beU16 glyf (p + 2)]
    p := p + 4 + (if flags % 2 == 1 then 4 else 2) + (if flags / 8 % 2 == 1 then 2 else 0)
      + (if flags / 64 % 2 == 1 then 4 else 0) + (if flags / 128 % 2 == 1 then 8 else 0)
    if flags / 32 % 2 == 0 then fuel := 0
  return out

/-! ### the enclosure check on real bytes -/

def cellOf (num den : Int) : Nat :=
  -- trunc(4 * num/den - 1/1000) toward zero, clamped to 0..3; num/den in [0,1]
  let v := (4000 * num - den)      -- = 1000*den*(4 num/den - 1/1000)
  if v ≤ 0 then 0 else
  let c := (v / (1000 * den)).toNat
  min c 3

/-- Check one glyph. Returns failures. `complex` = the program asks for sub-boxes for this glyph (collision.complexFit). -/
def checkGlyph (g : Nat) (pts : List Pt) (ob : Octabox) (complex : Bool := false) : List String := Id.run do
  if pts.isEmpty then
    if ob.bitmap != 0 ∨ ob.diag.toList != [0, 0, 0, 0] then
      return [s!"glyph {g}: no outline but octabox data bitmap={ob.bitmap} diag={ob.diag.toList}"]
    return []
  let xmin := pts.foldl (fun m p => min m p.x) (pts.head!).x
  let xmax := pts.foldl (fun m p => max m p.x) (pts.head!).x
  let ymin := pts.foldl (fun m p => min m p.y) (pts.head!).y
  let ymax := pts.foldl (fun m p => max m p.y) (pts.head!).y
  let W := xmax - xmin
  let H := ymax - ymin
  if W ≤ 0 ∨ H ≤ 0 then
    return [s!"DEGENERATE glyph {g}: bounding box {W}x{H}"]
  let S := W + H
  let mut out : List String := []
  -- sub-box index of cell (cx,cy): number of set bits below bit cy*4+cx
  let subIdx (bit : Nat) : Nat := (List.range bit).foldl (fun n i => n + (ob.bitmap / 2 ^ i) % 2) 0
  let encl (lo hi : Nat) (num den : Int) : Bool := (lo : Int) * den ≤ 255 * num ∧ 255 * num ≤ ((hi : Int) + 1) * den
  -- the same with the slack of RoundSubBoxCells (values truncated to 4 decimals before quantisation)
  let enclSlack (lo hi : Nat) (num den : Int) : Bool :=
    (lo : Int) * den ≤ 255 * num ∧ 255 * num * 10000 ≤ (((hi : Int) + 1) * 10000 + 255) * den
  let tag (strict slack : Bool) : String := if strict then "" else if slack then " [within the 1e-4 truncation slack]" else ""
  for p in pts do
    let nx := p.x - xmin
    let ny := p.y - ymin
    let nsum := (p.x + p.y) - (xmin + ymin)
    let ndiff := (p.x - p.y) - (xmin - ymax)
    -- whole-glyph diagonals: [DNMin, DNMax, DPMin, DPMax] = sum then diff
    if !(encl (ob.diag.getD 0 0) (ob.diag.getD 1 0) nsum S) then
      out := out ++ [s!"glyph {g}: point ({p.x},{p.y}) outside the whole-glyph x+y bounds {ob.diag.getD 0 0}..{ob.diag.getD 1 0}"]
    if !(encl (ob.diag.getD 2 0) (ob.diag.getD 3 0) ndiff S) then
      out := out ++ [s!"glyph {g}: point ({p.x},{p.y}) outside the whole-glyph x-y bounds {ob.diag.getD 2 0}..{ob.diag.getD 3 0}"]
    -- (complex: the program sets collision.complexFit for this glyph, so its occupied cells must cover every point even
    -- if the bitmap says there is none)
    if ob.bitmap != 0 ∨ complex then
      let cx := cellOf nx W
      let cy := cellOf ny H
      let bit := cy * 4 + cx
      if (ob.bitmap / 2 ^ bit) % 2 == 0 then
        let same := pts.filter fun q => cellOf (q.x - xmin) W == cx ∧ cellOf (q.y - ymin) H == cy
        let oneX := same.all fun q => q.x == p.x
        out := out ++ [s!"glyph {g}: point ({p.x},{p.y}) falls in cell ({cx},{cy}) which is not marked occupied (bitmap {ob.bitmap}) [cellPointsShareX={oneX}]"]
      else
        let sb := ob.sub.getD (subIdx bit) #[]
        let b1 := encl (sb.getD 0 0) (sb.getD 1 0) nx W ∧ encl (sb.getD 2 0) (sb.getD 3 0) ny H
        let b1s := enclSlack (sb.getD 0 0) (sb.getD 1 0) nx W ∧ enclSlack (sb.getD 2 0) (sb.getD 3 0) ny H
        if !b1 then
          out := out ++ [s!"glyph {g}: point ({p.x},{p.y}) in cell ({cx},{cy}) outside its box x {sb.getD 0 0}..{sb.getD 1 0} y {sb.getD 2 0}..{sb.getD 3 0}" ++ tag b1 b1s]
        let b2 := encl (sb.getD 4 0) (sb.getD 5 0) nsum S ∧ encl (sb.getD 6 0) (sb.getD 7 0) ndiff S
        let b2s := enclSlack (sb.getD 4 0) (sb.getD 5 0) nsum S ∧ enclSlack (sb.getD 6 0) (sb.getD 7 0) ndiff S
        if !b2 then
          out := out ++ [s!"glyph {g}: point ({p.x},{p.y}) in cell ({cx},{cy}) outside its diagonal bounds {sb.getD 4 0}..{sb.getD 5 0} / {sb.getD 6 0}..{sb.getD 7 0}" ++ tag b2 b2s]
  return out

end Grc.Octa
