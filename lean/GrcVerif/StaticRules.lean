/-
  C10: static rules of the rule language as declarative predicates over the IR, and the class-recursion check
  (model of GdlGlyphClassDefn::CheckRecursiveGlyphClasses) with its correctness theorem.
  Core Lean only.
-/
import GrcVerif.IR
namespace Grc.SR

/-- Static-rule violations of one rule in a table of the given type. Each string names the rule broken. -/
def ruleViolations (table : String) (r : RuleIR) : List String := Id.run do
  let n := r.items.length
  let isIns (j : Nat) : Bool := match r.items[j]? with | some it => it.inCls.isNone | none => false
  let mut out : List String := []
  for (it, i) in r.items.zipIdx do
    match it.out with
    | some (.cls _ (some sel)) =>
      if sel < 1 ∨ sel > n then out := out ++ [s!"item {i+1}: selector out of range"]
      else if isIns (sel - 1) then out := out ++ [s!"item {i+1}: selector refers to an inserted item"]
    | some (.copy k) =>
      if k < 1 ∨ k > n then out := out ++ [s!"item {i+1}: @ reference out of range"]
      else if isIns (k - 1) then out := out ++ [s!"item {i+1}: @ reference to an inserted item"]
    | _ => pure ()
    for a in it.assoc do
      if a < 1 ∨ a > n then out := out ++ [s!"item {i+1}: association out of range"]
      else if isIns (a - 1) then out := out ++ [s!"item {i+1}: association with an inserted item"]
    if table == "pos" then
      if it.mod ∧ it.inCls.isNone then out := out ++ [s!"item {i+1}: insertion in the positioning table"]
      if it.out == some .del then out := out ++ [s!"item {i+1}: deletion in the positioning table"]
      if !it.assoc.isEmpty then out := out ++ [s!"item {i+1}: association in the positioning table"]
  return out

/-! ### Class recursion -/

/-- Model of the compiler's check: depth-first walk with an explicit stack; `false` = recursion found.
    `fuel` bounds the depth (the number of classes suffices: the stack never repeats a class). -/
def noCycleFrom (refs : Nat → List Nat) : Nat → List Nat → Nat → Bool
  | 0, _, _ => false
  | fuel + 1, stack, c =>
    if stack.contains c then false
    else (refs c).all fun d => noCycleFrom refs fuel (c :: stack) d

/-- A path in the reference graph. -/
inductive Path (refs : Nat → List Nat) : Nat → Nat → Prop
  | step {a b : Nat} : b ∈ refs a → Path refs a b
  | cons {a b c : Nat} : b ∈ refs a → Path refs b c → Path refs a c

/-- Soundness of acceptance: if the check accepts class `c` (with any stack), `c` is on no cycle through
    classes reachable from it — in particular no class reachable from `c` (including `c`) refers back to `c`
    or to a class on the stack. Stated as: acceptance implies no path from `c` to any class of `c :: stack`. -/
theorem noCycleFrom_sound (refs : Nat → List Nat) : ∀ (fuel : Nat) (stack : List Nat) (c : Nat),
    noCycleFrom refs fuel stack c = true → ∀ t, t ∈ c :: stack → ¬ Path refs c t := by
  intro fuel
  induction fuel with
  | zero => intro stack c h; simp [noCycleFrom] at h
  | succ fuel ih =>
    intro stack c h t ht hp
    simp only [noCycleFrom] at h
    by_cases hs : stack.contains c = true
    · rw [if_pos hs] at h; exact absurd h (by simp)
    · rw [if_neg hs] at h
      rw [List.all_eq_true] at h
      cases hp with
      | step hb =>
        -- c refers directly to t, and t is c or on the stack: the recursive call on t sees t ∈ c :: stack
        have hd := h t hb
        cases fuel with
        | zero => simp [noCycleFrom] at hd
        | succ f =>
          simp only [noCycleFrom] at hd
          have : (c :: stack).contains t = true := by simpa using ht
          rw [if_pos this] at hd
          exact absurd hd (by simp)
      | cons hb hrest =>
        rename_i b
        have hd := h b hb
        exact ih (c :: stack) b hd t (List.mem_cons_of_mem _ ht) hrest

/-! ### Completeness of the recursion check: a class is rejected only if a recursion can be reached from it -/

/-- Pigeonhole: a duplicate-free list of numbers below `N` has at most `N` elements. -/
theorem nodup_bounded_length : ∀ (N : Nat) (l : List Nat), l.Nodup → (∀ x ∈ l, x < N) → l.length ≤ N := by
  intro N
  induction N with
  | zero =>
    intro l _ hb
    match l with
    | [] => simp
    | x :: _ => exact absurd (hb x List.mem_cons_self) (by omega)
  | succ N ih =>
    intro l hn hb
    have hn' := hn.erase N
    have hb' : ∀ x ∈ l.erase N, x < N := by
      intro x hx
      have := (hn.mem_erase_iff).mp hx
      have := hb x this.2
      omega
    have := ih (l.erase N) hn' hb'
    by_cases hm : N ∈ l
    · rw [List.length_erase_of_mem hm] at this; omega
    · rw [List.erase_of_not_mem hm] at this; omega

/-- If the walk rejects class `c` - all classes being numbered below `N`, the stack free of repetitions and the fuel
    sufficient for the classes not yet on the stack - then `c` is already on the stack, or `c` leads back to itself or
    to a class on the stack, or `c` leads to a class that lies on a cycle. With the empty stack the compiler starts
    with: a class is reported as recursive only if a cycle of references can be reached from it. -/
theorem noCycleFrom_complete (refs : Nat → List Nat) (N : Nat) (hrefs : ∀ a, ∀ b ∈ refs a, b < N) :
    ∀ (fuel : Nat) (stack : List Nat) (c : Nat), c < N → stack.Nodup → (∀ x ∈ stack, x < N) → N + 1 ≤ fuel + stack.length →
      noCycleFrom refs fuel stack c = false →
      c ∈ stack ∨ (∃ t ∈ c :: stack, Path refs c t) ∨ (∃ t, Path refs c t ∧ Path refs t t) := by
  intro fuel
  induction fuel with
  | zero =>
    intro stack c _ hn hb hf _
    have := nodup_bounded_length N stack hn hb
    omega
  | succ fuel ih =>
    intro stack c hc hn hb hf h
    simp only [noCycleFrom] at h
    by_cases hs : stack.contains c = true
    · left; simpa using hs
    · rw [if_neg hs] at h
      have hcs : c ∉ stack := by simpa using hs
      rw [List.all_eq_false] at h
      obtain ⟨d, hd, hdf⟩ := h
      have hdf' : noCycleFrom refs fuel (c :: stack) d = false := by simpa using hdf
      have := ih (c :: stack) d (hrefs c d hd) (List.nodup_cons.mpr ⟨hcs, hn⟩)
        (by intro x hx; rcases List.mem_cons.mp hx with rfl | hx; exact hc; exact hb x hx)
        (by simp only [List.length_cons]; omega) hdf'
      right
      rcases this with hmem | ⟨t, ht, hp⟩ | ⟨t, hp, hcyc⟩
      · exact Or.inl ⟨d, hmem, Path.step hd⟩
      · rcases List.mem_cons.mp ht with rfl | ht'
        · exact Or.inr ⟨t, Path.step hd, hp⟩
        · exact Or.inl ⟨t, ht', Path.cons hd hp⟩
      · exact Or.inr ⟨t, Path.cons hd hp, hcyc⟩

/-- Top level: rejection of `c` with the empty stack and `N + 1` units of fuel exhibits a reachable cycle. -/
theorem rejected_has_cycle (refs : Nat → List Nat) (N : Nat) (hrefs : ∀ a, ∀ b ∈ refs a, b < N) (c : Nat) (hc : c < N)
    (h : noCycleFrom refs (N + 1) [] c = false) : Path refs c c ∨ ∃ t, Path refs c t ∧ Path refs t t := by
  rcases noCycleFrom_complete refs N hrefs (N + 1) [] c hc List.nodup_nil (by simp) (by simp) h with h | ⟨t, ht, hp⟩ | h
  · simp at h
  · simp only [List.mem_singleton] at ht; subst ht; exact Or.inl hp
  · exact Or.inr h

end Grc.SR
