/-
  Strict decoders for Gloc, Glat (v1/v2/v3), Feat (v1/v2), Sill, and the name table.
-/
import GrcVerif.Bytes
import GrcVerif.Lz4
namespace Grc

structure Gloc where
  version : Nat
  flags : Nat
  numAttrs : Nat
  offsets : Array Nat
deriving Inhabited

def parseGloc (numGlyphs : Nat) : P Gloc := do
  let version ← P.u32
  P.guard (version == 0x00010000 ∨ version == 0x00010001) s!"Gloc: unknown version {version}"
  let flags ← P.u16
  P.guard (flags < 2) s!"Gloc: unknown flags {flags}"
  let numAttrs ← P.u16
  let offsets ← P.times (numGlyphs + 1) (if flags % 2 == 1 then P.u32 else P.u16)
  let r ← P.remaining
  P.guard (r == 0) s!"Gloc: {r} trailing bytes"
  for k in [0:numGlyphs] do
    P.guard (offsets[k]! ≤ offsets[k+1]!) s!"Gloc: offsets decrease at glyph {k}"
  return { version, flags, numAttrs, offsets }

structure Octabox where
  bitmap : Nat
  diag : Array Nat          -- 4 bytes
  sub : Array (Array Nat)   -- 8 bytes per set bit
deriving Inhabited, Repr

structure GlyphAttrs where
  octa : Option Octabox
  /-- (attr id, value) for every stored (non-zero by construction of the writer) attribute -/
  attrs : Array (Nat × Int)
deriving Inhabited

structure Glat where
  version : Nat
  hasOctaboxes : Bool
  glyphs : Array GlyphAttrs
  compressed : Bool
deriving Inhabited

def popCount16 (n : Nat) : Nat := (List.range 16).foldl (fun a i => a + (n / 2^i) % 2) 0

def parseGlatGlyph (version : Nat) (octa : Bool) (numAttrs : Nat) (endPos : Nat) : P GlyphAttrs := do
  let ob ← if octa then (do
      let bm ← P.u16
      let diag ← P.times 4 P.u8
      let sub ← P.times (popCount16 bm) (P.times 8 P.u8)
      pure (some ({ bitmap := bm, diag, sub } : Octabox)))
    else pure none
  let mut out : Array (Nat × Int) := #[]
  let mut lastEnd := 0
  let mut fuel := endPos + 1
  while (← P.pos) < endPos ∧ fuel > 0 do
    fuel := fuel - 1
    let (first, n) ← if version < 0x00020000 then (do let a ← P.u8; let b ← P.u8; pure (a, b))
                      else (do let a ← P.u16; let b ← P.u16; pure (a, b))
    P.guard (n > 0) "Glat: empty run"
    P.guard (first ≥ lastEnd) s!"Glat: runs not ascending (first {first} < {lastEnd})"
    P.guard (first + n ≤ numAttrs) s!"Glat: run [{first},{first + n}) exceeds numAttrs {numAttrs}"
    for k in [0:n] do
      let v ← P.i16
      out := out.push (first + k, v)
    lastEnd := first + n
  let p ← P.pos
  P.guard (p == endPos) s!"Glat: glyph data overruns its Gloc slot ({p} vs {endPos})"
  return { octa := ob, attrs := out }

def parseGlatPlain (gloc : Gloc) (numGlyphs : Nat) (compressed : Bool) : P Glat := do
  let version ← P.u32
  P.guard (version == 0x00010000 ∨ version == 0x00020000 ∨ version == 0x00030000) s!"Glat: unknown version {version}"
  let octa ← if version ≥ 0x00030000 then (do
      let f ← P.u32
      P.guard (f % 134217728 < 2) s!"Glat: unknown flags {f}"
      pure (f % 2 == 1))
    else pure false
  let start ← P.pos
  P.guard (gloc.offsets[0]! == start) s!"Glat: first Gloc offset {gloc.offsets[0]!} != header size {start}"
  let lim ← P.lim
  P.guard (gloc.offsets[numGlyphs]! == lim) s!"Glat: last Gloc offset {gloc.offsets[numGlyphs]!} != table size {lim}"
  let mut gl : Array GlyphAttrs := #[]
  for g in [0:numGlyphs] do
    P.seek (gloc.offsets[g]!)
    gl := gl.push (← parseGlatGlyph version octa gloc.numAttrs (gloc.offsets[g+1]!))
  return { version, hasOctaboxes := octa, glyphs := gl, compressed }

def decodeGlat (tbl : ByteArray) (gloc : Gloc) (numGlyphs : Nat) : Except String Glat :=
  match unframe tbl 0x00030000 with
  | .error e => .error s!"Glat: {e}"
  | .ok (plain, c) => P.run (parseGlatPlain gloc numGlyphs c) plain

def GlyphAttrs.get (g : GlyphAttrs) (a : Nat) : Int :=
  match g.attrs.find? (·.1 == a) with
  | some (_, v) => v
  | none => 0

/-! Feat -/

structure FeatSetting where
  value : Int
  label : Nat
deriving Inhabited, Repr, BEq

structure FeatDefn where
  id : Nat
  flags : Nat
  label : Nat
  offset : Nat
  settings : Array FeatSetting
deriving Inhabited, Repr

structure Feat where
  version : Nat
  feats : Array FeatDefn
deriving Inhabited

def parseFeat : P Feat := do
  let version ← P.u32
  P.guard (version == 0x00010000 ∨ version == 0x00020000) s!"Feat: unknown version {version}"
  let n ← P.u16
  let _ ← P.u16; let _ ← P.u32
  let hdrs ← P.times n (do
    let id ← if version ≥ 0x00020000 then P.u32 else P.u16
    let ns ← P.u16
    if version ≥ 0x00020000 then (do let _ ← P.u16; pure ())
    let off ← P.u32
    let flags ← P.u16
    let label ← P.u16
    pure (id, ns, off, flags, label))
  let hdrEnd ← P.pos
  let lim ← P.lim
  let mut out : Array FeatDefn := #[]
  for (id, ns, off, flags, label) in hdrs do
    P.guard (off ≥ hdrEnd ∧ off + 4 * ns ≤ lim) s!"Feat: settings of feature {id} out of bounds"
    P.seek off
    let st ← P.times ns (do let v ← P.i16; let l ← P.u16; pure ({ value := v, label := l } : FeatSetting))
    out := out.push { id, flags, label, offset := off, settings := st }
  return { version, feats := out }

/-! Sill -/

structure SillLang where
  code : Nat
  settings : Array (Nat × Int)
deriving Inhabited, Repr

def parseSearchHeader' (n : Nat) (what : String) : P Unit := do
  let sr ← P.u16; let es ← P.u16; let rs ← P.u16
  let p2 := if n = 0 then 0 else 2 ^ Nat.log2 n
  let lg := if n = 0 then 0 else Nat.log2 n
  P.guard (sr == p2 ∧ es == lg ∧ rs == n - p2) s!"{what}: bad search header ({sr},{es},{rs}) for n={n}"

def parseSill : P (Array SillLang) := do
  let version ← P.u32
  P.guard (version == 0x00010000) s!"Sill: unknown version {version}"
  let n ← P.u16
  parseSearchHeader' n "Sill"
  let ents ← P.times (n + 1) (do let c ← P.u32; let k ← P.u16; let o ← P.u16; pure (c, k, o))
  let hdrEnd ← P.pos
  let lim ← P.lim
  let mut out : Array SillLang := #[]
  let mut expect := hdrEnd
  for i in [0:n] do
    let (c, k, o) := ents[i]!
    P.guard (o == expect) s!"Sill: language {i} settings offset {o}, expected {expect}"
    P.guard (o + 8 * k ≤ lim) s!"Sill: language {i} settings out of bounds"
    P.seek o
    let st ← P.times k (do let f ← P.u32; let v ← P.i16; let _ ← P.u16; pure (f, v))
    out := out.push { code := c, settings := st }
    expect := o + 8 * k
  let (_, k, o) := ents[n]!
  P.guard (k == 0 ∧ o == expect ∧ expect == lim) s!"Sill: terminator entry inconsistent"
  return out

/-! name -/

structure NameRec where
  platform : Nat
  encoding : Nat
  language : Nat
  nameId : Nat
  str : ByteArray
deriving Inhabited

def parseName : P (Array NameRec) := do
  let fmt ← P.u16
  P.guard (fmt == 0) s!"name: format {fmt}"
  let n ← P.u16
  let so ← P.u16
  let recs ← P.times n (do
    let p ← P.u16; let e ← P.u16; let l ← P.u16; let id ← P.u16; let len ← P.u16; let off ← P.u16
    pure (p, e, l, id, len, off))
  let hdrEnd ← P.pos
  P.guard (so ≥ hdrEnd) "name: string storage overlaps records"
  let mut out : Array NameRec := #[]
  for (p, e, l, id, len, off) in recs do
    P.seek (so + off)
    let s ← P.bytes len
    out := out.push { platform := p, encoding := e, language := l, nameId := id, str := s }
  return out

def hexOfBytes (b : ByteArray) : String :=
  let hx (n : Nat) : Char := if n < 10 then Char.ofNat (48 + n) else Char.ofNat (87 + n)
  String.ofList (b.toList.flatMap fun x => [hx (x.toNat / 16), hx (x.toNat % 16)])

end Grc
