/-
  sfnt container: directory decoding, table extraction, checksums.
  Executable definitions only (proofs live in Proofs/ and Properties/).
-/
import GrcVerif.Bytes
namespace Grc

structure DirEntry where
  tag : Nat
  checksum : Nat
  offset : Nat
  length : Nat
deriving Repr, BEq, Inhabited, DecidableEq

structure SfntHeader where
  version : Nat
  numTables : Nat
  searchRange : Nat
  entrySelector : Nat
  rangeShift : Nat
deriving Repr, BEq, Inhabited

structure Sfnt where
  hdr : SfntHeader
  dir : List DirEntry
deriving Repr, Inhabited

def parseSfnt : P Sfnt := do
  let version ← P.u32
  let numTables ← P.u16
  let sr ← P.u16; let es ← P.u16; let rs ← P.u16
  let ents ← P.times numTables (do
    let tag ← P.u32; let cs ← P.u32; let off ← P.u32; let len ← P.u32
    pure ({ tag := tag, checksum := cs, offset := off, length := len } : DirEntry))
  return { hdr := { version, numTables, searchRange := sr, entrySelector := es, rangeShift := rs }, dir := ents.toList }

def Sfnt.find? (f : Sfnt) (tag : Nat) : Option DirEntry := f.dir.find? (·.tag == tag)

/-- Bytes of a table (none if out of bounds). -/
def tableBytes (buf : ByteArray) (e : DirEntry) : Option ByteArray :=
  if e.offset + e.length ≤ buf.size then some (buf.extract e.offset (e.offset + e.length)) else none

/-- Sum of big-endian 32-bit words of `buf[off, off+len)` zero-padded to a multiple of 4, mod 2^32. -/
def checksumRange (buf : ByteArray) (off len : Nat) : Nat := Id.run do
  let mut s := 0
  let n := (len + 3) / 4
  for i in [0:n] do
    let mut w := 0
    for k in [0:4] do
      let p := i * 4 + k
      let b := if p < len ∧ off + p < buf.size then (buf.get! (off + p)).toNat else 0
      w := w * 256 + b
    s := (s + w) % 4294967296
  return s

/-- floor(log2 n) and the corresponding power of two, as the compiler's `BinarySearchConstants` (0,0 for n = 0). -/
def searchConsts (n : Nat) : Nat × Nat :=
  if n = 0 then (0, 0) else (2 ^ Nat.log2 n, Nat.log2 n)

def tagHead : Nat := 0x68656164
def tagName : Nat := 0x6E616D65
def tagSilf : Nat := 0x53696C66
def tagGlat : Nat := 0x476C6174
def tagGloc : Nat := 0x476C6F63
def tagFeat : Nat := 0x46656174
def tagSill : Nat := 0x53696C6C
def tagSile : Nat := 0x53696C65
def tagCmap : Nat := 0x636D6170

def isGraphiteTag (t : Nat) : Bool :=
  t == tagSilf || t == tagGlat || t == tagGloc || t == tagFeat || t == tagSill || t == tagSile

end Grc
