/-
  C18: mapping a line of the preprocessed text back to the line of the user's source.
  * Spec `originLine`: the last `#line N` marker above output line p says that the line right after the marker is
    source line N; a line with k lines between the marker and itself is therefore source line N + k.
  * Model `reported`: the compiler's incremental state (GrpTokenStreamFilter::nextToken): on each marker found on
    output line L, offset := N - L - 1; a token on output line p is attributed to line p + offset.
  * `filter_eq_origin`: the two agree for every preprocessed text and every line.
  Core Lean only.
-/
namespace Grc.LM

inductive PLine where
  | marker (n : Nat) (file : Option String)
  | text
deriving Repr, Inhabited, DecidableEq

/-- The compiler's scan: (file, offset) after the given lines, `lineNo` being the number of the first of them. -/
def go (file : String) (off : Int) (lineNo : Nat) : List PLine → String × Int
  | [] => (file, off)
  | .text :: rest => go file off (lineNo + 1) rest
  | .marker n f :: rest => go (f.getD file) ((n : Int) - lineNo - 1) (lineNo + 1) rest

/-- What the compiler reports for a token on output line `p` (1-based). -/
def reported (init : String) (ls : List PLine) (p : Nat) : String × Int :=
  let st := go init 0 1 (ls.take (p - 1))
  (st.1, (p : Int) + st.2)

/-- Last marker of a text: (its N, number of lines after it). -/
def lastMarker : List PLine → Option (Nat × Nat)
  | [] => none
  | l :: rest =>
    match lastMarker rest with
    | some r => some r
    | none => match l with
      | .marker n _ => some (n, rest.length)
      | .text => none

/-- Spec: source line of output line p. -/
def originLine (ls : List PLine) (p : Nat) : Int :=
  match lastMarker (ls.take (p - 1)) with
  | some (n, k) => (n : Int) + k
  | none => p

/-- Spec: file of output line p = name on the last marker that carries one. -/
def lastFile (init : String) : List PLine → String
  | [] => init
  | l :: rest =>
    match l with
    | .marker _ (some f) => lastFile f rest
    | _ => lastFile init rest

theorem lastMarker_lt (ls : List PLine) (n k : Nat) (h : lastMarker ls = some (n, k)) : k < ls.length := by
  induction ls with
  | nil => simp [lastMarker] at h
  | cons l rest ih =>
    simp only [lastMarker] at h
    cases hr : lastMarker rest with
    | some r =>
      rw [hr] at h
      simp only [Option.some.injEq] at h
      subst h
      have := ih hr
      simp; omega
    | none =>
      rw [hr] at h
      cases l with
      | text => simp at h
      | marker m f =>
        simp only [Option.some.injEq, Prod.mk.injEq] at h
        simp; omega

theorem go_offset (ls : List PLine) : ∀ (file : String) (off : Int) (lineNo : Nat),
    (go file off lineNo ls).2 =
      (match lastMarker ls with
       | some (n, k) => (n : Int) - (lineNo + (ls.length - 1 - k : Nat)) - 1
       | none => off) := by
  induction ls with
  | nil => intro file off lineNo; simp [go, lastMarker]
  | cons l rest ih =>
    intro file off lineNo
    cases hr : lastMarker rest with
    | some r =>
      obtain ⟨n, k⟩ := r
      have hk := lastMarker_lt rest n k hr
      have hlm : lastMarker (l :: rest) = some (n, k) := by simp [lastMarker, hr]
      rw [hlm]
      cases l with
      | text =>
        simp only [go]
        rw [ih, hr]
        simp only [List.length_cons]
        have : (rest.length + 1 - 1 - k : Nat) = (rest.length - 1 - k) + 1 := by omega
        rw [this]
        push_cast
        omega
      | marker m f =>
        simp only [go]
        rw [ih, hr]
        simp only [List.length_cons]
        have : (rest.length + 1 - 1 - k : Nat) = (rest.length - 1 - k) + 1 := by omega
        rw [this]
        push_cast
        omega
    | none =>
      cases l with
      | text =>
        have hlm : lastMarker (PLine.text :: rest) = none := by simp [lastMarker, hr]
        rw [hlm]
        simp only [go]
        rw [ih, hr]
      | marker m f =>
        have hlm : lastMarker (PLine.marker m f :: rest) = some (m, rest.length) := by simp [lastMarker, hr]
        rw [hlm]
        simp only [go]
        rw [ih, hr]
        simp only [List.length_cons]
        have : (rest.length + 1 - 1 - rest.length : Nat) = 0 := by omega
        rw [this]
        simp

theorem go_file (ls : List PLine) : ∀ (file : String) (off : Int) (lineNo : Nat),
    (go file off lineNo ls).1 = lastFile file ls := by
  induction ls with
  | nil => intro file off lineNo; rfl
  | cons l rest ih =>
    intro file off lineNo
    cases l with
    | text => simp only [go, lastFile]; exact ih _ _ _
    | marker m f =>
      cases f with
      | none => simp only [go, lastFile, Option.getD_none]; exact ih _ _ _
      | some g => simp only [go, lastFile, Option.getD_some]; exact ih _ _ _

/-- C18 line arithmetic: for every preprocessed text and every line p inside it, the line (and file) the compiler
    reports is the one the markers denote. -/
theorem filter_eq_origin (init : String) (ls : List PLine) (p : Nat) (hp : 1 ≤ p) (hlen : p - 1 ≤ ls.length) :
    (reported init ls p).2 = originLine ls p ∧ (reported init ls p).1 = lastFile init (ls.take (p - 1)) := by
  unfold reported originLine
  constructor
  · simp only
    rw [go_offset]
    cases hm : lastMarker (ls.take (p - 1)) with
    | none => simp
    | some r =>
      obtain ⟨n, k⟩ := r
      have hk := lastMarker_lt _ n k hm
      simp only [List.length_take] at hk ⊢
      have hmin : min (p - 1) ls.length = p - 1 := by omega
      rw [hmin] at hk ⊢
      have : ((p - 1 - 1 - k : Nat) : Int) = (p : Int) - 2 - k := by omega
      rw [this]
      omega
  · simp only
    exact go_file _ _ _ _

end Grc.LM
