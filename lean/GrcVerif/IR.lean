/-
  Abstract program representation (IR) shared by models, specs and the driver, and its JSON reader.
  The IR is produced by the generators (independent of the compiler) or by the guarded IR dump of the compiler.
-/
import Lean.Data.Json
import GrcVerif.Classes
import GrcVerif.OptItems
namespace Grc

inductive OutSpec where
  | cls (c : Nat) (sel : Option Nat)   -- output class, optional selector (1-based item position)
  | copy (n : Nat)                      -- @n
  | del
deriving Repr, BEq, Inhabited

/-- Integer expressions of the rule language (fragment used by the generators). -/
inductive Expr where
  | lit (n : Int)
  | userAttr (slot : Option Nat) (k : Nat)        -- @slot.userK  (none = current item)
  | glyphAttr (slot : Option Nat) (a : Nat)       -- glyph attribute by internal id
  | feat (f : Nat)                                 -- feature by index in the Feat table
  | slotNamed (slot : Option Nat) (name : String)  -- @slot.advance.x / shift.x / shift.y
  | metric (slot : Option Nat) (name : String)     -- @slot.advancewidth
  | un (op : String) (e : Expr)
  | bin (op : String) (a b : Expr)
  | cond (c a b : Expr)
deriving Repr, BEq, Inhabited

structure AttrAssign where
  attr : String          -- "user", "advance.x", ...
  idx : Nat := 0         -- user attribute index
  op : String            -- "=", "+=", "-="
  val : Expr
deriving Repr, Inhabited

structure AttachIR where
  to : Nat            -- 1-based item the slot is attached to
  atP : String        -- name of the attachment point on the target's glyph
  withP : String      -- name of the attachment point on the own glyph
deriving Repr, Inhabited

structure ItemIR where
  inCls : Option Nat
  mod : Bool
  out : Option OutSpec
  assoc : List Nat
  attrs : List AttrAssign := []
  constraint : Option Expr := none
  attach : Option AttachIR := none
deriving Repr, Inhabited

structure RuleIR where
  items : List ItemIR
  caret : Option Nat
  opt : List (Nat × Nat)
  line : Nat
  tree : Option (List Opt.Elem) := none
  ifs : List Expr := []          -- conditions of the enclosing if / elseif / else branches (conjunction), feature tests
deriving Repr, Inhabited

structure PassIRj where
  index : Nat
  table : String
  rules : List RuleIR
  flags : Option Nat := none        -- what the directives of the pass denote in the pass header (CollisionFix, AutoKern)
  maxRuleLoop : Option Nat := none
  maxBackup : Option Nat := none
deriving Repr, Inhabited

structure GAssignIR where
  order : Nat
  line : Nat
  override : Bool
  cls : Nat
  attr : Nat        -- user attribute index, or 1000 = breakweight
  value : Int
  perGlyph : List (Nat × Int) := []   -- values that differ from glyph to glyph (an expression over glyph metrics)
deriving Repr, Inhabited

structure GAttrIR where
  marker : Nat
  markerBase : Int
  numAttrs : Nat
  spaceGlyphs : List Nat
  assigns : List GAssignIR
deriving Repr, Inhabited

structure SetDeclIR where
  value : Int
  labels : List (Nat × String)
deriving Repr, Inhabited

structure FeatDeclIR where
  ids : List Nat
  labels : List (Nat × String)
  settings : List SetDeclIR
  dflt : Option Int
deriving Repr, Inhabited

structure LangDeclIR where
  code : Nat
  values : List (Nat × Int)
deriving Repr, Inhabited

inductive GRef where
  | glyphid (l : List Nat)
  | unicode (l : List Nat)
  | urange (a b : Nat)
  | grange (a b : Nat)
  | ps (name : String)
  | cls (c : Nat)
  | pseudo (input : Nat) (realCp : Option Nat) (realGid : Option Nat)   -- pseudo(unicode(cp) | glyphid(g), input)
deriving Repr, Inhabited

structure ProgIR where
  numGlyphs : Nat := 0
  numReal : Nat := 0
  lb : Nat := 0
  phantom : Nat := 0
  anyClass : Nat := 0
  classes : Array (List Nat) := #[]
  classDefs : Array Cls.ClassDef := #[]
  passes : List PassIRj := []
  gattr : Option GAttrIR := none
  features : Option (List FeatDeclIR) := none
  languages : List LangDeclIR := []
  nameStart : Option Nat := none
  classRefs : Option (Array (List GRef)) := none
  autoPseudo : Bool := true
  ignoreBad : Bool := false
  gattrValues : List (Nat × List Int) := []     -- (glyph, values of the IR's glyph attributes) - engine-level runs
  advances : List Int := []                     -- advance width per glyph id (hmtx of the input font)
  points : List (String × List (Nat × Int × Int)) := []   -- attachment points: name -> (glyph, x, y)
  pointAttrs : List (String × Nat × Nat) := []            -- point name -> IR glyph-attribute numbers of its x and y
  numUser : Nat := 4
deriving Inhabited

open Lean in
section
private def jNat (j : Json) : Except String Nat := j.getNat?
private def jOptNat (j : Json) : Except String (Option Nat) :=
  if j.isNull then pure none else some <$> j.getNat?

partial def parseExpr (j : Json) : Except String Expr := do
  let k ← (← j.getObjVal? "k").getStr?
  match k with
  | "lit" => return .lit (← (← j.getObjVal? "v").getInt?)
  | "user" => return .userAttr (← jOptNat (j.getObjValD "slot")) (← jNat (← j.getObjVal? "i"))
  | "gattr" => return .glyphAttr (← jOptNat (j.getObjValD "slot")) (← jNat (← j.getObjVal? "a"))
  | "feat" => return .feat (← jNat (← j.getObjVal? "f"))
  | "slot" => return .slotNamed (← jOptNat (j.getObjValD "slot")) (← (← j.getObjVal? "name").getStr?)
  | "metric" => return .metric (← jOptNat (j.getObjValD "slot")) (← (← j.getObjVal? "name").getStr?)
  | "un" => return .un (← (← j.getObjVal? "op").getStr?) (← parseExpr (← j.getObjVal? "e"))
  | "bin" => return .bin (← (← j.getObjVal? "op").getStr?) (← parseExpr (← j.getObjVal? "a")) (← parseExpr (← j.getObjVal? "b"))
  | "cond" => return .cond (← parseExpr (← j.getObjVal? "c")) (← parseExpr (← j.getObjVal? "a")) (← parseExpr (← j.getObjVal? "b"))
  | _ => throw s!"bad-input: expr kind {k}"

partial def parseClassDef (j : Json) : Except String Cls.ClassDef := do
  let k ← (← j.getObjVal? "k").getStr?
  match k with
  | "glyphs" => return .glyphs (← (← (← j.getObjVal? "g").getArr?).toList.mapM jNat)
  | "ref" => return .ref (← jNat (← j.getObjVal? "c"))
  | "union" => return .union (← (← (← j.getObjVal? "m").getArr?).toList.mapM parseClassDef)
  | "inter" => return .inter (← parseClassDef (← j.getObjVal? "a")) (← parseClassDef (← j.getObjVal? "b"))
  | "diff" => return .diff (← parseClassDef (← j.getObjVal? "a")) (← parseClassDef (← j.getObjVal? "b"))
  | _ => throw s!"bad-input: classdef kind {k}"

def parseItem (j : Json) : Except String ItemIR := do
  let inCls ← jOptNat (j.getObjValD "in")
  let mod ← (← j.getObjVal? "mod").getBool?
  let oj := j.getObjValD "out"
  let out ← if oj.isNull then pure none else do
    let k ← (← oj.getObjVal? "k").getStr?
    match k with
    | "cls" => pure (some (OutSpec.cls (← jNat (← oj.getObjVal? "cls")) (← jOptNat (oj.getObjValD "sel"))))
    | "copy" => pure (some (OutSpec.copy (← jNat (← oj.getObjVal? "n"))))
    | "del" => pure (some OutSpec.del)
    | _ => throw s!"bad-input: out kind {k}"
  let aj := j.getObjValD "assoc"
  let assoc ← if aj.isNull then pure [] else do
    let arr ← aj.getArr?
    arr.toList.mapM jNat
  let atj := j.getObjValD "attrs"
  let attrs ← if atj.isNull then pure [] else do
    let arr ← atj.getArr?
    arr.toList.mapM fun a => do
      let t ← a.getArr?
      if t.size != 3 then throw "bad-input: attr triple"
      let nm ← t[0]!.getStr?
      let op ← t[1]!.getStr?
      let v ← parseExpr t[2]!
      -- "userN" → attr "user", idx N-1
      if nm.startsWith "user" then
        match (nm.drop 4).toNat? with
        | some n => pure ({ attr := "user", idx := n - 1, op := op, val := v } : AttrAssign)
        | none => throw s!"bad-input: attr {nm}"
      else pure ({ attr := nm, op := op, val := v } : AttrAssign)
  let cj := j.getObjValD "constraint"
  let constraint ← if cj.isNull then pure none else some <$> parseExpr cj
  let tj := j.getObjValD "attach"
  let attach ← if tj.isNull then pure none else do
    pure (some ({ to := ← jNat (← tj.getObjVal? "to"), atP := ← (← tj.getObjVal? "at").getStr?, withP := ← (← tj.getObjVal? "with").getStr? } : AttachIR))
  return { inCls, mod, out, assoc, attrs, constraint, attach }

partial def parseElem (j : Json) : Except String Opt.Elem := do
  match j.getNat? with
  | .ok n => return .item n
  | .error _ => return .opt (← (← j.getArr?).toList.mapM parseElem)

def parseRule (j : Json) : Except String RuleIR := do
  let items ← (← (← j.getObjVal? "items").getArr?).toList.mapM parseItem
  let caret ← jOptNat (j.getObjValD "caret")
  let oj := j.getObjValD "opt"
  let opt ← if oj.isNull then pure [] else do
    (← oj.getArr?).toList.mapM fun p => do
      let t ← p.getArr?
      if t.size != 2 then throw "bad-input: opt pair"
      pure (← jNat t[0]!, ← jNat t[1]!)
  let line ← jNat (j.getObjValD "line") <|> pure 0
  let tj := j.getObjValD "tree"
  let tree ← if tj.isNull then pure none else some <$> (← tj.getArr?).toList.mapM parseElem
  let ij := j.getObjValD "ifs"
  let ifs ← if ij.isNull then pure [] else (← ij.getArr?).toList.mapM parseExpr
  return { items, caret, opt, line, tree, ifs }

def parseProgIR (text : String) : Except String ProgIR := do
  let j ← Json.parse text
  let classes ← (← (← j.getObjVal? "classes").getArr?).mapM fun c => do
    (← c.getArr?).toList.mapM jNat
  let cdj := j.getObjValD "classDefs"
  let classDefs ← if cdj.isNull then pure #[] else (← cdj.getArr?).mapM parseClassDef
  let passes ← (← (← j.getObjVal? "passes").getArr?).toList.mapM fun p => do
    let rules ← (← (← p.getObjVal? "rules").getArr?).toList.mapM parseRule
    let optNat (k : String) : Except String (Option Nat) := do
      let v := p.getObjValD k
      if v.isNull then pure none else pure (some (← jNat v))
    pure ({ index := ← jNat (← p.getObjVal? "index"), table := ← (← p.getObjVal? "table").getStr?, rules,
            flags := ← optNat "flags", maxRuleLoop := ← optNat "maxRuleLoop", maxBackup := ← optNat "maxBackup" } : PassIRj)
  let gj := j.getObjValD "gattr"
  let gattr ← if gj.isNull then pure none else do
    let assigns ← (← (← gj.getObjVal? "assigns").getArr?).toList.mapM fun a => do
      pure ({ order := ← jNat (← a.getObjVal? "order"), line := ← jNat (← a.getObjVal? "line"),
              override := ← (← a.getObjVal? "override").getBool?, cls := ← jNat (← a.getObjVal? "cls"),
              attr := ← jNat (← a.getObjVal? "attr"), value := ← (← a.getObjVal? "value").getInt?,
              perGlyph := ← (do
                let pj := a.getObjValD "perGlyph"
                if pj.isNull then pure [] else
                  (← pj.getArr?).toList.mapM fun q => do
                    let t ← q.getArr?
                    if t.size != 2 then throw "bad-input: perGlyph pair"
                    pure (← jNat t[0]!, ← t[1]!.getInt?)) } : GAssignIR)
    pure (some ({ marker := ← jNat (← gj.getObjVal? "marker"), markerBase := ← (← gj.getObjVal? "markerBase").getInt?,
                  numAttrs := ← jNat (← gj.getObjVal? "numAttrs"),
                  spaceGlyphs := ← (← (← gj.getObjVal? "spaceGlyphs").getArr?).toList.mapM jNat,
                  assigns } : GAttrIR))
  let labelsOf (x : Json) : Except String (List (Nat × String)) := do
    let lj := x.getObjValD "labels"
    if lj.isNull then pure [] else
      (← lj.getArr?).toList.mapM fun p => do
        let t ← p.getArr?
        if t.size != 2 then throw "bad-input: label pair"
        pure (← jNat t[0]!, ← t[1]!.getStr?)
  let fj := j.getObjValD "features"
  let features ← if fj.isNull then pure none else do
    let l ← (← fj.getArr?).toList.mapM fun f => do
      let ids ← (← (← f.getObjVal? "ids").getArr?).toList.mapM jNat
      let settings ← (← (← f.getObjVal? "settings").getArr?).toList.mapM fun st => do
        pure ({ value := ← (← st.getObjVal? "value").getInt?, labels := ← labelsOf st } : SetDeclIR)
      let dj := f.getObjValD "default"
      let dflt ← if dj.isNull then pure none else some <$> dj.getInt?
      pure ({ ids, labels := ← labelsOf f, settings, dflt } : FeatDeclIR)
    pure (some l)
  let lgj := j.getObjValD "languages"
  let languages ← if lgj.isNull then pure [] else
    (← lgj.getArr?).toList.mapM fun l => do
      let vals ← (← (← l.getObjVal? "values").getArr?).toList.mapM fun p => do
        let t ← p.getArr?
        if t.size != 2 then throw "bad-input: lang value pair"
        pure (← jNat t[0]!, ← t[1]!.getInt?)
      pure ({ code := ← jNat (← l.getObjVal? "code"), values := vals } : LangDeclIR)
  let nameStart ← jOptNat (j.getObjValD "nameStart")
  let crj := j.getObjValD "classRefs"
  let classRefs ← if crj.isNull then pure none else do
    let a ← (← crj.getArr?).mapM fun c => do
      (← c.getArr?).toList.mapM fun r => do
        let k ← (← r.getObjVal? "k").getStr?
        match k with
        | "glyphid" => pure (GRef.glyphid (← (← (← r.getObjVal? "v").getArr?).toList.mapM jNat))
        | "unicode" => pure (GRef.unicode (← (← (← r.getObjVal? "v").getArr?).toList.mapM jNat))
        | "urange" => pure (GRef.urange (← jNat (← r.getObjVal? "a")) (← jNat (← r.getObjVal? "b")))
        | "grange" => pure (GRef.grange (← jNat (← r.getObjVal? "a")) (← jNat (← r.getObjVal? "b")))
        | "ps" => pure (GRef.ps (← (← r.getObjVal? "n").getStr?))
        | "cls" => pure (GRef.cls (← jNat (← r.getObjVal? "c")))
        | "pseudo" => pure (GRef.pseudo (← jNat (← r.getObjVal? "input")) (← jOptNat (r.getObjValD "cp")) (← jOptNat (r.getObjValD "gid")))
        | _ => throw s!"bad-input: ref kind {k}"
    pure (some a)
  let apj := j.getObjValD "autoPseudo"
  let autoPseudo ← if apj.isNull then pure true else apj.getBool?
  let ibj := j.getObjValD "ignoreBad"
  let ignoreBad ← if ibj.isNull then pure false else ibj.getBool?
  let gvj := j.getObjValD "gattrValues"
  let gattrValues ← if gvj.isNull then pure [] else do
    let arr ← gvj.getArr?
    arr.toList.mapM fun e => do
      let t ← e.getArr?
      if t.size != 2 then throw "bad-input: gattrValues entry"
      let vs ← (← t[1]!.getArr?).toList.mapM (·.getInt?)
      pure ((← jNat t[0]!), vs)
  let adj := j.getObjValD "advances"
  let advances ← if adj.isNull then pure [] else (← adj.getArr?).toList.mapM (·.getInt?)
  let ptj := j.getObjValD "points"
  let points ← if ptj.isNull then pure [] else do
    let arr ← ptj.getArr?
    arr.toList.mapM fun e => do
      let t ← e.getArr?
      if t.size != 2 then throw "bad-input: points entry"
      let nm ← t[0]!.getStr?
      let vs ← (← t[1]!.getArr?).toList.mapM fun q => do
        let u ← q.getArr?
        if u.size != 3 then throw "bad-input: point triple"
        pure ((← jNat u[0]!), (← u[1]!.getInt?), (← u[2]!.getInt?))
      pure (nm, vs)
  let paj := j.getObjValD "pointAttrs"
  let pointAttrs ← if paj.isNull then pure [] else do
    (← paj.getArr?).toList.mapM fun e => do
      let t ← e.getArr?
      if t.size != 3 then throw "bad-input: pointAttrs entry"
      pure ((← t[0]!.getStr?), (← jNat t[1]!), (← jNat t[2]!))
  return {
    features, languages, nameStart, classRefs, autoPseudo, ignoreBad,
    gattr, gattrValues, advances, points, pointAttrs,
    numGlyphs := ← jNat (← j.getObjVal? "numGlyphs"), numReal := ← jNat (← j.getObjVal? "numReal"),
    lb := ← jNat (← j.getObjVal? "lb"), phantom := ← jNat (← j.getObjVal? "phantom"),
    anyClass := ← jNat (← j.getObjVal? "anyClass"), classes, classDefs, passes }
end

end Grc
