#!/usr/bin/env python3
"""Regenerate MANIFEST.json from the table below (keeps it schema-valid; not_applicable = everything not registered)."""
import json, os
HERE = os.path.dirname(os.path.abspath(__file__)); VERIF = os.path.dirname(HERE)
TB = ("Trusted: Lean 4.33 kernel; axioms propext/Classical.choice/Quot.sound only (audited every run); the Lean compiler for the "
      "executable checker grcv; tools/gen.py (IR and GDL text denote the same program), tools/ttf.py font builder; python harness. ")
CHECKS = {
 "C06": dict(
   technique="Lean 4 theorems (padding alignment, start-of-text firing, trial order) + their hypotheses evaluated on decoded real output",
   text=("Proof: Grc.Prec.padding_preserves_match (for every glyph string and scan position the ANY-padded rule matches iff the rule as written "
         "matches relative to the same scan position), Grc.Prec.start_state_fires_iff (with d<=maxPre glyphs of context, the engine starting in "
         "startStates[maxPre-d] and filtering by rulePreContext fires exactly the rules whose own leading context fits and whose items match, "
         "for every glyph string) and insertSorted_ordered (accumulated rules stay ordered by sort key descending, index ascending). "
         "The check evaluates the theorem hypotheses on the real output of generated programs: FSM certificate, startStates[k] = state after k phantom "
         "glyphs, min/maxRulePreContext, ruleSortKeys (= number of input items, insertions and padding excluded) and rulePreContext (= unpadded count) "
         "equal to the Lean model of FixRulePreContexts/SortKey computed from the independent IR, ruleMap ascending."),
   note=TB + "Grc.Prec.fires / FsmTable.run are my reading of the engine contract (GTF, libgraphite2 behaviour recorded in DESIGN appendix A).",
   design="4/C06"),
 "C02": dict(
   technique="Lean 4 theorem (certificate soundness, all glyph strings) + certified checker run on decoded real output",
   text=("Proof: Grc.Fsm.checkCert_correct shows, for EVERY glyph string, that the engine's walk of a transition table accepted by the "
         "executable certificate checker reports rule i iff each item of rule i contains the corresponding glyph; member_has_column / "
         "shared_column_indistinguishable give the column clauses. The check decodes the FSM the real compiler wrote for generated programs "
         "(rules known independently of the compiler; leading contexts padded by the Lean model of FixRulePreContexts) and runs the checker; "
         "a rejection triggers a product search for a concrete glyph string on which table and rules differ."),
   note=TB + "FsmTable.run is my reading of the GTF engine contract (validated against libgraphite2 in the shaping checks). Programs quantifier is sampled by the generator; glyph-string quantifier is discharged by the theorem.",
   design="4/C02"),
}
def main():
    props = [json.loads(l) for l in open(os.path.join(VERIF, "properties.jsonl"))]
    NA = {}
    p = os.path.join(HERE, "not_applicable.json")
    if os.path.exists(p):
        NA = json.load(open(p))
    checks = []
    for pid, c in sorted(CHECKS.items()):
        checks.append({"property_id": pid, "quick_cmd": "python3 tools/vcheck.py %s --tier quick" % pid,
            "thorough_cmd": "python3 tools/vcheck.py %s --tier thorough" % pid, "evidence_file": "evidence/%s.json" % pid,
            "replay_cmd_template": "python3 tools/vcheck.py %s --replay {path}" % pid, "engine": "lean4+grcv",
            "level_claimed": {"category": c.get("category", "proof"), "text": c["text"], "design_ref": c["design"]},
            "level_note": c["note"], "technique": c["technique"]})
    m = {"version": 1, "setup_cmd": "cd lean && lake build GrcVerif grcv",
      "hooks": {"guard": "GRCOMPILER_VERIF", "enable": "-DCMAKE_CXX_FLAGS=-DGRCOMPILER_VERIF -DCMAKE_C_FLAGS=-DGRCOMPILER_VERIF (done by tools/common.py build_repo on every check)",
        "baseline_off_cmd": "rm -rf /var/tmp/grcverif_off && cmake -G Ninja -S /repo -B /var/tmp/grcverif_off -DCMAKE_BUILD_TYPE=RelWithDebInfo -DCMAKE_CXX_FLAGS=-Wno-error && cmake --build /var/tmp/grcverif_off -j16 && ctest --test-dir /var/tmp/grcverif_off -j8 --timeout 900; rc=$?; rm -rf /var/tmp/grcverif_off; exit $rc",
        "source_commits": json.load(open(os.path.join(HERE, "hook_commits.json"))) if os.path.exists(os.path.join(HERE, "hook_commits.json")) else [],
        "add_only": True},
      "engines": [{"name": "lean4+grcv", "path": "lean/", "serves_properties": sorted(CHECKS), "kind_free_text": "Lean 4 library GrcVerif (models, specs, theorems) + compiled driver grcv; python harness tools/vcheck.py"}],
      "checks": checks, "notes": "See DESIGN.md. Every check rebuilds /repo's working tree (hash-keyed scratch build under /var/tmp/grcverif), rebuilds the Lean library, audits axioms, then runs the correspondence.",
      "not_applicable": [{"property_id": p["id"], "reason": NA.get(p["id"], "check not registered yet (work in progress; see DESIGN.md section 8)")} for p in props if p["id"] not in CHECKS]}
    json.dump(m, open(os.path.join(VERIF, "MANIFEST.json"), "w"), indent=1)
    try:
        import jsonschema
        jsonschema.validate(m, json.load(open("/root/.vp/MANIFEST.schema.json")))
    except ImportError:
        pass
    print("MANIFEST ok:", len(checks), "checks")
if __name__ == "__main__":
    main()
