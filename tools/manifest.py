#!/usr/bin/env python3
"""Regenerate MANIFEST.json from the table below (keeps it schema-valid; not_applicable = everything not registered)."""
import json, os
HERE = os.path.dirname(os.path.abspath(__file__)); VERIF = os.path.dirname(HERE)
TB = ("Trusted: Lean 4.33 kernel; axioms propext/Classical.choice/Quot.sound only (audited every run); the Lean compiler for the "
      "executable checker grcv; tools/gen.py (IR and GDL text denote the same program), tools/ttf.py font builder; python harness. ")
CHECKS = {
 "C01": dict(
   technique="Lean 4 theorems on the value fragment of the Graphite stack machine (decompiler soundness for all states, constant folding, constant encoding) + decompile-and-compare of the action/constraint code of real output with the source expressions + a Lean reference interpreter of the rule language compared with libgraphite2 on the compiled fonts; PARTIAL (substitution and positioning passes incl. attachment; no justification, collision, line-break items)",
   text=("Proof (partial): Grc.Sem.decomp_sound / decomp_value - for every sequence of value instructions (8/16/32-bit constant pushes, arithmetic, comparison, logic, conditional, slot-attribute, "
         "glyph-attribute, feature reads) and every engine state, execution yields exactly the values of the decompiled expression trees, including when the machine stops (division by zero, INT_MIN/-1); "
         "evalS_fold and evalS_foldC (constant folding, also of conditionals with constant tests, preserves / refines the meaning); decode_encode (every 32-bit integer is pushed back as itself by the "
         "shortest of push_byte/short/long with sign extension). Tie T3: for every rule of every generated program (rules of one pass with different leading contexts => ANY padding, insertions and "
         "deletions shifting indices, attribute values and item constraints over constants of all sizes, user/glyph attributes of own and other slots, + - * / min max comparisons && || ! ?:, rules under "
         "if / elseif / else feature tests) the code in the font is decompiled and must equal, after folding, the tree denoted by the source expression with @n turned into (input index of item n) - "
         "(reference frame of the item: own input index, for an inserted item that of the preceding input item); the rule constraint must be the conjunction of the enclosing feature tests and the item "
         "tests; the value the action returns (where the scan goes on) must equal #kept(items before ^) - #kept(items the action handled). Tie T2: Grc.Eng.shape, a reference interpreter written from the language description (passes in order; left-to-right scan; first matching rule in precedence order with leading "
         "context and item constraints and feature tests; substitution by class correspondence with selectors, insertion, deletion, @n copies, user attributes in 32-bit arithmetic / 16-bit storage, "
         "associations, ^, positioning passes assigning advance.x / shift.x / shift.y / kern.x from expressions that read slot attributes and the advancewidth metric, attachment of marks to bases and to other marks with the engine's cluster positioning), is run on the IR and "
         "compared with libgraphite2 on the compiled font: glyph sequence, user attributes, associations, positions (x, y, advance), for about 2200 (thorough: 45000) generated texts "
         "over nine program families (one with ^ anywhere and deletions as first item) and feature settings; one-rule programs additionally compare every user attribute with a direct evaluation."),
   note=TB + "The interpreter is a specification executed against the real engine, not a proved object (sanity theorems: a pass none of whose rules matches anywhere is the identity, for the engine loop with its highwater mark and loop counter). The scan loop follows libgraphite2's Pass::runGraphite / doAction / adjustSlot as I know them (highwater mark, passed flag, MaxRuleLoop counter, the action's return value moving the position back or forth) and was validated against the library on the generated texts. NOT modelled: justification, collision, right-to-left, advance.y / measure attributes, line-break items, the jump the engine makes when the MaxRuleLoop counter runs out (such runs are reported as outside the fragment and skipped), associations of items deleted without an explicit association (compiler policy). One point follows libgraphite2 rather than the GDL text: @k reads an item's slot as matched if the rule changes its glyph, and in its current state if the rule only sets attributes on it. libgraphite2 stores user attributes in 16 bits.",
   design="4/C01"),
 "C03": dict(
   technique="strict Lean decoders + Lean theorem Code.check_sound (accepted code returns without underflow under every context-item outcome), opcode table regenerated from constants.h; run on real output over the option matrix; libgraphite2 acceptance",
   text=("Proof: Grc.Code.check_sound — any action/constraint block accepted by the checker, run from an empty stack, never underflows, never meets an unknown "
         "opcode or truncated operand and ends in a return, for every behaviour of the context-item tests. The decoders for sfnt directory, Silf (v2-v5, incl. LZ4 framing), "
         "Gloc, Glat (v1-v3), Feat, Sill and name are strict parsers whose acceptance is the well-formedness predicate (every offset/count/search header/cross reference checked). "
         "The check runs them, the code checker and reference validation (classes, glyph attributes, features, slot attributes, metrics) on every font written with exit 0 for "
         "generated programs x {-v2..-v5,-c,-p,-offsets,-g,-n}, and requires libgraphite2 to load and shape with each font."),
   note=TB + "The decoders are definitions (my reading of GTF_4_0/5_0 and of the writers), not proved against an independent format spec; operand sizes/stack effects per doc/StackMachineCommands. Slot-offset range validity is checked in C01, not here.",
   design="4/C03"),
 "C04": dict(
   technique="Lean 4 theorems about the class algorithms (intersection/difference/sorted pair list/lookup/PutSubs) + class semantics evaluated in Lean and compared with the decoded class map and FSM of real output",
   text=("Proof: mem_interList, mem_diffList (the compiler's '&='/'-=' algorithms are set intersection/difference on duplicate-free operands, order of the first operand kept), "
         "sorted_sortedPairs, lookup_sortedPairs, putsubs_correct (for every duplicate-free selector class and every index i, the engine's lookup in the list built by the model of "
         "AddGlyphsToSortedList followed by indexing the output class yields the i-th output glyph). Tie: class values are computed by the Lean semantics `Cls.value` from the "
         "generator's definition trees (nesting, ranges, late '+=', '&=', '-='); for every substituting rule item the PutSubs/PutGlyph operands and class map decoded from the real "
         "font must map every selector glyph to the denoted output glyph, and the pass FSM must be certified (C02 theorem) against exactly those memberships."),
   note=TB + "Cls.lookup abstracts the engine's binary search; class references denote the final value of the referenced class (late binding).",
   design="4/C04"),
 "C07": dict(
   technique="Lean 4 spec (tree of optional groups) and model (the compiler's range algorithm) proved equal for all well-formed trees, theorems on reference renumbering; alternatives certified against the real font through the C02/C06/C04 machinery",
   text=("Proof: Opt.model_eq_spec_any_order - for EVERY well-formed tree of optional groups (any depth, any number of groups and items; well-formed = every group holds an item and is not merely another group in brackets) "
         "and every order in which its ranges are listed, the model of the compiler's algorithm (exchange sort of the ranges = Opt.exchangeSort_perm/_sorted/_unique, removal of duplicates, overlap test, the include-then-omit recursion with PrevRangeSubsumes, "
         "the items left by each flag assignment, the empty version dropped) yields exactly the documented alternatives, in the documented order and multiplicity; Opt.wfB_sound (the driver's executable test implies the hypothesis); "
         "Opt.newIndex_count / newIndex_none (in an alternative, a reference to a kept item becomes 1 + the number of kept items before it; an omitted item has no new index). "
         "Trees outside the hypothesis (a group in a second pair of brackets) are compared per rule, up to repeated alternatives, which can never fire. "
         "Tie T1: the loop headers, the swap / duplicate / overlap / subsumption conditions, the erase statements and the order of the recursive calls that the model transcribes are re-extracted from PostParser.cpp on every run (OptGen.*_as_modelled). "
         "Tie: the driver replaces every rule with optional items by its alternatives and requires of the real font: rule count and order, the FSM of every alternative certified for all glyph "
         "strings (C02 theorem), sort keys / pre-contexts / start states (C06), substitution classes and @n / association offsets still denoting the same original item (C04 + offset model); "
         "programs in which some alternative refers to an omitted item must be rejected with error 1103."),
   note=TB + "Trees up to depth 3 / 8 items; optional groups in the context part, and in the body of rules written without '>'; every third program carries attribute expressions and item constraints with @n references (conditionals included), whose renumbering is checked by decompiling the code of every alternative (C01's comparison).",
   design="4/C07"),
 "C08": dict(
   technique="Lean checkers for sfnt container/preservation/name records run on real output and on recompilation chains + Lean theorems on the checksum word-sum (additivity over aligned parts, zero padding)",
   text=("Proof: wordSum_append / wordSum_pad / wordSum_zeros — the sfnt checksum of a file is the sum (mod 2^32) of the checksums of its 4-byte-aligned zero-padded parts, so the per-table "
         "and whole-file (0xB1B0AFBA) conditions evaluated by the checker are the ones the format defines. The executable Lean checkers decide, on the real output bytes, every structural clause "
         "of the property: search header, directory strictly sorted, alignment, bounds, pairwise disjointness, every table checksum (head with zeroed adjustment), file checksum; every non-name "
         "non-Graphite table byte-identical to the input (head apart from checkSumAdjustment); name records preserved apart from the family-derived ids of English / language-neutral records when renaming (records in other languages must stay); new records only with "
         "fresh ids >= 256; exactly one of each Graphite table. Histories: 3-generation chains (g2 tables = g1 tables for Silf/Glat/Gloc/Sill, g3 = g2 byte for byte) and compile(P, compile(Q, F))."),
   note=TB + "The byte-level model `assemble` of the copy loop is not yet proved; container validity is decided per output font (translation-validation style), input fonts are sampled (generated variants + suite fonts).",
   design="4/C08"),
 "C05": dict(
   technique="Lean 4 theorems (override rule = specification in any processing order; Glat run encoding round trip) + specification evaluated in Lean and compared cell by cell with the decoded Glat/Gloc of real output",
   text=("Proof: Grc.GA.challenge_fold_eq_spec — for every list of competing assignments on pairwise distinct, statement-ordered source lines and every order in which the compiler's class-ordered "
         "processing presents them, the stored assignment is the specification's winner (a later statement overrides an earlier one unless AttributeOverride is false where it is written); "
         "codeWinner_perm (order independence), lookup_encodeRuns (the run encoding of OutputGlatAndGloc returns every attribute's value, zeros omitted, for any run-length limit). "
         "Tie: for generated glyph tables (overlapping classes, environments toggling AttributeOverride, boundary values) the Lean specification is evaluated per (glyph, attribute) and compared "
         "with the strictly decoded Glat/Gloc of the real font (attribute ids recovered via a marker glyph; breakweight via the Silf header), incl. the documented breakweight default; "
         "values outside the 16-bit field must be rejected with 4144/4145 and no font."),
   note=TB + "Hypothesis of the theorem (distinct lines) is necessary: the excluded point is the recorded known finding. Not covered yet: m-unit scaling, glyph metrics/point()/box() in values, directionality/mirroring defaults (ICU), >255 attributes.",
   design="4/C05"),
 "C09": dict(
   technique="Lean 4 model of the driver's stage machine with theorems over all scenarios + strace trace correspondence of the real binary for every failing stage / environment fault",
   text=("Proof: over the Lean model Grc.MainSM.run (stage failure flags -> exit status, error count, ordered file-system operations): exit_zero_iff_no_error, exit_le_one, success_font_complete "
         "(exit 0 implies the destination was created by this run, written completely and not removed), failure_leaves_no_font (on failure the destination is never touched or is removed again), "
         "no_output_before_checks, errors_reach_errfile — for every scenario. Tie: 38 constructed scenarios (each stage failing: arguments, GDL missing, encodings, missing/failing preprocessor, "
         "preprocessor errors, syntax and semantic errors, bad font, bad -v/-n, unwritable destination, name-table overflow during output, unwritable error file; -w/-wall/-d/-D/-e, -w naming the numbers of the program's own errors) are run on the "
         "real binary under strace, with and without a pre-existing file at the output path; exit status, operation sequence, error-file content and the state of the output path must equal the "
         "model's prediction, successful outputs must pass the C08 container check, and diagnostic-only options must give byte-identical fonts."),
   note=TB + "The scenario->flag mapping is by construction of inputs. Kernel behaviour is observed, not modelled. An unwritable error file is itself an error (106) while the font stays: excluded by hypothesis from failure_leaves_no_font.",
   design="4/C09", category="proof"),
 "C18": dict(
   technique="Lean 4 theorem on the line arithmetic of the token-stream filter (all preprocessed texts, all lines) + byte equality of decomposed vs flat spellings and located seeded errors on the real compiler and preprocessor",
   text=("Proof: Grc.LM.filter_eq_origin — for every preprocessed text (any sequence of `#line N [\"file\"]` markers and text lines) and every line of it, the file and line reported by the model of "
         "GrpTokenStreamFilter (offset := N - L - 1 at each marker) are those the markers denote (the line after a marker is line N of the last named file). Tie: each generated program is compiled in a "
         "flat spelling and in a decomposition (include file, object-like and function-like macros with a continuation line, #if 0 / #ifdef regions, block comments ending on a statement's line, line "
         "comments, blank lines): the fonts must be byte-identical; an undefined class, and a syntax error (also as the last tokens before a #line marker: end of an include file, before a multi-line comment), are seeded at sampled (thorough: every) "
         "statement positions of the decomposition and the error file must cite the file and line where they were written (on a mismatch the Lean model is applied to the real gdlpp output to tell whose arithmetic is off); gdlpp's exit status must be non-zero exactly when it "
         "printed an error (7 cases incl. #error, stray #endif, unterminated #if/comment, missing include = warning)."),
   note=TB + "Macro substitution itself is not modelled (covered by font byte equality only). Parser errors spanning two files (the 'previous marker' rule) are not exercised.",
   design="4/C18"),
 "C20": dict(
   technique="Lean 4 theorems on the quantisation in exact arithmetic + Lean checker comparing the decoded Glat v3 octabox records of real output with the glyf outlines of the input font, point by point",
   text=("Proof: Grc.Octa.quant_bounds, min_bound_encloses, max_bound_encloses — for every fraction a/b in [0,1], q = min(floor(255a/b), 255) satisfies q/255 <= a/b < (q+1)/255 (or a = b), hence a stored "
         "minimum is below, and a stored maximum plus one 1/255 step is above, every value they were computed from. Tie: the Lean driver decodes the octabox records of the output font and the outlines "
         "(simple and composite glyphs, all glyf flag forms) of the input font and checks in exact integer arithmetic, for every outline point: inside the whole-glyph diagonal bounds; when sub-boxes "
         "exist, in a cell marked occupied (cell rule trunc(4v - 0.001) as in the code) whose box and diagonal bounds enclose it within one quantisation step; outline-less glyphs carry empty data. "
         "Fonts: rectangles, triangles, random polygons, vertices on cell borders, L shapes, two-contour and composite glyphs, complexFit on a random subset."),
   note=TB + "'Outline point' = glyf control point; curve interiors are not examined. float32 rounding of the compiler is not modelled. Degenerate (zero-extent) boxes are skipped by the checker (counted).",
   design="4/C20"),
 "C19": dict(
   technique="Lean 4 model theorems (temporary file always removed, debug files only on request, destination untouched before checks) + strace/snapshot correspondence over all scenarios and path spellings",
   text=("Proof: Grc.MainSM.tmp_removed, debug_only_if_requested, no_output_before_checks, failure_leaves_no_font over the stage-machine model. Tie: every scenario (success, each failure stage, sources / font / output in different directories, five spellings "
         "of an output path that aliases the input font: same string, ./, absolute, symbolic link, hard link) runs under strace; every write-open/unlink/rename must fall in the allowed set "
         "{output font, error file, requested debug files, temporary file}, /tmp and the working directory are snapshotted before/after, inputs are hashed, and a write fault in the middle of the "
         "font (RLIMIT_FSIZE) must leave nothing partial."),
   note=TB + "strace is trusted to show all file-system calls of the compiler and its preprocessor child; concurrency is C13's subject.",
   design="4/C19"),
 "C15": dict(
   technique="Lean 4 theorems on the version ladder (constants regenerated from source) + strict decoding, LZ4 inflation, byte comparison and libgraphite2 shaping across the full option matrix of real builds",
   text=("Proof: Grc.Ver.declared_version_conforms / version_ge_requested — for every requested version, option set and class-map size the version computed by the model of CalculateSilfVersion "
         "(its thresholds re-extracted from OutputToFont.cpp on every run) is at least the format's minimum for compression (5.0), collision data (4.1), skip-passes attribute and long class "
         "offsets (4.0); glat_gloc_switch_together. Tie: each generated program (every third one with passes under pass-level feature tests, every fifth with a collision-fixing pass) is built for {default,-v2..-v5}x{plain,-c}x{with/without -p} and {-d,-D,verbose}: every build must pass the strict "
         "decoders (conformance to the layout of the version it declares), its declared Silf version must equal the Lean ladder, compressed Silf/Glat inflated by the Lean LZ4 decoder must equal "
         "the plain tables byte for byte, debug/verbose builds must be byte-identical to the default, and all builds must shape 40-150 texts identically through libgraphite2."),
   note=TB + "LZ4 decoder is an executable Lean definition (partial def), not a proved one; the LZ4-HC compressor is validated per output only. ",
   design="4/C15"),
 "C10": dict(
   technique="Lean 4 specification of rule-level static rules evaluated on the IR + theorem on the class-recursion check + single-fault injection (faulty program and repaired twin) against the real compiler",
   text=("Proof: SR.noCycleFrom_sound — the model of CheckRecursiveGlyphClasses (depth-first walk with an explicit stack) accepts a class only if no chain of class references leads from it back to "
         "itself or to a class on the stack, for every reference graph. Specification SR.ruleViolations (selector, @ and association references out of range or onto an inserted item; insertion, deletion, "
         "association in the positioning table) is evaluated in Lean on the IR of each injected rule and must flag the faulty rule and not its twin. Tie: 33 single-fault injections (static rule x placement x "
         "table type, incl. slot references to inserted items in component references, attribute values and constraints), each with a minimally repaired twin: the real compiler must reject the faulty program with exit 1, an error on the injected line (or the line of the enclosing construct) with the "
         "expected id, and no font; the twin must compile."),
   note=TB + "For text-level rules (undefined names, features, pass structure, attribute roles) the expectation is written in the injector table, not derived in Lean; completeness of the recursion check (every cycle is found) is not proved.",
   design="4/C10"),
 "C11": dict(
   technique="Lean 4 theorems over a model of main()'s argument handling and of the fixed-width range loops, instantiated at buffer sizes/guards re-extracted from the source each run, tied by an argv correspondence run; the runtime part of the property is explored with ASan/UBSan/assert builds (exploration, not proof)",
   text=("Proof (partial by nature): Grc.ArgsGen.main_writes_inbounds / main_no_null_deref / main_exit - for EVERY argument vector, every write of main's option and file-name handling into rgch[20], "
         "rgchOutputFile[128], rgchwOutputFontFamily[128] (digit loop of -n/-v/-w, strcpy of the output name, font-name conversion, derived name xyz_gr.ttf) is inside its buffer, the NULL ending argv "
         "is never dereferenced ('-e' last) and the handling ends in `return 2` or proceeds; range_loops_terminate - every inclusive 16/32-bit range loop of AssignGlyphIDsToClassMember visits first..last "
         "once and stops, also for ranges ending at 0xFFFF/0xFFFFFFFF (rangeLoop_unguarded_diverges shows the loop without the in-body break never ends); dup_loop_bounded. The constants and guard shapes the "
         "theorems are instantiated at are re-extracted from main.cpp / ErrorCheckClasses.cpp / GdlGlyphClassDefn.cpp on every run (obligations consts_safe, range_loops_guarded, gen_name_shape); the model "
         "is compared with the real main() on generated argument vectors (outcome class, derived output name, error-file name, quiet/debug flags). "
         "EXPLORATION (not proof): the ASan+UBSan/assertions build of compiler and gdlpp on a corpus of 33 past failures, token/byte/structure-aware mutations of valid programs, semantic edge cases and "
         "argument vectors: exit status in {0,1,2}, no signal, no sanitizer memory report, linear time bound on the release build, no Assert failure on an accepted program (assert hits are re-run on an "
         "ASan build without assertions)."),
   note=TB + "Memory safety, termination and timing of the parser, checkers, code generator and preprocessor are OBSERVED on explored inputs only; a theorem cannot exhibit a segfault. UBSan arithmetic reports (signed overflow of option numbers, LZ4's zero offset on NULL) are counted, not treated as violations (outside the property's wording). Well-formed fonts only.",
   design="4/C11"),
 "C12": dict(
   technique="Lean 4 theorem over the limit table regenerated from constants.h + size-parameterised program families compiled around each limit and decoded strictly",
   text=("Proof: Grc.Lim.guarded_no_wrap — for each of 11 size limits (passes, rule slots, features, user slot attributes, replacement classes, glyph attributes, Glat-v1 attribute ids, pseudo-glyphs, "
         "script tags, glyphs per font, attribute values), with the constant re-extracted from constants.h on every run, every quantity the guard accepts is below 2^width of the field that stores it. "
         "Tie: fifteen program families (glyph attribute values around +-32767/32768, passes, rule slots, leading-context length, features, user attribute index, glyph attributes across the Glat v1/v2 switch, font-name length, item-constraint code "
         "length across the one-byte skip count, action-block size across the 16-bit code offsets, replacement classes under -v2, class-map bytes across the 16-bit class offsets, glyph-attribute bytes "
         "across the 16-bit Gloc offsets with and without -c) are compiled at limit-1, limit, limit+1 and far above: each outcome "
         "must be an error and no font, or a font that passes the strict decoders, is accepted by libgraphite2 and stores the true value."),
   note=TB + "Field widths are my reading of GTF. Families needing > 65535 glyphs/classes/attributes are not generated. Narrowing writes guarded only by Assert that no family reaches remain unexplored.",
   design="4/C12"),
 "C13": dict(
   technique="Lean 4 order-independence theorems for the pointer-ordered containers + perturbation/concurrency exploration of the real binary",
   text=("Proof: Det.key_perm and Det.sameSet_perm_left (machine-class key and grouping are invariant under any iteration order of the pointer-ordered source-class sets), "
         "Det.attr_cell_order_independent / GA.codeWinner_perm (the stored glyph-attribute assignment does not depend on the order in which the value maps present assignments). "
         "Exploration: each program (seven generated families incl. features with labels in several languages, optional items, attachment, expressions; rejected programs with syntax / semantic / preprocessor errors, + suite programs) is compiled 19+ times: repetitions, MALLOC_PERTURB_, allocation through mmap (descending addresses), an LD_PRELOAD allocator handing out blocks in pseudo-random address order, large environment, locale/TZ, ASLR off, another working "
         "directory, and 6-12 concurrent compilations sharing the directory and /tmp; (font sha256, diagnostics sha256, exit status) must all be equal."),
   note=TB + "The schedule/heap-layout quantifier is explored (whatever the scheduler produced), not proved; wall-clock dependence is not perturbed. Theorems cover the identified pointer-ordered iterations only.",
   design="4/C13", category="proof"),
 "C16": dict(
   technique="Lean 4 theorems on label-id allocation and setting order + Lean comparison of the decoded Feat/Sill/name tables of real output with the declarations, incl. recompilation",
   text=("Proof: Grc.Ft.alloc_ge_256, alloc_fresh, alloc_nodup (ids handed out from max(maxUsed+1, 256, -n) are >= 256, pairwise distinct and never an id the font already uses), "
         "orderSettings_head/_mem/_length (default first, same settings). Tie: for generated feature and language tables over input fonts with different name tables and -n values the Lean driver "
         "checks on the real font: every declared id (main and hidden alternates) occurs once in Feat, default first, every label resolves in the Microsoft (and Unicode, when present) records to the "
         "declared string for each declared language, every label id in Feat has a record, new records use only fresh ids >= the model's first id, Sill maps each declared language to exactly the "
         "declared values; the output is then recompiled and labels must be reused (no new records, same Feat), and recompiled again with some labels reworded (English / other languages): every label must resolve to the string declared now."),
   note=TB + "Order of non-default settings is not fixed by the property. Macintosh-platform records are not examined.",
   design="4/C16"),
 "C17": dict(
   technique="Lean 4 theorems on the pseudo-glyph allocation model + Lean readers of the input font's cmap/post/maxp resolving every reference, compared with the FSM (C02 certificate), class map and pseudo data of real output",
   text=("Proof: Grc.Cm.alloc_pseudo_range, alloc_above_real, alloc_pseudo_ids_distinct — in the allocation model every pseudo-glyph id is strictly above the line-break glyph (itself the first id above "
         "all real glyphs) and strictly below the phantom glyph, ids are pairwise distinct and numIds = phantom + 1. Tie: the Lean driver parses the INPUT font (cmap 4/12, symbol subtable, post "
         "format 2, maxp), resolves every glyphid()/unicode()/U+/range/postscript() reference of the generated program (auto-pseudos for code points sharing a glyph), and requires of the real "
         "output: the FSM certified against exactly those class memberships (C02 theorem), the substitution data (C04), lbGID, maxGlyphID, the sorted duplicate-free Unicode-to-pseudo map and the "
         "actualForPseudo attribute equal to the model; unmapped code points (single, runs in a list, ranges running off the mapped block) must give error 4109 and no font, or be skipped under -g."),
   note=TB + "cmap lookup is the format's linear-scan semantics (the compiler's binary search is validated against it, not proved). Explicit pseudo() definitions are generated (ids read from the font's own map, real glyph and uniqueness checked); non-ASCII codepoint() is not.",
   design="4/C17"),
 "C14": dict(
   technique="Lean 4 theorem (skip-bit soundness for all glyph strings and positions) + its hypothesis evaluated on the decoded *skipPasses* attributes of real output + differential shaping of default vs -p builds with libgraphite2",
   text=("Proof: Grc.PB.skip_sound — if every effective rule of a pass has an input item all of whose class members have the pass's skip bit cleared, then on every glyph string whose glyphs all "
         "carry the bit no effective rule matches at any position (so skipping the pass cannot change the result). The check decodes *skipPasses*/*skipPasses2* from the real Glat of generated "
         "programs (1-35 passes, insertion-first/deletion/context-only rules, explicit passKeySlot, ANY) and evaluates the hypothesis per pass; a failure is reported with a concrete text of "
         "skippable glyphs that the rule matches. In addition each program is compiled with and without -p and 60-200 texts are shaped with both fonts through libgraphite2."),
   note=TB + "Assumes the engine contract for skipping (DESIGN appendix A) and that a pass in which no effective rule matches is the identity. Passes >= 32 are never skipped.",
   design="4/C14"),
 "C06": dict(
   technique="Lean 4 theorems (padding alignment, start-of-text firing, trial order) + their hypotheses evaluated on decoded real output",
   text=("Proof: Grc.Prec.padding_preserves_match (for every glyph string and scan position the ANY-padded rule matches iff the rule as written "
         "matches relative to the same scan position), Grc.Prec.start_state_fires_iff (with d<=maxPre glyphs of context, the engine starting in "
         "startStates[maxPre-d] and filtering by rulePreContext fires exactly the rules whose own leading context fits and whose items match, "
         "for every glyph string) and insertSorted_ordered (accumulated rules stay ordered by sort key descending, index ascending). "
         "The check evaluates the theorem hypotheses on the real output of generated programs: FSM certificate, startStates[k] = state after k phantom "
         "glyphs, min/maxRulePreContext, ruleSortKeys (= number of input items, insertions and padding excluded) and rulePreContext (= unpadded count) "
         "equal to the Lean model of FixRulePreContexts/SortKey computed from the independent IR, ruleMap ascending."),
   note=TB + "Grc.Prec.fires / FsmTable.run are my reading of the engine contract (GTF, libgraphite2 behaviour recorded in DESIGN appendix A).",
   design="4/C06"),
 "C02": dict(
   technique="Lean 4 theorem (certificate soundness, all glyph strings) + certified checker run on decoded real output",
   text=("Proof: Grc.Fsm.checkCert_correct shows, for EVERY glyph string, that the engine's walk of a transition table accepted by the "
         "executable certificate checker reports rule i iff each item of rule i contains the corresponding glyph; member_has_column / "
         "shared_column_indistinguishable give the column clauses. The check decodes the FSM the real compiler wrote for generated programs "
         "(rules known independently of the compiler; leading contexts padded by the Lean model of FixRulePreContexts) and runs the checker; "
         "a rejection triggers a product search for a concrete glyph string on which table and rules differ."),
   note=TB + "FsmTable.run is my reading of the GTF engine contract (validated against libgraphite2 in the shaping checks). Programs quantifier is sampled by the generator; glyph-string quantifier is discharged by the theorem.",
   design="4/C02"),
}
# later amendments of the texts above (old fragment -> new fragment); every old fragment must be present
AMENDS = {'C02': [('text', 'a rejection triggers a product search for a concrete glyph string on which table and rules differ.', 'a rejection triggers a product search for a concrete glyph string on which table and rules differ. One program in eight has optional items (context groups, `cls?` on the left-hand side, groups in the body) and is first expanded into its alternatives by the model of the expansion proved equal to the specification (C07).'),
  ('text', '(C07).', '(C07); one in sixty has a state machine of 30-60 thousand states (more than 65535 while it is built).')],
 'C06': [('text', 'computed from the independent IR, ruleMap ascending.', "computed from the independent IR, ruleMap ascending. One program in six has rules of different leading-context lengths whose actions and constraints read other items (@n, also inside ?:): the code in the font is decompiled and every slot reference must still name the rule's own item after the ANY padding (AdjustSlotRefsForPreAnys).")],
 'C04': [('text', "(nesting, ranges, late '+=', '&=', '-=')", '(nesting, ranges, late \'+=\', \'&=\', \'-=\'; glyph lists written as glyphid() or through the cmap as codepoint(\'c\'..\'f\'), codepoint("cdef"), unicode(a..b), U+xxxx..U+yyyy)'),
  ('text', 'U+xxxx..U+yyyy)', 'U+xxxx..U+yyyy; every fifth program compiled with -g and runs of code points the font lacks)')],
 'C03': [('text', 'never meets an unknown opcode or truncated operand and ends in a return,', 'never meets an unknown opcode or truncated operand and ends in a return (the executable checker additionally requires exactly one value on the stack at the return),'),
  ('text', 'and requires libgraphite2 to load and shape with each font.', 'and requires libgraphite2 to load and shape with each font; hand-written programs add collision passes with complexFit glyphs (sub-box records), justification, line-break items, attachment from metrics.'),
  ('text', 'Proof: Grc.Code.check_sound', "Proof: Grc.Wr.binarySearchConstants_eq_searchConsts (the compiler's BinarySearchConstants loop, transcribed, yields for EVERY n the search header the decoders demand), Grc.Wr.beU16_write16 / beU32_write32 (the big-endian writers, transcribed, are read back by the decoders' readers as the value modulo the field width, for every value; T1: the text of these functions and of the WriteByte/Short/Int members is re-extracted on every run, WritersGen.*); Grc.Code.check_sound"),
  ('text', 'hand-written programs add collision passes', 'one output in four is compiled again as the input font and must be as well-formed; hand-written programs add collision passes')],
 'C05': [('note', 'Not covered yet: m-unit scaling, glyph metrics/point()/box() in values,', "Scaled numbers (m / M suffix with a global MUnits) are generated and expected with the compiler's float arithmetic. Not covered yet: glyph metrics/point()/box() in values,"),
  ('text', '(overlapping classes, environments toggling AttributeOverride, boundary values)', '(overlapping classes, environments toggling AttributeOverride, boundary values; every sixth program on built-in collision.* / sequence.* attributes with a collision pass)'),
  ('text', 'every sixth program on built-in collision.* / sequence.* attributes with a collision pass)', 'every sixth program on built-in collision.* / sequence.* attributes with a collision pass; conditional expressions over glyph metrics with per-glyph expected values)')],
 'C10': [('text', 'Tie: 33 single-fault injections', 'Tie: 45 single-fault injections'),
  ('text', 'incl. slot references to inserted items in component references, attribute values and constraints)', 'incl. slot references to inserted items and to line-break items in selectors, associations, component references, attribute values and constraints, item number 0 with and without ANY padding)')],
 'C11': [('text', 'on a corpus of 33 past failures,', 'on a corpus of 46 past failures (incl. preprocessor arithmetic: division by zero in skipped operands, INT_MIN / -1, fatal buffer overflows; the death of gdlpp counts as a crash),')],
 'C12': [('text', 'fifteen program families (', "29 program families (padded rule slots (the 64-slot limit reached through another rule's leading context; above it the program MUST be rejected), script tags around 255/256, justification attribute ids beyond one byte, ligature components per glyph, FSM states around 65535, matched-rule entries around 65535, MaxRuleLoop / MaxBackup, ExtraAscent / ExtraDescent, feature setting values and hidden feature ids around 16 bits, Sill table bytes, glyph-attribute count around 65535/65536, "),
  ('text', 'Proof: Grc.Lim.guarded_no_wrap', 'Proof: Grc.Writes.classified_fit / guarded_value_unchanged - every one of the 101 narrowing writes (WriteByte / WriteShort with a non-literal argument) of the Silf, Glat, Gloc, Feat and Sill writers, listed from the current source by tools/extract_writes.py, has a row in a classification table (guarded maximum / bit field / derived) and every guarded maximum fits its field (T1 obligations WritesGen.every_write_classified, census_as_classified); Grc.Lim.guarded_no_wrap'),
  ('note', 'Field widths are my reading of GTF.', 'Field widths are my reading of GTF; that the guard named in a row of the census really bounds the written expression is my reading of the code (tested by the families), not a theorem.'),
  ('text', '29 program families (', '34 program families (rule actions reading glyph attributes numbered above 255, checked through the engine with default options, -p and -v2 -p, ')],
 'C13': [('text', 'rejected programs with syntax / semantic / preprocessor errors, + suite programs)', "rejected programs with syntax / semantic / preprocessor errors, a program built on gdlpp's predefined macros, + suite programs)"),
  ('note', 'wall-clock dependence is not perturbed.', 'wall-clock dependence is perturbed only by one run a few seconds later (enough for a time-of-day macro, not for a date).'),
  ('text', "a program built on gdlpp's predefined macros,", "a program built on gdlpp's predefined macros, renamed non-Regular fonts with preferred-name records,")],
 'C14': [('text', '(1-35 passes, insertion-first/deletion/context-only rules, explicit passKeySlot, ANY)', '(1-35 passes, insertion-first/deletion/context-only rules, explicit passKeySlot, ANY, bidi passes with mirror attributes, a rule-less CollisionFix pass before passes with rules)'),
  ('text', 'a rule-less CollisionFix pass before passes with rules)', 'a rule-less CollisionFix pass before passes with rules, key classes touched by set operations or holding -g placeholders, ANY named in a set operation)'),
  ('text', 'ANY named in a set operation)', 'ANY named in a set operation, AutoKern passes with rules); positions are compared as well as glyphs')],
 'C15': [('text', '(every third one with passes under pass-level feature tests, every fifth with a collision-fixing pass)', '(every third one with passes under pass-level feature tests - nested ifs and if/elseif/else chains, whose rules are visible in the rendered text and whose pass-constraint code must be the conjunction of the tests -, every fifth with a collision-fixing pass, justification values beyond 16 bits)'),
  ('text', 'justification values beyond 16 bits)', 'justification values beyond 16 bits, every seventh with more than 255 glyph attributes read by a rule action); a build that ends with a status other than 0 / 1 is a violation')],
 'C16': [('text', 'for generated feature and language tables over input fonts', 'for generated feature and language tables (language ids spelled 1036, x040C and 0x040C; boolean features with and without a declared default) over input fonts (Unicode- and symbol-encoded)'),
  ('text', 'over input fonts (Unicode- and symbol-encoded)', 'over input fonts (Unicode- and symbol-encoded, highest name id at 255 / 256 / 257)')],
 'C17': [('text', 'resolves every glyphid()/unicode()/U+/range/postscript() reference', 'resolves every glyphid()/unicode()/U+/codepoint(\'c\' | "str" | a..b)/range/postscript()/pseudo(glyph, codepoint) reference'),
  ('text', 'Proof: Grc.Cm.alloc_pseudo_range', "Proof: Grc.Cm.lookup31_eq_lookup / lookup310_eq_lookup (with the loop invariant bsearch_spec) - the compiler's own cmap searches (TtfUtil::Cmap31Lookup: binary search of the endCode array; Cmap310Lookup), transcribed statement by statement, return the format's definition for EVERY code point and every number of segments when the end codes ascend (hypothesis evaluated on each input font; T1: the text of the two functions and of GrcFont::GlyphFromCmap re-extracted on every run, CmapGen.*); Grc.Cm.alloc_pseudo_range"),
  ('note', "cmap lookup is the format's linear-scan semantics (the compiler's binary search is validated against it, not proved).", "cmap lookup is the format's linear-scan semantics, to which the transcription of the compiler's searches is proved equal (the transcription is tied to the source by text equality, not by a translator)."),
  ('text', '; Grc.Cm.alloc_pseudo_range', '; Grc.Cm.mem_collisions_iff / collisions_nodup (the collision scan of GrcFont::ScanGlyfIds, transcribed with its per-glyph table, records exactly the mapped code points whose glyph another mapped code point has, each once - for every cmap that leaves U+0000 unmapped; hypothesis evaluated per font); Grc.Cm.alloc_pseudo_range')],
 'C18': [('text', '(include file, object-like and function-like macros', '(include files nested in subdirectories, #if / #elif / #else ladders, CR LF line endings, object-like and function-like macros'),
  ('text', '(7 cases incl. #error, stray #endif', '(14 cases incl. #error, fatal buffer overflows, stray #endif'),
  ('text', 'object-like and function-like macros', 'object-like and function-like macros (also called with line breaks between name, parenthesis and arguments)')],
 'C19': [('text', 'same string, ./, absolute, symbolic link, hard link)', 'same string, ./, absolute, symbolic link, hard link; the output omitted, with the derived name in dotted directories / dotted file names and with the derived name being the linked input itself)'),
  ('text', 'and a write fault in the middle of the font (RLIMIT_FSIZE) must leave nothing partial.', "a write fault (RLIMIT_FSIZE) at 15 positions of the font must leave nothing partial, and the debugger file (-d) must be the output font's name with its extension replaced, next to it.")],
 'C20': [('text', '(simple and composite glyphs, all glyf flag forms)', '(simple glyphs in all glyf flag forms; composites with offsets, nested composites, components with one scale or separate x/y scales incl. mirrored ones, each scaled coordinate cut to an integer toward zero as TtfUtil does)'),
  ('note', 'float32 rounding of the compiler is not modelled.', 'float32 rounding of the compiler is not modelled (generated scales are multiples of 1/8, exact in float); 2x2 component transforms are not modelled (glyph skipped, counted).'),
  ('text', 'complexFit on a random subset.', 'complexFit (as a literal or as an expression over glyph metrics) on a random subset, which is told to the checker: for those glyphs the occupied cells must cover every point even when the bitmap is empty.')],
 'C09': [('text', 'Tie: 38 constructed scenarios', 'fsm_failure_touches_nothing (an error found after the state machines are generated: exit 1, the destination neither opened nor removed). Tie: 51 constructed scenarios (incl. a state machine too large for the font, debug files for dotted output paths) and a write fault (file-size limit) at 15 positions of the output font, also inside the last tables; scenarios'),
  ('text', 'Tie: 51 constructed scenarios', "Tie: 62 constructed scenarios (also: the compiler's own output as input font, every failure stage with -D, an error file that is one of the run's own files, an empty directory at the output path, an unknown code page)")],
 'C01': [('text', 'over nine program families', 'over nine program families (every third program refers to items by slot aliases declared on the left-hand side, the right-hand side or in the context)')]}
for _k, _l in AMENDS.items():
    for _f, _a, _b in _l:
        assert _a in CHECKS[_k][_f], (_k, _a)
        CHECKS[_k][_f] = CHECKS[_k][_f].replace(_a, _b)
# round 7: what was added to each check (appended to the note; DESIGN.md section 9, round 7)
APPENDS = {
 'C01': "Round 7: the flags (CollisionFix, AutoKern), MaxRuleLoop and MaxBackup of every pass header are compared with the directives of the pass (every fifth structural program carries directives); a fixed program copies justify.stretch/shrink/step/weight to user attributes under libgraphite2.",
 'C04': "Round 7: class programs run over fonts whose format-4 cmap goes through the glyphIdArray, with and without idDelta.",
 'C05': "Round 7: mirroring defaults under Bidi = true (mirror.glyph, mirror.isEncoded) are compared for 23 characters, python's unicodedata and a written-out pair table as the oracle.",
 'C07': "Round 7: every sixth program reads glyph.breakweight in the attribute values of optional rules (a look-up that only clones can lose).",
 'C08': "Round 7: programs are compiled under -c, -v3, -p and combinations; a program that compiles without the options and is refused with them is a violation.",
 'C09': "Round 7: accepted programs with an early warning and a feature checked late (justification levels 0-3, ligature components, mirroring, point functions, collision pass); the pre-processor cannot be forked (strace fault injection).",
 'C10': "Round 7: justification level 4 in a class, after a class at level 3, and in a rule.",
 'C11': "Round 7 corpus: labels of 600 characters and of none, bytes above 0x7F in Macintosh names when renaming, gpath/gpoint without -offsets and with negative values, a point assigned from a point, attributes on deleted items, stretch above 16 bits at level 1, every spelling of a point.",
 'C12': "Round 7: family cross_line_boundary_context (the two header bytes are a product of rule lengths, cut off at 255 - the census rows were reclassified); all four justification attribute ids of the header are compared.",
 'C13': "Round 7: twelve programs combine Bidi = false/true/2, the script direction and a pass direction that agrees with it or opposes it.",
 'C15': "Round 7: -v1 is requested too; the break weight of every character is part of what is compared across builds; one program has more than 64K of glyph attribute data that compresses to less.",
 'C16': "Round 7: symbol fonts (name records under 3/0) with and without Macintosh records; fixed programs (negative setting value, 65535, features without settings) compiled three times in a chain over three kinds of name table.",
 'C17': "Round 7: under -g, a metric of a class (cX.advancewidth, bb.right, bb.top) whose first members the font lacks is the metric of the first glyph the font has.",
 'C18': "Round 7: faults in the language table (undefined feature, undefined setting, value without a setting) are located, in the main file or in a file included inside the braces of a group, also after rule lines that start with the line-break item #.",
 'C19': "Round 7: scenarios of C09 (early warning with point functions, fork failure) count here too: nothing may be left in /tmp.",
 'C20': "Round 7: composites of 3 to 12 components; components with a 2x2 matrix (quarter turns, shears, a mirror), which the Lean outline model now transforms as the format defines; components placed by matching points.",
}
for _k, _t in APPENDS.items():
    CHECKS[_k]["note"] = (CHECKS[_k]["note"].rstrip() + " " + _t).strip()


def main():
    props = [json.loads(l) for l in open(os.path.join(VERIF, "properties.jsonl"))]
    NA = {}
    p = os.path.join(HERE, "not_applicable.json")
    if os.path.exists(p):
        NA = json.load(open(p))
    checks = []
    for pid, c in sorted(CHECKS.items()):
        checks.append({"property_id": pid, "quick_cmd": "python3 tools/vcheck.py %s --tier quick" % pid,
            "thorough_cmd": "python3 tools/vcheck.py %s --tier thorough" % pid, "evidence_file": "evidence/%s.json" % pid,
            "replay_cmd_template": "python3 tools/vcheck.py %s --replay {path}" % pid, "engine": "lean4+grcv",
            "level_claimed": {"category": c.get("category", "proof"), "text": c["text"], "design_ref": c["design"]},
            "level_note": c["note"], "technique": c["technique"]})
    m = {"version": 1, "setup_cmd": "cd lean && lake build GrcVerif grcv",
      "hooks": {"guard": "GRCOMPILER_VERIF", "enable": "-DCMAKE_CXX_FLAGS=-DGRCOMPILER_VERIF -DCMAKE_C_FLAGS=-DGRCOMPILER_VERIF (done by tools/common.py build_repo on every check)",
        "baseline_off_cmd": "rm -rf /var/tmp/grcverif_off && cmake -G Ninja -S /repo -B /var/tmp/grcverif_off -DCMAKE_BUILD_TYPE=RelWithDebInfo -DCMAKE_CXX_FLAGS=-Wno-error && cmake --build /var/tmp/grcverif_off -j16 && ctest --test-dir /var/tmp/grcverif_off -j8 --timeout 900; rc=$?; rm -rf /var/tmp/grcverif_off; exit $rc",
        "source_commits": json.load(open(os.path.join(HERE, "hook_commits.json"))) if os.path.exists(os.path.join(HERE, "hook_commits.json")) else [],
        "add_only": True},
      "engines": [{"name": "lean4+grcv", "path": "lean/", "serves_properties": sorted(CHECKS), "kind_free_text": "Lean 4 library GrcVerif (models, specs, theorems) + compiled driver grcv; python harness tools/vcheck.py"}],
      "checks": checks, "notes": "See DESIGN.md. Every check rebuilds /repo's working tree (hash-keyed scratch build under /var/tmp/grcverif), rebuilds the Lean library, audits axioms, then runs the correspondence.",
      "not_applicable": [{"property_id": p["id"], "reason": NA.get(p["id"], "check not registered yet (work in progress; see DESIGN.md section 8)")} for p in props if p["id"] not in CHECKS]}
    json.dump(m, open(os.path.join(VERIF, "MANIFEST.json"), "w"), indent=1)
    try:
        import jsonschema
        jsonschema.validate(m, json.load(open("/root/.vp/MANIFEST.schema.json")))
    except ImportError:
        pass
    print("MANIFEST ok:", len(checks), "checks")
if __name__ == "__main__":
    main()
