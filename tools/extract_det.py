#!/usr/bin/env python3
"""T1 translator for C13: regenerate lean/GrcVerif/Generated/DetConsts.lean from /repo's current source.

Extracted on every run from compiler/*.h, *.hpp, *.cpp (LZ4 and the generated parser excluded):
  * every ordered container (std::map / std::set / multimap / multiset) whose key is a pointer (`T *`, or the typedef
    `Symbol` = GrcSymbolTableEntry*): the name it is declared under, its key type and its comparator ("default" =
    std::less on the pointer, i.e. the order of addresses);
  * which of the address-ordered ones are iterated (a `for` loop over `<name>::iterator`, or `.begin()` on a variable
    declared with the type directly);
  * the field SymbolCreationLess compares and whether the (only) constructor of GrcSymbolTableEntry initialises that
    field from a counter that it increments.
The Lean theorems in GrcVerif/DetGen.lean are stated about exactly these values and re-checked by `lake build`."""
import glob
import os
import re
import sys

HERE = os.path.dirname(os.path.abspath(__file__))
VERIF = os.path.dirname(HERE)
REPO = os.environ.get("VERIF_REPO", "/repo")
OUT = os.path.join(VERIF, "lean", "GrcVerif", "Generated", "DetConsts.lean")

from extract_tables import ExtractError, strip_comments  # noqa: E402

POINTER_TYPEDEFS = {"Symbol"}


def split_args(s):
    out, depth, cur = [], 0, ""
    for ch in s:
        if ch == "<":
            depth += 1
        elif ch == ">":
            depth -= 1
        if ch == "," and depth == 0:
            out.append(cur.strip())
            cur = ""
        else:
            cur += ch
    out.append(cur.strip())
    return out


def template_args(text, pos):
    """text[pos] == '<'; returns (inside, end index after the matching '>')."""
    depth = 0
    for j in range(pos, len(text)):
        if text[j] == "<":
            depth += 1
        elif text[j] == ">":
            depth -= 1
            if depth == 0:
                return text[pos + 1:j], j + 1
    raise ExtractError("unbalanced template brackets")


def sources():
    files = []
    for pat in ("*.h", "*.hpp", "*.cpp"):
        files += glob.glob(os.path.join(REPO, "compiler", pat))
    skip = ("GrpParser", "GrpLexer", "GrpParserTokenTypes")
    return sorted(f for f in files if not os.path.basename(f).startswith(skip))


def extract():
    texts = {f: strip_comments(open(f, encoding="latin-1").read()) for f in sources()}
    if not texts:
        raise ExtractError("no compiler sources found")
    conts = {}
    for f, t in texts.items():
        for m in re.finditer(r"\bstd::(map|set|multimap|multiset)\s*<", t):
            inside, end = template_args(t, m.end() - 1)
            args = split_args(inside)
            key = args[0]
            if not (key.endswith("*") or key in POINTER_TYPEDEFS):
                continue
            ncmp = 2 if m.group(1) in ("map", "multimap") else 1
            cmp_ = args[ncmp] if len(args) > ncmp else "default"
            # what is being declared?  `typedef std::map<..> Name;`  or  `std::map<..> name;`  (uses like ::iterator are skipped)
            before = t[max(0, m.start() - 20):m.start()]
            after = t[end:end + 80]
            ma = re.match(r"\s*(\w+)\s*;", after)
            if not ma:
                continue
            name = ma.group(1)
            is_typedef = bool(re.search(r"typedef\s*$", before))
            conts[name] = {"file": os.path.basename(f), "kind": m.group(1), "key": key.replace(" ", ""), "cmp": cmp_, "typedef": is_typedef}
    if not conts:
        raise ExtractError("no pointer-keyed ordered containers recognised (the source layout changed?)")
    alltext = "\n".join(texts.values())
    iterated = []
    for name, c in conts.items():
        if c["cmp"] != "default":
            continue
        if c["typedef"]:
            pat = r"for\s*\(\s*(?:\w+::)*%s::(?:const_)?iterator\s+\w+\s*=" % re.escape(name)
        else:
            pat = r"\b%s\s*(?:\.|->)\s*c?r?begin\s*\(" % re.escape(name)
        if re.search(pat, alltext):
            iterated.append(name)
    # SymbolCreationLess and the counter
    st = texts.get(os.path.join(REPO, "compiler", "GrcSymTable.h"))
    if st is None:
        raise ExtractError("GrcSymTable.h not found")
    field, counter_init = "", False
    m = re.search(r"class\s+SymbolCreationLess\s*\{.*?operator\s*\(\s*\)\s*\([^)]*\)\s*const\s*\{(.*?)\}", st, re.S)
    if m:
        mm = re.search(r"return\s*\(?\s*\w+\s*->\s*(\w+)\s*<\s*\w+\s*->\s*(\w+)\s*\)?\s*;", m.group(1))
        if mm and mm.group(1) == mm.group(2):
            field = mm.group(1)
    ctors = re.findall(r"\bGrcSymbolTableEntry\s*\([^)]*\)\s*:(.*?)\{", st, re.S)
    if field and len(ctors) == 1:
        mi = re.search(r"\b%s\s*\(\s*(\w+)\s*\+\+\s*\)" % re.escape(field), ctors[0])
        if mi:
            cnt = mi.group(1)
            # the counter must be a static of the class that nothing else writes
            writes = re.findall(r"\b%s\s*(?:\+\+|--|=[^=]|\+=|-=)" % re.escape(cnt), alltext)
            counter_init = bool(re.search(r"static\s+int\s+%s\s*;" % re.escape(cnt), st)) and len(writes) == 2  # the ++ and the definition `= 0`
    return conts, sorted(iterated), field, counter_init


def lean_str(s):
    return '"' + s.replace("\\", "\\\\").replace('"', '\\"') + '"'


def main():
    conts, iterated, field, counter_init = extract()
    lines = ["/- GENERATED by tools/extract_det.py from /repo/compiler on every run. Do not edit. -/", "namespace Grc.Gen", ""]
    lines.append("/-- (name, key type, comparator) of every ordered container keyed by a pointer. -/")
    lines.append("def pointerKeyed : List (String × String × String) := [")
    items = ["  (%s, %s, %s)" % (lean_str(n), lean_str(c["key"]), lean_str(c["cmp"])) for n, c in sorted(conts.items())]
    lines.append(",\n".join(items) + "]")
    lines.append("")
    lines.append("/-- Those ordered by address (default comparator) that some loop iterates. -/")
    lines.append("def iteratedAddressOrdered : List String := [%s]" % ", ".join(lean_str(n) for n in iterated))
    lines.append("")
    lines.append("def creationLessField : String := %s" % lean_str(field))
    lines.append("def creationCounterInit : Bool := %s" % ("true" if counter_init else "false"))
    lines += ["", "end Grc.Gen", ""]
    text = "\n".join(lines)
    old = open(OUT).read() if os.path.exists(OUT) else None
    if old != text:
        with open(OUT + ".tmp", "w") as f:
            f.write(text)
        os.replace(OUT + ".tmp", OUT)
    return {"containers": conts, "iterated_address_ordered": iterated, "creation_field": field, "counter_init": counter_init}


if __name__ == "__main__":
    try:
        print(main())
    except ExtractError as e:
        print("EXTRACT-ERROR", e)
        sys.exit(1)
