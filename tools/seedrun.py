#!/usr/bin/env python3
"""Run registered checks against a seeded change: git -C /repo apply <patch>; run; git -C /repo checkout -- .
usage: seedrun.py <seed-name> <check> [<check> ...] [--tier quick|thorough]
Evidence/replays go to evidence_mut/ replay_mut/ (VERIF_MUTANT=1). Result is merged into seeded/<name>/meta.json."""
import json, os, subprocess, sys, time
VERIF = os.path.dirname(os.path.dirname(os.path.abspath(__file__)))
def main():
    args = [a for a in sys.argv[1:] if not a.startswith("--")]
    tier = "quick"
    if "--tier" in sys.argv:
        tier = sys.argv[sys.argv.index("--tier") + 1]; args = [a for a in args if a != tier]
    name, checks = args[0], args[1:]
    sd = os.path.join(VERIF, "seeded", name)
    patch = os.path.join(sd, "patch.diff")
    st = subprocess.run(["git", "-C", "/repo", "status", "--porcelain", "--untracked-files=no"], capture_output=True, text=True).stdout.strip()
    if st:
        print("refusing: /repo has local modifications:\n" + st); sys.exit(2)
    subprocess.run(["git", "-C", "/repo", "apply", patch], check=True)
    res = {}
    try:
        for c in checks:
            t0 = time.time()
            r = subprocess.run(["python3", os.path.join(VERIF, "tools", "vcheck.py"), c, "--tier", tier], cwd=VERIF, capture_output=True, text=True,
                               env=dict(os.environ, VERIF_MUTANT="1"))
            lines = [l for l in r.stdout.split("\n") if l.startswith("VIOLATION") or l.startswith("KNOWN-FINDING")]
            viol = [l for l in lines if l.startswith("VIOLATION")]
            res[c] = {"exit": r.returncode, "violations": len(viol), "first": viol[:2], "no_failing_input_only": bool(viol) and all(l.endswith("no-failing-input-found") for l in viol),
                      "wall_s": round(time.time() - t0, 1), "tier": tier}
            print(c, "exit", r.returncode, "violations", len(viol), viol[:1], flush=True)
            if r.returncode not in (0, 1):
                print(r.stdout[-1500:], r.stderr[-1500:])
    finally:
        subprocess.run(["git", "-C", "/repo", "checkout", "--", "."], check=True)
    mp = os.path.join(sd, "meta.json")
    meta = json.load(open(mp)) if os.path.exists(mp) else {}
    meta.setdefault("checks_run", {}).update(res)
    meta["caught_by"] = sorted(c for c, v in meta["checks_run"].items() if v["violations"] > 0)
    json.dump(meta, open(mp, "w"), indent=1)
if __name__ == "__main__":
    main()
