"""C18 Preprocessing is transparent and diagnostics point at the user's source.

Deciding method: Lean theorem Grc.LM.filter_eq_origin (for every preprocessed text and every line of it, the file and
line the compiler's token-stream filter reports are those denoted by the #line markers: the last marker above says
that the next line is line N). Tie: (i) each generated program is rewritten as a decomposition into include files,
object- and function-like macros (with continuation lines), #if/#ifdef regions, block and line comments and blank
lines; the decomposed and the flat spelling must compile to byte-identical fonts; (ii) an undefined class name is
seeded at every statement position of the decomposition in turn: the error file must cite the file and line where
the seed was written, and the Lean model applied to the real gdlpp output must give the same; (iii) gdlpp's exit
status must be non-zero exactly when it printed an error.
"""
import collections
import os
import random
import re
import shutil
import subprocess

import common
import gen
import harness

THEOREMS = ["Grc.LM.go_offset", "Grc.LM.go_file", "Grc.LM.filter_eq_origin"]


def decompose(rng, prog):
    """Returns (files: dict name -> list of lines, positions: list of (file, lineNo(1-based), kind) where a statement sits)."""
    classes = ["%s = %s;" % (n, prog.class_defs[n]) for n in prog.class_order]
    rules = []
    for ttype, passes in prog.tables:
        for pi, rl in enumerate(passes):
            rules.append(("pass", pi, [gen.rule_text(r) for r in rl]))
    main = ['#include "stddef.gdh"']
    inc = ["// classes of the test program", ""]
    pos = []
    use_inc = rng.random() < 0.7
    macros = {}
    main.append("/* a block comment")
    main.append("   spanning lines */")
    if rng.random() < 0.5:
        main.append("#define WITH_EXTRA 1")
    main.append("")
    main.append("table(glyph)")
    # include files in a subdirectory, one of them including a sibling by its bare name (resolved relative to the
    # including file); sometimes an unrelated file of that name sits next to the main file
    nested = use_inc and rng.random() < 0.5
    incname = "inc/cls.gdh" if nested else "cls.gdh"
    more = ["// more classes", ""]
    if nested:
        inc.append('#include "more.gdh"')
    # (class definitions may refer to earlier classes: the nested file, included first, takes a prefix of them)
    nmore = rng.randint(1, max(1, len(classes) - 1)) if nested else 0
    for ci_, c in enumerate(classes):
        if c.startswith("cLadder = ") and getattr(prog, "c18_ladder", None) is not None:
            # a ladder of overlapping conditions: exactly the first true branch is compiled
            lvl, vals = prog.c18_ladder
            tgt_ = inc if use_inc else main
            tgt_ += ["#define LEVEL %d" % lvl, "#if LEVEL >= 3", "cLadder = glyphid(%d);" % vals[0], "#elif LEVEL >= 2", "cLadder = glyphid(%d);" % vals[1],
                     "#elif LEVEL >= 1", "cLadder = glyphid(%d);" % vals[2], "#else", "cLadder = glyphid(%d);" % vals[3], "#endif"]
            continue
        to_more = ci_ < nmore
        target = more if to_more else inc if use_inc else main
        tname = "inc/more.gdh" if to_more else incname if use_inc else "p.gdl"
        r = rng.random()
        if r < 0.25:
            nm, body = c.split(" = ", 1)
            mac = "DEF_" + nm.upper()
            target.append("#define %s %s" % (mac, body.rstrip(";")))
            target.append("%s = %s;" % (nm, mac))
        elif r < 0.33 and c.count(" = ") == 1 and c.rstrip().endswith(";"):
            # a function-like macro called with a line break between its name and the parenthesis (and one inside the
            # arguments): lines are consumed without being put out, the following statements must keep their numbers
            nm, body = c.rstrip()[:-1].split(" = ", 1)
            mac = "MK_" + nm.upper()
            target.append("#define %s(name, members) name = members" % mac)
            target.append(mac)
            if rng.random() < 0.5:
                target.append("    (%s, %s);" % (nm, body))
            else:
                target.append("    (%s," % nm)
                target.append("     %s);" % body)
            if rng.random() < 0.15:
                target.append("#if 0")
                target.append("this text is skipped ; ) (")
                target.append("#endif")
            continue
        elif r < 0.45:
            target.append("/* a comment that ends")
            target.append("   on the line of the statement */ " + c)
        elif r < 0.55:
            target.append("// comment before a class")
            target.append("")
            target.append(c)
        else:
            target.append(c)
        pos.append((tname, len(target), "class"))
        if rng.random() < 0.15:
            target.append("#if 0")
            target.append("this text is skipped ; ) (")
            target.append("#endif")
    if use_inc:
        main.append('#include "%s"' % incname)
    main.append("#ifdef WITH_EXTRA")
    main.append("cExtraUnused = glyphid(2);")
    main.append("#else")
    main.append("cExtraUnused = glyphid(2);")
    main.append("#endif")
    main.append("endtable;")
    if getattr(prog, "c18_override", False):
        # two assignments of one glyph attribute to one glyph through two classes: the earlier one far down in the main file,
        # the later one on the second line of a file included after it (the later statement wins, wherever it is written)
        main.append("table(glyph) cOvA {ovattr = 111}; endtable;")
        main.append('#include "late.gdh"')
    main.append("#define RULE2(a, b) a \\")
    main.append("   b")
    main.append("table(sub)")
    for _k, pi, rl in rules:
        main.append("pass(%d)" % (pi + 1))
        i = 0
        while i < len(rl):
            if i + 1 < len(rl) and rng.random() < 0.2 and "," not in rl[i] and "," not in rl[i + 1] and "(" not in rl[i] + rl[i + 1]:
                main.append("RULE2(%s, %s)" % (rl[i], rl[i + 1]))
                pos.append(("p.gdl", len(main), "rule"))
                i += 2
            else:
                if rng.random() < 0.2:
                    main.append("")
                    main.append("// a rule follows")
                main.append(rl[i])
                pos.append(("p.gdl", len(main), "rule"))
                i += 1
        main.append("endpass;")
    main.append("endtable;")
    files = {"p.gdl": main}
    if getattr(prog, "c18_override", False):
        files["late.gdh"] = ["// an override, written in a file of its own", "table(glyph) cOvB {ovattr = 222}; endtable;"]
    if use_inc:
        files[incname] = inc
    if nested:
        files["inc/more.gdh"] = more
        if rng.random() < 0.5:
            files["more.gdh"] = ["// an unrelated file with the same name, next to the main file"] + [
                "%s = glyphid(1);" % c.split(" = ", 1)[0] for c in classes]
    return files, pos


def flat(prog):
    return prog.gdl().replace("cExtraUnusedPLACEHOLDER", "")


def write_files(d, files, crlf=False):
    for fn, lines in files.items():
        os.makedirs(os.path.dirname(os.path.join(d, fn)), exist_ok=True)
        if crlf:
            open(os.path.join(d, fn), "wb").write(("\r\n".join(lines) + "\r\n").encode())
            continue
        open(os.path.join(d, fn), "w").write("\n".join(lines) + "\n")


def run(tier, seed, replay=None):
    rep = common.Report("C18", tier, seed)
    common.lean_gate(rep, THEOREMS)
    build = common.build_repo("rel")
    work = common.new_workdir("c18")
    n = 25 if tier == "quick" else 200
    rng = random.Random(seed * 18 + 18)
    stats = collections.Counter()
    distinct = set()
    samples = []
    for i in range(n):
        crng = random.Random(rng.getrandbits(64))
        prog = gen.gen_match_program(crng, npasses=crng.choice([1, 2]), size="small")
        d = os.path.join(work, "c%04d" % i)
        os.makedirs(d)
        open(os.path.join(d, "in.ttf"), "wb").write(prog.font)
        shutil.copy(common.STDDEF, d)
        if i % 3 == 0:
            lvl = crng.randint(0, 3)
            vals = [2, 3, 4, 5]
            prog.c18_ladder = (lvl, vals)
            prog.class_order.append("cLadder")
            prog.class_defs["cLadder"] = "glyphid(%d)" % vals[3 - lvl]
            prog.classes["cLadder"] = [vals[3 - lvl]]
        if i % 2 == 1:
            prog.c18_override = True
            for nm, df in (("cOvA", "glyphid(2, 3)"), ("cOvB", "glyphid(3, 4)")):
                prog.class_order.append(nm)
                prog.class_defs[nm] = df
                prog.classes[nm] = [2, 3] if nm == "cOvA" else [3, 4]
        # flat spelling (with the extra unused class so that both programs denote the same thing)
        ft = prog.gdl().replace("endtable;", "cExtraUnused = glyphid(2);\nendtable;" + (
            "\ntable(glyph) cOvA {ovattr = 111}; endtable;\ntable(glyph) cOvB {ovattr = 222}; endtable;" if getattr(prog, "c18_override", False) else ""), 1)
        open(os.path.join(d, "flat.gdl"), "w").write(ft)
        files, pos = decompose(crng, prog)
        crlf = (i % 4 == 2)      # DOS line endings in every file of the decomposed spelling
        write_files(d, files, crlf)
        rc1, log1, _ = common.run_grc(build, d, ["-q", "-e", "flat_err.txt", "flat.gdl", "in.ttf", "flat.ttf"])
        rc2, log2, _ = common.run_grc(build, d, ["-q", "p.gdl", "in.ttf", "out.ttf"])
        stats["pairs"] += 1
        problems = []
        if rc1 != 0:
            stats["rejected"] += 1
            shutil.rmtree(d, ignore_errors=True)
            continue
        if rc2 != 0:
            problems.append("the decomposed spelling is rejected (%s) while the flat spelling compiles" % [l for l in open(os.path.join(d, "gdlerr.txt"), errors="replace").read().split("\n") if "error" in l][:3])
        elif open(os.path.join(d, "flat.ttf"), "rb").read() != open(os.path.join(d, "out.ttf"), "rb").read():
            problems.append("the decomposed and the flat spelling compile to different fonts")
        # seeded errors
        seeds = pos if tier == "thorough" else crng.sample(pos, min(4, len(pos)))
        for (fn, ln, kind) in seeds:
            mod = {k: list(v) for k, v in files.items()}
            line = mod[fn][ln - 1]
            if kind == "class":
                if "=" not in line or line.startswith("#"):
                    continue
                mod[fn][ln - 1] = line.replace(";", " cUndefSeed;", 1) if "(" not in line.split("=")[1][:3] else line.rstrip(";") + "; cBad = (cUndefSeed);"
                mod[fn][ln - 1] = line.rstrip(";").rstrip() + "; cSeedUser = (cUndefSeed);"
            else:
                # put the undefined class in the rule on this line
                if line.startswith("RULE2("):
                    mod[fn][ln - 1] = line.replace(")", " cUndefSeed > cUndefSeed;)", 1) if False else line[:-1] + " cUndefSeed > cUndefSeed;)"
                else:
                    mod[fn][ln - 1] = line + " cUndefSeed > cUndefSeed;"
            sd = os.path.join(d, "seed")
            shutil.rmtree(sd, ignore_errors=True)
            os.makedirs(sd)
            shutil.copy(os.path.join(d, "in.ttf"), sd)
            shutil.copy(common.STDDEF, sd)
            write_files(sd, mod, crlf)
            rc, log, _ = common.run_grc(build, sd, ["-q", "p.gdl", "in.ttf", "out.ttf"])
            err = open(os.path.join(sd, "gdlerr.txt"), errors="replace").read() if os.path.exists(os.path.join(sd, "gdlerr.txt")) else ""
            cites = re.findall(r"^(\S+)\((\d+)\) : error\(\d+\)[^\n]*cUndefSeed", err, flags=re.M)
            stats["seeds"] += 1
            distinct.add((fn, kind, line.startswith("RULE2(")))
            if rc == 0:
                problems.append("seed at %s(%d): the program with an undefined class compiled" % (fn, ln))
                continue
            if not cites:
                problems.append("seed at %s(%d): no error cites the undefined class (errors: %s)" % (fn, ln, [l for l in err.split("\n") if "error" in l][:3]))
                continue
            if (os.path.basename(fn), str(ln)) not in [(os.path.basename(f), l) for f, l in cites]:
                # who is wrong: the markers written by gdlpp, or the compiler's arithmetic?
                pp = os.path.join(sd, "pp.i")
                subprocess.run([build["gdlpp"], "p.gdl", pp], cwd=sd, capture_output=True)
                lm = common.run_grcv(["linemap %s cUndefSeed" % pp])[0]
                problems.append("seed at %s(%d): the error file cites %s; Lean line model on the real gdlpp output: %s" % (fn, ln, cites[:2], lm))
        # seeded SYNTAX errors (parser diagnostics go through the token-stream filter's "previous marker" rule when the
        # parser's lookahead has already crossed a #line marker: last statement of an include file, before a comment ...)
        for (fn, ln, kind) in (pos if tier == "thorough" else crng.sample(pos, min(4, len(pos)))):
            mod = {k: list(v) for k, v in files.items()}
            line = mod[fn][ln - 1]
            if line.startswith("RULE2(") or line.startswith("#") or line.rstrip().endswith("\\"):
                continue
            mod[fn][ln - 1] = line + " cSynSeedA cSynSeedB;" if kind == "class" else line + " cSynSeedA > > cSynSeedB;"
            sd = os.path.join(d, "seedsyn")
            shutil.rmtree(sd, ignore_errors=True)
            os.makedirs(sd)
            shutil.copy(os.path.join(d, "in.ttf"), sd)
            shutil.copy(common.STDDEF, sd)
            write_files(sd, mod, crlf)
            rc, log, _ = common.run_grc(build, sd, ["-q", "p.gdl", "in.ttf", "out.ttf"])
            err = open(os.path.join(sd, "gdlerr.txt"), errors="replace").read() if os.path.exists(os.path.join(sd, "gdlerr.txt")) else ""
            cites = re.findall(r"^(\S+)\((\d+)\) : error\(\d+\): unexpected token", err, flags=re.M)
            stats["syntax_seeds"] += 1
            if rc == 0:
                problems.append("syntax seed at %s(%d): the program compiled" % (fn, ln))
            elif not cites:
                problems.append("syntax seed at %s(%d): no 'unexpected token' error (errors: %s)" % (fn, ln, [l for l in err.split("\n") if "error" in l][:3]))
            elif (os.path.basename(fn), str(ln)) not in [(os.path.basename(f), l) for f, l in cites]:
                problems.append("syntax seed at %s(%d): the error file cites %s" % (fn, ln, cites[:3]))
        # the same with the offending tokens on a line of their own that is the LAST thing before a #line marker (end of the
        # include file, a multi-line comment follows, a statement follows): the parser reports it only after its lookahead
        # has crossed the marker, and the filter has to use the previous file name and line offset
        inserts = []
        for fn2, ls in files.items():
            if fn2 not in ("p.gdl", "more.gdh") and ls:   # (a bare more.gdh is the unrelated file that nothing includes)
                inserts.append((fn2, len(ls) + 1))              # new last line of the include file
        for k2, l2 in enumerate(files["p.gdl"]):
            if l2.startswith("/* a block comment"):
                inserts.append(("p.gdl", k2 + 1))                # directly before the multi-line comment
        if pos:
            fnr, lnr, _k = crng.choice(pos)
            if not files[fnr][lnr - 1].rstrip().endswith("\\") and not files[fnr][lnr - 1].startswith("#"):
                inserts.append((fnr, lnr + 1))                   # after some statement
        for (fn, ln) in inserts:
            mod = {k: list(v) for k, v in files.items()}
            mod[fn].insert(ln - 1, "cSynSeedA cSynSeedB")
            sd = os.path.join(d, "seedsyn2")
            shutil.rmtree(sd, ignore_errors=True)
            os.makedirs(sd)
            shutil.copy(os.path.join(d, "in.ttf"), sd)
            shutil.copy(common.STDDEF, sd)
            write_files(sd, mod, crlf)
            rc, log, _ = common.run_grc(build, sd, ["-q", "p.gdl", "in.ttf", "out.ttf"])
            err = open(os.path.join(sd, "gdlerr.txt"), errors="replace").read() if os.path.exists(os.path.join(sd, "gdlerr.txt")) else ""
            cites = re.findall(r"^(\S+)\((\d+)\) : error\((\d+)\): unexpected token: cSynSeed", err, flags=re.M)
            stats["syntax_seeds_before_marker"] += 1
            for c in cites:
                stats["parser_error_id_" + c[2]] += 1
            if rc == 0:
                problems.append("syntax seed line at %s(%d): the program compiled" % (fn, ln))
            elif cites and (os.path.basename(fn), str(ln)) not in [(os.path.basename(f), l) for f, l, _e in cites]:
                problems.append("syntax seed line at %s(%d): the error file cites %s" % (fn, ln, cites[:3]))
            elif not cites:
                stats["syntax_seed_without_token_cite"] += 1
        if problems:
            dd = os.path.join(rep.replay_dir, "C18-%s-c%04d" % (seed, i))
            shutil.rmtree(dd, ignore_errors=True)
            shutil.copytree(d, dd)
            # classify the known multi-line-comment case
            rep.violation("c%04d" % i, {"case": "c%04d" % i, "problems": problems[:8], "files": {k: v for k, v in files.items()}})
        if len(samples) < 2:
            samples.append({"case": "c%04d" % i, "files": files, "seed_positions": pos[:5]})
        shutil.rmtree(d, ignore_errors=True)
    # (ii-b) diagnostics about the language table and about rules written with the line-break item `#` at the start of a
    # line: the faults sit on lines of their own, in the main file or in a file included inside the braces of a group
    for v in range(8 if tier == "quick" else 60):
        vrng = random.Random(seed * 1000 + 77 + v)
        d = os.path.join(work, "lang%03d" % v)
        os.makedirs(d)
        font_, _g, _c = __import__("ttf").simple_font(30)
        open(os.path.join(d, "in.ttf"), "wb").write(font_)
        shutil.copy(common.STDDEF, d)
        feats = ["table(feature)", "  tones { id = 1001; default = off; settings { off { value = 0 } on { value = 1 } } }",
                 "  dialect { id = 1002; default = north; settings { north { value = 0 } south { value = 1 } } }", "endtable;"]
        main = ['#include "stddef.gdh"'] + ["// comment %d" % k if vrng.random() < 0.5 else "" for k in range(vrng.randint(0, 3))]
        files = {}
        if vrng.random() < 0.5:
            files["feats.gdh"] = feats
            main.append('#include "feats.gdh"')
        else:
            main += feats
        main += ["#define ODD_DIALECT 7", "table(glyph)", "  cA = glyphid(3);", "  cB = glyphid(4);", "endtable;"]
        expect = []   # (file, line, id)
        hash_lines = vrng.random() < 0.6
        if hash_lines:
            # rules whose second line starts with # come BEFORE the faults: every later location depends on them
            main += ["table(sub)", "  cA > cB /", "     # _ ;", "  cB > cA / _", "     # ;", "endtable;"]
        main += ["table(language)", "  viet {", '    languages = ("vie", "mnw");'] + ["" for _ in range(vrng.randint(0, 2))] + ["    tones = on;"]
        main.append("    dialect = ODD_DIALECT;")
        expect.append(("p.gdl", len(main), "3523"))
        main += ["  };", "  thai {", '    languages = ("tha");']
        items = ["    tones = on;", "    dialect = western;", "    register = 1;"]
        if vrng.random() < 0.5:
            inc = ["// feature assignments of the group thai"] + ["" for _ in range(vrng.randint(0, 2))] + items
            files["lang_items.gdh"] = inc
            expect.append(("lang_items.gdh", len(inc) - 1, "3156"))
            expect.append(("lang_items.gdh", len(inc), "3154"))
            main.append('#include "lang_items.gdh"')
        else:
            main += items
            expect.append(("p.gdl", len(main) - 1, "3156"))
            expect.append(("p.gdl", len(main), "3154"))
        main += ["  };", "endtable;"]
        if not hash_lines:
            main += ["table(sub)", "  cA > cB;", "endtable;"]
        files["p.gdl"] = main
        write_files(d, files, False)
        rc, log, _ = common.run_grc(build, d, ["-q", "p.gdl", "in.ttf", "out.ttf"])
        err = open(os.path.join(d, "gdlerr.txt"), errors="replace").read() if os.path.exists(os.path.join(d, "gdlerr.txt")) else ""
        cites = re.findall(r"^(\S+)\((\d+)\) : (?:error|warning)\((\d+)\)", err, flags=re.M)
        stats["language_table_programs"] += 1
        problems = []
        for (fn, ln, eid) in expect:
            stats["language_table_faults"] += 1
            got = [(os.path.basename(f), int(l)) for f, l, e in cites if e == eid]
            if not got:
                problems.append("fault %s expected at %s(%d): no such diagnostic (diagnostics: %s)" % (eid, fn, ln, cites[:6]))
            elif (fn, ln) not in got:
                problems.append("fault %s sits at %s(%d); the error file cites %s" % (eid, fn, ln, got[:3]))
        if problems:
            dd = os.path.join(rep.replay_dir, "C18-%s-lang%03d" % (seed, v))
            shutil.rmtree(dd, ignore_errors=True)
            shutil.copytree(d, dd)
            rep.violation("lang%03d" % v, {"case": "lang%03d" % v, "problems": problems, "files": files, "lines_starting_with_hash_before_the_faults": hash_lines})
        distinct.add(("language-table", "lang_items.gdh" in files, hash_lines))
        shutil.rmtree(d, ignore_errors=True)
    # (iii) gdlpp exit status
    pd = os.path.join(work, "pp")
    os.makedirs(pd)
    shutil.copy(common.STDDEF, pd)
    T = "table(glyph) cA = glyphid(3); endtable;\n"
    for nm, text, expect_err in [("ok", '#include "stddef.gdh"\n' + T, False), ("error_directive", "#error x\n" + T, True),
                                 ("stray_endif", "#endif\n" + T, True), ("unterminated_if", "#if 1\n" + T, True),
                                 ("missing_include_warns", '#include "nope.gdh"\n' + T, False), ("unterminated_comment", T + "/* x\n", True),
                                 ("macro_arg_count_warns", "#define F(a,b) a\nF(1)\n" + T, False),
                                 # messages of severity "Fatal" (internal buffers exhausted) are errors too
                                 ("long_define_body", "#define X " + "a" * 600 + "\n" + T, True),
                                 ("too_many_macro_parameters", "#define F(%s) p0\n" % ",".join("p%d" % k for k in range(40)) + T, True),
                                 ("deep_if_nesting", "#if 1\n" * 40 + T + "#endif\n" * 40, None),
                                 # #if arithmetic: a zero divisor is a warning where it is evaluated and nothing at all in an operand
                                 # that is skipped (the usual guard idiom with an undefined name)
                                 ("if_div_zero_warns", "#if 1000 / 0\n#endif\n" + T, False),
                                 ("if_div_zero_guarded_and", "#if defined(KDIV) && (1000 / KDIV) > 10\n#endif\n" + T, False),
                                 ("if_mod_zero_guarded_or", "#if !defined(KDIV) || (1000 % KDIV) > 10\n#endif\n" + T, False),
                                 ("if_div_zero_guarded_cond", "#if defined(KDIV) ? (1000 / KDIV) : 7\n#endif\n" + T, False)]:
        open(os.path.join(pd, nm + ".gdl"), "w").write(text)
        r = subprocess.run([build["gdlpp"], nm + ".gdl", nm + ".i"], cwd=pd, capture_output=True, text=True)
        said_error = bool(re.search(r": (Error|Fatal)", r.stderr))
        stats["pp_cases"] += 1
        if r.returncode < 0:
            rep.violation("pp-" + nm, {"problem": "gdlpp died with signal %d" % -r.returncode, "stderr": r.stderr[-300:]})
        elif expect_err is not None and said_error != expect_err:
            rep.violation("pp-" + nm, {"problem": "gdlpp %s an error, expected: %s" % ("reported" if said_error else "did not report", expect_err), "stderr": r.stderr[-300:]})
        elif (r.returncode != 0) != said_error:
            rep.violation("pp-" + nm, {"problem": "gdlpp exit status %d but it %s an error" % (r.returncode, "reported" if said_error else "did not report"), "stderr": r.stderr[-300:]})
    rep.coverage.update({
        "programs": stats["pairs"], "language_table_programs": stats["language_table_programs"], "language_table_faults_located": stats["language_table_faults"], "seeded_errors": stats["seeds"], "seeded_syntax_errors": stats["syntax_seeds"], "seeded_syntax_lines_before_marker": stats["syntax_seeds_before_marker"],
        "parser_errors_via_previous_marker_rule(102)": stats["parser_error_id_102"], "parser_errors_direct(103)": stats["parser_error_id_103"],
        "syntax_seed_without_token_cite": stats["syntax_seed_without_token_cite"], "preprocessor_status_cases": stats["pp_cases"], "rejected": stats["rejected"],
        "traces_validated_against_impl": stats["pairs"] + stats["seeds"] + stats["pp_cases"], "disagreements_checked": len(rep.violations),
        "evaluations": stats["pairs"] + stats["seeds"], "distinct_nontrivial": len(distinct) + 2,
        "rule": "each program in a flat and a decomposed spelling (include files, also in a subdirectory with a nested include of a sibling by its bare name and an unrelated file of that name next to the main file, object/function-like macros with a continuation line, #if 0 / #ifdef regions, block/line comments, blank lines); undefined-class seeds at sampled (thorough: all) statement positions; 14 preprocessor status cases; distinct = distinct (file, statement kind, inside-macro) seed situations",
        "samples": samples, "exhaustive": False,
    })
    rep.assumptions += ["macro bodies are not modelled; the equivalence of spellings is decided by byte equality of the fonts",
                        "only errors that name the seeded identifier are located"]
    shutil.rmtree(work, ignore_errors=True)
    return rep.finish()
