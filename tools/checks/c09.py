"""C09 Exit status, diagnostics and the output file always agree.

Deciding method: Lean model Grc.MainSM.run of the driver's stage machine with theorems exit_zero_iff_no_error,
exit_le_one, success_font_complete, failure_leaves_no_font, no_output_before_checks, errors_reach_errfile (all
scenarios, by proof). Tie: for every scenario (each stage failing, each environment fault) the real compiler is run
under strace; exit status, the ordered file-system operations, the error file and the state of the output path must
equal the model's prediction. Options that only select/suppress diagnostics must not change exit status or font bytes.
"""
import collections
import hashlib
import os
import shutil

import common
import procscn

THEOREMS = ["Grc.MainSM.exitOf_zero_iff", "Grc.MainSM.exit_zero_iff_no_error", "Grc.MainSM.exit_le_one",
            "Grc.MainSM.success_font_complete", "Grc.MainSM.failure_leaves_no_font",
            "Grc.MainSM.no_output_before_checks", "Grc.MainSM.errors_reach_errfile",
            "Grc.MainSM.fsm_failure_touches_nothing"]
WR = {"createTmp", "execPP", "unlinkTmp", "writeDebugFiles", "writeDebugXml", "truncOut", "removeOut", "writeErrFile"}


def run(tier, seed, replay=None):
    rep = common.Report("C09", tier, seed)
    common.lean_gate(rep, THEOREMS)
    build = common.build_repo("rel")
    work = common.new_workdir("c09")
    stats = collections.Counter()
    samples = []
    distinct = set()
    ok_fonts = {}
    old_font = b"PREVIOUS CONTENT OF THE OUTPUT PATH" * 10
    for name, scn, setup in procscn.scenarios():
        for pre in ([None, old_font] if tier == "thorough" or name in ("ok", "name_overflow", "syntax_error", "out_dir_missing") else [None]):
            r = procscn.run_scenario(build, work, name, setup, pre_existing_out=pre)
            m = procscn.model(scn)
            mops = [o for o in m["ops"] if o in WR]
            stats["scenarios"] += 1
            distinct.add((name, tuple(r["ops"])))
            problems = []
            if r["rc"] != m["exit"]:
                problems.append("exit status %s, model says %s" % (r["rc"], m["exit"]))
            if r["ops"] != mops:
                problems.append("file-system operations %s, model says %s" % (r["ops"], mops))
            has_err = "error(" in r["errtext"]
            if scn["errFileOpens"]:
                if (m["errors"] > 0) != has_err:
                    problems.append("error file %s an error but the model counts %d errors" % ("names" if has_err else "does not name", m["errors"]))
                if r["rc"] == 1 and not has_err:
                    problems.append("exit status 1 but the error file names no error")
                if r["rc"] == 0 and has_err:
                    problems.append("exit status 0 but the error file names an error")
            outp = os.path.join(r["dir"], r["out"])
            is_file = os.path.isfile(outp) and not os.path.islink(outp)
            if scn["sameInOut"]:
                pass   # the output path IS the input font; covered by C19 (input intact)
            elif m["complete"]:
                lines = common.run_grcv(["infont %s/in.ttf" % r["dir"], "font %s" % outp, "c08"])
                if not any(l.startswith("ok tables") for l in lines):
                    problems.append("exit 0 but the output font is not complete/valid: %s" % lines[:4])
                else:
                    # (fonts are compared within one program AND one input font)
                    ok_fonts.setdefault((setup.get("gdl", "GOOD"), bool(setup.get("font_recompiled"))), {})[name] = hashlib.sha256(open(outp, "rb").read()).hexdigest()
            elif r["rc"] != 0:
                # failure: the output path keeps its previous content or does not exist -- never a partial file.
                if is_file:
                    content = open(outp, "rb").read()
                    if pre is not None and content == pre:
                        pass
                    elif "truncOut" not in mops and pre is None:
                        problems.append("a file appeared at the output path although the output stage never ran")
                    else:
                        problems.append("failure left a file of %d bytes at the output path (previous content %s)" % (len(content), "lost" if pre is not None else "none"))
            if problems:
                d = os.path.join(rep.replay_dir, "C09-%s-%s" % (seed, name))
                shutil.rmtree(d, ignore_errors=True)
                shutil.copytree(r["dir"], d, symlinks=True)
                rep.violation(name, {"scenario": name, "scenario_fields": scn, "argv": r["args"], "problems": problems,
                                     "stdout": r["stdout"][-600:], "error_file_tail": r["errtext"][-600:],
                                     "rerun": "cd %s && GDLPP=%s strace -f -e trace=openat,unlink,execve %s %s" % (d, setup.get("gdlpp", build["gdlpp"]), build["grcompiler"], " ".join(r["args"]))})
            if len(samples) < 4:
                samples.append({"scenario": name, "argv": r["args"], "exit": r["rc"], "ops": r["ops"], "model_ops": mops})
            shutil.rmtree(r["dir"], ignore_errors=True)
    # diagnostics-only options never change the font bytes
    for gdl, fonts in ok_fonts.items():
        if len(set(fonts.values())) > 1:
            groups = collections.defaultdict(list)
            for k, v in fonts.items():
                groups[v].append(k)
            rep.violation("diag-options", {"problem": "fonts compiled from the same program differ between option sets that only select/suppress diagnostics or debug output",
                                           "groups": list(groups.values())})
    # a write that fails part-way through the font (file-size limit) at many positions, also inside the last tables, after
    # which the directory and head are still rewritten in place: exit 1, error 135, no font (model: outWrites = false)
    size, sweep = procscn.write_fault_sweep(build, work, None if tier == "thorough" else None)
    want = procscn.model(dict(procscn.base_scn(), outWrites=0))
    for lim, rc, exists, e135, changed in sweep:
        stats["write_fault_positions"] += 1
        if rc != want["exit"] or exists or not e135 or changed:
            rep.violation("write-fault-%d" % lim, {
                "problem": "output of %d bytes, writes failing beyond byte %d: exit status %s (model %s), output font %s, error 135 %s, other files changed: %s"
                           % (size, lim, rc, want["exit"], "left behind" if exists else "absent", "reported" if e135 else "NOT reported", changed),
                "rerun": "python3 -c \"import resource,signal,subprocess; ...\"  (RLIMIT_FSIZE=%d, SIGXFSZ ignored) grcompiler -q p.gdl in.ttf out.ttf" % lim})
    rep.coverage.update({
        "write_fault_positions": stats["write_fault_positions"],
        "programs": stats["scenarios"], "traces_validated_against_impl": stats["scenarios"],
        "disagreements_checked": len(rep.violations), "evaluations": stats["scenarios"], "distinct_nontrivial": len(distinct),
        "states": 2 ** 15, "transitions": stats["scenarios"],
        "rule": "one scenario per failing stage / environment fault / diagnostic option (see tools/procscn.py), each run on the real binary under strace with and without a pre-existing file at the output path; distinct = distinct (scenario, observed operation sequence)",
        "samples": samples, "exhaustive": False,
    })
    rep.assumptions += ["the mapping scenario -> stage flags (tools/procscn.py) is by construction of the inputs; a wrong mapping shows up as a disagreement",
                        "kernel behaviour for failed opens/writes is observed, not modelled; write failures in the middle of the font (disk full) are exercised only through the size-limit probe in C19",
                        "an unwritable error file is itself reported as an error (exit 1) while the font stays: excluded from failure_leaves_no_font by hypothesis"]
    shutil.rmtree(work, ignore_errors=True)
    return rep.finish()
