"""C12 Format limits are diagnosed, never silently wrapped.

Deciding method: Lean theorem Grc.Lim.guarded_no_wrap (for every size limit the compiler enforces -- constants
regenerated from constants.h on every run -- every accepted quantity is below 2^width of the field that stores it).
Tie: program families parameterised by size (passes, rule slots, leading-context length, features, user slot
attributes, glyph attributes, font-name length, constraint code length, action block size, replacement classes under
-v2) are compiled at limit-1, limit, limit+1 and far above; each outcome must be either an error naming the limit and
no font, or a font that passes the strict decoders, is accepted by libgraphite2 and stores the true, un-wrapped value.
"""
import collections
import json
import os
import shutil

import common
import gen
import gr2
import harness
import ttf

THEOREMS = ["Grc.Lim.guarded_no_wrap", "Grc.Writes.classified_fit", "Grc.Writes.rows_distinct", "Grc.Writes.guarded_value_unchanged",
            "Grc.WritesGen.every_write_classified", "Grc.WritesGen.census_as_classified"]
HDR = '#include "stddef.gdh"\n'
GT = "table(glyph) cA = glyphid(3..6); cB = glyphid(7..10); cS = glyphid(11); endtable;\n"


def fam_passes(q):
    body = "".join("pass(%d) cA > cB; endpass;\n" % (i + 1) for i in range(q))
    return HDR + GT + "table(sub)\n" + body + "endtable;\n", [], lambda s, g: s["numPasses"], q


def fam_slots(q):
    return HDR + GT + "table(sub) pass(1) %s > %s cS; endpass; endtable;\n" % (" ".join(["cA"] * q), " ".join(["cA"] * (q - 1))), [], \
        lambda s, g: s["passes"][0]["ruleSortKeys"][0], q


def fam_precontext(q):
    return HDR + GT + "table(sub) pass(1) cA > cS / %s _; cB > cS; endpass; endtable;\n" % " ".join(["cB"] * q), [], \
        lambda s, g: s["passes"][0]["maxRulePreContext"], q


def fam_padded_slots(q):
    """a rule of q items without leading context in a pass where another rule has 20 items of leading context: the
    compiler prepends 20 ANY items, the rule occupies q + 20 slots (limit 64 on the padded rule)"""
    return HDR + GT + "table(sub) pass(1) %s > %s cS; cB > cS / %s _; endpass; endtable;\n" % (
        " ".join(["cA"] * q), " ".join(["cA"] * (q - 1)), " ".join(["cB"] * 20)), [], \
        lambda s, g: (s["passes"][0]["ruleSortKeys"][0], s["passes"][0]["rulePreContext"][0]), ((q, 0) if q + 20 <= 64 else "MUST-REJECT")


def fam_xlb_context(q):
    """q items before the line-break item # in a positioning rule, after a substitution pass whose longest rule has 10
    items: the header's one-byte cross-line-boundary context is the product, or 255 (= unlimited) when that does not fit"""
    return (HDR + GT + "table(sub) cA > cB / %s _; endtable;\ntable(pos) cS {shift.x = 5m} / %s # _ cB; endtable;\n" % (" ".join(["cS"] * 9), " ".join(["cA"] * q))), [], \
        lambda s, g: (s["maxPreContext"], s["maxPostContext"]), (min(255, q * 10), min(255, 20))


def fam_script_tags(q):
    tags = ", ".join('"%s"' % ("t%03d" % i) for i in range(q))
    return HDR.replace("\n", "\nScriptTags = (%s);\n" % tags, 1) + GT + "table(sub) cA > cB; endtable;\n", [], \
        lambda s, g: len(s["scriptTags"]), q


def fam_justify_attr_ids(q):
    """q ligature components (5 glyph attributes each) are numbered before the justification attributes, whose ids the
    Silf header stores in one byte each: the id in the header must be the id the value is stored under in Glat"""
    comps = "; ".join("component.c%d = box(0, 0, %dm, 10m)" % (i, i + 1) for i in range(q))
    return (HDR + "table(glyph) cL = glyphid(11) {%s}; cA = glyphid(3..6) {justify.stretch = 777m; justify.shrink = 555m; justify.step = 333m; justify.weight = 57}; cB = glyphid(7..10); endtable;\n"
            "table(sub) cA > cB; endtable;\n" % comps), ["NOENGINE"], \
        lambda s, g: [[a for a, v in g["glat"]["glyphs"][3]["attrs"] if v == want] for want in (777, 555, 333, 57)] == [[x] for x in s["jAttrs"][0][:4]], True


def fam_lig_components_per_glyph(q):
    """q ligature components on ONE glyph: the Silf header stores the largest number of components of a ligature in one
    byte (maxCompPerLig)"""
    comps = "; ".join("component.c%d = box(0, 0, %dm, 10m)" % (i, i + 1) for i in range(q))
    return (HDR + "table(glyph) cL = glyphid(11) {%s}; cA = glyphid(3..6); cB = glyphid(7..10); endtable;\n"
            "table(sub) cA > cB; endtable;\n" % comps), ["NOENGINE"], lambda s, g: s["maxCompPerLig"], q


def fam_fsm_states(q):
    """q rules of 52 (q <= 1500) or 60 items: about q*length/2 states in the pass's state machine, whose count and state
    numbers are 16-bit fields of the pass block (1500 x 52: 63866 states; 1600 x 60: 80737)"""
    import random as _r
    import gen as _gen
    prog = _gen.gen_big_fsm_program(_r.Random(12), q, 52 if q <= 1500 else 60)
    return prog.gdl(), [], None, (None if q <= 1500 else "MUST-REJECT")


def fam_max_rule_loop(q):
    return HDR + GT + "table(sub) pass(1) {MaxRuleLoop = %d} cA > cB; endpass; endtable;\n" % q, [], lambda s, g: s["passes"][0]["maxRuleLoop"], q


def fam_max_backup(q):
    return HDR + GT + "table(sub) pass(1) {MaxBackup = %d} cA > cB; endpass; endtable;\n" % q, [], lambda s, g: s["passes"][0]["maxBackup"], q


def fam_extra_ascent(q):
    return HDR + "ExtraAscent = %dm; ExtraDescent = %dm;\n" % (q, q // 2) + GT + "table(sub) cA > cB; endtable;\n", [], \
        lambda s, g: (s["extraAscent"] % 65536, s["extraDescent"] % 65536), (q, q // 2)     # (the decoder reads them as signed)


def fam_feature_setting_value(q):
    """a feature setting with value q (16 bits in Feat and Sill) that a rule tests"""
    feat = ('table(feature) f1 { id = 100; name.1033 = string("F"); settings { a { value = 0; name.1033 = string("a"); } '
            'b { value = %d; name.1033 = string("b"); } } default = a; } endtable;\n' % q)
    return HDR + GT + feat + "table(sub) if (f1 == b) cA > cB; endif; endtable;\n", [], \
        lambda s, g: sorted(v[0] % 65536 for ft in s["_feat"]["feats"] if ft["id"] == 100 for v in ft["settings"]), sorted([0, q % 65536] if -32768 <= q <= 65535 else [-1])


def fam_sill_bytes(q):
    """q languages each setting 60 features: the Sill table (12 + 8 per language + 8 + 8 per setting bytes) addresses the
    settings of a language by 16-bit offsets"""
    import string
    nf = 60
    feats = "".join('f%d { id = %d; name.1033 = string("F%d"); settings { a%d { value = 0; name.1033 = string("x"); } b%d { value = 1; name.1033 = string("y"); } } default = a%d; }\n'
                    % (i, 100 + i, i, i, i, i) for i in range(nf))
    codes = [a + b for a in string.ascii_lowercase for b in string.ascii_lowercase][:q]
    langs = "".join('l%d { languages = ("%s"); %s };\n' % (j, codes[j], "; ".join("f%d = b%d" % (i, i) for i in range(nf))) for j in range(q))
    return HDR + GT + "table(feature)\n" + feats + "endtable;\ntable(language)\n" + langs + "endtable;\ntable(sub) cA > cB; endtable;\n", ["NOENGINE"], None, None


def fam_feature_hidden_id(q):
    """a feature whose main id is small and whose hidden alternate id is q: ids above 0xFFFF need the 32-bit id field of
    Feat version 2"""
    feat = ('table(feature) f1 { id = 1001; id.hidden = %d; name.1033 = string("F"); settings { a { value = 0; name.1033 = string("a"); } '
            'b { value = 1; name.1033 = string("b"); } } default = a; } endtable;\n' % q)
    return HDR + GT + feat + "table(sub) if (f1 == b) cA > cB; endif; endtable;\n", [], \
        lambda s, g: sorted(ft["id"] for ft in s["_feat"]["feats"] if ft["id"] != 1), sorted([1001, q])


def fam_rule_map_entries(q):
    """q rules with one and the same pattern of ten two-glyph items, plus ten rules that tell the two glyphs apart at each
    position: 1024 success states, each of which lists the q rules (and some of the ten): the offsets into that list
    are 16-bit fields of the pass block (58 rules: 64512 entries; 60: 66560)"""
    L = 10
    g = "table(glyph) cAB = glyphid(3, 4); cA = glyphid(3); cX = glyphid(7); endtable;\n"
    rules = []
    for k in range(L):
        items = ["cAB"] * L
        items[k] = "cA"
        rules.append("%s > cX / _ %s;" % (items[0], " ".join(items[1:])))
    for j in range(q):
        rules.append("cAB {user1 = %d} / _ {user1 == %d} %s;" % (j, j, " ".join(["cAB"] * (L - 1))))
    return HDR + g + "table(sub) pass(1)\n" + "\n".join(rules) + "\nendpass; endtable;\n", [], None, (None if q <= 58 else "MUST-REJECT")


def fam_gattr_id_in_rule_action(q, opts=()):
    """q glyph attributes; a rule ACTION reads the last one (its id is above 255 from q = 252 on: the rule code then needs the
    two-byte attribute operand, whatever Silf version the options leave)"""
    # (attribute ids follow the names in alphabetical order: zero-padded names keep the last one on the highest id)
    attrs = "; ".join("ga%03d = %d" % (i, 1000 + i) for i in range(q))
    # (Bidi = false: without the mirroring attributes nothing else asks for a later version of the rule code)
    gdl = (HDR + ("Bidi = false;\n" if q % 2 == 0 else "") + "table(glyph) cAll = glyphid(2..12) {%s}; cA = glyphid(3..6); cB = glyphid(7..10); endtable;\n"
           "table(sub) cA > cB {user1 = ga%03d; user2 = @1.ga%03d}; endtable;\n" % (attrs, q - 1, q - 2))

    def chk(s, g, face):
        r = face.shape([0x62], user_attrs=2)
        got = r[0]["user"] if r else None
        return None if got == [1000 + q - 1, 1000 + q - 2] else "accepted, but the rule action reads glyph attributes %s where the program says %s (attribute number cut to one byte?)" % (got, [1000 + q - 1, 1000 + q - 2])
    return gdl, list(opts), chk, "ENGINE"


def fam_features(q):
    feats = "".join('f%d { id = %d; name.1033 = string("F%d"); settings { a%d { value = 0; name.1033 = string("x"); } } default = a%d; }\n' % (i, 100 + i, i, i, i) for i in range(q))
    return HDR + GT + "table(feature)\n" + feats + "endtable;\ntable(sub) cA > cB; endtable;\n", [], None, q


def fam_userattr(q):
    return HDR + GT + "table(sub) cA > cB {user%d = 1}; endtable;\n" % q, [], lambda s, g: s["numUserDefn"], q


def fam_gattrs(q):
    attrs = "; ".join("ga%d = %d" % (i, i + 1) for i in range(q))
    return HDR + "table(glyph) cA = glyphid(3..6) {%s}; cB = glyphid(7..10); endtable;\ntable(sub) cA > cB; endtable;\n" % attrs, [], \
        lambda s, g: sum(1 for a, v in g["glat"]["glyphs"][3]["attrs"] if 1 <= v <= q and a > 3), q


def fam_gattr_count(q):
    """q user glyph attributes + the 4 the compiler always adds: the count is stored in 16 bits (Gloc numAttribs), the
    declared maximum is 65535 attributes in all. Written in statements of 1000 (one huge list is the C11 known finding).
    libgraphite2 has a much lower limit of its own, so engine acceptance is not asked for here."""
    stm = []
    for st in range(0, q, 1000):
        stm.append("cA {%s};" % "; ".join("ga%d = %d" % (i, i % 1000 + 1) for i in range(st, min(q, st + 1000))))
    return HDR + "table(glyph) cA = glyphid(3..6); cB = glyphid(7..10);\n%s\nendtable;\ntable(sub) cA > cB; endtable;\n" % "\n".join(stm), ["NOENGINE"], \
        lambda s, g: (g["numAttrs"] >= q, sum(1 for a, v in g["glat"]["glyphs"][3]["attrs"] if 1 <= v <= 1000 and a > 3)), (True, q)


def fam_fontname(q):
    return HDR + GT + "table(sub) cA > cB; endtable;\n", ["NAME:" + "N" * q], None, q


def fam_constraint(q):
    cond = " && ".join("user1 == %d" % (i % 100) for i in range(q))
    # the item constraint is `CntxtItem slot skip <code> PopRet`; skip must span the whole <code>
    return HDR + GT + "table(sub) cA > cB / _ {%s}; endtable;\n" % cond, [], \
        lambda s, g: (s["passes"][0]["ruleConstraints"][0][2], len(s["passes"][0]["ruleConstraints"][0]) - 4), "skip=len"


def fam_actions(q):
    rules = "".join("cA cA cA cA cA cA > cB cB cB cB cB cB / glyphid(%d) glyphid(%d) _ _ _ _ _ _;\n" % (12 + i % 100, 12 + (i // 100) % 100) for i in range(q))
    return HDR + GT + "table(sub) pass(1)\n" + rules + "endpass; endtable;\n", [], lambda s, g: s["passes"][0]["numRules"], q


def fam_classes_v2(q):
    cls = "".join("k%d = glyphid(%d, %d);\n" % (i, 12 + (i % 50), 70 + (i // 50)) for i in range(q))
    rules = "".join("k%d > k%d;\n" % (i, (i + 1) % q) for i in range(q))
    return HDR + "table(glyph) " + cls + "endtable;\ntable(sub) pass(1)\n" + rules + "endpass; endtable;\n", ["-v2", "-p"], \
        lambda s, g: len(s["linear"]) + len(s["indexed"]), None


def fam_classmap_bytes(q):
    """q pairs of 200-glyph classes: the class map crosses 65535 bytes (16-bit class offsets below Silf 4.0) near q = 54."""
    cls = "".join("kI%d = glyphid(%d..%d); kO%d = glyphid(%d..%d);\n" % (i, 12 + i % 7, 211 + i % 7, i, 13 + i % 5, 212 + i % 5) for i in range(q))
    rules = "".join("kI%d > kO%d / glyphid(%d) _;\n" % (i, i, 2 + i % 9) for i in range(q))
    return HDR + "table(glyph) " + cls + "cA = glyphid(3..6); cB = glyphid(7..10); endtable;\ntable(sub) pass(1)\n" + rules + "endpass; endtable;\n", ["-p"], \
        lambda s, g: len(s["indexed"]), q


def fam_gattr_value(q):
    """a glyph attribute value around the largest storable one (16-bit signed: 32767)"""
    return (HDR + "table(glyph) cA = glyphid(3..6) {big = %d}; cB = glyphid(7..10); endtable;\ntable(sub) cA > cB; endtable;\n" % q), [], \
        lambda s, g: [v for a, v in g["glat"]["glyphs"][3]["attrs"] if abs(v) > 30000], [q]


def fam_gattr_value_neg(q):
    return (HDR + "table(glyph) cA = glyphid(3..6) {big = -%d}; cB = glyphid(7..10); endtable;\ntable(sub) cA > cB; endtable;\n" % q), [], \
        lambda s, g: [v for a, v in g["glat"]["glyphs"][3]["attrs"] if abs(v) > 30000], [-q]


def fam_glat_bytes(q, opts=()):
    """q glyph attributes on each of ~1090 glyphs: the glyph attribute data crosses 65535 bytes (16-bit Gloc offsets) near
    q = 29; the last glyphs' values must still be read back."""
    attrs = "; ".join("ga%d = %d" % (i, 100 + i) for i in range(q))
    return (HDR + "table(glyph) cAll = glyphid(2..1090) {%s}; cA = glyphid(3..6); cB = glyphid(7..10); endtable;\ntable(sub) cA > cB; endtable;\n" % attrs), list(opts), \
        lambda s, g: sorted(v for a, v in g["glat"]["glyphs"][1089]["attrs"] if 100 <= v < 100 + q) == list(range(100, 100 + q)), True


def fam_glat_bytes_c(q):
    return fam_glat_bytes(q, ("-c",))


FAMILIES = [
    ("passes", fam_passes, [127, 128, 129, 300], 200),
    ("rule_slots", fam_slots, [63, 64, 65, 200], 120),
    ("precontext", fam_precontext, [62, 63, 64, 200], 120),
    ("padded_rule_slots", fam_padded_slots, [42, 43, 44, 45, 60], 120),
    ("cross_line_boundary_context", fam_xlb_context, [3, 25, 26, 30, 60], 120),
    ("script_tags", fam_script_tags, [254, 255, 256, 257, 400], 120),
    ("justify_attr_ids_after_components", fam_justify_attr_ids, [40, 48, 49, 50, 52, 70], 120),
    ("lig_components_per_glyph", fam_lig_components_per_glyph, [254, 255, 256, 300], 120),
    ("fsm_states", fam_fsm_states, [400, 1500, 1600], 120),
    ("max_rule_loop", fam_max_rule_loop, [254, 255, 256, 300], 120),
    ("max_backup", fam_max_backup, [254, 255, 256, 300], 120),
    ("extra_ascent_descent", fam_extra_ascent, [65534, 65535, 65536, 131070], 120),
    ("feature_setting_value", fam_feature_setting_value, [65534, 65535, 65536, 70000], 120),
    ("feature_setting_value_negative", lambda q: fam_feature_setting_value(-q), [32767, 32768, 32769, 70000], 120),
    ("sill_table_bytes", fam_sill_bytes, [100, 133, 135, 140, 260], 120),
    ("feature_hidden_id", fam_feature_hidden_id, [65534, 65535, 65536, 0x73776170], 120),
    ("rule_map_entries", fam_rule_map_entries, [20, 58, 60, 130], 120),
    ("glyph_attr_id_in_rule_action", fam_gattr_id_in_rule_action, [250, 252, 253, 264], 120),
    ("glyph_attr_id_in_rule_action_v2_p", lambda q: fam_gattr_id_in_rule_action(q, ("-v2", "-p")), [250, 252, 253, 264], 120),
    ("glyph_attr_id_in_rule_action_p", lambda q: fam_gattr_id_in_rule_action(q, ("-p",)), [250, 252, 253, 264], 120),
    ("features", fam_features, [62, 63, 64, 65, 200], 120),
    ("user_attr_index", fam_userattr, [15, 16, 17, 64], 120),
    ("glyph_attrs", fam_gattrs, [250, 252, 253, 256, 300], 120),
    ("glyph_attr_count_16bit", fam_gattr_count, [65530, 65531, 65532, 65533, 70000], 120),
    ("font_name_length", fam_fontname, [31, 32, 33, 100], 120),
    ("constraint_code_length", fam_constraint, [30, 36, 37, 60, 400], 120),
    ("action_block_size", fam_actions, [1500, 2100, 2200, 3000], 200),
    ("replacement_classes_v2", fam_classes_v2, [100, 127, 128, 129, 300], 200),
    ("class_map_bytes", fam_classmap_bytes, [40, 54, 55, 70, 100], 230),
    ("glyph_attr_value", fam_gattr_value, [32766, 32767, 32768, 32769, 70000], 120),
    ("glyph_attr_value_negative", fam_gattr_value_neg, [32767, 32768, 32769, 70000], 120),
    ("glat_bytes", fam_glat_bytes, [20, 28, 29, 30, 40], 1100),
    ("glat_bytes_compressed", fam_glat_bytes_c, [20, 28, 29, 30, 40], 1100),
]


def run(tier, seed, replay=None):
    rep = common.Report("C12", tier, seed)
    common.lean_gate(rep, THEOREMS, uses_tables=True, uses_writes=True)
    build = common.build_repo("rel")
    work = common.new_workdir("c12")
    font, _g, _c = ttf.simple_font(130)
    stats = collections.Counter()
    distinct = set()
    samples = []
    table = []
    for fname, fam, qs, nglyphs in FAMILIES:
        if nglyphs != 130:
            fontb, _g, _c = ttf.simple_font(nglyphs)
        else:
            fontb = font
        for q in qs if (tier == "thorough" or fname in ("class_map_bytes", "glat_bytes", "glat_bytes_compressed", "glyph_attr_value")) else (qs[1:4] if fname == "glyph_attr_count_16bit" else qs[:4]):
            gdl, opts, reader, true_value = fam(q)
            d = os.path.join(work, "%s_%d" % (fname, q))
            os.makedirs(d)
            open(os.path.join(d, "in.ttf"), "wb").write(fontb)
            shutil.copy(common.STDDEF, d)
            open(os.path.join(d, "p.gdl"), "w").write(gdl)
            extra = []
            copts = []
            for o in opts:
                if o.startswith("NAME:"):
                    extra = [o[5:]]
                elif o != "NOENGINE":
                    copts.append(o)
            rc, log, wall = common.run_grc(build, d, ["-q"] + copts + ["p.gdl", "in.ttf", "out.ttf"] + extra, timeout=600)
            err = open(os.path.join(d, "gdlerr.txt"), errors="replace").read() if os.path.exists(os.path.join(d, "gdlerr.txt")) else ""
            errs = [l for l in err.split("\n") if "error(" in l]
            produced = os.path.exists(os.path.join(d, "out.ttf"))
            stats["cases"] += 1
            problems = []
            outcome = None
            if rc not in (0, 1):
                problems.append("compiler ended with status %s (%s)" % (rc, log[-200:]))
            elif rc == 1:
                outcome = "rejected:" + ",".join(sorted(set(e.split("error(")[1].split(")")[0] for e in errs)))
                if produced:
                    problems.append("rejected but a font was written")
                if not errs:
                    problems.append("exit 1 without any error in the error file")
            else:
                outs = common.run_grcv(["font %s/out.ttf" % d, "c03", "dump silf", "dump glat", "dump feat"])
                c03 = []
                i = 1
                while outs[i] != "done":
                    c03.append(outs[i])
                    i += 1
                bad = [l for l in c03 if not l.startswith("ok ")]
                if bad:
                    problems.append("accepted, but the font is not well-formed: %s" % bad[:3])
                else:
                    s = json.loads(outs[i + 1])
                    g = json.loads(outs[i + 2])
                    try:
                        s["_feat"] = json.loads(outs[i + 3])
                    except (ValueError, IndexError):
                        s["_feat"] = None
                    f = gr2.Face(os.path.join(d, "out.ttf"))
                    okf = ("NOENGINE" in opts) or (f.ok() and f.shape([0x62, 0x62, 0x63]) is not None)
                    if okf and true_value == "ENGINE":
                        # the family checks a value through the engine: reader(silf, glat, face) -> problem or None
                        pr = reader(s, g, f)
                        if pr:
                            problems.append(pr)
                    f.close()
                    if not okf:
                        problems.append("accepted, but libgraphite2 rejects the font")
                    if true_value == "MUST-REJECT":
                        problems.append("accepted although the quantity is above the declared maximum (no error names the limit)")
                    elif reader is not None and true_value == "skip=len":
                        got, want = reader(s, g)
                        if got != want:
                            problems.append("accepted, but the context-item skip byte is %d while the guarded code is %d bytes long (wrapped)" % (got, want))
                    elif reader is not None and true_value is not None and true_value != "ENGINE":
                        got = reader(s, g)
                        if got != true_value:
                            problems.append("accepted, but the stored value is %s while the program needs %s (wrapped/truncated)" % (got, true_value))
                    outcome = "accepted"
            distinct.add((fname, q, outcome))
            table.append({"family": fname, "q": q, "outcome": outcome, "wall_s": round(wall, 2)})
            if problems:
                sig = None
                if ((fname == "rule_slots" and q == 64) or (fname == "precontext" and q == 63)) and problems == ["accepted, but libgraphite2 rejects the font"]:
                    sig = "C12:rule-with-exactly-64-input-items-accepted-but-engine-rejects-font"
                dd = os.path.join(rep.replay_dir, "C12-%s-%s_%d" % (seed, fname, q))
                shutil.rmtree(dd, ignore_errors=True)
                shutil.copytree(d, dd)
                rep.violation("%s_%d" % (fname, q), {"family": fname, "size": q, "options": opts, "problems": problems,
                                                    "errors": errs[:3]}, signature=sig)
            shutil.rmtree(d, ignore_errors=True)
    samples = table[:6]
    rep.coverage.update({
        "programs": stats["cases"], "traces_validated_against_impl": stats["cases"], "disagreements_checked": len(rep.violations),
        "evaluations": stats["cases"], "distinct_nontrivial": len(distinct), "outcomes": table,
        "rule": "19 size-parameterised families x 4-5 sizes around each limit; distinct = distinct (family, size, outcome)",
        "samples": samples, "exhaustive": False,
    })
    rep.assumptions += ["field widths are my reading of GTF; limits are re-extracted from constants.h",
                        "families needing > 65535 glyphs / classes are not generated (run time)"]
    shutil.rmtree(work, ignore_errors=True)
    return rep.finish()
