"""C15 Table version, compression and debug options do not change behaviour.

Deciding method: Lean theorems Grc.Ver.declared_version_conforms / version_ge_requested (the version ladder of
CalculateSilfVersion, with constants regenerated from the source, always yields a version whose layout supports
compression / collision data / skip-passes / long class offsets) and glat_gloc_switch_together. Tie: every program is
built for {default,-v2..-v5} x {plain,-c} and {-d,-D,-q}; declared Silf version = Lean model; every build passes the
strict decoders (C03 checker, i.e. conforms to the layout of the version it declares); compressed tables, inflated by
the Lean LZ4 decoder, equal the plain tables byte for byte; debug/quiet builds are byte-identical to the default; all
builds shape sampled texts identically through libgraphite2.
"""
import collections
import hashlib
import os
import random
import re
import shutil

import common
import gen
import gr2
import harness
from checks.c14 import texts_for

THEOREMS = ["Grc.Ver.bump_ge", "Grc.Ver.bump_reach", "Grc.Ver.version_ge_requested", "Grc.Ver.declared_version_conforms", "Grc.Ver.afterPassConstraints_ok", "Grc.Ver.afterPassConstraints_ge",
            "Grc.Ver.glat_gloc_switch_together"]
REQ = {"": "default", "-v1": 0x00010000, "-v2": 0x00020000, "-v3": 0x00030000, "-v4": 0x00040000, "-v5": 0x00050000}


def shape_key(face, t, feats=None):
    s = face.shape(t, feats=feats)
    return None if s is None else ([(x["gid"], x["before"], x["after"], round(x["x"], 2)) for x in s], list(face.last_break_weights))


def run(tier, seed, replay=None):
    rep = common.Report("C15", tier, seed)
    common.lean_gate(rep, THEOREMS, uses_tables=True)
    build = common.build_repo("rel")
    work = common.new_workdir("c15")
    n = 25 if tier == "quick" else 200
    cases = harness.gen_cases(seed, 15, n, lambda rng, i: gen.gen_match_program(rng, npasses=rng.choice([1, 2, 3]), size="small"))
    stats = collections.Counter()
    distinct = set()
    samples = []
    trng = random.Random(seed + 1515)
    FEAT = ('table(feature) fz { id = 1234; name.1033 = string("Z"); default = 0; settings { off { value = 0; name.1033 = string("off"); } '
            'on { value = 1; name.1033 = string("on"); } } } endtable;\n')
    # one program whose glyph attribute data is larger than 65535 bytes but compresses to less: the form of the Gloc offsets
    # (16 or 32 bits) goes by the data the offsets index, not by the bytes of the table in the file; its rule reads
    # attributes of the last glyphs (it sits at index 36, where none of the rewritings below applies)
    import ttf as _ttf
    bigp = gen.Prog()
    bigp.nglyphs = 1100
    bigp.font, _g, bigp.cmap = _ttf.simple_font(1100)
    bigp.classes = {"cLate": list(range(1080, 1090)), "cAll": [2, 3, 4, 5]}
    bigp.raw_gdl = ('#include "stddef.gdh"\ntable(glyph) cAll = glyphid(2..1090) {lift = 300m; %s}; cLate = glyphid(1080..1089); endtable;\n'
                    'table(pos) cLate {shift.y = lift; advance.x = a27 * 3 + a03}; endtable;\n' % "; ".join("a%02d = %d" % (j, 100 + j) for j in range(28)))
    cases = [(nm, pr) for nm, pr in cases]
    BIG_INDEX = 36
    while len(cases) < BIG_INDEX:
        cases.append(None)
    cases.insert(BIG_INDEX, ("big_glat", bigp)) if len(cases) >= BIG_INDEX else None
    for ci, case in enumerate(cases):
        if case is None:
            continue
        name, prog = case
        d = os.path.join(work, name)
        os.makedirs(d)
        feature_gated = (ci % 3 == 1)
        chain_gated = feature_gated and (ci % 2 == 0) and prog.gdl().count("pass(") >= 2
        if chain_gated:
            # whole passes under if / elseif / else: the elseif pass carries two conditions (not the first, and its own), the
            # else pass the negations of both - as pass constraints from Silf 3.1, copied into every rule below that
            text = prog.gdl()
            npass = text.count("pass(")
            k = [0]

            def wrapc(m):
                k[0] += 1
                if k[0] == 1:
                    return "if (fz == 1) " + m.group(0)
                if k[0] == npass and npass >= 3:
                    return "else " + m.group(0)
                return "elseif (fy == %d) " % (k[0] % 2) + m.group(0)
            text = re.sub(r"pass\(\d+\)", wrapc, text)
            # a rule per pass whose effect is easy to see: the space glyph becomes a glyph that tells which pass ran last
            kk = [0]

            def visible(m):
                kk[0] += 1
                return "cVisIn%d > cVisOut%d;\nendpass;" % (kk[0], kk[0])
            text = text.replace("endtable;", "".join("cVisIn%d = glyphid(%d); cVisOut%d = glyphid(%d);\n" % (j, 1 if j == 1 else 1 + j, j, 2 + j) for j in range(1, npass + 1)) + "endtable;", 1)
            text = re.sub(r"endpass;", visible, text)
            idx = text.rindex("endpass;") + len("endpass;")
            text = text[:idx] + " endif;" + text[idx:]
            FEAT2 = FEAT.replace("endtable;", 'fy { id = 1235; name.1033 = string("Y"); default = 0; settings { yoff { value = 0; name.1033 = string("off"); } '
                                 'yon { value = 1; name.1033 = string("on"); } } } endtable;')
            text = text.replace("table(sub)", FEAT2 + "table(sub)", 1)
            prog.raw_gdl = text
        elif feature_gated:
            # every second pass is wrapped in a pass-level `if` on a feature (pass constraints exist from Silf 3.1; for
            # older requests the compiler moves the test into each rule) - shaping must still agree across all builds
            text = prog.gdl()
            k = [0]

            def wrap(m):
                k[0] += 1
                return ("if (fz == %d) " % (k[0] % 2)) + m.group(0)
            text = re.sub(r"pass\(\d+\)", wrap, text)
            text = text.replace("endpass;", "endpass; endif;")
            text = text.replace("table(sub)", FEAT + "table(sub)", 1)
            prog.raw_gdl = text
        collision = (ci % 5 == 4)
        if collision:
            # a collision-fixing pass: the collision attributes of the Silf header exist from 4.1, to which lower requests
            # are raised (C20 examines the octaboxes themselves; here: every build conforms and shapes alike)
            text = prog.raw_gdl if getattr(prog, "raw_gdl", None) else prog.gdl()
            text = text.replace("endtable;", "cCollide = glyphid(2..%d) {collision.flags = 1};\nendtable;" % (prog.nglyphs - 1), 1)
            text += "table(pos) pass(1) {CollisionFix = %d} endpass; endtable;\n" % (1 + ci % 3)
            prog.raw_gdl = text
        if ci % 4 == 2 and not collision:
            # justification glyph attributes with values beyond 16 bits (stored as a low and a high word) and a breakweight:
            # attributes that the writers convert for the table version on the way out - also when a debug listing is made first
            text = prog.raw_gdl if getattr(prog, "raw_gdl", None) else prog.gdl()
            vals = [trng.choice([40000, 65535, 65536, 70000, 110000, 98304 + trng.randrange(32768), 0x18000, 0x2FFFF]) for _ in range(3)]
            text = text.replace("endtable;", "cJust1 = glyphid(2) {justify.stretch = %dm; breakweight = 20};\ncJust2 = glyphid(3) {justify.stretch = %dm; justify.shrink = %dm};\nendtable;" % (vals[0], vals[1], vals[2] % 30000), 1)   # (shrink has no high word: at most 32767)
            prog.raw_gdl = text
        if ci % 7 == 6 and not collision:
            # more than 255 glyph attributes (Glat 2 is written whatever was requested) and a positioning rule whose ACTION reads
            # attributes numbered above 255: the rule code needs the 16-bit attribute operand also when Silf stays at 2.0 (-v2 -p)
            text = prog.raw_gdl if getattr(prog, "raw_gdl", None) else prog.gdl()
            nk = trng.choice([257, 262, 300])
            text = text.replace("endtable;", "cMany = glyphid(2..%d) {%s};\nendtable;" % (prog.nglyphs - 1, "; ".join("k%03d = %d" % (j, 1000 + j) for j in range(nk))), 1)
            text += "table(pos) cMany {advance.x = k%03d; shift.y = k%03d - k%03d}; endtable;\n" % (nk - 1, nk - 2, trng.randrange(nk))
            prog.raw_gdl = text
        gen.write_case(prog, d)
        fonts = {}
        for v in REQ:
            for c in ("", "-c"):
                for p in ("", "-p"):
                    if p and (tier == "quick") and v not in ("", "-v2"):
                        continue
                    if p and v == "-v1":
                        continue    # a real Silf 1.0 table: neither the strict decoder nor libgraphite2 1.3.14 reads that layout
                    key = " ".join(x for x in (v, c, p) if x) or "default"
                    out = "o_%s.ttf" % key.replace(" ", "").replace("-", "") 
                    rc, log, _ = common.run_grc(build, d, ["-q"] + [x for x in (v, c, p) if x] + ["p.gdl", "in.ttf", out])
                    if rc == 0 and os.path.exists(os.path.join(d, out)):
                        fonts[key] = (out, v, bool(c), bool(p))
                    else:
                        stats["rejected"] += 1
                        if rc not in (0, 1):
                            dd = harness.save_case(rep, {"dir": d, "name": "c%04d" % ci}, "c%04d-%s-crash" % (ci, key.replace(" ", "")))
                            rep.violation("c%04d-%s-crash" % (ci, key.replace(" ", "")), {
                                "problem": "the compiler ended with status %s under options '%s'" % (rc, key), "log": log[-400:],
                                "rerun": "cd %s && grcompiler -q %s p.gdl in.ttf out.ttf" % (dd, key if key != "default" else "")})
        if "default" not in fonts:
            continue
        problems = []
        # (e) debug / quiet options
        base = open(os.path.join(d, fonts["default"][0]), "rb").read()
        for opt in ("-d", "-D"):
            rc, log, _ = common.run_grc(build, d, ["-q", opt, "p.gdl", "in.ttf", "o_dbg.ttf"])
            if rc != 0 or open(os.path.join(d, "o_dbg.ttf"), "rb").read() != base:
                problems.append("font built with %s differs from the default build" % opt)
        rc, log, _ = common.run_grc(build, d, ["p.gdl", "in.ttf", "o_verbose.ttf"])   # without -q
        if rc != 0 or open(os.path.join(d, "o_verbose.ttf"), "rb").read() != base:
            problems.append("font built without -q differs from the -q build")
        # (a,b) strict decoding + declared version = model
        lines = []
        keys = sorted(fonts)
        for k in keys:
            lines += ["font %s/%s" % (d, fonts[k][0]), "c03", "dump silf"]
        outs = common.run_grcv(lines)
        import json
        it = iter(outs)
        silfs = {}
        for k in keys:
            next(it)
            c03 = []
            for l in it:
                if l == "done":
                    break
                c03.append(l)
            dump = next(it)
            bad = [l for l in c03 if not l.startswith("ok ")]
            if bad:
                problems.append("build '%s' does not conform to the layout it declares: %s" % (k, bad[:3]))
                continue
            s = json.loads(dump)
            silfs[k] = s
            _o, v, c, p = fonts[k]
            sp = 0
            mv = int(common.run_grcv(["silfversion2 %s %d %d %d %d %d %d" % (REQ[v], int(bool(v)), int(feature_gated), int(c), int(collision), int(not p), sp)])[0])
            stats["versions_checked"] += 1
            if s["version"] != mv:
                problems.append("build '%s' declares Silf version %#x, ladder model says %#x" % (k, s["version"], mv))
            distinct.add((k, s["version"]))
        # (c) compressed = plain
        for v in REQ:
            if feature_gated and v in ("-v1", "-v2", "-v3"):
                continue   # an explicit request below 3.1 moves the pass constraints into the rules: no plain twin at 5.0
            for p in ("", "-p"):
                kc = " ".join(x for x in (v, "-c", p) if x)
                kp = " ".join(x for x in ("-v5", p) if x)
                if kc in fonts and kp in fonts:
                    for tag in ("Silf", "Glat"):
                        a = common.run_grcv(["font %s/%s" % (d, fonts[kc][0]), "plainhex " + tag])[1]
                        b = common.run_grcv(["font %s/%s" % (d, fonts[kp][0]), "plainhex " + tag])[1]
                        stats["compressed_tables_checked"] += 1
                        if not a.startswith("ok compressed=true"):
                            if "incompressible" in open(os.path.join(d, "gdlerr.txt"), errors="replace").read():
                                continue
                            problems.append("build '%s': table %s is not compressed / cannot be inflated: %s" % (kc, tag, a[:80]))
                        elif a.split("hex=")[1] != b.split("hex=")[1]:
                            problems.append("build '%s': inflated %s differs from the plain %s of build '%s'" % (kc, tag, tag, kp))
        # (d) shaping identical across builds
        faces = {k: gr2.Face(os.path.join(d, fonts[k][0])) for k in keys}
        if all(f.ok() for f in faces.values()):
            for ti, t in enumerate(([[0x20], [0x20, 0x20], [0x20], [0x20, 0x61]] if chain_gated else []) + texts_for(prog, trng, 40 if tier == "quick" else 150)):
                fv = ({1234: ti % 2, 1235: (ti // 2) % 2} if chain_gated else {1234: ti % 2}) if feature_gated else None
                ref = shape_key(faces["default"], t, fv)
                stats["texts"] += 1
                for k in keys:
                    got = shape_key(faces[k], t, fv)
                    if got != ref:
                        problems.append("text %s shapes differently with build '%s' (%s) than with the default build (%s)" % (t, k, got, ref))
                        break
                else:
                    continue
                break
        elif not any(f.ok() for f in faces.values()):
            # rejected whatever the version / options: not a matter of this property (acceptance is decided under C03)
            stats["programs_rejected_by_libgraphite2_in_every_build (C03)"] += 1
        else:
            problems.append("libgraphite2 rejects build(s): %s but accepts %s" % ([k for k, f in faces.items() if not f.ok()], [k for k, f in faces.items() if f.ok()][:3]))
        for f in faces.values():
            f.close()
        stats["programs"] += 1
        stats["builds"] += len(fonts)
        if problems:
            dd = os.path.join(rep.replay_dir, "C15-%s-%s" % (seed, name))
            shutil.rmtree(dd, ignore_errors=True)
            shutil.copytree(d, dd)
            rep.violation(name, {"case": name, "problems": problems[:10], "builds": {k: fonts[k][0] for k in fonts}})
        if len(samples) < 2:
            samples.append({"case": name, "builds": {k: hex(silfs[k]["version"]) for k in silfs}})
        shutil.rmtree(d, ignore_errors=True)
    rep.coverage.update({
        "programs": stats["programs"], "programs_rejected_by_libgraphite2_in_every_build (C03)": stats["programs_rejected_by_libgraphite2_in_every_build (C03)"], "builds": stats["builds"], "rejected_builds": stats["rejected"],
        "versions_checked": stats["versions_checked"], "compressed_tables_checked": stats["compressed_tables_checked"],
        "texts_shaped_all_builds": stats["texts"],
        "traces_validated_against_impl": stats["builds"], "disagreements_checked": len(rep.violations),
        "evaluations": stats["builds"], "distinct_nontrivial": len(distinct),
        "rule": "generated programs (every third with feature-gated passes, every fifth with a collision-fixing pass) x {default,-v2,-v3,-v4,-v5} x {plain,-c} x {with,without -p} + {-d,-D,verbose}; one evaluation = one build decoded strictly, its declared version compared with the Lean ladder, compressed tables inflated and compared, texts shaped with every build; distinct = distinct (build, declared version)",
        "samples": samples, "exhaustive": False,
    })
    rep.assumptions += ["the LZ4 block decoder (Lean, `partial def`) is executable specification, not proved; the HC compressor is validated per output only",
                        "format minimum versions (5.0 compression, 4.1 collision, 4.0 skip-passes/long offsets) are taken from GTF"]
    shutil.rmtree(work, ignore_errors=True)
    return rep.finish()
