"""C14 Pass-skipping optimisation never changes rendering.

Deciding method: Lean theorem Grc.PB.skip_sound (if every effective rule of a pass has an input item whose class
members all have the pass's skip bit cleared, then on any glyph string whose glyphs all carry the bit no effective
rule matches at any position), its hypothesis evaluated by the compiled checker on the *skipPasses* glyph attributes
decoded from the real font, for generated multi-pass programs (up to 35 passes); plus differential shaping of the
default build against the -p build through libgraphite2 on enumerated texts.
"""
import collections
import itertools
import os
import random
import shutil

import common
import gen
import gr2
import harness

THEOREMS = ["Grc.PB.match_needs_key", "Grc.PB.skip_sound"]


def texts_for(prog, rng, count):
    gl = sorted(set(g for v in prog.classes.values() for g in v))
    alpha = [0x61 + g - 2 for g in gl if g >= 2][:10]
    other = [0x61 + g - 2 for g in range(2, prog.nglyphs) if g not in gl][:2]
    alpha = alpha + other + [0x20]
    out = [[a] for a in alpha]
    out += [list(t) for t in itertools.product(alpha[:6], repeat=2)]
    while len(out) < count:
        out.append([rng.choice(alpha) for _ in range(rng.randint(3, 7))])
    return out[:count]


def run(tier, seed, replay=None):
    rep = common.Report("C14", tier, seed)
    common.lean_gate(rep, THEOREMS)
    build = common.build_repo("rel")
    work = common.new_workdir("c14")
    n = 80 if tier == "quick" else 600

    def g(rng, i):
        if i % 10 == 7:
            return gen.gen_setop_key_program(rng)
        if i % 10 == 9:
            # class programs: set operations, late additions, nested classes; every other one with -g and missing glyphs
            return gen.gen_class_program(rng, bad_glyphs=(i % 20 == 19))
        np = rng.choice([1, 2, 3, 4, 6]) if i % 8 else rng.choice([17, 20, 33, 35])
        prog = gen.gen_match_program(rng, npasses=np, size="small", keyslots=True)
        if i % 3 == 1:
            # a bidi font: the mirror.glyph glyph attribute exists and holds glyph ids (numbers with low bits set) on every
            # glyph - another per-glyph value that must not be taken for the skip bitmap, with or without -p
            m = rng.choice([1, 3, 7])
            n_ = prog.nglyphs
            tgt = [(g_ | m) if (g_ | m) < n_ else ((g_ | 1) if (g_ | 1) < n_ else g_ - 1) for g_ in range(2, n_)]
            prog.prolog = "Bidi = true;"
            prog.glyph_stmts = list(prog.glyph_stmts) + ["cMirTarget = glyphid(%s);" % ", ".join(map(str, tgt)),
                                                         "cMirAll = glyphid(2..%d) {mirror.glyph = cMirTarget};" % (n_ - 1)]
        if i % 5 == 2 and np <= 6:
            gen.add_collision_pass_then_rules(rng, prog)
        return prog
    cases = harness.gen_cases(seed, 14, n, g)
    results = harness.compile_cases(build, work, cases)
    acc, rej = harness.split_accepted(results)
    outs = harness.drive(acc, ["c14"])
    stats = collections.Counter()
    distinct = set()
    samples = []
    trng = random.Random(seed + 1414)
    for r, o in zip(acc, outs):
        bad = [l for l in o["c14"] if " FAIL " in l or l.startswith("error")]
        for l in o["c14"]:
            if " ok " in l:
                stats["passes_ok"] += 1
                distinct.add(l.split(" ", 2)[2])
        stats["passes"] += len(o["c14"])
        if bad:
            d = harness.save_case(rep, r, r["name"])
            rep.violation(r["name"], {"case": r["name"], "checker_lines": bad,
                                      "meaning": "a text consisting of the named glyphs is marked skippable for the pass although the named rule applies to it (the engine would skip the pass and leave the text unchanged)",
                                      "rerun": "cd %s && printf 'font out.ttf\\nir p.ir.json\\nc14\\n' | %s" % (d, common.grcv_path())})
        # differential shaping: default vs -p
        rc, log, _ = common.run_grc(build, r["dir"], ["-q", "-p"] + list(getattr(r["prog"], "compile_opts", ())) + ["p.gdl", "in.ttf", "outp.ttf"])
        if rc != 0:
            rep.violation(r["name"] + "-p", {"broken": "-p build rejected a program the default build accepted", "log": log[-500:]})
            continue
        fa, fb = gr2.Face(os.path.join(r["dir"], "out.ttf")), gr2.Face(os.path.join(r["dir"], "outp.ttf"))
        if not (fa.ok() and fb.ok()):
            stats["engine_rejects"] += 1   # reported by C03
            fa.close(); fb.close()
            continue
        for t in texts_for(r["prog"], trng, 60 if tier == "quick" else 200):
            sa, sb = fa.shape(t), fb.shape(t)
            stats["texts"] += 1
            # (positions too: a positioning pass that is skipped leaves the glyphs where they are)
            ka = [(s["gid"], s["before"], s["after"], round(s["x"], 1), round(s["y"], 1)) for s in sa] if sa is not None else None
            kb = [(s["gid"], s["before"], s["after"], round(s["x"], 1), round(s["y"], 1)) for s in sb] if sb is not None else None
            if ka != kb:
                d = harness.save_case(rep, r, r["name"] + "-shape", extra_files=("outp.ttf",))
                rep.violation(r["name"] + "-shape", {"case": r["name"], "text_codepoints": t, "default_build": ka, "minus_p_build": kb,
                                                    "meaning": "libgraphite2 shapes this text differently with the pass-avoidance build (out.ttf) and the -p build (outp.ttf)"})
                break
        fa.close(); fb.close()
        if len(samples) < 2:
            samples.append({"case": r["name"], "gdl": r["prog"].gdl(), "c14": o["c14"][:6]})
    rep.coverage.update({
        "programs": len(results), "programs_accepted": len(acc), "programs_rejected": len(rej),
        "rejected_error_ids": harness.error_ids(rej),
        "traces_validated_against_impl": stats["passes"], "disagreements_checked": len(rep.violations),
        "texts_shaped_both_builds": stats["texts"],
        "evaluations": stats["passes"], "distinct_nontrivial": len(distinct),
        "rule": "generated programs with 1-35 passes (every 8th with >16 or >32), rules whose first modified item is an insertion/deletion/context-only, explicit passKeySlot, ANY in contexts; one evaluation = one pass whose skip bits satisfied the hypothesis of skip_sound; plus 60-200 texts per program shaped with both builds; distinct = distinct pass summaries",
        "samples": samples, "exhaustive": False,
    })
    rep.assumptions += ["engine contract: pass p < 32 is skipped iff bit p is set on every glyph that has been in the segment (DESIGN appendix A); a pass in which no effective rule matches leaves the stream unchanged",
                        "a rule is effective iff, per the IR, it inserts, deletes, substitutes or sets an attribute"]
    harness.generator_health(rep, results, acc, rej)
    shutil.rmtree(work, ignore_errors=True)
    return rep.finish()
