"""C13 Compilation is deterministic and isolated.

Deciding method: Lean order-independence theorems for the pointer-ordered containers (Det.key_perm,
Det.sameSet_perm_left, Det.attr_cell_order_independent = GA.codeWinner_perm): the machine-class key and grouping and
the glyph-attribute winner do not depend on iteration order. Tie/exploration: each sampled program (generated families
and suite programs) is compiled repeatedly under perturbation -- ASLR on/off, MALLOC_PERTURB_, different working
directory and environment size, LANG/LC_ALL/TZ, allocator placement (mmap thresholds; an LD_PRELOAD shim that shuffles heap addresses) -- and as k concurrent compilations sharing one directory and /tmp;
sha256 of the output font and the diagnostics text must be identical. The schedule quantifier is explored, not proved.
"""
import collections
import hashlib
import os
import random
import shutil
import subprocess

import common
import gen
import harness

THEOREMS = ["Grc.Det.key_perm", "Grc.Det.sameSet_perm_left", "Grc.Det.attr_cell_order_independent", "Grc.GA.codeWinner_perm",
            "Grc.Det.iterate_perm", "Grc.Det.iterate_congr", "Grc.Det.iterate_address_dependent",
            "Grc.DetGen.address_ordered_iterations_covered", "Grc.DetGen.master_tables_creation_ordered",
            "Grc.DetGen.creation_counter_is_a_function_of_the_source", "Grc.DetGen.master_table_iteration_deterministic"]

SUITE = [("PigLatinMain.gdl", "PigLatinInput.ttf", []), ("SchMain.gdl", "SchInput.ttf", ["-v4"])]


def digest(d, out, err):
    h = hashlib.sha256(open(os.path.join(d, out), "rb").read()).hexdigest() if os.path.exists(os.path.join(d, out)) else "nofont"
    e = open(os.path.join(d, err), errors="replace").read() if os.path.exists(os.path.join(d, err)) else "noerr"
    # the header names the output file, which this check itself varies per run; everything else must be identical
    e = "\n".join(l for l in e.split("\n") if not l.startswith("Output font file:"))
    return h, hashlib.sha256(e.encode()).hexdigest()


def run(tier, seed, replay=None):
    rep = common.Report("C13", tier, seed)
    common.lean_gate(rep, THEOREMS, uses_det=True)
    build = common.build_repo("rel")
    work = common.new_workdir("c13")
    n = 16 if tier == "quick" else 48
    rng = random.Random(seed * 13 + 13)
    progs = []
    for i in range(n):
        r = random.Random(rng.getrandbits(64))
        fam = i % 8
        p = (gen.gen_match_program(r, npasses=3, size="medium") if fam == 0 else gen.gen_class_program(r, size="medium") if fam == 1
             else gen.gen_gattr_program(r) if fam == 2 else gen.gen_feature_program(r) if fam in (3, 7)
             else gen.gen_opt_program(r, refs=True, exprs=True) if fam == 4 else gen.gen_attach_program(r) if fam == 5 else gen.gen_expr_program(r))
        progs.append(("g%03d" % i, p, None))
    # rejected programs: the diagnostics (and the absence of a font) must be as reproducible as a font
    import fuzz11
    import ttf as _ttf
    G_ = "table(glyph) cA = glyphid(3..6); cB = glyphid(7..10); cC = glyphid(11); endtable;\n"
    bad = [
        ("e_first_line", "table(glyph) cA = = glyphid(3); cB = codepoint; endtable;\ntable(sub) cA > cB; endtable;\n"),
        ("e_after_include", '#include "stddef.gdh"\ncA cB;\n' + G_ + "table(sub) cA > cB; endtable;\n"),
        ("e_last_line", '#include "stddef.gdh"\n' + G_ + "table(sub) cA > cB; endtable;\ntable(sub) cA > "),
        ("e_undefined", '#include "stddef.gdh"\n' + G_ + "table(sub) cA > cNope; cB > cNone / cA _; endtable;\n"),
        ("e_many_warnings", '#include "stddef.gdh"\n' + G_ + "table(sub) " + " ".join("cA > cC / cB _ %s;" % ("cA " * k) for k in range(12)) + " endtable;\n"),
        ("e_pp_unterminated", '#include "stddef.gdh"\n#if 1\n' + G_ + "table(sub) cA > cB; endtable;\n"),
        ("e_comment_then_error", '#include "stddef.gdh"\n' + G_ + "/* a\n b\n c */ cX cY;\ntable(sub) cA > cB; endtable;\n"),
    ]
    for k in range(4 if tier == "quick" else 16):
        r = random.Random(rng.getrandbits(64))
        text, _ops = fuzz11.mutate_tokens(r, fuzz11.SEEDS[r.choice(sorted(fuzz11.SEEDS))], r.choice([1, 2, 4]))
        bad.append(("e_mut%02d" % k, text))
    # a valid program that would pick up the preprocessor's predefined macros for date, time, file and line if there were any
    bad.append(("ok_predefined_macros", '#include "stddef.gdh"\n#ifdef __TIME__\n#define STAMP __TIME__\n#else\n#define STAMP "unstamped"\n#endif\n'
                '#ifdef __DATE__\n#define DSTAMP __DATE__\n#else\n#define DSTAMP "undated"\n#endif\n#ifdef __FILE__\n#define FSTAMP __FILE__\n#else\n#define FSTAMP "nofile"\n#endif\n'
                + G_ + 'table(feature) f1 { id = 100; name.1033 = string(STAMP); settings { on { value = 1; name.1033 = string(DSTAMP); } '
                'off { value = 0; name.1033 = string(FSTAMP); } } default = off; } endtable;\ntable(sub) cA > cB; endtable;\n'))
    # labels with a byte the code page does not define, and labels in a code page the system does not know
    bad.append(("ok_label_with_undefined_byte", '#include "stddef.gdh"\n' + G_ + 'table(feature) f1 { id = 100; name.1033 = string("ab\x81cd efgh ijkl mnop"); '
                'settings { on { value = 1; name.1033 = string("x\x8dy"); } off { value = 0; name.1033 = string("Off", 99999); } } default = off; } endtable;\ntable(sub) cA > cB; endtable;\n'))
    # the header bytes that depend on several global settings together: a full bidi pass requested or not, a pass whose
    # direction opposes the script's or not (a combination nobody wrote down leaves a byte to chance)
    for bidi in ("false", "true", "2"):
        for flipped in (False, True):
            for sdir in ("HORIZONTAL_LEFT_TO_RIGHT", "HORIZONTAL_RIGHT_TO_LEFT"):
                pdir = ("RIGHT_TO_LEFT" if sdir.endswith("LEFT_TO_RIGHT") else "LEFT_TO_RIGHT") if flipped else ("LEFT_TO_RIGHT" if sdir.endswith("LEFT_TO_RIGHT") else "RIGHT_TO_LEFT")
                bad.append(("ok_bidi_%s_%s_%s" % (bidi, "flipped" if flipped else "same", "ltr" if sdir.endswith("LEFT_TO_RIGHT") else "rtl"),
                            '#include "stddef.gdh"\nBidi = %s;\nScriptDirection = %s;\n' % (bidi, sdir) + G_ +
                            'table(sub) pass(1) cA > cB; endpass; pass(2) {Direction = %s} cB > cC / cA _; endpass; endtable;\n'
                            'table(pos) pass(1) cB {shift.x = 5m}; endpass; endtable;\n' % pdir))
    bfont = _ttf.simple_font(40, post_names=[".notdef"] + ["g%d" % i for i in range(1, 40)])[0]
    # renaming the font family (4th argument) of a font that is not "Regular" and has preferred-family / preferred-subfamily /
    # compatible-full records (ids 16-18): the name table is rebuilt with strings of other lengths
    for k, (sub, extra) in enumerate([("Bold Oblique", {16: "Verif", 17: "Bold Oblique", 18: "Verif Bold Oblique"}),
                                      ("Italic", {16: "Verif"}), ("Regular", {16: "Verif", 17: "Regular"})]):
        r = random.Random(rng.getrandbits(64))
        pr = gen.gen_feature_program(r)
        nm_extra = dict(extra)
        nm_extra.update({2: sub, 4: "Verif " + sub, 6: "Verif-" + sub.replace(" ", "")})
        pr.font = _ttf.simple_font(pr.nglyphs, names=_ttf.default_names("Verif", extra=nm_extra))[0]
        pr.rename = "Renamed Family %d" % k
        progs.append(("rename%d" % k, pr, None))
    for nm, text in bad:
        pr = gen.Prog()
        pr.nglyphs = 40
        pr.font = bfont
        pr.raw_gdl = text
        progs.append((nm, pr, None))
    fonts = os.path.join(common.REPO, "test/GrcRegressionTest/fonts")
    for gdl, font, opts in SUITE if tier == "quick" else SUITE + [("PadaukMain.gdl", "PadaukInput.ttf", ["-v3"])]:
        progs.append((gdl.split(".")[0], None, (gdl, font, opts)))
    stats = collections.Counter()
    distinct = set()
    samples = []
    setarch = shutil.which("setarch")
    shim = os.path.join(work, "shuffle_malloc.so")
    if subprocess.run(["gcc", "-O1", "-shared", "-fPIC", "-o", shim, os.path.join(common.VERIF, "tools/shim/shuffle_malloc.c")],
                      capture_output=True).returncode != 0:
        shim = None
        rep.assumptions.append("the address-shuffling allocator shim could not be built; heap layout varied only through mmap thresholds")
    for name, prog, suite in progs:
        d = os.path.join(work, name)
        os.makedirs(d)
        if prog is not None:
            gen.write_case(prog, d)
            gdl, font, opts = "p.gdl", "in.ttf", []
        else:
            gdl, font, opts = suite
            for fn in os.listdir(fonts):
                if fn.endswith((".gdl", ".gdh")) or fn == font:
                    shutil.copy(os.path.join(fonts, fn), d)
        variants = []

        def go(tag, cwd, env_extra=None, prefix=(), out="out_%s.ttf", err="err_%s.txt"):
            env = dict(os.environ, GDLPP=build["gdlpp"])
            if env_extra:
                env.update(env_extra)
            o, e = out % tag, err % tag
            cmd = list(prefix) + [build["grcompiler"], "-q", "-e", e] + opts + [gdl, font, o] + ([prog.rename] if prog is not None and getattr(prog, "rename", None) else [])
            return subprocess.Popen(cmd, cwd=cwd, env=env, stdout=subprocess.DEVNULL, stderr=subprocess.DEVNULL), o, e
        runs = [("base", d, None, ()), ("rep1", d, None, ()), ("rep2", d, None, ()),
                ("perturb", d, {"MALLOC_PERTURB_": "165", "MALLOC_ARENA_MAX": "1"}, ()),
                ("perturb1", d, {"MALLOC_PERTURB_": "1"}, ()), ("notcache", d, {"GLIBC_TUNABLES": "glibc.malloc.tcache_count=0"}, ()),
                # every allocation through mmap: objects come at descending addresses, which reverses the iteration order
                # of every container keyed by object address
                ("mmap", d, {"MALLOC_MMAP_THRESHOLD_": "0"}, ()),
                ("mmap32", d, {"MALLOC_MMAP_THRESHOLD_": "32", "MALLOC_TOP_PAD_": "0"}, ()),
                ("bigenv", d, {"VERIF_PADDING_%d" % k: "x" * 3000 for k in range(30)}, ()),
                ("locale", d, {"LANG": "tr_TR.UTF-8", "LC_ALL": "C.UTF-8", "TZ": "Pacific/Kiritimati"}, ())]
        if setarch:
            runs.append(("noaslr", d, None, (setarch, "x86_64", "-R")))
        if shim:
            # pseudo-random relative order of heap addresses (tools/shim/shuffle_malloc.c)
            for j in range(3 if tier == "quick" else 8):
                sj = rng.randrange(1, 1 << 30)
                runs.append(("shuffle%d" % j, d, {"LD_PRELOAD": shim, "VERIF_SHUFFLE": str(sj)}, ()))
        results = {}
        if name == "ok_predefined_macros":
            runs.append(("later", d, None, ()))
        for tag, cwd, envx, prefix in runs:
            if tag == "later":
                import time as _time
                _time.sleep(1.3)       # another second on the wall clock
            p, o, e = go(tag, cwd, envx, prefix)
            p.wait(timeout=300)
            results[tag] = digest(cwd, o, e) + (p.returncode,)
            stats["runs"] += 1
        # different working directory (copy of the inputs)
        d2 = os.path.join(work, name + "_elsewhere", "deeper", "dir")
        shutil.copytree(d, d2, ignore=shutil.ignore_patterns("out_*", "err_*"))
        p, o, e = go("cwd", d2)
        p.wait(timeout=300)
        results["cwd"] = digest(d2, o, e) + (p.returncode,)
        stats["runs"] += 1
        # k concurrent compilations in the same directory (and sharing /tmp)
        k = 6 if tier == "quick" else 12
        procs = [go("conc%d" % j, d) for j in range(k)]
        for j, (p, o, e) in enumerate(procs):
            p.wait(timeout=600)
            results["conc%d" % j] = digest(d, o, e) + (p.returncode,)
            stats["runs"] += 1
        ref = results["base"]
        diff = {t: v for t, v in results.items() if v != ref}
        distinct.add((name, ref[0][:12]))
        if ref[0] == "nofont" and prog is not None:
            stats["rejected"] += 1
        if diff:
            dd = os.path.join(rep.replay_dir, "C13-%s-%s" % (seed, name))
            shutil.rmtree(dd, ignore_errors=True)
            shutil.copytree(d, dd)
            rep.violation(name, {"program": name, "reference(base)": ref, "differing_runs": diff,
                                 "meaning": "(font sha256, diagnostics sha256, exit status) differ between the base run and the named perturbed/concurrent runs; the outputs are kept in the replay directory as out_<tag>.ttf / err_<tag>.txt"})
        if len(samples) < 3:
            samples.append({"program": name, "runs": sorted(results), "font_sha256": ref[0]})
        shutil.rmtree(d, ignore_errors=True)
        shutil.rmtree(os.path.join(work, name + "_elsewhere"), ignore_errors=True)
    rep.coverage.update({
        "programs": len(progs), "evaluations": stats["runs"], "distinct_nontrivial": len(distinct),
        "traces_validated_against_impl": stats["runs"], "disagreements_checked": len(rep.violations),
        "rule": "per program: 3 plain repetitions, MALLOC_PERTURB_, allocation through mmap (reversed address order), 3-8 runs under an LD_PRELOAD allocator that hands out addresses in pseudo-random order, large environment, locale/TZ, ASLR off (setarch -R), another working directory, and 6-12 concurrent compilations in one directory; all must give the same (font sha256, diagnostics sha256, exit status); distinct = distinct (program, font hash)",
        "samples": samples, "exhaustive": False,
    })
    rep.assumptions += ["the interleavings of concurrent runs are whatever the scheduler produced (exploration, not proof)",
                        "wall-clock dependence is perturbed only by letting a second pass (and by TZ); the year written into a rebuilt unique name when the input has no date is not perturbed: no clock control in this sandbox"]
    shutil.rmtree(work, ignore_errors=True)
    return rep.finish()
