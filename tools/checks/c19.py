"""C19 A run leaves nothing behind and never damages its inputs.

Deciding method: Lean model Grc.MainSM.run with theorems tmp_removed (every run that creates the temporary file removes
it), debug_only_if_requested, no_output_before_checks. Tie: every scenario of tools/procscn.py (success and every
failure stage, every spelling of an output path that aliases the input font) is run on the real binary under strace;
every write-open / unlink / rename is classified against the allowed set {output font, error file, requested debug
files, the temporary file}; directory snapshots (cwd, /tmp) and input hashes are compared before/after; sequences of
runs are observed for accumulation.
"""
import collections
import glob
import os
import resource
import shutil
import signal
import subprocess

import common
import procscn

THEOREMS = ["Grc.MainSM.tmp_removed", "Grc.MainSM.debug_only_if_requested", "Grc.MainSM.no_output_before_checks",
            "Grc.MainSM.failure_leaves_no_font"]

DEBUG_NAMES = ("dbg_", ".gdx")


def run(tier, seed, replay=None):
    rep = common.Report("C19", tier, seed)
    common.lean_gate(rep, THEOREMS)
    build = common.build_repo("rel")
    work = common.new_workdir("c19")
    stats = collections.Counter()
    samples = []
    distinct = set()
    reps = 1 if tier == "quick" else 3
    for name, scn, setup in procscn.scenarios():
        for k in range(reps):
            r = procscn.run_scenario(build, work, name, setup)
            stats["runs"] += 1
            distinct.add((name, tuple(sorted(set(r["after"]) - set(r["before"])))))
            problems = []
            for o in r["ops"]:
                if o.startswith("UNEXPECTED"):
                    problems.append("operation outside the allowed set: " + o)
            if r["tmp_leaked"]:
                problems.append("temporary file(s) left in /tmp: %s" % r["tmp_leaked"])
            if r["ops"].count("createTmp") != r["ops"].count("unlinkTmp"):
                problems.append("temporary file created %d times, removed %d times" % (r["ops"].count("createTmp"), r["ops"].count("unlinkTmp")))
            allowed = {os.path.normpath(os.path.relpath(os.path.join(r["dir"], x), r["dir"])) for x in (r["out"], r["errpath"])}
            dbg = scn["dbgFiles"] or scn["dbgXml"]
            for path in sorted(set(r["after"]) | set(r["before"])):
                b, a = r["before"].get(path), r["after"].get(path)
                if b == a:
                    continue
                np_ = os.path.normpath(path)
                if np_ in allowed or os.path.normpath(os.path.join(r["dir"], np_)) == os.path.normpath(r["out"]):
                    continue
                if dbg and os.path.basename(path).startswith("dbg_"):
                    continue
                if dbg and path.endswith(".gdx"):
                    # the debugger file is the output font's name with its extension (the part after the LAST dot of the
                    # file name) replaced: next to the output font, nowhere else
                    outp = os.path.normpath(os.path.relpath(os.path.join(r["dir"], r["out"]), r["dir"]))
                    base = os.path.basename(outp)
                    want = os.path.normpath(os.path.join(os.path.dirname(outp), (base.rsplit(".", 1)[0] if "." in base else base) + ".gdx"))
                    if np_ == want:
                        continue
                    problems.append("debugger file written as %s, the output font %s asks for %s" % (path, outp, want))
                    continue
                # link.ttf / hard.ttf alias in.ttf
                problems.append("file %s %s" % (path, "created" if b is None else ("deleted" if a is None else "modified")))
            if not dbg:
                extra = [p for p in r["after"] if p not in r["before"] and (os.path.basename(p).startswith("dbg_") or p.endswith(".gdx"))]
                if extra:
                    problems.append("debug files written without being requested: %s" % extra)
            for inp in ["in.ttf", "p.gdl", "stddef.gdh", "link.ttf", "hard.ttf"] + r["inputs"]:
                if inp in r["before"] and r["before"].get(inp) != r["after"].get(inp):
                    problems.append("input %s changed or disappeared" % inp)
            if problems:
                d = os.path.join(rep.replay_dir, "C19-%s-%s" % (seed, name))
                shutil.rmtree(d, ignore_errors=True)
                shutil.copytree(r["dir"], d, symlinks=True)
                rep.violation(name, {"scenario": name, "argv": r["args"], "problems": problems, "write_opens": r["writes"][:30],
                                     "ops": r["ops"], "rerun": "cd %s && GDLPP=%s strace -f -e trace=openat,unlink,rename %s %s" % (d, setup.get("gdlpp", build["gdlpp"]), build["grcompiler"], " ".join(r["args"]))})
            if len(samples) < 3 and k == 0:
                samples.append({"scenario": name, "argv": r["args"], "ops": r["ops"], "created": sorted(set(r["after"]) - set(r["before"]))})
            shutil.rmtree(r["dir"], ignore_errors=True)
    # a failed write in the middle of the font (file size limit): nothing partial may stay, inputs intact
    r = procscn.run_scenario(build, work, "ok", {})   # prepare a directory
    d = r["dir"]

    def pre():
        signal.signal(signal.SIGXFSZ, signal.SIG_IGN)
        resource.setrlimit(resource.RLIMIT_FSIZE, (1000, 1000))
    os.unlink(os.path.join(d, "out.ttf"))
    before = procscn.snapshot(d)
    p = subprocess.run([build["grcompiler"], "-q", "-e", "/dev/null", "p.gdl", "in.ttf", "out.ttf"], cwd=d,
                       env=dict(os.environ, GDLPP=build["gdlpp"]), preexec_fn=pre, capture_output=True)
    after = procscn.snapshot(d)
    stats["runs"] += 1
    if p.returncode == 0 or "out.ttf" in after or any(before[k] != after.get(k) for k in before):
        rep.violation("write-fault", {"problem": "with writes failing after 1000 bytes: exit %s, files changed: %s" % (
            p.returncode, sorted(k for k in set(before) | set(after) if before.get(k) != after.get(k)))})
    shutil.rmtree(d, ignore_errors=True)
    # the same fault at many positions of the output (inside the last tables too): nothing partial may stay
    size, sweep = procscn.write_fault_sweep(build, work)
    for lim, rc, exists, e135, changed in sweep:
        stats["runs"] += 1
        if exists or changed:
            rep.violation("write-fault-%d" % lim, {"problem": "output of %d bytes, writes failing beyond byte %d: exit %s, output font %s, other files changed: %s"
                                                    % (size, lim, rc, "left behind (partial)" if exists else "absent", changed)})
    rep.coverage.update({
        "programs": stats["runs"], "traces_validated_against_impl": stats["runs"], "disagreements_checked": len(rep.violations),
        "evaluations": stats["runs"], "distinct_nontrivial": len(distinct),
        "rule": "every scenario of tools/procscn.py (success, each failure stage, 5 spellings of an output path aliasing the input font, debug options, unwritable error file) x %d repetitions, under strace with before/after snapshots of the working directory and /tmp; plus a write fault in the middle of the font; distinct = distinct (scenario, set of files created)" % reps,
        "samples": samples, "exhaustive": False,
    })
    rep.assumptions += ["strace sees every file-system call of the compiler and its preprocessor child", "the working directory is private to the run (concurrent runs are C13's subject)"]
    shutil.rmtree(work, ignore_errors=True)
    return rep.finish()
