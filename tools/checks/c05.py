"""C05 Glyph attribute tables hold the values the glyph table assigns.

Deciding method: Lean theorem Grc.GA.challenge_fold_eq_spec (the compiler's pairwise override rule, applied in ANY
processing order, yields the specification's winner 'later statement overrides unless AttributeOverride is false',
provided competing statements sit on distinct source lines) and Grc.GA.lookup_encodeRuns (the Glat run encoding
round-trips every attribute value, zeros omitted). Tie: the specification's winner is computed in Lean from the
generator's statement list and compared cell by cell with the Glat/Gloc decoded from the real font; attribute ids are
recovered from a marker glyph; out-of-range values must be rejected.
"""
import collections
import os
import random
import shutil

import common
import gen
import harness

THEOREMS = ["Grc.GA.challenge_some", "Grc.GA.pref_trans", "Grc.GA.codeWinner_spec", "Grc.GA.codeWinner_perm",
            "Grc.GA.codeWinner_sorted_eq_spec", "Grc.GA.challenge_fold_eq_spec", "Grc.GA.lookup_encodeRuns"]

SAME_LINE_SIG = "C05:two-assignments-to-one-cell-on-the-same-source-line"


def cell_has_same_line(prog, glyph, attr):
    ga = prog.gattr
    names = prog.class_order
    lines = [a["line"] for a in ga["assigns"] if a["attr"] == attr and glyph in prog.classes[names[a["cls"]]]]
    return len(lines) != len(set(lines))


def run(tier, seed, replay=None):
    rep = common.Report("C05", tier, seed)
    common.lean_gate(rep, THEOREMS)
    build = common.build_repo("rel")
    work = common.new_workdir("c05")
    n = 150 if tier == "quick" else 1500
    cases = harness.gen_cases(seed, 5, n, lambda rng, i: gen.gen_gattr_program(rng, same_line=(i % 10 == 9), builtin=("collision" if i % 6 == 4 else None)))
    results = harness.compile_cases(build, work, cases)
    acc, rej = harness.split_accepted(results)
    outs = harness.drive(acc, ["c05"])
    stats = collections.Counter()
    distinct = set()
    samples = []
    for r, o in zip(acc, outs):
        stats["fonts"] += 1
        bad = []
        for l in o["c05"]:
            if l.startswith("ok "):
                f = dict(x.split("=") for x in l.split(" ")[1:])
                stats["cells"] += int(f["cells"])
                stats["nondefault"] += int(f["nonDefault"])
                distinct.add(l)
            elif l.startswith("FAIL glyph") and " attribute ua" in l or " breakweight " in l:
                g = int(l.split(" ")[2])
                attr = 1000 if " breakweight " in l else int(l.split(" attribute ua")[1].split(" ")[0])
                if cell_has_same_line(r["prog"], g, attr):
                    rep.violation(r["name"] + "-sameline", {"case": r["name"], "line": l, "gdl": r["prog"].gdl()},
                                  signature=SAME_LINE_SIG)
                    stats["known_same_line_cells"] += 1
                else:
                    bad.append(l)
            else:
                bad.append(l)
        if bad:
            d = harness.save_case(rep, r, r["name"])
            rep.violation(r["name"], {"case": r["name"], "checker_lines": bad[:20],
                                      "meaning": "the named glyph/attribute cell of Glat in out.ttf differs from the value the glyph table of p.gdl denotes",
                                      "rerun": "cd %s && printf 'font out.ttf\\nir p.ir.json\\nc05\\n' | %s" % (d, common.grcv_path())})
        if len(samples) < 2:
            samples.append({"case": r["name"], "gdl": r["prog"].gdl(), "c05": o["c05"][:5]})
    # range family: a value outside the 16-bit field must be an error, never stored wrapped
    rng = random.Random(seed * 31 + 5)
    for k, v in enumerate([32767, 32768, 40000, 65536 + 5, -32767, -32768, -40000, 70000]):
        prog = gen.gen_gattr_program(random.Random(rng.getrandbits(64)))
        text = prog.raw_gdl.replace("table(sub)", "table(glyph) c0 {ua0 = %d}; endtable;\ntable(sub)" % v)
        prog.raw_gdl = text
        res = harness.compile_cases(build, work, [("range%d" % k, prog)])[0]
        fits = -32768 < v < 32768
        produced = os.path.exists(os.path.join(res["dir"], "out.ttf"))
        stats["range_cases"] += 1
        if fits and (res["rc"] != 0 or not produced):
            rep.violation("range%d" % k, {"value": v, "gdl": text, "err": res["err"][-800:],
                                          "meaning": "a value that fits the 16-bit field was rejected"})
        if not fits and (res["rc"] == 0 or produced):
            d = harness.save_case(rep, res, "range%d" % k)
            rep.violation("range%d" % k, {"value": v, "gdl": text, "exit": res["rc"], "font_written": produced,
                                          "meaning": "a glyph attribute value outside the 16-bit field was accepted (stored wrapped) instead of being reported"})
        if not fits and not ("error(4144)" in res["err"] or "error(4145)" in res["err"]):
            rep.violation("range%d-diag" % k, {"value": v, "err": res["err"][-800:],
                                               "meaning": "out-of-range value rejected without the range diagnostic 4144/4145"})
    # mirroring defaults (Bidi = true, nothing assigned): mirror.isEncoded is 1 exactly for the characters with the Unicode
    # property Bidi_Mirrored (python's unicodedata as the oracle; characters that have had the property since Unicode 1.1),
    # mirror.glyph is the glyph of the mirror partner where the font has one (pairs from BidiMirroring.txt, written out
    # here), 0 otherwise. The font maps brackets, guillemets, relations with a partner, mathematical signs that are
    # mirrored but have no partner, and ordinary letters.
    import unicodedata
    import json as _json
    import ttf as _ttf
    chars = [0x28, 0x29, 0x5B, 0x5D, 0x3C, 0x3E, 0xAB, 0xBB, 0x2264, 0x2265, 0x2208, 0x220B, 0x2211, 0x222B, 0x221A, 0x2202, 0x2260, 0x2248, 0x225F, 0x61, 0x62, 0x31, 0x2B]
    pairs = {0x28: 0x29, 0x5B: 0x5D, 0x3C: 0x3E, 0xAB: 0xBB, 0x2264: 0x2265, 0x2208: 0x220B}
    pairs.update({b: a for a, b in list(pairs.items())})
    mglyphs = [{"name": ".notdef", "adv": 500, "contours": [_ttf.square(50, 0, 450, 700)]}, {"name": "space", "adv": 250, "contours": []}]
    mcmap = {0x20: 1}
    for k, c in enumerate(chars):
        mglyphs.append({"name": "m%d" % k, "adv": 400, "contours": [_ttf.square(10, 0, 300, 400 + k)]})
        mcmap[c] = 2 + k
    mprog = gen.Prog()
    mprog.nglyphs = len(mglyphs)
    mprog.font, mprog.cmap = _ttf.build_font(mglyphs, mcmap), mcmap
    for mk, extra in (("mirror_defaults", ""), ("mirror_defaults_one_assigned", "cM = unicode(0x2211) {mirror.isEncoded = 0}; ")):
        mprog.raw_gdl = ('#include "stddef.gdh"\nBidi = true;\ntable(glyph) cA = unicode(0x61); cB = unicode(0x62); %sendtable;\ntable(sub) cA > cB; endtable;\n' % extra)
        rm = harness.compile_cases(build, work, [(mk, mprog)])[0]
        stats["mirror_programs"] += 1
        if rm["rc"] != 0 or not os.path.exists(os.path.join(rm["dir"], "out.ttf")):
            rep.violation(mk + "-rejected", {"gdl": mprog.raw_gdl, "err": rm["err"][-600:]})
            continue
        outm = common.run_grcv(["font %s/out.ttf" % rm["dir"], "dump silf", "dump glat"])
        js = [_json.loads(l) for l in outm if l.startswith("{")]
        silf_, glat_ = js[0], js[1]
        am = silf_["attrMirroring"]
        wrong = []
        for c in chars:
            g_ = mcmap[c]
            attrs = dict((a, v) for a, v in glat_["glat"]["glyphs"][g_]["attrs"])
            want_enc = 1 if unicodedata.mirrored(chr(c)) else 0
            if extra and c == 0x2211:
                want_enc = 0
            want_gl = mcmap.get(pairs.get(c, -1), 0)
            got = (attrs.get(am, 0), attrs.get(am + 1, 0))
            stats["mirror_cells"] += 2
            if got != (want_gl, want_enc):
                wrong.append("U+%04X (glyph %d): mirror.glyph / mirror.isEncoded stored as %s, the defaults are %s" % (c, g_, got, (want_gl, want_enc)))
        if am == 0:
            wrong.append("the Silf header names no mirroring attribute although Bidi = true")
        if wrong:
            harness.save_case(rep, rm, mk)
            rep.violation(mk, {"gdl": mprog.raw_gdl, "problems": wrong[:8],
                               "meaning": "with Bidi = true and no assignment, mirror.glyph is the glyph of the character's mirror partner (0 without one) and mirror.isEncoded says whether the character has the property Bidi_Mirrored"})
        shutil.rmtree(rm["dir"], ignore_errors=True)
    rep.coverage.update({
        "programs": len(results) + stats["range_cases"], "mirroring_default_cells": stats["mirror_cells"], "programs_accepted": len(acc), "programs_rejected": len(rej),
        "rejected_error_ids": harness.error_ids(rej),
        "traces_validated_against_impl": stats["fonts"], "disagreements_checked": len(rep.violations) + stats["known_same_line_cells"],
        "cells_compared": stats["cells"], "cells_with_nonzero_expected_value": stats["nondefault"],
        "known_same_line_cells": stats["known_same_line_cells"],
        "evaluations": stats["fonts"], "distinct_nontrivial": len(distinct),
        "rule": "glyph-table programs: 2-6 overlapping classes, 1-5 user attributes + breakweight, 1-5 environments with AttributeOverride on/off, 1-5 statements each (values incl. 0, +-32767), every 10th program with two statements on one line; plus a range family at the 16-bit boundary; one evaluation = one font whose every (glyph, attribute) cell was compared; distinct = distinct (cells, nonDefault, numAttrs) summaries",
        "samples": samples, "exhaustive": False,
    })
    rep.assumptions += ["user attribute ids are recovered from a marker glyph carrying a unique value per attribute",
                        "not covered: m-unit scaling (float32), glyph metrics and point()/box() in values, directionality defaults (ICU data; mirroring defaults are compared for a fixed set of characters), Glat v2/v3 headers are covered by the decoder only"]
    harness.generator_health(rep, results, acc, rej)
    shutil.rmtree(work, ignore_errors=True)
    return rep.finish()
