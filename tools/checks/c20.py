"""C20 Collision octaboxes enclose the glyph outlines.

Deciding method: Lean theorems Grc.Octa.quant_bounds / min_bound_encloses / max_bound_encloses (exact arithmetic: a
value v = a/b in [0,1] stored as min(floor(255 v), 255) satisfies q/255 <= v < (q+1)/255 or v = 1; hence a stored
minimum is below, and a stored maximum widened by one 1/255 step is above, every value they were computed from).
Tie (per glyph, on real bytes): the Lean driver decodes the Glat v3 octabox records of the output font and the glyf
outlines (simple and composite) of the input font and checks, in exact integer arithmetic, that every outline point
lies within the whole-glyph diagonal bounds and, when sub-boxes are present, in a cell marked occupied whose eight
bounds enclose it up to one quantisation step; glyphs without outline must carry empty data.
"""
import collections
import os
import random
import shutil

import common
import harness
import ttf

THEOREMS = ["Grc.Octa.quant_bounds", "Grc.Octa.min_bound_encloses", "Grc.Octa.max_bound_encloses"]

KF_SIG = "C20:cell-whose-points-share-one-coordinate-is-dropped"
KF3_SIG = "C20:composite-glyph-that-repeats-a-component-gets-one-placement-for-all-copies"
KF2_SIG = "C20:maximum-bound-truncated-to-4-decimals-before-quantisation"


def rand_outline(rng, kind):
    if kind == "rect":
        x0, y0 = rng.randint(-50, 100), rng.randint(-200, 100)
        return [ttf.square(x0, y0, x0 + rng.randint(40, 900), y0 + rng.randint(40, 900))]
    if kind == "tri":
        return [[(rng.randint(0, 100), 0, 1), (rng.randint(400, 900), rng.randint(0, 200), 1), (rng.randint(100, 600), rng.randint(500, 900), 1)]]
    if kind == "poly":
        n = rng.randint(4, 10)
        return [[(rng.randint(0, 1000), rng.randint(-200, 800), rng.choice([0, 1, 1])) for _ in range(n)]]
    if kind == "grid":   # points exactly on cell borders of a 400x400 / 800x800 box
        s = rng.choice([400, 800, 1000])
        pts = [(0, 0, 1), (s, 0, 1), (s, s, 1), (0, s, 1)]
        for _ in range(rng.randint(1, 5)):
            pts.insert(rng.randint(1, len(pts)), (rng.choice([0, s // 4, s // 2, 3 * s // 4, s]), rng.choice([0, s // 4, s // 2, 3 * s // 4, s]), 1))
        return [pts]
    if kind == "two":
        return rand_outline(rng, "rect") + rand_outline(rng, "tri")
    if kind == "L":
        t = rng.randint(20, 150)
        return [[(0, 0, 1), (400, 0, 1), (400, t, 1), (t, t, 1), (t, 800, 1), (0, 800, 1)]]
    return []


def gen_font(rng, n):
    glyphs = [{"name": ".notdef", "adv": 500, "contours": [ttf.square(50, 0, 450, 700)]}, {"name": "space", "adv": 250, "contours": []}]
    cmap = {0x20: 1}
    kinds = ["rect", "tri", "poly", "poly", "grid", "two", "L", "empty"]
    for i in range(2, n):
        k = rng.choice(kinds)
        simple = [j for j in range(2, i) if glyphs[j].get("contours")]
        if i > 10 and len(simple) >= 8 and rng.random() < 0.12:
            # a composite of many components (3 .. 12 different simple glyphs, side by side)
            cnt = min(len(simple), rng.choice([3, 7, 8, 8, 9, 12]))
            parts = rng.sample(simple, cnt)
            g = {"name": "g%d" % i, "adv": 900, "components": [(c, 60 * q - 200, 37 * q - 100) for q, c in enumerate(parts)]}
            glyphs.append(g)
            cmap[0x61 + i - 2] = i
            continue
        if k == "comp" or (i > 6 and rng.random() < 0.25):
            a, b = (rng.sample(range(2, i), 2) if rng.random() < 0.8 else [rng.randint(2, i - 1)] * 2)
            def leaves(j):
                return [x for (c, *_r) in glyphs[j]["components"] for x in leaves(c)] if "components" in glyphs[j] else [j]
            nested_ok = (a != b and "components" in glyphs[a] and "components" not in glyphs[b] and glyphs[b].get("contours")
                         and all("components" not in glyphs[c] for (c, *_r) in glyphs[a]["components"]) and b not in leaves(a)
                         and len(set(leaves(a))) == len(leaves(a)))
            if nested_ok:
                # a composite one of whose components is itself a composite (component depth 2)
                g = {"name": "g%d" % i, "adv": 700, "components": [(a, rng.randint(-50, 50), 0), (b, rng.randint(-100, 400), rng.randint(-100, 400))]}
            elif "components" in glyphs[a] or "components" in glyphs[b] or not glyphs[a].get("contours") or not glyphs[b].get("contours"):
                g = {"name": "g%d" % i, "adv": 500, "contours": rand_outline(rng, "rect")}
            else:
                second = (b, rng.randint(-100, 400), rng.randint(-100, 400))
                if a != b and rng.random() < 0.5:
                    # scaled component (WE_HAVE_A_SCALE / WE_HAVE_AN_X_AND_Y_SCALE); eighths are exact in float arithmetic
                    sx = rng.choice([4, 6, 8, 10, 12, 14, -8, -6]) * 2048
                    sy = sx if rng.random() < 0.4 else rng.choice([4, 5, 6, 8, 10, 12, 14, -8]) * 2048
                    second = second + (sx, sy)
                elif a != b and rng.random() < 0.35:
                    # a 2x2 transform (WE_HAVE_A_TWO_BY_TWO): quarter turns, a shear, a mirror with a shear; eighths are exact
                    m = rng.choice([(0, 16384, -16384, 0), (0, -16384, 16384, 0), (16384, 0, 8192, 16384), (16384, 4096, 0, 16384),
                                    (-16384, 0, 6144, 12288), (8192, 8192, -8192, 8192)])
                    second = second + m
                g = {"name": "g%d" % i, "adv": 700, "components": [(a, 0, 0), second]}
                if a != b and rng.random() < 0.25:
                    # the second component placed by point matching: point pa of the first component (the composite so
                    # far) and point pb of the second coincide; the arguments are unsigned point numbers
                    na = len([p for c in glyphs[a]["contours"] for p in c])
                    nb = len([p for c in glyphs[b]["contours"] for p in c])
                    g = {"name": "g%d" % i, "adv": 700, "components": [(a, 0, 0), (b, rng.randrange(na), rng.randrange(nb)) + second[3:]],
                         "match_points": True}
                    if rng.random() < 0.5:
                        g["byte_args"] = True
                    glyphs.append(g)
                    cmap[0x61 + i - 2] = i
                    continue
                if rng.random() < 0.4:
                    # offsets that fit a signed byte, written as bytes (ARG_1_AND_2_ARE_WORDS clear), often negative
                    second = (b, rng.randint(-128, 127), rng.randint(-128, 127)) + second[3:]
                    g = {"name": "g%d" % i, "adv": 700, "components": [(a, 0, 0), second], "byte_args": True}
        else:
            g = {"name": "g%d" % i, "adv": 600, "contours": rand_outline(rng, k)}
        glyphs.append(g)
        cmap[0x61 + i - 2] = i
    return ttf.build_font(glyphs, cmap), glyphs


def run(tier, seed, replay=None):
    rep = common.Report("C20", tier, seed)
    common.lean_gate(rep, THEOREMS)
    build = common.build_repo("rel")
    work = common.new_workdir("c20")
    n = 30 if tier == "quick" else 300
    rng = random.Random(seed * 20 + 20)
    stats = collections.Counter()
    distinct = set()
    samples = []
    for i in range(n):
        crng = random.Random(rng.getrandbits(64))
        ng = crng.choice([12, 20, 30])
        font, glyphs = gen_font(crng, ng)
        cx = sorted(crng.sample(range(2, ng), crng.randint(1, ng // 2)))
        simple = [g for g in range(2, ng) if g not in cx]
        d = os.path.join(work, "c%04d" % i)
        os.makedirs(d)
        open(os.path.join(d, "in.ttf"), "wb").write(font)
        shutil.copy(common.STDDEF, d)
        # complexFit written as a literal, or as an expression over glyph metrics that is 1 for every glyph with an outline
        fit = crng.choice(["1", "1", "true", "(boundingbox.height > 0m) ? 1 : 0", "min(1, boundingbox.width + boundingbox.height)",
                           "(advancewidth >= 0m) ? 1 : 0"])
        gdl = ('#include "stddef.gdh"\ntable(glyph) cX = glyphid(%s) {collision.complexFit = FITEXPR};%s endtable;\n'
               'table(pos) pass(1) {CollisionFix = %d} cX {collision.flags = 1}; endpass; endtable;\n'
               % (", ".join(map(str, cx)), (" cS = glyphid(%s);" % ", ".join(map(str, simple))) if simple else "", crng.choice([1, 2, 3])))
        gdl = gdl.replace("FITEXPR", fit)
        open(os.path.join(d, "p.gdl"), "w").write(gdl)
        rc, log, _ = common.run_grc(build, d, ["-q", "p.gdl", "in.ttf", "out.ttf"])
        if rc != 0:
            stats["rejected"] += 1
            if rc not in (0, 1):
                rep.violation("c%04d-crash" % i, {"problem": "compiler ended with status %s" % rc, "log": log[-400:], "gdl": gdl})
            shutil.rmtree(d, ignore_errors=True)
            continue
        outs = common.run_grcv(["infont %s/in.ttf" % d, "font %s/out.ttf" % d, "c20 " + ",".join(map(str, cx))])
        res = [l for l in outs[2:] if l and l != "done"]
        stats["fonts"] += 1
        bad = [l for l in res if not l.startswith("ok ")]
        for l in res:
            if l.startswith("ok "):
                f = dict(x.split("=") for x in l.split(" ")[1:])
                stats["points"] += int(f["points"])
                stats["subboxes"] += int(f["subBoxes"])
                stats["degenerate"] += int(f["degenerate"])
                distinct.add(l)
        if bad:
            uncovered = [b for b in bad if "not marked occupied" in b and "cellPointsShareX=true" in b]
            slack = [b for b in bad if "[within the 1e-4 truncation slack]" in b]
            # (the tag is put on every failure of a glyph whose components repeat: a failure that one of the other two
            # findings explains is theirs)
            rept = [b for b in bad if "[composite repeats a component]" in b and b not in uncovered and b not in slack]
            other = [b for b in bad if b not in uncovered and b not in slack and b not in rept]
            if rept:
                rep.violation("c%04d-repeat" % i, {"lines": rept[:5], "gdl": gdl}, signature=KF3_SIG)
                stats["known_repeated_component_points"] += len(rept)
            if slack:
                rep.violation("c%04d-slack" % i, {"lines": slack[:5], "gdl": gdl}, signature=KF2_SIG)
                stats["known_truncation_slack_points"] += len(slack)
            dd = os.path.join(rep.replay_dir, "C20-%s-c%04d" % (seed, i))
            if uncovered:
                rep.violation("c%04d-uncovered" % i, {"lines": uncovered[:5], "gdl": gdl}, signature=KF_SIG)
                stats["known_uncovered_points"] += len(uncovered)
            if other:
                shutil.rmtree(dd, ignore_errors=True)
                shutil.copytree(d, dd)
                rep.violation("c%04d" % i, {"case": "c%04d" % i, "checker_lines": other[:10],
                                           "rerun": "cd %s && printf 'infont in.ttf\\nfont out.ttf\\nc20 <complexFit glyph ids, comma-separated>\\n' | %s" % (dd, common.grcv_path())})
        if len(samples) < 2:
            samples.append({"case": "c%04d" % i, "complex_glyphs": cx, "c20": res[:3]})
        shutil.rmtree(d, ignore_errors=True)
    rep.coverage.update({
        "programs": n, "fonts_checked": stats["fonts"], "rejected": stats["rejected"], "outline_points_checked": stats["points"],
        "sub_boxes_decoded": stats["subboxes"], "degenerate_glyphs_skipped": stats["degenerate"],
        "known_uncovered_points": stats["known_uncovered_points"], "known_truncation_slack_points": stats["known_truncation_slack_points"],
        "traces_validated_against_impl": stats["fonts"], "disagreements_checked": len(rep.violations),
        "evaluations": stats["fonts"], "distinct_nontrivial": len(distinct),
        "rule": "fonts of 12-30 glyphs with rectangles, triangles, random polygons (on/off-curve points), points exactly on cell borders, L shapes, two-contour glyphs, composites (also with a composite as a component) and outline-less glyphs; a random subset marked collision.complexFit; distinct = distinct checker summaries",
        "samples": samples, "exhaustive": False,
    })
    rep.assumptions += ["'outline point' = a point of the glyf outline (on- or off-curve control point), as the code's own comment says; curve interiors are not considered",
                        "cell membership uses the code's rule trunc(4v - 0.001) in exact arithmetic; float32 rounding of the compiler is not modelled (a point within rounding distance of a border could be attributed differently)",
                        "glyphs whose bounding box has zero width or height are skipped (counted)"]
    shutil.rmtree(work, ignore_errors=True)
    return rep.finish()
