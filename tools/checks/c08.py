"""C08 The input font is carried through intact and the result is a valid font file.

Deciding method: Lean checkers SfntChk.checkContainer / checkPreserved / checkNames evaluated on the real output
(sorted directory, alignment, bounds, pairwise disjointness, every table checksum, file checksum magic; every
non-name non-Graphite table byte-identical; name records preserved, new ids fresh and >= 256) + Lean theorems
wordSum_append / wordSum_pad (the file checksum is the sum of the checksums of its 4-aligned zero-padded parts, so the
per-table and whole-file conditions checked are the ones the format defines), plus recompilation chains.
"""
import collections
import hashlib
import os
import random
import shutil
import struct

import common
import gen
import harness
import ttf

THEOREMS = ["Grc.SfntChk.wordSum_append", "Grc.SfntChk.wordSum_pad", "Grc.SfntChk.wordSum_zeros"]

FEATURES = '''table(feature)
fone { id = 1001; name.1033 = string("First feature");
  settings { soff { value = 0; name.1033 = string("Off"); } son { value = 1; name.1033 = string("On"); } }
  default = soff; }
ftwo { id = "abcd"; name.1033 = string("Second"); name.1036 = string("Deuxieme");
  settings { sa { value = 2; name.1033 = string("Two"); } sb { value = 5; name.1033 = string("Five"); } } }
endtable;
'''


def variant_font(rng, nglyphs):
    """Input fonts with varied table sets/orders/lengths and name tables."""
    glyphs = [{"name": ".notdef", "adv": 500, "contours": [ttf.square(50, 0, 450, 700)]},
              {"name": "space", "adv": 250, "contours": []}]
    cmap = {0x20: 1}
    for i in range(2, nglyphs):
        w = 200 + rng.randint(0, 300)
        glyphs.append({"name": "g%d" % i, "adv": w + 40, "contours": [ttf.square(10, 0, 10 + w, 300 + rng.randint(0, 400))]})
        cmap[0x61 + i - 2] = i
    extra = {}
    for k in range(rng.choice([0, 0, 1, 2, 3, 6, 9])):
        tag = "".join(rng.choice("ABCDEFGHIJKLMNOPQRSTUVWXYZ") for _ in range(2)) + "%02d" % k
        extra[tag.encode()] = bytes(rng.getrandbits(8) for _ in range(rng.choice([1, 2, 3, 4, 5, 7, 16, 33, 100])))
    plats = [(1, 0, 0), (3, 1, 1033)]
    symbol = rng.random() < 0.2
    if symbol:
        plats = [(1, 0, 0), (3, 0, 1033)]      # a symbol font: Microsoft names (and cmap) under encoding 0, nothing under (3,1)
    if rng.random() < 0.4 and not symbol:
        plats.append((0, 3, 0))
    if rng.random() < 0.3:
        plats.append((3, 1, 1036))
    if rng.random() < 0.25:
        plats.append((1, 1, 11))        # Macintosh / Japanese: a non-English family name on its own platform-encoding pair
    if rng.random() < 0.15:
        plats.append((3, 1, 0x0411))
    extra_names = {}
    if rng.random() < 0.3:
        extra_names[16] = "PrefFam"
        extra_names[18] = "Compat Full"
    if rng.random() < 0.3:
        extra_names[rng.choice([256, 257, 300])] = "Existing high id"
    names = ttf.default_names("Fam%d" % rng.randint(0, 99), extra=extra_names, platforms=tuple(plats))
    order = None
    if rng.random() < 0.5:
        order = [b"OS/2", b"cmap", b"glyf", b"head", b"hhea", b"hmtx", b"loca", b"maxp", b"name", b"post"] + list(extra)
        rng.shuffle(order)
    if symbol:
        cmap = {(0xF000 + c): g for c, g in cmap.items()}
    return ttf.build_font(glyphs, cmap, names=names, extra_tables=extra, order=order, cmap12=(rng.random() < 0.2 and not symbol), symbol=symbol)


def tables_of(path):
    t, d = ttf.parse(open(path, "rb").read())
    return t


def run(tier, seed, replay=None):
    rep = common.Report("C08", tier, seed)
    common.lean_gate(rep, THEOREMS)
    build = common.build_repo("rel")
    work = common.new_workdir("c08")
    n = 40 if tier == "quick" else 300
    rng = random.Random(seed * 7919 + 8)
    stats = collections.Counter()
    distinct = set()
    samples = []
    suite = ["PigLatinInput.ttf", "SchInput.ttf", "PadaukInput.ttf"] + (["CharisInput.ttf"] if tier == "thorough" else [])
    for i in range(n):
        crng = random.Random(rng.getrandbits(64))
        prog = gen.gen_match_program(crng, nglyphs=40, size="small")
        if i % 8 == 7:
            fontbytes = open(os.path.join(common.REPO, "test/GrcRegressionTest/fonts", suite[(i // 8) % len(suite)]), "rb").read()
            kind = "suite:" + suite[(i // 8) % len(suite)]
        else:
            fontbytes = variant_font(crng, 40)
            kind = "generated"
        prog.font = fontbytes
        with_feat = crng.random() < 0.5
        if with_feat:
            prog.feature_text = FEATURES
        rename = crng.random() < 0.3
        d = os.path.join(work, "c%04d" % i)
        os.makedirs(d)
        gen.write_case(prog, d)
        # options that change how the Graphite tables are laid out in the file (compressed tables have another length than
        # the data they hold; older versions have other headers)
        opts = crng.choice([[], [], [], ["-c"], ["-c"], ["-v3"], ["-c", "-p"], ["-v2", "-p"]])
        args0 = ["-q"] + opts + ["p.gdl"]

        def comp(src, dst, extra=()):
            a = args0 + [src, dst] + (["New Family"] if rename else []) + list(extra)
            rc, log, wall = common.run_grc(build, d, a)
            return rc
        rc = comp("in.ttf", "g1.ttf")
        if rc != 0 or not os.path.exists(os.path.join(d, "g1.ttf")):
            stats["rejected"] += 1
            if opts:
                rcp, logp, _w = common.run_grc(build, d, ["-q", "p.gdl", "in.ttf", "g0.ttf"] + (["New Family"] if rename else []))
                if rcp == 0:
                    # the program and the font are fine: the compiler failed while writing the font with these options
                    ep = os.path.join(d, "gdlerr.txt")
                    dd = os.path.join(rep.replay_dir, "C08-%s-c%04d" % (seed, i))
                    shutil.rmtree(dd, ignore_errors=True)
                    shutil.copytree(d, dd)
                    rep.violation("c%04d-opts" % i, {"case": "c%04d" % i, "options": opts, "input_font_kind": kind,
                                                    "failures": ["with %s the compiler exits %s; without, the same program and font compile" % (" ".join(opts), rc)],
                                                    "rerun": "cd %s && GDLPP=<gdlpp> grcompiler %s in.ttf g1.ttf" % (dd, " ".join(args0))})
            shutil.rmtree(d, ignore_errors=True)
            continue
        rc2 = comp("g1.ttf", "g2.ttf")
        rc3 = comp("g2.ttf", "g3.ttf")
        # a different program first, then this one
        prog2 = gen.gen_match_program(random.Random(crng.getrandbits(64)), nglyphs=40, size="small")
        prog2.font = fontbytes
        open(os.path.join(d, "q.gdl"), "w").write(prog2.gdl())
        rcq, _, _ = common.run_grc(build, d, ["-q"] + opts + ["q.gdl", "in.ttf", "h.ttf"])
        rch = comp("h.ttf", "gh.ttf") if rcq == 0 else None
        lines = ["infont %s/in.ttf" % d, "font %s/g1.ttf" % d, "c08 renamed" if rename else "c08"]
        chain_ok = (rc2 == 0 and rc3 == 0)
        if chain_ok:
            lines += ["infont %s/g1.ttf" % d, "font %s/g2.ttf" % d, "c08 renamed" if rename else "c08"]
        outs = common.run_grcv(lines)
        fails = [l for l in outs if l.startswith("FAIL") or l.startswith("error")]
        stats["fonts_checked"] += 1 + (1 if chain_ok else 0)
        for l in outs:
            if l.startswith("ok tables"):
                distinct.add(l + kind)
        if not chain_ok:
            fails.append("recompiling the compiler's own output failed (rc2=%s rc3=%s)" % (rc2, rc3))
        else:
            t1, t2, t3 = tables_of(d + "/g1.ttf"), tables_of(d + "/g2.ttf"), tables_of(d + "/g3.ttf")
            for tag in (b"Silf", b"Glat", b"Gloc", b"Sill"):
                if t1.get(tag) != t2.get(tag):
                    fails.append("chain: %s of generation 2 differs from generation 1" % tag.decode())
            if open(d + "/g2.ttf", "rb").read() != open(d + "/g3.ttf", "rb").read():
                fails.append("chain: generation 3 differs from generation 2 (no fixed point)")
            for tag in t1:
                if tag not in (b"name", b"head", b"Silf", b"Glat", b"Gloc", b"Feat", b"Sill") and t1[tag] != t3.get(tag):
                    fails.append("chain: table %s changed between generation 1 and 3" % tag.decode())
            stats["chains"] += 1
        if rch == 0:
            th = tables_of(d + "/gh.ttf")
            t1 = tables_of(d + "/g1.ttf")
            for tag in (b"Silf", b"Glat", b"Gloc", b"Sill"):
                if th.get(tag) != t1.get(tag):
                    fails.append("compile(P, compile(Q, F)): %s differs from compile(P, F)" % tag.decode())
            for tag in th:
                if tag in (b"Silf", b"Glat", b"Gloc", b"Sill", b"Feat", b"Sile") and sum(1 for x in ttf.parse(open(d + "/gh.ttf", "rb").read())[1] if x[0] == tag) != 1:
                    fails.append("Graphite table %s accumulated" % tag.decode())
            stats["cross_chains"] += 1
        # labels declared in several languages all get language 0 on the Macintosh Roman and Unicode 2.0 platforms (the compiler
        # says so: warnings 5506 / 5507), so a label with an English and another form has two records under one key there
        import re as _re
        collapsed = [f for f in fails if _re.match(r"FAIL duplicate name record \((1, \(0, \(0,|0, \(3, \(0,) (2[5-9][0-9]|[3-9][0-9]{2}|[0-9]{4,})\)\)\)", f)]
        if collapsed:
            fails = [f for f in fails if f not in collapsed]
            rep.violation("c%04d-maclang" % i, {"case": "c%04d" % i, "failures": collapsed[:4]}, signature="C08:labels-in-several-languages-share-language-0-on-macintosh-and-unicode-platforms")
        if fails:
            dd = os.path.join(rep.replay_dir, "C08-%s-c%04d" % (seed, i))
            shutil.rmtree(dd, ignore_errors=True)
            shutil.copytree(d, dd)
            rep.violation("c%04d" % i, {"case": "c%04d" % i, "input_font_kind": kind, "features": with_feat, "renamed": rename, "options": opts,
                                       "failures": fails,
                                       "rerun": "cd %s && GDLPP=<gdlpp> grcompiler -q p.gdl in.ttf g1.ttf%s; printf 'infont in.ttf\\nfont g1.ttf\\nc08\\n' | %s" % (dd, " 'New Family'" if rename else "", common.grcv_path())})
        if len(samples) < 3:
            samples.append({"case": "c%04d" % i, "kind": kind, "features": with_feat, "renamed": rename, "driver": outs})
        shutil.rmtree(d, ignore_errors=True)
    rep.coverage.update({
        "programs": n, "fonts_checked": stats["fonts_checked"], "chains": stats["chains"], "cross_chains": stats["cross_chains"],
        "rejected": stats["rejected"],
        "traces_validated_against_impl": stats["fonts_checked"], "disagreements_checked": len(rep.violations),
        "evaluations": stats["fonts_checked"], "distinct_nontrivial": len(distinct),
        "rule": "input fonts with varied table sets (0-9 extra tables, odd lengths), physical orders, name platforms/languages, existing high name ids, cmap 12, plus suite fonts; programs with/without features; renaming on/off; 3-generation chains and compile(P, compile(Q, F)); one evaluation = one output font passing container+preservation+name checks; distinct = distinct (tables,size,kind)",
        "samples": samples, "exhaustive": False,
    })
    rep.assumptions += ["input fonts built by tools/ttf.py are well-formed (each is accepted by the compiler and libgraphite2)"]
    if stats["rejected"] > n // 2:
        rep.violation("generator", {"broken": "most compilations rejected"}, no_failing_input=True)
    shutil.rmtree(work, ignore_errors=True)
    return rep.finish()
