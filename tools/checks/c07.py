"""C07 Optional items expand to exactly the documented alternatives.

Deciding method: Lean specification Opt.specAlternatives (element-by-element alternatives of a tree of optional groups,
earlier elements varying slowest, a group's alternatives = those of its body then the empty one) and Lean model
Opt.modelAlternatives of the compiler's range algorithm (exchange sort, adjacent-duplicate removal, include-then-omit
recursion with PrevRangeSubsumes); theorems newIndex_count / newIndex_none (reference renumbering: a kept item's new
index is 1 + the number of kept items before it; an omitted item has none) and spec_single_optional. Tie: for generated
rules the driver checks model = spec (up to repeated alternatives) per rule, replaces the rule by its alternatives and
then certifies against the real font: rule count and order, FSM of every alternative (C02 theorem), sort keys and
pre-contexts (C06), substitution data and @n/association offsets of every alternative (same original item); a
reference to an omitted item must be diagnosed with error 1103 at the rule's line.
"""
import collections
import json
import os
import shutil

import common
import gen
import harness

THEOREMS = ["Grc.Opt.model_eq_spec", "Grc.Opt.model_eq_spec_any_order", "Grc.Opt.wfB_sound", "Grc.Opt.exchangeSort_eq",
            "Grc.Opt.exchangeSort_perm", "Grc.Opt.exchangeSort_sorted", "Grc.Opt.exchangeSort_unique", "Grc.Opt.ranges_good",
            "Grc.Opt.free", "Grc.Opt.forced", "Grc.Opt.kept_spec",
            "Grc.Opt.newIndex_count", "Grc.Opt.newIndex_none", "Grc.Opt.spec_single_optional", "Grc.Fsm.checkCert_correct",
            "Grc.OptGen.loops_as_modelled", "Grc.OptGen.conditions_as_modelled", "Grc.OptGen.locals_as_modelled",
            "Grc.OptGen.swap_and_erase_as_modelled", "Grc.OptGen.recursion_as_modelled", "Grc.OptGen.prev_range_as_modelled",
            "Grc.OptGen.omit_loop_as_modelled", "Grc.OptGen.sort_dedup_overlap_text", "Grc.OptGen.generate_text",
            "Grc.OptGen.prev_range_text"]


def run(tier, seed, replay=None):
    rep = common.Report("C07", tier, seed)
    common.lean_gate(rep, THEOREMS, uses_opt=True)
    build = common.build_repo("rel")
    work = common.new_workdir("c07")
    n = 120 if tier == "quick" else 1200
    cases = harness.gen_cases(seed, 7, n, lambda rng, i: gen.gen_opt_program(rng, refs=(i % 3 == 2), exprs=(i % 3 == 1), glyph_bw=(i % 6 == 1)))
    results = harness.compile_cases(build, work, cases)
    # what does the spec say about references into omitted groups?
    pre = {}
    lines = []
    for r in results:
        lines += ["ir %s/p.ir.json" % r["dir"], "expand"]
    outs = common.run_grcv(lines)
    it = iter(outs)
    for r in results:
        next(it)
        cur = []
        for l in it:
            if l == "done":
                break
            cur.append(l)
        pre[r["name"]] = cur
    stats = collections.Counter()
    distinct = set()
    samples = []
    acc, rej = harness.split_accepted(results)
    for r in rej:
        exp = pre[r["name"]]
        refo = [l for l in exp if l.startswith("REFOMITTED")]
        ids = harness.error_ids([r])
        stats["rejected"] += 1
        if refo and "1103" in ids:
            stats["omitted_reference_diagnosed"] += 1
            continue
        d = harness.save_case(rep, r, r["name"])
        rep.violation(r["name"], {"case": r["name"], "gdl": r["prog"].gdl(), "errors": [l for l in r["err"].split("\n") if "error" in l][:5],
                                  "spec": exp[:5], "meaning": "the program was rejected although no alternative refers to an omitted item (or with an unexpected diagnostic)"})
    outs2 = harness.drive(acc, ["expand", "c02", "c06", "c04", "c01"])
    for r, o in zip(acc, outs2):
        stats["fonts"] += 1
        fl = [l for c in ("expand", "c02", "c06", "c04", "c01") for l in o[c] if not (l.startswith("ok") or " ok " in l)]
        refo = [l for l in o["expand"] if l.startswith("REFOMITTED")]
        if refo:
            fl.append("a reference to an omitted item was accepted without diagnostic 1103")
        for l in o["expand"]:
            if l.startswith("ok expanded"):
                f = dict(x.split("=") for x in l.split(" ")[2:])
                stats["optional_rules"] += int(f["optionalRules"])
                stats["alternatives"] += int(f["alternatives"])
                stats["well_formed_trees"] += int(f.get("wellFormedTrees", 0))
                distinct.add((l, tuple(o["c06"])))
        if fl:
            d = harness.save_case(rep, r, r["name"])
            rep.violation(r["name"], {"case": r["name"], "checker_lines": fl[:10], "gdl": r["prog"].gdl(),
                                      "meaning": "the rules in the font differ from the documented alternatives of a rule with optional items (count/order, matching, precedence data, or a reference that no longer denotes the same original item)",
                                      "rerun": "cd %s && printf 'font out.ttf\\nir p.ir.json\\nexpand\\nc02\\nc06\\nc04\\n' | %s" % (d, common.grcv_path())},
                          no_failing_input=all(l.startswith("MODELDIFF") for l in fl))
        if len(samples) < 2:
            samples.append({"case": r["name"], "gdl": r["prog"].gdl(), "expand": o["expand"], "c06": o["c06"]})
    rep.coverage.update({
        "programs": len(results), "programs_accepted": len(acc), "programs_rejected": len(rej),
        "rejected_error_ids": harness.error_ids(rej), "omitted_reference_diagnosed": stats["omitted_reference_diagnosed"],
        "optional_rules": stats["optional_rules"], "alternatives_checked": stats["alternatives"],
        "optional_rules_covered_by_model_eq_spec (well-formed trees)": stats["well_formed_trees"],
        "traces_validated_against_impl": stats["fonts"] + stats["rejected"], "disagreements_checked": len(rep.violations),
        "evaluations": stats["fonts"] + stats["rejected"], "distinct_nontrivial": len(distinct),
        "rule": "rules whose context is a random tree of optional groups (depth <= 3, up to 8 items; single items, groups, nested, adjacent, identical nested ranges), with substitutions, '^', and (every third program) @n / associations that may point into groups; distinct = distinct (expansion summary, pass headers)",
        "samples": samples, "exhaustive": False,
    })
    rep.assumptions += ["model = spec is a theorem for well-formed trees (no group that is merely another group in brackets, no empty group); for the others (counted above as the difference) it is compared per rule up to repeated alternatives, which are behaviourally idempotent",
                        "the model's functions are a hand transcription of PostParser.cpp (AdjustOptRanges, GenerateOptRanges, PrevRangeSubsumes); the tie is the comparison of every alternative with the rules found in the font"]
    harness.generator_health(rep, results, acc, rej, min_frac=0.4)
    shutil.rmtree(work, ignore_errors=True)
    return rep.finish()
