"""C10 Programs that break the language's static rules are rejected, not compiled.

Deciding method: Lean specification SR.ruleViolations (selector / @ / association references out of range or onto an
inserted item; insertion, deletion, association in the positioning table) evaluated on the IR of each injected
program, and Lean theorem SR.noCycleFrom_sound (the model of the class-recursion check accepts a class only if no
path of references leads from it back to itself or to a class being defined). Tie: a single-fault injector produces,
for every static rule and several positions / table types, a faulty program and its minimally repaired twin; the real
compiler must reject the faulty one with an error on the injected line and leave no font, and compile the twin; for
the IR-expressible rules the expectation comes from the Lean specification.
"""
import collections
import os
import random
import shutil

import common
import gen
import harness
import ttf

THEOREMS = ["Grc.SR.noCycleFrom_sound"]

GLYPHS = "cA = glyphid(3, 4); cB = glyphid(5, 6); cC = glyphid(7); cD = glyphid(8, 9);"
FEATS = 'table(feature) f1 { id = 100; name.1033 = string("F"); settings { on { value = 1; name.1033 = string("On"); } off { value = 0; name.1033 = string("Off"); } } default = off; } endtable;'

# (name, table, faulty statement, repaired twin statement, extra glyph-table text for faulty, for twin, expected error ids)
TEXT_FAULTS = [
    ("undefined_class", "sub", "cA > cNope;", "cA > cB;", "", "", {"3139"}),
    ("undefined_class_in_context", "sub", "cA > cB / cNope _;", "cA > cB / cC _;", "", "", {"3139", "3134"}),
    ("undefined_class_pos", "pos", "cNope {shift.x = 5};", "cA {shift.x = 5};", "", "", {"3139"}),
    ("recursive_class", "sub", "cA > cB;", "cA > cB;", "cX = glyphid(3); cX += (cX);", "cX = glyphid(3); cX += (cC);", {"4148"}),
    ("recursive_class_indirect", "sub", "cA > cB;", "cA > cB;", "cX = glyphid(3); cY = (cX); cX += (cY);", "cX = glyphid(3); cY = (cX);", {"4148"}),
    ("forward_class_reference", "sub", "cA > cB;", "cA > cB;", "cX = (cY); cY = glyphid(3);", "cY = glyphid(3); cX = (cY);", {"1145"}),
    ("lhs_rhs_mismatch", "sub", "cA cB > cC;", "cA cB > cC cC;", "", "", {"3145", "1188"}),
    ("lhs_rhs_mismatch_context", "sub", "cA > cB cC / _ cD;", "cA > cB / _ cD;", "", "", {"3145", "1188", "3146", "1187"}),
    ("slot_reference_out_of_range", "sub", "cA > cB {user1 = @9.user1};", "cA > cB {user1 = @1.user1};", "", "", {"2140"}),
    ("slot_reference_out_of_range_constraint", "sub", "cA > cB / _ {@7.user1 == 1};", "cA > cB / _ {@1.user1 == 1};", "", "", {"2140"}),
    ("movement_attr_in_substitution", "sub", "cA > cB {shift.x = 5};", "cA > cB {user1 = 5};", "", "", {"3121"}),
    ("advance_in_substitution", "sub", "cA > cB {advance.x = 5};", "cA > cB {user1 = 5};", "", "", {"3121"}),
    # tests that an `if` may not make (only features and the processing state), around rules and around whole passes
    ("glyph_attr_test_in_if_around_rules", "sub", "if (mark == 1) cA > cB; endif;", "if (f1 == on) cA > cB; endif;", "cM = glyphid(3) {mark = 1};", "cM = glyphid(3) {mark = 1};", {"2121"}),
    ("glyph_attr_test_in_if_around_passes", "sub", "if (mark == 1) pass(1) cA > cB; endpass; endif;", "if (f1 == on) pass(1) cA > cB; endpass; endif;",
     "cM = glyphid(3) {mark = 1};", "cM = glyphid(3) {mark = 1};", {"2121"}),
    ("slot_ref_test_in_if_around_passes", "sub", "if (@1.mark == 1) pass(1) cA > cB; endpass; pass(2) cB > cA; endpass; endif;",
     "if (f1 == on) pass(1) cA > cB; endpass; pass(2) cB > cA; endpass; endif;", "cM = glyphid(3) {mark = 1};", "cM = glyphid(3) {mark = 1};", {"2121", "2122"}),
    ("readonly_attr_collision_fix_x", "pos", "cA cB {collision.fix.x = 100m};", "cA cB {shift.x = 100m};", "", "", {"3120"}),
    ("readonly_attr_collision_fix_y_plus", "pos", "cA cB {collision {fix {y += 5m}}};", "cA cB {shift {y += 5m}};", "", "", {"3120"}),
    ("glyph_metric_as_target", "pos", "cA {advancewidth = 5};", "cA {advance.x = 5};", "", "", {"1165"}),
    ("class_name_as_attribute", "sub", "cA > cB {cC = 5};", "cA > cB {user1 = 5};", "", "", {"1165"}),
    # justification levels are 0..3: level 4 must be refused wherever it is mentioned, also after a class that uses level 3
    ("justify_level_4", "sub", "cA > cB;", "cA > cB;", "cJ = glyphid(3) {justify.4.stretch = 50m};", "cJ = glyphid(3) {justify.3.stretch = 50m};", {"4122"}),
    ("justify_level_4_after_level_3", "sub", "cA > cB;", "cA > cB;", "cJ = glyphid(3) {justify.3.stretch = 50m}; cK = glyphid(4) {justify.4.stretch = 50m};",
     "cJ = glyphid(3) {justify.3.stretch = 50m}; cK = glyphid(4) {justify.2.stretch = 50m};", {"4122"}),
    ("justify_level_4_in_rule_after_level_3", "pos", "cA {justify.4.stretch = 5m};", "cA {justify.2.stretch = 5m};", "cJ = glyphid(3) {justify.3.stretch = 50m};", "cJ = glyphid(3) {justify.3.stretch = 50m};", None),
    ("linebreak_in_rhs", "sub", "cA > #;", "cA > cB;", "", "", {"3138"}),
    ("linebreak_in_lhs", "sub", "# cA > # cB;", "cA > cB / # _;", "", "", {"3142", "3138"}),
    ("undefined_feature", "sub", "if (nofeat == 1) cA > cB; endif;", "if (f1 == 1) cA > cB; endif;", "", "", {"2120"}),
    ("undefined_setting", "sub", "if (f1 == nosuch) cA > cB; endif;", "if (f1 == on) cA > cB; endif;", "", "", {"2114", "2120"}),
    ("duplicate_feature_ids", "sub", "cA > cB;", "cA > cB;", "FEAT:f2 { id = 100; }", "FEAT:f2 { id = 101; }", {"3152"}),
    ("rules_outside_pass", "sub", "cA > cB; pass(1) cB > cA; endpass;", "pass(1) cA > cB; cB > cA; endpass;", "", "", {"3102"}),
    ("component_ref_to_inserted_item", "sub", "cA _ cB > cL:(1 3) {component {a.ref = @1; b.ref = @2}} cC:3 _;",
     "cA _ cB > cL:(1 3) {component {a.ref = @1; b.ref = @3}} cC:3 _;", "LIG", "LIG", {"2144"}),
    ("component_ref_out_of_range", "sub", "cA cB > cL:(1 2) {comp.a.ref = @1; comp.b.ref = @7} _;",
     "cA cB > cL:(1 2) {comp.a.ref = @1; comp.b.ref = @2} _;", "LIG", "LIG", {"2142"}),
    ("component_ref_to_linebreak_item", "sub", "cA cB > cL:(1 3) {component {a.ref = @1; b.ref = @2}} _ / _ # _;",
     "cA cB > cL:(1 3) {component {a.ref = @1; b.ref = @3}} _ / _ # _;", "LIG", "LIG", {"2143"}),
    ("attach_to_linebreak_item", "pos", "cA {attach.to = @2} / _ # cB;", "cA {attach.to = @3} / _ # cB;", "", "", {"2143"}),
    # references to "item 0", alone in the pass and next to a rule with a leading context (which makes the compiler prepend
    # ANY items to this rule and renumber its references)
    ("association_zero", "sub", "cA _ > cB cC:0;", "cA _ > cB cC:1;", "", "", {"3113"}),
    ("association_zero_with_padding", "sub", "cA _ > cB cC:0; cC > cA / cB cB _;", "cA _ > cB cC:1; cC > cA / cB cB _;", "", "", {"3113"}),
    ("slot_reference_zero_with_padding", "sub", "cA > cB {user1 = @0.user1}; cC > cA / cB cB _;", "cA > cB {user1 = @1.user1}; cC > cA / cB cB _;", "", "", {"2140"}),
    ("slot_reference_zero_in_constraint_with_padding", "sub", "cA > cB / _ {@0.user1 == 1}; cC > cA / cB cB _;", "cA > cB / _ {@1.user1 == 1}; cC > cA / cB cB _;", "", "", {"2140"}),
    ("attr_value_from_inserted_item", "sub", "_ cA > cC:2 cB {user1 = @1.user1};", "_ cA > cC:2 cB {user1 = @2.user1};", "", "", {"2141"}),
    ("constraint_reads_inserted_item", "sub", "_ cA > cC:2 cB / _ _ {@1.user1 == 1};", "_ cA > cC:2 cB / _ _ {@2.user1 == 1};", "", "", {"2141"}),
    ("attribute_wrong_role_feature", "sub", "cA > cB {f1 = cC};", "cA > cB {user1 = 1};", "", "", None),
    # a context that consists of `_` only and is shorter than the rule's items (known finding: accepted, the context is
    # silently extended; with any other context item the same mismatch is error 3140)
    ("underscore_context_shorter_than_rule", "pos", "cA {advance.x = 5m} cB {advance.x = 5m} / _;", "cA {advance.x = 5m} cB {advance.x = 5m} / _ _;", "", "", {"3140"}),
]

KNOWN = {"underscore_context_shorter_than_rule": "C10:underscore-only-context-shorter-than-the-rule-is-accepted"}


def ir_faults():
    """(name, table, faulty Rule, twin Rule, expected ids). The expectation for these comes from the Lean spec."""
    I = gen.Item
    out = []
    out.append(("selector_out_of_range", "sub", gen.Rule([I("cA", True, ("cls", "cB", 5))]), gen.Rule([I("cA", True, ("cls", "cB", 1))]), {"1178"}))
    out.append(("selector_out_of_range_ctx", "sub", gen.Rule([I("cD"), I("cA", True, ("cls", "cB", 4))]), gen.Rule([I("cD"), I("cA", True, ("cls", "cB", 1))]), {"1178"}))
    out.append(("selector_on_insertion", "sub", gen.Rule([I(None, True, ("cls", "cC", None), assoc=[2]), I("cA", True, ("cls", "cB", 1))]),
                gen.Rule([I(None, True, ("cls", "cC", None), assoc=[2]), I("cA", True, ("cls", "cB", 2))]), {"1179"}))
    out.append(("copy_out_of_range", "sub", gen.Rule([I("cA", True, ("copy", 6)), I("cB", True, None)]), gen.Rule([I("cA", True, ("copy", 2)), I("cB", True, None)]), None))
    out.append(("association_out_of_range", "sub", gen.Rule([I("cA", True, ("cls", "cB", None), assoc=[7])]), gen.Rule([I("cA", True, ("cls", "cB", None), assoc=[1])]), {"3113"}))
    out.append(("association_on_insertion", "sub", gen.Rule([I("cA", True, ("cls", "cB", None), assoc=[2]), I(None, True, ("cls", "cC", None), assoc=[1])]),
                gen.Rule([I("cA", True, ("cls", "cB", None), assoc=[1]), I(None, True, ("cls", "cC", None), assoc=[1])]), {"3115"}))
    out.append(("deletion_in_positioning", "pos", gen.Rule([I("cA", True, ("del",)), I("cB", True, None)]), gen.Rule([I("cA", True, None), I("cB", True, None)]), {"3170"}))
    out.append(("insertion_in_positioning", "pos", gen.Rule([I("cA"), I(None, True, ("cls", "cC", None))]), gen.Rule([I("cA"), I("cC", True, None)]), None))
    return out


def build_text(table, stmt, glyph_extra):
    feat = FEATS
    gx = glyph_extra
    if gx == "LIG":
        gx = "cL = glyphid(10) {component.a = box(0, 0, 100m, 100m); component.b = box(100m, 0, 200m, 100m)};"
    if gx.startswith("FEAT:"):
        feat = FEATS.replace("endtable;", gx[5:] + " endtable;")
        gx = ""
    lines = ['#include "stddef.gdh"', "table(glyph) " + GLYPHS, gx, "endtable;", feat]
    if table == "pos":
        lines += ["table(sub) cA > cB / cC _; endtable;", "table(pos)"]
    else:
        lines += ["table(sub)"]
    lines.append(stmt)
    fault_line = len(lines)
    lines.append("endtable;")
    # the offending construct may be the glyph-table line (3), the feature-table line (5) or the table header
    alt = 3 if gx else (5 if glyph_extra.startswith("FEAT:") else None)
    if "pass(" in stmt:
        alt = fault_line - 1
    return "\n".join(lines) + "\n", fault_line, alt


def run(tier, seed, replay=None):
    rep = common.Report("C10", tier, seed)
    common.lean_gate(rep, THEOREMS)
    build = common.build_repo("rel")
    work = common.new_workdir("c10")
    font, _g, _c = ttf.simple_font(14)
    stats = collections.Counter()
    distinct = set()
    samples = []

    def compile_text(name, text):
        d = os.path.join(work, name)
        os.makedirs(d, exist_ok=True)
        open(os.path.join(d, "in.ttf"), "wb").write(font)
        shutil.copy(common.STDDEF, d)
        open(os.path.join(d, "p.gdl"), "w").write(text)
        rc, log, _ = common.run_grc(build, d, ["-q", "p.gdl", "in.ttf", "out.ttf"])
        err = open(os.path.join(d, "gdlerr.txt"), errors="replace").read() if os.path.exists(os.path.join(d, "gdlerr.txt")) else ""
        errs = [l for l in err.split("\n") if "error(" in l]
        return d, rc, errs, os.path.exists(os.path.join(d, "out.ttf"))

    def judge(name, table, ftext, fline, gline, ttext, ids, predicted=None):
        stats["pairs"] += 1
        d, rc, errs, produced = compile_text(name + "_faulty", ftext)
        problems = []
        if rc != 1 or produced:
            problems.append("faulty program: exit %s, font written: %s (must be rejected without a font)" % (rc, produced))
        else:
            lines_cited = set()
            for e in errs:
                try:
                    lines_cited.add(int(e.split("(")[1].split(")")[0]))
                except (ValueError, IndexError):
                    pass
            want_lines = {fline} | ({gline} if gline else set())
            if not (lines_cited & want_lines):
                problems.append("faulty program rejected, but no error cites the injected line %s (errors: %s)" % (sorted(want_lines), errs[:3]))
            got_ids = set(e.split("error(")[1].split(")")[0] for e in errs)
            if ids and not (got_ids & ids):
                problems.append("faulty program rejected with %s, expected one of %s" % (sorted(got_ids), sorted(ids)))
        if predicted is False:
            problems.append("the Lean specification reports no violation for the faulty rule (specification gap)")
        d2, rc2, errs2, produced2 = compile_text(name + "_twin", ttext)
        if rc2 != 0 or not produced2:
            problems.append("repaired twin rejected: %s" % errs2[:3])
        distinct.add((name, tuple(sorted(set(e.split("error(")[1].split(")")[0] for e in errs)))))
        if problems:
            dd = os.path.join(rep.replay_dir, "C10-%s-%s" % (seed, name))
            shutil.rmtree(dd, ignore_errors=True)
            shutil.copytree(d, dd)
            rep.violation(name, {"rule": name, "table": table, "faulty_program": ftext, "twin": ttext, "problems": problems},
                          no_failing_input=(predicted is False and len(problems) == 1),
                          signature=KNOWN.get(name) if (len(problems) == 1 and problems[0].startswith("faulty program: exit 0")) else None)
        if len(samples) < 3:
            samples.append({"rule": name, "faulty": ftext.split("\n")[fline - 1], "errors": errs[:2]})
        shutil.rmtree(d, ignore_errors=True)
        shutil.rmtree(d2, ignore_errors=True)

    for (name, table, fst, tst, gxf, gxt, ids) in TEXT_FAULTS:
        ftext, fline, gline = build_text(table, fst, gxf)
        ttext, _, _ = build_text(table, tst, gxt)
        judge(name, table, ftext, fline, gline, ttext, ids)
    # IR-expressible faults: expectation from the Lean specification
    for (name, table, frule, trule, ids) in ir_faults():
        preds = []
        texts = []
        for tag, rule in (("f", frule), ("t", trule)):
            prog = gen.Prog()
            prog.nglyphs = 14
            prog.font = font
            for nm, val in (("cA", [3, 4]), ("cB", [5, 6]), ("cC", [7]), ("cD", [8, 9])):
                prog.classes[nm] = val
                prog.class_order.append(nm)
                prog.class_defs[nm] = gen.glyph_list_text(val)
            if table == "pos":
                prog.tables.append(("sub", [[gen.Rule([gen.Item("cC"), gen.Item("cA", True, ("cls", "cB", None))])]]))
            prog.tables.append((table, [[rule]]))
            text = prog.gdl()
            d = os.path.join(work, name + "_ir" + tag)
            os.makedirs(d, exist_ok=True)
            import json
            json.dump(prog.ir(), open(os.path.join(d, "p.ir.json"), "w"))
            out = common.run_grcv(["ir %s/p.ir.json" % d, "c10"])
            viol = [l for l in out if l.startswith("violation")]
            preds.append(bool(viol))
            texts.append((text, rule.line))
            shutil.rmtree(d, ignore_errors=True)
        stats["lean_predictions"] += 2
        if preds[1]:
            rep.violation(name + "-spec", {"problem": "the Lean specification flags the repaired twin", "twin": texts[1][0]}, no_failing_input=True)
        judge(name, table, texts[0][0], texts[0][1], None, texts[1][0], ids, predicted=preds[0])
    rep.coverage.update({
        "programs": 2 * stats["pairs"], "fault_pairs": stats["pairs"], "lean_predictions": stats["lean_predictions"],
        "traces_validated_against_impl": 2 * stats["pairs"], "disagreements_checked": len(rep.violations),
        "evaluations": 2 * stats["pairs"], "distinct_nontrivial": len(distinct),
        "rule": "one faulty program + one repaired twin per static rule and placement (29 rules/placements: undefined/recursive/forward class, lhs-rhs mismatch, selector/@/association/slot references out of range or onto insertions, movement attributes and metrics as targets, line-break items, features/settings/ids, pass structure, insertion/deletion/association in positioning); distinct = distinct (rule, error ids)",
        "samples": samples, "exhaustive": False,
    })
    rep.assumptions += ["for the text-level rules the expectation (reject / accept twin) is written in the injector table, not derived in Lean",
                        "'the error names the offending construct at its source line' is checked as: some error cites the injected line"]
    shutil.rmtree(work, ignore_errors=True)
    return rep.finish()
