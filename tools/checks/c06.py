"""C06 Rule precedence and leading-context alignment.

Deciding method: Lean theorems Grc.Prec.padding_preserves_match (ANY padding aligns all rules on the same scan
position), Grc.Prec.start_state_fires_iff (near the start of text exactly the rules whose own leading context
fits and whose items match fire) and insertSorted_ordered (trial order by sort key desc, index asc); their
hypotheses (certificate for the padded rules, startStates[k] = state after k phantom glyphs, rulePreContext and
ruleSortKeys equal to the model's values) are evaluated by the compiled checker on the real compiler's output.
"""
import collections
import os
import shutil

import common
import gen
import harness

THEOREMS = [
    "Grc.Prec.matchList_replicate_append",
    "Grc.Prec.padding_preserves_match",
    "Grc.Prec.run_append",
    "Grc.Prec.matches_iff_matchList",
    "Grc.Prec.start_state_fires_iff",
    "Grc.Prec.insertSorted_mem",
    "Grc.Prec.insertSorted_ordered",
    "Grc.Fsm.checkCert_correct",
]


def run(tier, seed, replay=None):
    rep = common.Report("C06", tier, seed)
    common.lean_gate(rep, THEOREMS)
    build = common.build_repo("rel")
    work = common.new_workdir("c06")
    n = 120 if tier == "quick" else 1500
    def mk(rng, i):
        if i % 6 == 5:
            # rules of different leading-context lengths whose actions and constraints read other items (@n): after the
            # ANY padding every slot reference must still name the rule's own item (AdjustSlotRefsForPreAnys)
            prog = gen.gen_expr_program(rng)
            prog.c06_refs = True
            return prog
        prog = gen.gen_match_program(rng, size="small" if i % 3 else "medium")
        if i % 2 == 1:
            gen.add_pass_splits(rng, prog)     # the pass continues in an include file, whose lines are numbered from 1 again
        return prog
    cases = harness.gen_cases(seed, 6, n, mk)
    results = harness.compile_cases(build, work, cases)
    acc, rej = harness.split_accepted(results)
    outs = harness.drive(acc, ["c02", "c06", "c01"])
    stats = collections.Counter()
    distinct = set()
    samples = []
    pre_hist = collections.Counter()
    for r, o in zip(acc, outs):
        for cmd in ("c02", "c06"):
            for pl in o[cmd]:
                stats[cmd + "_passes"] += 1
                if " ok " in pl:
                    stats[cmd + "_ok"] += 1
                    if cmd == "c06":
                        distinct.add(pl.split(" ", 2)[2])
                        f = dict(x.split("=", 1) for x in pl.split(" ")[3:6])
                        pre_hist["minPre=%s maxPre=%s" % (f["minPre"], f["maxPre"])] += 1
                else:
                    stats[cmd + "_fail"] += 1
                    if cmd == "c06":
                        d = harness.save_case(rep, r, r["name"] + "-" + pl.split(" ")[1])
                        rep.violation(r["name"] + "-" + pl.split(" ")[1], {
                            "case": r["name"], "checker_line": pl,
                            "meaning": "a pass header field the engine uses for precedence / start-of-text handling differs from the value the rules denote; the differing field is the failing input (a rule at that index is tried in the wrong order, or fires/does not fire at that distance from the start of text)",
                            "rerun": "cd %s && printf 'font out.ttf\\nir p.ir.json\\nc06\\n' | %s" % (d, common.grcv_path()),
                        })
                    else:
                        # hypothesis of the C06 theorem (certificate) failed: the C02 check reports the matching
                        # failure itself; here it means the start-of-text theorem is not established for this pass
                        d = harness.save_case(rep, r, r["name"] + "-cert-" + pl.split(" ")[1])
                        rep.violation(r["name"] + "-cert-" + pl.split(" ")[1], {
                            "case": r["name"], "checker_line": pl,
                            "broken": "hypothesis hcert of Grc.Prec.start_state_fires_iff (FSM certificate) rejected for this pass",
                        }, no_failing_input=("cex=none" in pl))
        if getattr(r["prog"], "c06_refs", False):
            stats["slot_reference_programs"] += 1
            bad = [l for l in o["c01"] if not (l.startswith("ok") or " ok " in l)]
            if bad:
                d = harness.save_case(rep, r, r["name"] + "-refs")
                rep.violation(r["name"] + "-refs", {
                    "case": r["name"], "checker_lines": bad[:6],
                    "meaning": "in a pass whose rules have different leading-context lengths, the action or constraint code of the named rule reads a slot other than the item the rule text names (slot references not shifted with the ANY padding)",
                    "rerun": "cd %s && printf 'font out.ttf\nir p.ir.json\nc01\n' | %s" % (d, common.grcv_path()),
                })
        if len(samples) < 3:
            samples.append({"case": r["name"], "gdl": r["prog"].gdl(), "c06": o["c06"]})
    rep.coverage.update({
        "programs": len(results), "programs_accepted": len(acc), "programs_rejected": len(rej),
        "rejected_error_ids": harness.error_ids(rej),
        "traces_validated_against_impl": stats["c06_passes"], "disagreements_checked": stats["c06_fail"],
        "evaluations": stats["c06_passes"], "distinct_nontrivial": len(distinct),
        "pre_context_distribution": dict(pre_hist),
        "slot_reference_programs": stats["slot_reference_programs"],
        "rule": "generated passes mixing rule lengths, pre-context lengths 0-3 (incl. explicit ANY), insertions, deletions; one evaluation = one pass whose header (min/maxRulePreContext, startStates, ruleSortKeys, rulePreContext, ruleMap order) satisfied the hypotheses of the Lean theorems; distinct = distinct (rules,minPre,maxPre,keys)",
        "samples": samples, "exhaustive": False,
    })
    rep.assumptions += ["Grc.Prec.fires is the engine's firing condition (GTF + libgraphite2 behaviour, DESIGN appendix A)",
                        "IR printed by tools/gen.py denotes the same program as the GDL text"]
    harness.generator_health(rep, results, acc, rej)
    shutil.rmtree(work, ignore_errors=True)
    return rep.finish()
