"""C04 Glyph classes hold exactly the glyphs, in the order, their definitions denote.

Deciding method: Lean theorems Grc.Cls.mem_interList / mem_diffList (the compiler's '&=' / '-=' algorithms are set
intersection / difference on duplicate-free operands, order of the first operand kept), sorted_sortedPairs,
lookup_sortedPairs and putsubs_correct (the (glyph,index) list built for an input class makes the engine replace the
i-th selector glyph by the i-th output glyph). Tie: class values are computed by the Lean ClassSem from definition
trees; the class map and PutSubs/PutGlyph operands decoded from the real font must realise exactly that
substitution function, and the FSM (C02 certificate) must match exactly those class memberships.
"""
import collections
import shutil

import common
import gen
import harness

THEOREMS = [
    "Grc.Cls.mem_interList", "Grc.Cls.interList_sublist", "Grc.Cls.mem_diffList", "Grc.Cls.diffList_sublist",
    "Grc.Cls.mem_sortedPairs", "Grc.Cls.sorted_sortedPairs", "Grc.Cls.lookup_sortedPairs",
    "Grc.Cls.lookup_not_mem", "Grc.Cls.putsubs_correct", "Grc.Fsm.checkCert_correct",
]


def run(tier, seed, replay=None):
    rep = common.Report("C04", tier, seed)
    common.lean_gate(rep, THEOREMS)
    build = common.build_repo("rel")
    work = common.new_workdir("c04")
    n = 150 if tier == "quick" else 2000

    def g(rng, i):
        if i % 4 == 3:
            return gen.gen_match_program(rng, size="medium")
        # every fifth program is compiled with -g and has members naming code points the font lacks (runs of them)
        return gen.gen_class_program(rng, size="small" if i % 2 else "medium", bad_glyphs=(i % 5 == 4))
    cases = harness.gen_cases(seed, 4, n, g)
    results = harness.compile_cases(build, work, cases)
    acc, rej = harness.split_accepted(results)
    outs = harness.drive(acc, ["c04", "c02"])
    stats = collections.Counter()
    distinct = set()
    samples = []
    for r, o in zip(acc, outs):
        lines = o["c04"]
        stats["programs_checked"] += 1
        bad = [l for l in lines if l.startswith("FAIL") or l.startswith("error")]
        irerr = [l for l in lines if l.startswith("IRERR")]
        if irerr:
            rep.violation(r["name"] + "-ir", {"broken": "generator's class values disagree with the Lean ClassSem (harness defect, not a compiler finding)",
                                             "lines": irerr, "gdl": r["prog"].gdl()}, no_failing_input=True)
        for l in lines:
            if l.startswith("ok "):
                f = dict(x.split("=") for x in l.split(" ")[1:])
                stats["subst_items"] += int(f["substItems"])
                stats["class_defs"] += int(f["classDefs"])
                distinct.add(l)
        if bad:
            d = harness.save_case(rep, r, r["name"])
            rep.violation(r["name"], {
                "case": r["name"], "checker_lines": bad,
                "meaning": "for the named rule item the class data stored in out.ttf replaces the named selector glyph by a glyph other than the one at the same index of the output class as defined in p.gdl (input: that glyph, matched by that rule)",
                "rerun": "cd %s && printf 'font out.ttf\\nir p.ir.json\\nc04\\n' | %s" % (d, common.grcv_path()),
            })
        cert_bad = [l for l in o["c02"] if "FAIL" in l or l.startswith("error")]
        if cert_bad:
            d = harness.save_case(rep, r, r["name"] + "-members")
            rep.violation(r["name"] + "-members", {
                "case": r["name"], "checker_lines": cert_bad,
                "meaning": "the pass FSM does not match exactly the members the class definitions denote (glyph string given as cex)",
            }, no_failing_input=all("cex=none" in l for l in cert_bad))
        if len(samples) < 3:
            samples.append({"case": r["name"], "gdl": r["prog"].gdl(), "c04": lines})
    rep.coverage.update({
        "programs": len(results), "programs_accepted": len(acc), "programs_rejected": len(rej),
        "rejected_error_ids": harness.error_ids(rej),
        "traces_validated_against_impl": stats["programs_checked"], "disagreements_checked": len(rep.violations),
        "substitution_items_checked": stats["subst_items"], "class_definitions_evaluated": stats["class_defs"],
        "evaluations": stats["programs_checked"], "distinct_nontrivial": len(distinct),
        "rule": "generated class definition trees (nesting, ranges, late '+=', '&=', '-=', sizes 0/1/many) used as selector/output classes; one evaluation = one program whose decoded class map realised the denoted substitution for every member glyph and whose FSM matched the denoted memberships; distinct = distinct (classDefs, substItems, linear, indexed) shapes",
        "samples": samples, "exhaustive": False,
    })
    rep.assumptions += ["references to a class denote its final value ('+=' is late-bound, as the compiler's own recursion check 4148 implies); '&='/'-=' targets are referenced only after the operation",
                        "Cls.lookup models the engine's binary search over the sorted (glyph,index) list"]
    harness.generator_health(rep, results, acc, rej)
    shutil.rmtree(work, ignore_errors=True)
    return rep.finish()
