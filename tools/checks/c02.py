"""C02 Rule matching: emitted state machines recognise exactly what the rules say.

Deciding method: the Lean theorem Grc.Fsm.checkCert_correct (for every glyph string the engine's walk of a
table accepted by checkCert reports rule i iff every item of rule i contains the corresponding glyph), applied
by the compiled checker to the FSM decoded from the real compiler's output for generated programs whose rules
are known independently of the compiler.
"""
import collections
import json
import os
import random
import shutil

import common
import gen

THEOREMS = [
    "Grc.Fsm.mem_specRun",
    "Grc.Fsm.cert_sound",
    "Grc.Fsm.fsm_reports_iff_matches",
    "Grc.Fsm.member_has_column",
    "Grc.Fsm.shared_column_indistinguishable",
    "Grc.Fsm.checkCert_sound",
    "Grc.Fsm.checkCert_correct",
]


def compile_cases(build, work, cases, extra_args=()):
    """cases: list of (name, prog). Returns list of dicts with compile results."""
    out = []
    for name, prog in cases:
        d = os.path.join(work, name)
        os.makedirs(d, exist_ok=True)
        gen.write_case(prog, d)
        rc, log, wall = common.run_grc(build, d, ["-q"] + list(extra_args) + ["p.gdl", "in.ttf", "out.ttf"])
        err = ""
        ep = os.path.join(d, "gdlerr.txt")
        if os.path.exists(ep):
            err = open(ep, errors="replace").read()
        out.append({"name": name, "dir": d, "rc": rc, "log": log, "err": err, "prog": prog})
    return out


def run(tier, seed, replay=None):
    rep = common.Report("C02", tier, seed)
    ok = common.lean_gate(rep, THEOREMS)
    build = common.build_repo("rel")
    work = common.new_workdir("c02")
    n_cases = 120 if tier == "quick" else 1500
    rng = random.Random(seed * 1000003 + 2)
    cases = []
    for i in range(n_cases):
        size = "small" if i % 3 else "medium"
        crng = random.Random(rng.getrandbits(64))
        if i % 8 == 7:
            # rules with optional items (context, lhs `cls?`, body groups): expanded by the proved model before the comparison
            prog = gen.gen_opt_program(crng)
            prog.c02_expand = True
            cases.append(("c%04d" % i, prog))
            continue
        if i % 60 == 59:
            # a state machine near the 16-bit limits: 30-60 thousand states in the font, more than 65535 while it is built
            prog = gen.gen_big_fsm_program(crng, crng.randint(760, 1400), 52)
            cases.append(("c%04d" % i, prog))
            continue
        prog = gen.gen_match_program(crng, size=size)
        if i % 3 == 1:
            gen.add_pos_table_first(crng, prog)      # tables written in another order than the passes run
        if i % 4 == 2:
            gen.add_pass_splits(crng, prog)          # a pass continued in an include file
        cases.append(("c%04d" % i, prog))
    results = compile_cases(build, work, cases)
    accepted = [r for r in results if r["rc"] == 0 and os.path.exists(os.path.join(r["dir"], "out.ttf"))]
    rejected = [r for r in results if r not in accepted]
    lines = []
    for r in accepted:
        lines += ["font %s/out.ttf" % r["dir"], "ir %s/p.ir.json" % r["dir"]] + (["expand"] if getattr(r["prog"], "c02_expand", False) else []) + ["c02"]
    outs = common.run_grcv(lines) if lines else []
    # parse: per accepted case we get: ok font, ok ir, pass lines..., done
    it = iter(outs)
    stats = collections.Counter()
    passes_checked = 0
    distinct = set()
    samples = []
    for r in accepted:
        l1 = next(it)
        l2 = next(it)
        plines = []
        if getattr(r["prog"], "c02_expand", False):
            for l in it:
                if l == "done":
                    break
                if not l.startswith("ok expanded") and not l.startswith("REFOMITTED"):
                    plines.append("pass expand " + l)
                elif l.startswith("ok expanded"):
                    stats["optional_item_programs"] += 1
        for l in it:
            if l == "done":
                break
            plines.append(l)
        if not l1.startswith("ok font") or not l2.startswith("ok ir"):
            rep.violation(r["name"], {"case": r["name"], "gdl": r["prog"].gdl(), "driver": [l1, l2] + plines,
                                      "broken": "driver could not load the compiler's output/IR"}, no_failing_input=True)
            continue
        for pl in plines:
            passes_checked += 1
            if " ok " in pl:
                stats["pass_ok"] += 1
                distinct.add(pl.split(" ", 2)[2])
            else:
                stats["pass_fail"] += 1
                cex = None
                if "cex=" in pl:
                    c = pl.split("cex=")[1].strip()
                    cex = None if c == "none" else [int(x) for x in c.split(",")]
                d = os.path.join(rep.replay_dir, "C02-%s-%s-%s" % (seed, r["name"], pl.split(" ")[1]))
                os.makedirs(d, exist_ok=True)
                for fn in ("p.gdl", "in.ttf", "out.ttf", "p.ir.json"):
                    shutil.copy(os.path.join(r["dir"], fn), d)
                rep.violation(r["name"] + "-" + pl.split(" ")[1], {
                    "case": r["name"], "checker_line": pl, "counterexample_glyph_string": cex,
                    "meaning": "on this glyph string (from the scan position, leading context padded) the FSM in out.ttf and the rules of p.gdl report different rules",
                    "rerun": "cd %s && printf 'font out.ttf\\nir p.ir.json\\nc02\\n' | %s" % (d, common.grcv_path()),
                    "theorem": "Grc.Fsm.checkCert_correct no longer applies to this pass (certificate rejected)",
                }, no_failing_input=(cex is None))
        if len(samples) < 3:
            samples.append({"case": r["name"], "gdl": r["prog"].gdl(), "checker": plines})
    # generator health: most programs must be accepted
    errkinds = collections.Counter()
    for r in rejected:
        for ln in r["err"].split("\n"):
            if "error(" in ln:
                errkinds[ln.split("error(")[1].split(")")[0]] += 1
    rep.coverage.update({
        "programs": len(results), "programs_accepted": len(accepted), "programs_rejected": len(rejected),
        "rejected_error_ids": dict(errkinds),
        "traces_validated_against_impl": passes_checked,
        "disagreements_checked": stats["pass_fail"],
        "passes_certified": stats["pass_ok"],
        "optional_item_programs": stats["optional_item_programs"],
        "evaluations": passes_checked,
        "distinct_nontrivial": len(distinct),
        "rule": "generated substitution programs (overlapping/nested/duplicate classes, rules of mixed length and pre-context, insertions, deletions; one case in eight has optional items, expanded by the proved model of the expansion; one in sixty has a state machine of 30-60 thousand states); one evaluation = one pass whose decoded FSM was certified against the IR rules for ALL glyph strings; distinct = distinct (rules,rows,cols,labelled) shapes",
        "samples": samples,
        "exhaustive": False,
    })
    rep.assumptions += [
        "IR printed by tools/gen.py denotes the same program as the GDL text it prints",
        "FsmTable.run is the engine's table walk (GTF 'Pass Contents'; validated against libgraphite2 in C01/C06 shaping checks)",
    ]
    if len(accepted) < 0.5 * len(results):
        rep.violation("generator", {"broken": "fewer than half of generated programs were accepted; generator or compiler front-end changed",
                                    "rejected_error_ids": dict(errkinds),
                                    "example": rejected[0]["err"][-1500:] if rejected else ""}, no_failing_input=True)
    shutil.rmtree(work, ignore_errors=True)
    return rep.finish()
