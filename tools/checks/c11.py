"""C11 No input text or command line can crash, hang or corrupt the compiler.

What is decided by proof (Lean, Grc.Args / Grc.ArgsGen), for ALL argument vectors / ranges / sizes:
  * every write of main's command-line handling into rgch[20], rgchOutputFile[128], rgchwOutputFontFamily[128] is in
    bounds, the NULL ending argv is never dereferenced, and the handling ends in `return 2` or goes on
    (main_writes_inbounds, main_no_null_deref, main_exit) - at the buffer sizes and guards extracted from main.cpp on
    every run (T1: tools/extract_args.py -> Generated/ArgConsts.lean; obligation consts_safe);
  * every inclusive 16/32-bit range loop of AssignGlyphIDsToClassMember terminates after last-first+1 iterations, also
    for ranges ending at the largest counter value (range_loops_terminate; obligation range_loops_guarded), and the
    duplicate search of HasDuplicateGlyphs runs at most size() iterations (dup_loop_bounded).
  The model of argument handling is tied to the real main() by a correspondence test (T2): generated argument vectors
  are run through the compiled Lean model and through the real compiler; outcome class, derived output file name,
  error file name and quiet/debug flags must agree.

What is exploration, NOT proof (labelled so in the evidence): the rest of the property lives in the C++ runtime.
  The ASan+UBSan/assertions-on build of the compiler and of gdlpp is run on a corpus of past failures, on
  grammar-aware / token / byte mutations of valid programs, on hand-written semantic edge cases (empty and recursive
  classes, huge ranges and numbers, deep nesting, very long rules/names, preprocessor abuse) and on argument vectors;
  observed: exit status in {0,1,2}, no signal, no sanitizer report, wall time within a bound linear in input +
  diagnostics (release build), no Assert failure on an accepted program (assert builds are re-run without assertions
  to see whether the program is accepted and whether the release code path is memory-safe).
"""
import collections
import os
import random
import re
import shutil
import subprocess
import time
from concurrent.futures import ThreadPoolExecutor

import common
import fuzz11
import ttf

THEOREMS = ["Grc.Args.digitWrites_inbounds", "Grc.Args.handleOption_inbounds", "Grc.Args.genOutName_length",
            "Grc.Args.parseArgs_inbounds", "Grc.Args.parseArgs_no_crash", "Grc.Args.parseArgs_exit", "Grc.Args.optLoop_fuel",
            "Grc.Args.rangeLoop_guarded", "Grc.Args.rangeLoop_unguarded_diverges", "Grc.Args.plusOne_indices",
            "Grc.ArgsGen.consts_safe", "Grc.ArgsGen.gen_name_shape", "Grc.ArgsGen.main_writes_inbounds",
            "Grc.ArgsGen.main_no_null_deref", "Grc.ArgsGen.main_exit", "Grc.ArgsGen.range_loops_guarded",
            "Grc.ArgsGen.range_loops_terminate", "Grc.ArgsGen.dup_loop_bounded"]

H = fuzz11.H
G = "table(glyph) cA = glyphid(3..6); cB = glyphid(7..10); cC = glyphid(11); endtable;\n"
OKRULE = "table(sub) cA > cB; endtable;\n"

# Past failures (each was a crash, hang or overrun of the pinned tree; see known_findings.json "fixed").
DEEP_LIST = H + "table(glyph) cB = glyphid(7); cA = glyphid(3) {" + "; ".join("q%d = %d" % (i, i % 100) for i in range(70000)) + "}; endtable;\ntable(sub) cA > cB; endtable;\n"

CORPUS = [
    ("attr-named-x-with-offsets", H + "table(glyph) cA = glyphid(3..6) {x = 7m}; cB = glyphid(7..10); endtable;\ntable(sub) cA > cB; endtable;\n", ["-q", "-offsets", "p.gdl", "in.ttf", "out.ttf"], {}),
    ("attr-named-xoffset", H + "table(glyph) cA = glyphid(3..6) {xoffset = 7m; yoffset = 2m}; cB = glyphid(7..10); endtable;\ntable(sub) cA > cB; endtable;\n", None, {}),
    ("attr-named-gpoint-with-offsets", H + "table(glyph) cA = glyphid(3..6) {gpoint = 2}; cB = glyphid(7..10); endtable;\ntable(sub) cA > cB; endtable;\n", ["-q", "-offsets", "p.gdl", "in.ttf", "out.ttf"], {}),
    ("attr-named-gpath", H + "table(glyph) cA = glyphid(3..6) {gpath = 1}; cB = glyphid(7..10) {pt.gpath = 1}; endtable;\ntable(sub) cA > cB; endtable;\n", None, {}),
    ("passkeyslot-twice-on-insert", H + G + "table(sub) cA _ > cA cC:1 {passKeySlot = true; passKeySlot = true}; endtable;\n", None, {}),
    # an insertion as the first item of a rule that changes nothing else, in a pass without leading contexts: the pass
    # optimization (default; off with -p) has to find the rule's key slot behind the inserted item
    ("leading-insertion-only-rule", H + "table(glyph) cA = glyphid(3..6); cB = glyphid(7..10); cX = glyphid(11); endtable;\ntable(sub) _ > cX:2 / _ cB ^; endtable;\n", None, {}),
    ("leading-insertion-only-rule-two-passes", H + "table(glyph) cA = glyphid(3..6); cB = glyphid(7..10); cX = glyphid(11); endtable;\n"
     "table(sub) pass(1) cA > cB; endpass; pass(2) _ > cX:2 / _ cB; _ _ > cX:3 cX:3 / _ _ cA; endpass; endtable;\n", None, {}),
    # renaming a font whose family name is also given in a language that sorts before English under (3,1)
    ("rename-piglatin-with-german-family-name", "", ["-q", "p.gdl", "in.ttf", "out.ttf", "Renamed Font"], {"special": "piglatin-german-family"}),
    ("rename-family-name-in-two-languages", H + G + OKRULE, ["-q", "p.gdl", "in.ttf", "out.ttf", "Renamed Font"],
     {"name_platforms": [(1, 0, 0), (3, 1, 1031), (3, 1, 1033)], "family_only_langs": [1031]}),
    ("rename-family-name-in-three-languages", fuzz11.SEEDS["passif"], ["-q", "p.gdl", "in.ttf", "out.ttf", "Renamed Font"],
     {"name_platforms": [(1, 0, 0), (3, 1, 1031), (3, 1, 1033), (3, 1, 1036)], "family_only_langs": [1031, 1036]}),
    ("circular-class-qualified-attr", H + "table(glyph) cA = glyphid(5) {u = cA.u + 1}; cB = glyphid(7); endtable;\ntable(sub) cA > cB; endtable;\n", None, {}),
    ("circular-class-qualified-attr-2", H + "table(glyph) cA = glyphid(5) {u = cA.v; v = u + 1}; cB = glyphid(7); endtable;\ntable(sub) cA > cB; endtable;\n", None, {}),
    # feature tests around whole passes with a Silf version that cannot store pass constraints (they are moved into the rules)
    ("pass-constraints-v2", fuzz11.SEEDS["passif"], ["-q", "-v2", "p.gdl", "in.ttf", "out.ttf"], {}),
    ("pass-constraints-v3-c", fuzz11.SEEDS["passif"], ["-q", "-v3", "-p", "p.gdl", "in.ttf", "out.ttf"], {}),
    ("gdlpp-intmin-div-minus-one", H + "#if (-2147483647 - 1) / -1\n#endif\n#if (-2147483647 - 1) % -1\n#endif\n" + G + OKRULE, None, {}),
    # one attribute list of 70,000 assignments: the list rule of the grammar is right-recursive (known finding)
    ("deep-attr-list", DEEP_LIST, None, {"known_stack_overflow": "C11:stack-overflow-in-the-right-recursive-list-rules-of-the-parser", "recursion": "attrItemList"}),
    ("empty-class-subst", H + "table(glyph) cE = (); cB = glyphid(7..9); endtable;\ntable(sub) cE > cB; endtable;\n", None, {}),
    ("passkeyslot-on-insert", H + G + "table(sub) cA _ > cA cC:1 {passKeySlot = true}; endtable;\n", None, {}),
    ("e-without-value", H + G + OKRULE, ["-e"], {}),
    ("e-last-after-q", H + G + OKRULE, ["-q", "-e"], {}),
    ("long-output-name", H + G + OKRULE, ["-q", "p.gdl", "in.ttf", "o" * 300 + ".ttf"], {}),
    ("long-font-name", H + G + OKRULE, ["-q", "p.gdl", "in.ttf", "out.ttf", "F" * 400], {}),
    ("long-derived-name", H + G + OKRULE, ["-q", "p.gdl", "d" * 130 + ".ttf"], {}),
    ("long-digits-n", H + G + OKRULE, ["-q", "-n" + "9" * 40, "p.gdl", "in.ttf", "out.ttf"], {}),
    ("long-digits-v", H + G + OKRULE, ["-q", "-v" + "7" * 25, "p.gdl", "in.ttf", "out.ttf"], {}),
    ("long-digits-w", H + G + OKRULE, ["-q", "-w" + "1" * 60, "p.gdl", "in.ttf", "out.ttf"], {}),
    ("g-missing-in-subst", H + "table(glyph) cA = unicode(0x61, 0x1234, 0x62); cB = glyphid(7..9); endtable;\ntable(sub) cA > cB; endtable;\n",
     ["-q", "-g", "p.gdl", "in.ttf", "out.ttf"], {}),
    # (side observations of the round-seven sub-agents)
    ("feature-label-600-chars", H + 'table(feature) f1 { id = "abcd"; name.1033 = string("' + "x" * 600 + '"); default = 0; settings { a {value = 0; name.1033 = string("A")} b {value = 1; name.1033 = string("' + "y" * 520 + '")} } } endtable;\n' + G + OKRULE, None, {}),
    ("rename-font-with-high-bytes-in-mac-names", H + G + OKRULE, ["-q", "p.gdl", "in.ttf", "out.ttf", "Renamed Font"], {"names_extra": {2: "R\xe9gulier", 8: "Soci\xe9t\xe9", 3: "Soci\xe9t\xe9:Verif:1"}}),
    ("gpath-with-gpoint-without-offsets", H + "table(glyph) cA = glyphid(3..6) {pt.gpoint = 3; pt.gpath = 1}; cB = glyphid(7..10) {q.gpoint = 2}; endtable;\ntable(pos) cA cB {attach {to = @1; at = pt; with = q}}; endtable;\n", None, {}),
    ("negative-gpath-offsets", H + "table(glyph) cA = glyphid(3..6) {pt.gpoint = 3; pt.gpath = -100000000}; cB = glyphid(7..10) {q.gpoint = 2}; endtable;\ntable(pos) cA cB {attach {to = @1; at = pt; with = q}}; endtable;\n", ["-q", "-offsets", "p.gdl", "in.ttf", "out.ttf"], {}),
    ("negative-gpoint-offsets", H + "table(glyph) cA = glyphid(3..6) {pt.gpoint = 3}; cB = glyphid(7..10) {q.gpoint = -100000000}; endtable;\ntable(pos) cA cB {attach {to = @1; at = pt; with = q}}; endtable;\n", ["-q", "-offsets", "p.gdl", "in.ttf", "out.ttf"], {}),
    ("small-negative-gpath-gpoint-offsets", H + "table(glyph) cA = glyphid(3..6) {pt.gpoint = 3; pt.gpath = -5}; cB = glyphid(7..10) {q.gpoint = -2}; endtable;\ntable(pos) cA cB {attach {to = @1; at = pt; with = q}}; endtable;\n", ["-q", "-offsets", "p.gdl", "in.ttf", "out.ttf"], {}),
    ("point-assigned-from-point-offsets", H + "table(glyph) cA = glyphid(3..6) {p1 = point(10m, 20m, 3m, 4m); p2 = p1}; cB = glyphid(7..10); endtable;\n" + OKRULE, ["-q", "-offsets", "p.gdl", "in.ttf", "out.ttf"], {}),
    ("stretch-above-16-bits-at-level-1", H + "table(glyph) cA = glyphid(3..6) {justify.1.stretch = 70000m}; cB = glyphid(7..10); endtable;\n" + OKRULE, None, {}),
    ("attribute-on-deleted-item", H + G + "table(sub) cA cB > cC _ {user1 = 2}; endtable;\n", None, {}),
    ("attributes-on-two-deleted-items", H + G + "table(sub) cA cB cC > cC _ {user1 = 2} _ {user2 = 3; user1 = 1}; cB > cA; endtable;\n", None, {}),
    # every spelling of a point: point() with 2 and 4 arguments, gpoint() and gpath() with 1 and 3, box()
    ("point-functions-offsets", H + "table(glyph) cA = glyphid(3..6) {p1 = point(10m, 20m); p2 = point(10m, 20m, 3m, 4m); p3 = gpoint(2); p4 = gpoint(3, 10m, 20m); p5 = gpath(0); p6 = gpath(0, 5m, 6m); component.a = box(0, 0, 100m, 200m)}; cB = glyphid(7..10) {q = gpoint(1, 2m, 3m)}; endtable;\n"
     "table(pos) cA cB {attach {to = @1; at = p4; with = q}}; endtable;\n", ["-q", "-offsets", "p.gdl", "in.ttf", "out.ttf"], {}),
    ("point-functions", H + "table(glyph) cA = glyphid(3..6) {p1 = point(10m, 20m); p2 = point(10m, 20m, 3m, 4m); p3 = gpoint(2); p4 = gpoint(3, 10m, 20m); p5 = gpath(0); p6 = gpath(0, 5m, 6m); component.a = box(0, 0, 100m, 200m)}; cB = glyphid(7..10) {q = gpoint(1, 2m, 3m)}; endtable;\n"
     "table(pos) cA cB {attach {to = @1; at = p2; with = q}}; endtable;\n", None, {}),
    ("gpoint-two-arguments", H + "table(glyph) cA = glyphid(3..6) {p4 = gpoint(3, 10m)}; cB = glyphid(7..10); endtable;\n" + OKRULE, None, {}),
    ("empty-feature-label", H + 'table(feature) f1 { id = 100; name.1033 = string(""); settings { on { value = 1; name.1033 = string("") } off { value = 0; name.1033 = string("Off") } } default = off; } endtable;\n' + G + OKRULE, None, {}),
    ("empty-feature-label-only", H + 'table(feature) f1 { id = 100; name.1033 = string(""); } endtable;\n' + G + OKRULE, None, {}),
    ("family-name-200", H + G + OKRULE, None, {"family": "F" * 200}),
    ("family-name-1000", H + G + OKRULE, None, {"family": "F" * 1000}),
    ("codepoint-to-ffff", H + "table(glyph) cA = codepoint(65..65535); cB = glyphid(7..9); endtable;\ntable(sub) cA > cB; endtable;\n", None, {}),
    ("glyphid-to-ffff", H + "table(glyph) cA = glyphid(0..0xffff); cB = glyphid(7..9); endtable;\ntable(sub) cA > cB; endtable;\n", None, {}),
    ("unicode-to-10ffff", H + "table(glyph) cA = unicode(0..0x10ffff); cB = glyphid(7..9); endtable;\ntable(sub) cA > cB; endtable;\n", None, {}),
    ("pass-32767", H + G + "table(sub) pass(32767) cA > cB; endpass; endtable;\n", None, {}),
    ("pass-huge", H + G + "table(pos) pass(1) cA {shift.x = 5m}; endpass; pass(72139) cA cB; endpass; endtable;\n", None, {}),
    ("assoc-out-of-range", H + G + "table(sub) cA _ > cB:(1 50 50 3 0 2 50 2 0) cC; endtable;\n", None, {}),
    ("assoc-huge", H + G + "table(sub) cA _ > @1 cC:0x110000; endtable;\n", None, {}),
    ("at-zero", H + G + "table(sub) cA cB > @0 @2; endtable;\n", None, {}),
    ("max-no-args", H + G + "table(pos) cA {shift.x = max(); user1 = max()} cB {user2 = min()}; endtable;\n", None, {}),
    ("paren-label", H + G + 'table(feature) f { id = 1; name.1033 = ("On"); } endtable;\n' + OKRULE, None, {}),
    ("pp-directive-at-eof", "#incluclu", None, {}),
    ("pp-line-at-eof", H + G + OKRULE + "#line F", None, {}),
    ("pp-macro-at-eof", H + G + OKRULE + "__LINE__", None, {}),
    ("pp-if-paren", H + "#if (\n#endif\n" + G + OKRULE, None, {}),
    ("pp-if-unary", H + "#if ~ ~ >>\n#endif\n" + G + OKRULE, None, {}),
    ("pp-include-open-comment", H + G + OKRULE + '#include "p.gdl" /*', None, {}),
    ("pp-8bit-macro", H + "#define CLS(n, a,b) n =\x9eglyphid(a..b)\ntable(glyph) CLS(cA, 3, 6); CLS(cB, 7, 10); endtable;\n" + OKRULE, None, {}),
    ("pp-unterminated-if", H + "#if 1\n" + G + OKRULE, None, {}),
    ("pp-unterminated-comment", H + G + OKRULE + "/* never closed\n", None, {}),
    ("slotref-beyond-rule-with-optional", H + G + "table(sub) [cA cB]? cC > @32768 @2 cC {user1 = 3}; endtable;\n", None, {}),
    ("unicode-range-beyond-10ffff", H + "table(glyph) cA = glyphid(3..6); cB = glyphid(7..10); cD = unicode(0x61..2147483648); endtable;\n" + OKRULE, None, {}),
    ("scaled-number-as-glyph-id", H + "table(glyph) cA = glyphid(3..6); cB = glyphid(7, 8 0m, 9, 10); endtable;\n" + OKRULE, None, {}),
    ("unused-predefined-attr-as-value", H + "table(glyph) cA = glyphid(3..6) {ua1 = justify.0.stretch}; cB = glyphid(7..10); endtable;\n" + OKRULE, None, {}),
    ("script-direction-out-of-range", H + "ScriptDirection = 32768;\n" + G + OKRULE, None, {}),
    ("script-direction-vertical", H + "ScriptDirection = 4;\n" + G + OKRULE, None, {}),
    ("class-as-slot-attr-value", H + "table(glyph) cA = glyphid(3..6) {collision.flags = 1}; cB = glyphid(7..10); endtable;\ntable(pos) pass(1) {CollisionFix = 3} cA {collision.flags = ANY} cB; endpass; endtable;\n", None, {}),
    ("value-for-attribute-group", H + "table(glyph) cA = glyphid(3..6) {justify.0.stretch = 100m; justify.0 = 100m}; cB = glyphid(7..10); endtable;\n" + OKRULE, None, {}),
    ("empty-rule-item", H + G + "table(sub) cA ( ) > cB cB; endtable;\n", None, {}),
    ("empty-rule-item-in-context", H + G + "table(sub) cA > cB / ( ) cC _ ; cA > cB / ( ) _ cC; endtable;\n", None, {}),
    ("segsplit-attribute", H + G + "table(sub) cA > cB {segsplit = 5}; endtable;\ntable(pos) cA {segsplit = 5m}; endtable;\n", None, {}),
    ("zero-extent-glyph-collision", None, None, {"special": "zero-extent"}),
]

TIME_BASE = 5.0        # seconds
TIME_PER_BYTE = 5e-6   # seconds per byte of GDL source + diagnostics (release build)


def default_font():
    return ttf.simple_font(40, post_names=[".notdef"] + ["g%d" % i for i in range(1, 40)])[0]


class Runner:
    def __init__(self, rep, work):
        self.rep = rep
        self.work = work
        self.asan = common.build_repo("asan")
        self.rel = common.build_repo("rel")
        self._nd = None
        self.font = default_font()
        self.counts = collections.Counter()
        self.ub_arith = collections.Counter()
        self.assert_rejected = collections.Counter()
        self.kinds = collections.Counter()
        self.exit_codes = collections.Counter()
        self.max_wall = 0.0
        self.slow = []

    def nd(self):
        if self._nd is None:
            self._nd = common.build_repo("asan_nd")
        return self._nd

    def run_case(self, name, gdl_bytes, font_bytes, argv, kind):
        """Run one case on the sanitizer build; classify; escalate as needed. Returns a dict."""
        d = os.path.join(self.work, name)
        shutil.rmtree(d, ignore_errors=True)
        fuzz11.prepare_dir(d, gdl_bytes, font_bytes, self.font)
        args = argv if argv is not None else ["-q", "p.gdl", "in.ttf", "out.ttf"]
        rc, out, wall = common.run_grc(self.asan, d, args, timeout=90)
        verdict, sig = fuzz11.classify(rc, out)
        res = {"name": name, "kind": kind, "dir": d, "args": args, "rc": rc, "verdict": verdict, "sig": sig, "wall": wall,
               "out": out[-3000:], "ub": fuzz11.ub_arith(out)}
        if verdict == "assert":
            # does the release code path survive, and is the program accepted?
            rc2, out2, wall2 = common.run_grc(self.nd(), d, args, timeout=90)
            v2, s2 = fuzz11.classify(rc2, out2)
            res["nd"] = {"rc": rc2, "verdict": v2, "sig": s2, "out": out2[-3000:]}
            if v2 != "ok":
                res["verdict"], res["sig"] = v2, s2 + "|after-" + sig
            elif rc2 == 0:
                res["verdict"], res["sig"] = "assert-accepted", sig
            else:
                res["verdict"], res["sig"] = "assert-rejected", sig
        if res["verdict"] in ("ok", "assert-rejected") and (wall > 20 or kind.startswith("scale")):
            # time bound on the release build
            for f in ("gdlerr.txt",):
                try:
                    os.unlink(os.path.join(d, f))
                except OSError:
                    pass
            rc3, out3, wall3 = common.run_grc(self.rel, d, args, timeout=120)
            size = len(gdl_bytes)
            ep = os.path.join(d, "gdlerr.txt")
            if os.path.exists(ep):
                size += os.path.getsize(ep)
            bound = TIME_BASE + TIME_PER_BYTE * size
            res["rel"] = {"rc": rc3, "wall": wall3, "bound": bound, "bytes": size}
            if rc3 == "timeout" or wall3 > bound:
                res["verdict"], res["sig"] = "slow", "slow:%s" % kind
            elif isinstance(rc3, int) and rc3 not in (0, 1, 2):
                res["verdict"], res["sig"] = "crash-release", "release-exit:%s" % rc3
        return res

    def account(self, res):
        self.counts[res["verdict"]] += 1
        self.kinds[res["kind"].split(":")[0]] += 1
        self.exit_codes[str(res["rc"])] += 1
        self.max_wall = max(self.max_wall, res["wall"])
        for u in res["ub"]:
            self.ub_arith[u] += 1
        v = res["verdict"]
        if v == "assert-rejected":
            self.assert_rejected[res["sig"]] += 1
        if v in ("ok", "assert-rejected"):
            shutil.rmtree(res["dir"], ignore_errors=True)
            return
        # a violation: keep the input as the replay
        payload = {"what": {"asan": "memory-safety violation reported by AddressSanitizer", "ubmem": "memory-safety violation reported by UBSan",
                            "crash": "fatal signal", "timeout": "did not terminate within 90 s (sanitizer build)", "badexit": "exit status outside {0,1,2}",
                            "assert-accepted": "internal assertion violated although the program is accepted (exit 0 without assertions)",
                            "slow": "release build exceeded the linear time bound", "crash-release": "release build exit status outside {0,1,2}"}.get(v, v),
                   "verdict": v, "signature": res["sig"], "argv": res["args"], "exit": res["rc"], "wall_s": round(res["wall"], 2),
                   "output_tail": res["out"], "nd": res.get("nd"), "rel": res.get("rel"),
                   "how_to_replay": "copy gdl/font/stddef.gdh from the case directory next to replay.json; run the ASan build: grcompiler " + " ".join(res["args"])}
        rd = self.rep.violation(res["name"], payload, signature=res["sig"])
        if rd:
            for f in ("p.gdl", "in.ttf", "stddef.gdh"):
                try:
                    shutil.copy(os.path.join(res["dir"], f), rd)
                except OSError:
                    pass
        shutil.rmtree(res["dir"], ignore_errors=True)


def special_font(which):
    if which == "zero-extent":
        # a glyph whose points share one x coordinate, with collision fixing (SIGSEGV in the pinned tree)
        glyphs = [{"contours": [], "adv": 500}] + [{"contours": [[(100, 0), (100, 500), (100, 250)]], "adv": 500} for _ in range(12)]
        cmap = {0x61 + i: i + 1 for i in range(10)}
        try:
            font = ttf.build_font(glyphs, cmap)
        except Exception:
            return None, None
        gdl = (H + "table(glyph) cA = glyphid(1..5) {collision.flags = 1}; cB = glyphid(6..9); endtable;\n"
               "table(pos) pass(1) {CollisionFix = 2} cA {collision.flags = 3} cB; endpass; endtable;\n")
        return gdl, font
    if which == "piglatin-german-family":
        # the suite's PigLatin input font (names on platforms 0, 1 and 3) plus a German family-name record under (3,1)
        try:
            src = open(os.path.join(common.REPO, "test/GrcRegressionTest/fonts/PigLatinInput.ttf"), "rb").read()
            tables, d = ttf.parse(src)
            recs = sorted(ttf.parse_name(tables[b"name"]) + [(3, 1, 1031, 1, "PigLatein".encode("utf-16-be"))], key=lambda r: r[:4])
            tables[b"name"] = ttf.name_table(recs)
            font = ttf.assemble(tables, order=[t[0] for t in sorted(d, key=lambda x: x[2])])
        except Exception:
            return None, None
        return H + "table(glyph) cA = glyphid(3..6); cB = glyphid(7..10); endtable;\ntable(sub) cA > cB; endtable;\n", font
    return None, None


def hexarg(a):
    b = a.encode("latin-1", "replace")
    return b.hex() if b else "."


def argv_correspondence(rep, rn, rng, n):
    """T2: Lean model of main's argument handling vs the real main()."""
    cases = [fuzz11.gen_argv_case(rng) for _ in range(n)]
    cases = [c for c in cases if all("\x00" not in a for a in c)]
    model = common.run_grcv(["args " + " ".join(hexarg(a) for a in c) if c else "args" for c in cases])
    stats = collections.Counter()
    gdl = (H + G + OKRULE).encode()

    def real(i):
        c = cases[i]
        d = os.path.join(rn.work, "argv%04d" % i)
        shutil.rmtree(d, ignore_errors=True)
        fuzz11.prepare_dir(d, gdl, None, rn.font)
        os.makedirs(os.path.join(d, "a.b.c"), exist_ok=True)
        rc, out, wall = common.run_grc(rn.asan, d, c, timeout=60)
        files = set()
        for root, dirs, fs in os.walk(d):
            for f in fs:
                files.add(os.path.relpath(os.path.join(root, f), d))
        return d, rc, out, files

    with ThreadPoolExecutor(16) as ex:
        reals = list(ex.map(real, range(len(cases))))
    for i, c in enumerate(cases):
        d, rc, out, files = reals[i]
        m = dict(kv.split("=", 1) for kv in model[i].split(" ") if "=" in kv)
        verdict, sig = fuzz11.classify(rc, out)
        res = {"name": "argv%04d" % i, "kind": "argv", "dir": d, "args": c, "rc": rc, "verdict": verdict, "sig": sig, "wall": 0.0,
               "out": out[-3000:], "ub": fuzz11.ub_arith(out)}
        if verdict == "assert":
            res["verdict"] = "assert-rejected" if rc != 0 else "assert-accepted"
        if res["verdict"] not in ("ok", "assert-rejected"):
            rn.account(res)
            continue
        # compare with the model
        oc = m.get("outcome")
        stats[oc] += 1
        usage = "usage: grcompiler" in out
        toolong = "too long" in out
        mismatch = None
        if oc == "crash":
            mismatch = "model says the NULL ending argv is dereferenced; the real run did not crash"
        elif oc == "usage":
            if not (usage and rc == 2):
                mismatch = "model: usage/exit 2; real: rc=%s usage=%s" % (rc, usage)
        elif oc in ("toolong", "toolongderived"):
            if not (toolong and rc == 2 and not usage):
                mismatch = "model: name too long/exit 2; real: rc=%s" % rc
        elif oc == "proceed":
            if usage or toolong or rc == 2:
                mismatch = "model: proceeds to compile; real: rc=%s usage=%s toolong=%s" % (rc, usage, toolong)
            else:
                unhex = lambda h: "" if h in (".", "-") else bytes.fromhex(h).decode("latin-1")
                outname, errname = unhex(m["out"]), (unhex(m["err"]) if m["err"] != "-" else "gdlerr.txt")
                quiet = m["quiet"] == "1"
                banner = "Graphite Compiler Version" in out
                if banner == quiet:
                    mismatch = "quiet flag: model %s, banner printed %s" % (quiet, banner)
                # error file: written next to the GDL file unless it has a path
                gdlname = unhex(m["gdl"])
                if rc in (0, 1) and os.path.exists(os.path.join(d, gdlname)) and "/" not in errname and errname and len(errname) < 200:
                    if errname not in files:
                        mismatch = "error file: model says %r, files present %s" % (errname, sorted(files)[:8])
                if rc == 0 and not mismatch:
                    if os.path.normpath(outname) not in files:
                        mismatch = "output font: model says %r, files present %s" % (outname, sorted(files)[:8])
                    dbg = any(f.endswith(".gdx") for f in files)
                    if dbg != (m["dbgxml"] == "1"):
                        mismatch = "debug xml: model %s, .gdx present %s" % (m["dbgxml"], dbg)
                    dbgall = any(re.match(r"dbg_\w+\.txt", os.path.basename(f)) for f in files)
                    if dbgall != (m["dbgall"] == "1"):
                        mismatch = "debug files: model %s, dbg_*.txt present %s" % (m["dbgall"], dbgall)
        if mismatch:
            stats["mismatch"] += 1
            rep.violation("argv-model-%04d" % i, {"what": "model of main's argument handling and the real main() disagree: " + mismatch,
                                                  "argv": c, "model": model[i], "real_rc": rc, "real_output_tail": out[-1500:]},
                          signature="argv-model:" + (oc or "?"))
        rn.account(res)
    return stats


def run(tier, seed, replay=None):
    rep = common.Report("C11", tier, seed, level="proof")
    gate = common.lean_gate(rep, THEOREMS, uses_args=True)
    work = common.new_workdir("c11")
    rng = random.Random(seed * 1000003 + 11)
    rn = Runner(rep, work)
    t0 = time.time()

    # 1. corpus of past failures (always first)
    for name, gdl, argv, opt in CORPUS:
        font = None
        if opt.get("special"):
            gdl, font = special_font(opt["special"])
            if gdl is None:
                continue
        if opt.get("family"):
            font = ttf.simple_font(40, family=opt["family"])[0]
        if opt.get("names_extra"):
            font = ttf.simple_font(40, names=ttf.default_names("Verif", extra=opt["names_extra"]))[0]
        if opt.get("name_platforms"):
            # name records for several languages under one platform and encoding; optionally only the family name in the extra ones
            recs = ttf.default_names("Verif", platforms=tuple(opt["name_platforms"]))
            if opt.get("family_only_langs"):
                recs = [r for r in recs if not (r[2] in opt["family_only_langs"] and r[3] != 1)]
            font = ttf.simple_font(40, names=recs)[0]
        res = rn.run_case("corpus-" + name, gdl.encode("latin-1"), font, argv, "scale-corpus" if "ffff" in name or "pass" in name or "unicode-range" in name else "corpus")
        if opt.get("known_stack_overflow") and res["verdict"] in ("asan", "crash", "crash-release") and ("stack-overflow" in str(res["sig"]) or "release-exit" in str(res["sig"]) or res["verdict"] == "crash"):
            # the frame in which the stack runs out varies from run to run: the finding is identified by the recursion
            res["sig"] = opt["known_stack_overflow"] if ("GrpParser::" + opt["recursion"]) in res["out"] or res["verdict"] != "asan" else res["sig"]
        rn.account(res)
    ncorpus = len(CORPUS)

    # 1b. reads of uninitialised memory that change what the compiler does: the release build must give the same exit status
    # and the same diagnostics whatever bytes malloc hands out (MALLOC_PERTURB_ fills fresh and freed blocks), and under
    # valgrind (thorough tier) no invalid access may be reported. Programs: one per predefined family of
    # names at every legal index (justification levels, user attributes, components, metrics), and the seed programs.
    feature_programs = dict(fuzz11.SEEDS)
    feature_programs["justify_levels"] = H + "table(glyph) cB = glyphid(7); cA = glyphid(3..6) {" + "; ".join(
        "justify.%d.%s = %d%s" % (lv, a, 10 * lv + k + 1, "m" if a != "weight" else "") for lv in range(4) for k, a in enumerate(["stretch", "shrink", "step", "weight"])) + "}; endtable;\ntable(sub) cA > cB; endtable;\n"
    feature_programs["user_attrs"] = H + G + "table(sub) cA > cB {" + "; ".join("user%d = %d" % (k, k) for k in range(1, 17)) + "}; endtable;\n"
    feature_programs["glyph_metrics"] = H + G + "table(pos) cA {shift.x = boundingbox.left + advancewidth - boundingbox.right + leftsidebearing + rightsidebearing + ascent - descent + boundingbox.top - boundingbox.bottom + boundingbox.width + boundingbox.height + advanceheight}; endtable;\n"
    feature_programs["breakweights_dirs"] = H + "table(glyph) cB = glyphid(7) {breakweight = BREAK_WORD; directionality = DIR_RIGHT}; cA = glyphid(3..6) {breakweight = -30; directionality = DIR_ARABNUMBER}; endtable;\ntable(sub) cA > cB; endtable;\n"
    nperturb = 0
    vg = shutil.which("valgrind") if tier == "thorough" else None
    for nm, text in sorted(feature_programs.items()):
        d = os.path.join(rn.work, "perturb_" + nm)
        os.makedirs(d, exist_ok=True)
        fuzz11.prepare_dir(d, text.encode("latin-1"), None, rn.font)
        outs = {}
        for tag, envx in (("plain", {}), ("perturb170", {"MALLOC_PERTURB_": "170"}), ("perturb85", {"MALLOC_PERTURB_": "85"})):
            for fn in ("gdlerr.txt", "out.ttf"):
                if os.path.exists(os.path.join(d, fn)):
                    os.unlink(os.path.join(d, fn))
            rc_, out_, _w = common.run_grc(rn.rel, d, ["-q", "p.gdl", "in.ttf", "out.ttf"], env_extra=envx)
            ep = os.path.join(d, "gdlerr.txt")
            diag = open(ep, errors="replace").read() if os.path.exists(ep) else ""
            outs[tag] = (rc_, "\n".join(l for l in diag.split("\n") if "error(" in l or "warning(" in l))
            nperturb += 1
        problems = []
        if len(set(outs.values())) > 1:
            problems.append({"what": "exit status / diagnostics of the release build depend on the bytes malloc hands out (a read of uninitialised memory)",
                             "runs": {k: [v[0], v[1][:400]] for k, v in outs.items()}})
        if vg and not problems:
            # (reads of uninitialised values are not reported here: valgrind flags every compilation for a comparison in
            # MinAndMaxGlyphAttrValues whose outcome does not depend on the value read; what such reads can change is
            # covered by the MALLOC_PERTURB_ runs above. Invalid reads / writes / frees of the release build are.)
            r_ = subprocess.run([vg, "-q", "--error-exitcode=99", "--undef-value-errors=no", rn.rel["grcompiler"], "-q", "p.gdl", "in.ttf", "out.ttf"], cwd=d,
                                env=dict(os.environ, GDLPP=rn.rel["gdlpp"]), capture_output=True, timeout=900)
            nperturb += 1
            if r_.returncode == 99:
                problems.append({"what": "valgrind reports an error in the release build", "valgrind": r_.stderr.decode("latin-1")[-1500:]})
        if problems:
            rd = rep.violation("uninit-" + nm, {"program": nm, "problems": problems, "how_to_replay": "p.gdl, in.ttf, stddef.gdh are next to replay.json; run the release build with MALLOC_PERTURB_=170 / 85 / unset"})
            if rd:
                for f in ("p.gdl", "in.ttf", "stddef.gdh"):
                    try:
                        shutil.copy(os.path.join(d, f), rd)
                    except OSError:
                        pass
        shutil.rmtree(d, ignore_errors=True)

    # 2. argv: model vs real
    nargv = 150 if tier == "quick" else 1500
    astats = argv_correspondence(rep, rn, rng, nargv)

    # 3. GDL text exploration
    n = 500 if tier == "quick" else 12000
    fam = fuzz11.family_programs(seed)
    cases = []
    for i in range(n):
        kind, g, f = fuzz11.gen_gdl_case(rng, fam)
        opts = []
        r = rng.random()
        if r < 0.15:
            opts = [rng.choice(["-d", "-D", "-c", "-g", "-p", "-offsets", "-v2", "-v3", "-v4", "-v5", "-wall"])]
        elif r < 0.2:
            opts = ["-D", "-g", "-c"]
        cases.append(("fz%05d" % i, kind, g, f, ["-q"] + opts + ["p.gdl", "in.ttf", "out.ttf"]))

    def one(c):
        name, kind, g, f, argv = c
        k = "scale:" + kind if kind == "structural" and len(g) > 20000 else kind
        return rn.run_case(name, g, f, argv, k)
    with ThreadPoolExecutor(16) as ex:
        for res in ex.map(one, cases):
            rn.account(res)

    rep.coverage.update({
        "proof_part": "argument handling (all argv), inclusive range loops (all ranges), duplicate-search bound (all sizes) - see theorems",
        "arg_consts_from_source": getattr(rep, "args_consts", None),
        "exploration_is_not_proof": True,
        "corpus_cases": ncorpus, "allocator_content_runs": nperturb, "argv_cases": nargv, "argv_model_outcomes": dict(astats),
        "gdl_cases": n, "case_kinds": dict(rn.kinds), "verdicts": dict(rn.counts), "exit_status_histogram": dict(rn.exit_codes),
        "asserts_on_rejected_programs (not violations; release path re-run clean)": dict(rn.assert_rejected),
        "ubsan_arithmetic_reports (informational, outside the property)": dict(rn.ub_arith),
        "max_wall_s_sanitizer_build": round(rn.max_wall, 2),
        "time_bound": "release build: %.1f s + %.0f us per byte of source and diagnostics" % (TIME_BASE, TIME_PER_BYTE * 1e6),
        "explore_wall_s": round(time.time() - t0, 1),
    })
    rep.assumptions += [
        "memory safety, signals and wall time are observed on the explored inputs only (sanitizer build, clang-14); they are not proved",
        "the Lean model covers main()'s handling of argv up to the point where file names are fixed; it is tied to the source by the extracted guards and by the argv correspondence run",
        "well-formed input fonts only (property's quantifier); fonts are built by tools/ttf.py",
    ]
    shutil.rmtree(work, ignore_errors=True)
    return rep.finish()
