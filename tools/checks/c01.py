"""C01 Rendering fidelity: the compiled rules do what the GDL rules say  (PARTIAL: expressions and slot references).

Decided by proof (Lean, Grc.Sem / Grc.Chk01):
  * decomp_sound / decomp_value - for every instruction sequence of the value fragment of the stack machine (push of
    8/16/32-bit constants, arithmetic, comparison, logic, conditional, slot-attribute, glyph-attribute and feature reads) and
    every state of the engine, running the code computes exactly the values of the expression trees the decompiler returns
    (including the cases where the machine stops: division by zero, INT_MIN / -1);
  * evalS_fold - constant folding (constant operands, conditionals with a constant test) preserves the value in every state;
  * decode_encode - every 32-bit integer, pushed in the shortest of the three constant encodings, is read back as itself.
  Tie (T3, certified checker on real output): for every rule of every generated program the action and constraint code
  stored in the font is decompiled and compared, after folding, with the tree denoted by the source expression in which
  `@n` has become (input index of item n) - (reference frame of the item); equal trees => equal values in every state.
  Tie (T2, engine): one-rule programs are shaped by libgraphite2 and the user attributes of every slot are compared with
  a direct evaluation of the source expressions (checks the machine model itself: wrap-around, truncating division,
  truth values, sign extension of constants).
NOT covered (stated in DESIGN.md): the full scan/match/advance loop of the engine, positioning attributes and attachment,
  feature tests (`if`), pass order - matching and precedence are C02/C06, class correspondence C04, reference offsets of
  PutCopy/Assoc C03/C04.
"""
import collections
import os
import random
import shutil

import common
import gen
import gr2
import harness

THEOREMS = ["Grc.Sem.dstep_sound", "Grc.Sem.decomp_sound", "Grc.Sem.decomp_value", "Grc.Sem.noDiv_total", "Grc.Sem.evalS_fold", "Grc.Sem.evalS_foldC",
            "Grc.Sem.decode_encode", "Grc.Sem.wrap32_id"]

OPTS = [["-p"], [], ["-v3", "-p"], ["-v5"], ["-c"], ["-v2", "-p"]]


def wrap32(x):
    return (x + 2147483648) % 4294967296 - 2147483648


class Stop(Exception):
    pass


def ev(e, env):
    """Mirror of Grc.Sem.evalS on the IR (python side of the engine run)."""
    k = e["k"]
    if k == "lit":
        return e["v"]
    if k == "user":
        return env["user"](e.get("slot"), e["i"])
    if k == "gattr":
        return env["gattr"](e.get("slot"), e["a"])
    if k == "un":
        v = ev(e["e"], env)
        return wrap32(-v) if e["op"] == "-" else int(v == 0)
    if k == "cond":
        c, a, b = ev(e["c"], env), ev(e["a"], env), ev(e["b"], env)
        return a if c != 0 else b
    a, b = ev(e["a"], env), ev(e["b"], env)
    op = e["op"]
    if op == "+":
        return wrap32(a + b)
    if op == "-":
        return wrap32(a - b)
    if op == "*":
        return wrap32(a * b)
    if op == "/":
        if b == 0 or (a == -2147483648 and b == -1):
            raise Stop()
        q = abs(a) // abs(b)
        return q if (a >= 0) == (b >= 0) else -q
    if op == "min":
        return a if a < b else b
    if op == "max":
        return a if a > b else b
    if op == "&&":
        return int(a != 0 and b != 0)
    if op == "||":
        return int(a != 0 or b != 0)
    return int({"==": a == b, "!=": a != b, "<": a < b, ">": a > b, "<=": a <= b, ">=": a >= b}[op])


def expected_single(prog):
    """User attributes of every slot after the two passes of a single=True program."""
    rule = prog.tables[0][1][1][0]
    glyphs = [prog.classes[it.cls][0] for it in rule.items]
    w16 = lambda v: ((v + 32768) % 65536) - 32768      # libgraphite2 stores user attributes in 16 bits
    user = [[w16(v) for v in prog.single_user[g]] for g in glyphs]
    for j, it in enumerate(rule.items):
        for (nm, op, _t, ir_) in it.attrs:
            env = {"user": lambda slot, i, j=j: user[(slot - 1) if slot else j][i],
                   "gattr": lambda slot, a, j=j: prog.gattr_values[glyphs[(slot - 1) if slot else j]][a]}
            v = ev(ir_, env)
            u = int(nm[4:]) - 1
            user[j][u] = w16(v if op == "=" else wrap32(user[j][u] + v) if op == "+=" else wrap32(user[j][u] - v))
    return glyphs, user


def run(tier, seed, replay=None):
    rep = common.Report("C01", tier, seed, level="proof")
    common.lean_gate(rep, THEOREMS, uses_tables=True)
    build = common.build_repo("rel")
    work = common.new_workdir("c01")
    stats = collections.Counter()
    distinct = set()
    samples = []
    # (T3) decompiled code = denoted trees
    n = 90 if tier == "quick" else 900
    cases = harness.gen_cases(seed, 1, n, lambda rng, i: gen.gen_expr_program(rng))
    for i, (name, prog) in enumerate(cases):
        opts = OPTS[i % len(OPTS)]
        r = harness.compile_cases(build, work, [(name, prog)], extra_args=opts)[0]
        stats["programs"] += 1
        if r["rc"] != 0 or not os.path.exists(os.path.join(r["dir"], "out.ttf")):
            stats["rejected"] += 1
            for e in harness.error_ids([r]):
                stats["rejected_error_" + e] += 1
            shutil.rmtree(r["dir"], ignore_errors=True)
            continue
        o = harness.drive([r], ["c01"])[0]
        lines = o["c01"]
        bad = [l for l in lines if not l.startswith("ok ")] + [l for l in o["load"] if not l.startswith("ok")]
        if bad:
            d = harness.save_case(rep, r, name)
            rep.violation(name, {"case": name, "options": opts, "checker_lines": bad[:8],
                                 "meaning": "the action/constraint code stored in the font for the named rule item computes a different value (or reads a different slot) than the GDL expression, in the engine state given as probe",
                                 "rerun": "cd %s && printf 'font out.ttf\\nir p.ir.json\\nc01\\n' | %s" % (d, common.grcv_path())})
        else:
            for l in lines:
                if l.startswith("ok "):
                    kv = dict(x.split("=") for x in l.split()[1:])
                    stats["rules"] += int(kv["rules"])
                    stats["attr_values"] += int(kv["attrValues"])
                    stats["item_constraints"] += int(kv["itemConstraints"])
                    distinct.add(l)
        if len(samples) < 2:
            samples.append({"case": name, "options": opts, "c01": lines[:2]})
        shutil.rmtree(r["dir"], ignore_errors=True)
    # (T2) engine runs of one-rule programs
    m = 60 if tier == "quick" else 600
    cases = harness.gen_cases(seed, 101, m, lambda rng, i: gen.gen_expr_program(rng, single=True))
    for i, (name, prog) in enumerate(cases):
        name = "s" + name
        try:
            glyphs, want = expected_single(prog)
        except Stop:
            stats["engine_cases_skipped_machine_stops"] += 1
            continue
        opts = OPTS[i % len(OPTS)]
        r = harness.compile_cases(build, work, [(name, prog)], extra_args=opts)[0]
        if r["rc"] != 0:
            stats["engine_cases_rejected"] += 1
            shutil.rmtree(r["dir"], ignore_errors=True)
            continue
        o = harness.drive([r], ["c01"])[0]
        bad = [l for l in o["c01"] if not l.startswith("ok ")]
        inv = {v: k for k, v in prog.cmap.items()}
        f = gr2.Face(os.path.join(r["dir"], "out.ttf"))
        seg = f.shape([inv[g] for g in glyphs], user_attrs=4) if f.ok() else None
        f.close()
        stats["engine_cases"] += 1
        problems = list(bad)
        if seg is None:
            problems.append("libgraphite2 rejects the font or the text")
        else:
            got = [(x["gid"], x["user"]) for x in seg]
            exp = list(zip(glyphs, want))
            if [g for g, _ in got] != glyphs:
                problems.append("glyphs after shaping %s, expected %s" % ([g for g, _ in got], glyphs))
            else:
                for j, ((g, gu), (_g2, wu)) in enumerate(zip(got, exp)):
                    # the engine keeps user attributes as 16-bit values
                    wu16 = [((v + 32768) % 65536) - 32768 for v in wu]
                    if list(gu) != wu16:
                        problems.append("slot %d (glyph %d): engine has user attributes %s, the rules say %s (16-bit: %s)" % (j + 1, g, list(gu), wu, wu16))
        if problems:
            d = harness.save_case(rep, r, name)
            rep.violation(name, {"case": name, "options": opts, "problems": problems[:6], "text_glyphs": glyphs,
                                 "meaning": "shaping the one-rule program with libgraphite2 gives other user attribute values than evaluating the GDL expressions"})
        shutil.rmtree(r["dir"], ignore_errors=True)
    rep.coverage.update({
        "programs": stats["programs"], "rejected": stats["rejected"], "rules_checked": stats["rules"],
        "attribute_values_compared_as_trees": stats["attr_values"], "item_constraints_compared_as_trees": stats["item_constraints"],
        "engine_cases": stats["engine_cases"], "engine_cases_skipped_machine_stops": stats["engine_cases_skipped_machine_stops"],
        "engine_cases_rejected": stats["engine_cases_rejected"],
        "traces_validated_against_impl": stats["programs"] - stats["rejected"] + stats["engine_cases"], "disagreements_checked": len(rep.violations),
        "evaluations": stats["attr_values"] + stats["item_constraints"], "distinct_nontrivial": len(distinct),
        "rule": "generated rules (pre-contexts of different lengths in one pass, insertions, deletions) whose items set user attributes to / are constrained by expressions over constants of every encoding size, user and glyph attributes of own and other slots, arithmetic/comparison/logic/conditional operators; one evaluation = one expression whose decompiled tree equals the denoted tree; engine cases = one-rule programs shaped by libgraphite2",
        "samples": samples, "exhaustive": False, "other_stats": {k: v for k, v in stats.items() if k.startswith("rejected_error_")},
        "partial": "expressions, constants and slot references only; the scan/match/advance loop, positioning and attachment, feature tests and pass order are not modelled here",
    })
    rep.assumptions += ["operand conventions of the value instructions (signed offsets and constants, big-endian) per doc/StackMachineCommands, confirmed by the engine runs",
                        "libgraphite2 1.3.14 stores user attributes in 16 bits; comparison is modulo 2^16"]
    if stats["rejected"] > 0.5 * stats["programs"]:
        rep.violation("generator", {"broken": "more than half of the generated programs are rejected"}, no_failing_input=True)
    shutil.rmtree(work, ignore_errors=True)
    return rep.finish()
