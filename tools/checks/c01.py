"""C01 Rendering fidelity: the compiled rules do what the GDL rules say  (PARTIAL: expressions and slot references).

Decided by proof (Lean, Grc.Sem / Grc.Chk01):
  * decomp_sound / decomp_value - for every instruction sequence of the value fragment of the stack machine (push of
    8/16/32-bit constants, arithmetic, comparison, logic, conditional, slot-attribute, glyph-attribute and feature reads) and
    every state of the engine, running the code computes exactly the values of the expression trees the decompiler returns
    (including the cases where the machine stops: division by zero, INT_MIN / -1);
  * evalS_fold - constant folding (constant operands, conditionals with a constant test) preserves the value in every state;
  * decode_encode - every 32-bit integer, pushed in the shortest of the three constant encodings, is read back as itself.
  Tie (T3, certified checker on real output): for every rule of every generated program the action and constraint code
  stored in the font is decompiled and compared, after folding, with the tree denoted by the source expression in which
  `@n` has become (input index of item n) - (reference frame of the item); equal trees => equal values in every state.
  Tie (T2, engine): one-rule programs are shaped by libgraphite2 and the user attributes of every slot are compared with
  a direct evaluation of the source expressions (checks the machine model itself: wrap-around, truncating division,
  truth values, sign extension of constants).
NOT covered (stated in DESIGN.md): the full scan/match/advance loop of the engine, positioning attributes and attachment,
  feature tests (`if`), pass order - matching and precedence are C02/C06, class correspondence C04, reference offsets of
  PutCopy/Assoc C03/C04.
"""
import collections
import os
import random
import shutil

import common
import gen
import gr2
import harness

THEOREMS = ["Grc.Eng.runPass_no_rules", "Grc.Eng.scanStep_no_match", "Grc.Eng.runPassE_no_match", "Grc.Eng.trialOrder_perm", "Grc.Eng.trialOrder_sorted", "Grc.Sem.dstep_sound", "Grc.Sem.decomp_sound", "Grc.Sem.decomp_value", "Grc.Sem.noDiv_total", "Grc.Sem.evalS_fold", "Grc.Sem.evalS_foldC",
            "Grc.Sem.decode_encode", "Grc.Sem.wrap32_id"]

OPTS = [["-p"], [], ["-v3", "-p"], ["-v5"], ["-c"], ["-v2", "-p"]]


def wrap32(x):
    return (x + 2147483648) % 4294967296 - 2147483648


class Stop(Exception):
    pass


def ev(e, env):
    """Mirror of Grc.Sem.evalS on the IR (python side of the engine run)."""
    k = e["k"]
    if k == "lit":
        return e["v"]
    if k == "user":
        return env["user"](e.get("slot"), e["i"])
    if k == "gattr":
        return env["gattr"](e.get("slot"), e["a"])
    if k == "un":
        v = ev(e["e"], env)
        return wrap32(-v) if e["op"] == "-" else int(v == 0)
    if k == "cond":
        c, a, b = ev(e["c"], env), ev(e["a"], env), ev(e["b"], env)
        return a if c != 0 else b
    a, b = ev(e["a"], env), ev(e["b"], env)
    op = e["op"]
    if op == "+":
        return wrap32(a + b)
    if op == "-":
        return wrap32(a - b)
    if op == "*":
        return wrap32(a * b)
    if op == "/":
        if b == 0 or (a == -2147483648 and b == -1):
            raise Stop()
        q = abs(a) // abs(b)
        return q if (a >= 0) == (b >= 0) else -q
    if op == "min":
        return a if a < b else b
    if op == "max":
        return a if a > b else b
    if op == "&&":
        return int(a != 0 and b != 0)
    if op == "||":
        return int(a != 0 or b != 0)
    return int({"==": a == b, "!=": a != b, "<": a < b, ">": a > b, "<=": a <= b, ">=": a >= b}[op])


def expected_single(prog):
    """User attributes of every slot after the two passes of a single=True program."""
    rule = prog.tables[0][1][1][0]
    glyphs = [prog.classes[it.cls][0] for it in rule.items]
    w16 = lambda v: ((v + 32768) % 65536) - 32768      # libgraphite2 stores user attributes in 16 bits
    user = [[w16(v) for v in prog.single_user[g]] for g in glyphs]
    for j, it in enumerate(rule.items):
        for (nm, op, _t, ir_) in it.attrs:
            env = {"user": lambda slot, i, j=j: user[(slot - 1) if slot else j][i],
                   "gattr": lambda slot, a, j=j: prog.gattr_values[glyphs[(slot - 1) if slot else j]][a]}
            v = ev(ir_, env)
            u = int(nm[4:]) - 1
            user[j][u] = w16(v if op == "=" else wrap32(user[j][u] + v) if op == "+=" else wrap32(user[j][u] - v))
    return glyphs, user


def run(tier, seed, replay=None):
    rep = common.Report("C01", tier, seed, level="proof")
    common.lean_gate(rep, THEOREMS, uses_tables=True)
    build = common.build_repo("rel")
    work = common.new_workdir("c01")
    stats = collections.Counter()
    distinct = set()
    samples = []
    # (T3) decompiled code = denoted trees
    n = 90 if tier == "quick" else 900
    # every fifth program puts directives on its passes (MaxRuleLoop, MaxBackup, CollisionFix, AutoKern): the pass
    # headers of the font have to say the same
    cases = harness.gen_cases(seed, 1, n, lambda rng, i: gen.add_pass_directives(rng, gen.gen_pos_program(rng)) if i % 10 == 8 else (lambda pr: gen.add_pass_directives(rng, pr) if i % 5 == 3 else pr)((lambda pr: gen.add_aliases(rng, pr) if i % 4 == 1 else pr)(gen.add_feature_tests(rng, gen.gen_expr_program(rng)) if i % 3 == 2 else gen.gen_expr_program(rng))))
    for i, (name, prog) in enumerate(cases):
        opts = OPTS[i % len(OPTS)]
        r = harness.compile_cases(build, work, [(name, prog)], extra_args=opts)[0]
        stats["programs"] += 1
        if r["rc"] != 0 or not os.path.exists(os.path.join(r["dir"], "out.ttf")):
            stats["rejected"] += 1
            for e in harness.error_ids([r]):
                stats["rejected_error_" + e] += 1
            shutil.rmtree(r["dir"], ignore_errors=True)
            continue
        o = harness.drive([r], ["c01"])[0]
        lines = o["c01"]
        bad = [l for l in lines if not l.startswith("ok ")] + [l for l in o["load"] if not l.startswith("ok")]
        if bad:
            d = harness.save_case(rep, r, name)
            rep.violation(name, {"case": name, "options": opts, "checker_lines": bad[:8],
                                 "meaning": "the action/constraint code stored in the font for the named rule item computes a different value (or reads a different slot) than the GDL expression, in the engine state given as probe",
                                 "rerun": "cd %s && printf 'font out.ttf\\nir p.ir.json\\nc01\\n' | %s" % (d, common.grcv_path())})
        else:
            for l in lines:
                if l.startswith("ok "):
                    kv = dict(x.split("=") for x in l.split()[1:])
                    stats["rules"] += int(kv["rules"])
                    stats["attr_values"] += int(kv["attrValues"])
                    stats["item_constraints"] += int(kv["itemConstraints"])
                    distinct.add(l)
        if len(samples) < 2:
            samples.append({"case": name, "options": opts, "c01": lines[:2]})
        shutil.rmtree(r["dir"], ignore_errors=True)
    # (T2) engine runs of one-rule programs
    m = 60 if tier == "quick" else 600
    cases = harness.gen_cases(seed, 101, m, lambda rng, i: gen.gen_expr_program(rng, single=True))
    for i, (name, prog) in enumerate(cases):
        name = "s" + name
        try:
            glyphs, want = expected_single(prog)
        except Stop:
            stats["engine_cases_skipped_machine_stops"] += 1
            continue
        opts = OPTS[i % len(OPTS)]
        r = harness.compile_cases(build, work, [(name, prog)], extra_args=opts)[0]
        if r["rc"] != 0:
            stats["engine_cases_rejected"] += 1
            shutil.rmtree(r["dir"], ignore_errors=True)
            continue
        o = harness.drive([r], ["c01"])[0]
        bad = [l for l in o["c01"] if not l.startswith("ok ")]
        inv = {v: k for k, v in prog.cmap.items()}
        f = gr2.Face(os.path.join(r["dir"], "out.ttf"))
        seg = f.shape([inv[g] for g in glyphs], user_attrs=4) if f.ok() else None
        f.close()
        stats["engine_cases"] += 1
        problems = list(bad)
        if seg is None:
            problems.append("libgraphite2 rejects the font or the text")
        else:
            got = [(x["gid"], x["user"]) for x in seg]
            exp = list(zip(glyphs, want))
            if [g for g, _ in got] != glyphs:
                problems.append("glyphs after shaping %s, expected %s" % ([g for g, _ in got], glyphs))
            else:
                for j, ((g, gu), (_g2, wu)) in enumerate(zip(got, exp)):
                    # the engine keeps user attributes as 16-bit values
                    wu16 = [((v + 32768) % 65536) - 32768 for v in wu]
                    if list(gu) != wu16:
                        problems.append("slot %d (glyph %d): engine has user attributes %s, the rules say %s (16-bit: %s)" % (j + 1, g, list(gu), wu, wu16))
        if problems:
            d = harness.save_case(rep, r, name)
            rep.violation(name, {"case": name, "options": opts, "problems": problems[:6], "text_glyphs": glyphs,
                                 "meaning": "shaping the one-rule program with libgraphite2 gives other user attribute values than evaluating the GDL expressions"})
        shutil.rmtree(r["dir"], ignore_errors=True)
    # (T2a') the bitwise operators & | ~ (not produced by the expression generator): a fixed program evaluated by the engine
    import ttf as _ttf
    bprog = gen.Prog()
    bprog.nglyphs = 20
    bprog.font, _g, bprog.cmap = _ttf.simple_font(20)
    bprog.raw_gdl = ('#include "stddef.gdh"\ntable(glyph) cA = glyphid(3..6); cB = glyphid(7..10); endtable;\n'
                     'table(sub) pass(1) cA > cB {user1 = 6; user2 = 12}; endpass;\n'
                     'pass(2) cB {user3 = (user1 & user2); user4 = (user1 | user2); user5 = (~user1) & 255} ; endpass; endtable;\n')
    rb = harness.compile_cases(build, work, [("bitwise", bprog)])[0]
    if rb["rc"] == 0 and os.path.exists(os.path.join(rb["dir"], "out.ttf")):
        fb = gr2.Face(os.path.join(rb["dir"], "out.ttf"))
        sb = fb.shape([0x62], user_attrs=5) if fb.ok() else None
        fb.close()
        stats["bitwise_programs"] += 1
        got = sb[0]["user"][2:5] if sb else None
        want = [6 & 12, 6 | 12, (~6) & 255]
        if got != want:
            d = harness.save_case(rep, rb, "bitwise")
            sig = "C01:bitwise-and-or-exchanged-under-libgraphite2" if got == [6 | 12, 6 & 12, 6 | 255] or got == [6 | 12, 6 & 12, ((~6) | 255) & 0xFFFF] or (got and got[:2] == [6 | 12, 6 & 12]) else None
            rep.violation("bitwise", {"gdl": bprog.raw_gdl, "text": "b", "engine_user3_user4_user5": got, "the_rules_say": want,
                                      "meaning": "user1 = 6, user2 = 12: user1 & user2 is 4 and user1 | user2 is 14; libgraphite2 computes the other one for each"}, signature=sig)
    else:
        rep.violation("bitwise-rejected", {"gdl": bprog.raw_gdl, "errors": [l for l in rb["err"].split("\n") if "error" in l][:3]})
    shutil.rmtree(rb["dir"], ignore_errors=True)
    # (T2a'') justification attributes read in a rule: the Silf header names, level by level, the glyph attributes that hold
    # stretch, shrink, step and weight; the engine reads `justify.X` of a slot through those names. A fixed program with
    # four different values per glyph class; the rule copies them to user attributes.
    jprog = gen.Prog()
    jprog.nglyphs = 20
    jprog.font, _g, jprog.cmap = _ttf.simple_font(20)
    jvals = {"cA": (41, 11, 2, 3), "cB": (70, 23, 5, 1)}
    jprog.raw_gdl = ('#include "stddef.gdh"\ntable(glyph) ' + " ".join(
        "%s = glyphid(%s) {justify.stretch = %dm; justify.shrink = %dm; justify.step = %dm; justify.weight = %d};" % ((c, "3..6" if c == "cA" else "7..10") + v)
        for c, v in sorted(jvals.items())) + ' endtable;\n'
        'table(pos) (cA cB) {user1 = justify.stretch; user2 = justify.shrink; user3 = justify.step; user4 = justify.weight}; endtable;\n')
    rj = harness.compile_cases(build, work, [("justify_attrs", jprog)])[0]
    if rj["rc"] == 0 and os.path.exists(os.path.join(rj["dir"], "out.ttf")):
        fj = gr2.Face(os.path.join(rj["dir"], "out.ttf"))
        sj = fj.shape([0x62, 0x66], user_attrs=4) if fj.ok() else None      # glyph 3 (cA), glyph 7 (cB)
        fj.close()
        stats["justify_attr_programs"] += 1
        gotj = [s_["user"][:4] for s_ in sj] if sj else None
        wantj = [list(jvals["cA"]), list(jvals["cB"])]
        if gotj != wantj:
            harness.save_case(rep, rj, "justify_attrs")
            rep.violation("justify_attrs", {"gdl": jprog.raw_gdl, "text_glyphs": [3, 7], "engine_user1_to_user4": gotj, "the_rules_say": wantj,
                                            "meaning": "a rule copies justify.stretch / shrink / step / weight of the slot's glyph to user1..user4; under libgraphite2 the values are not the ones the glyph table assigns (the Silf header names the wrong glyph attribute for one of them)"})
    else:
        rep.violation("justify_attrs-rejected", {"gdl": jprog.raw_gdl, "errors": [l for l in rj["err"].split("\n") if "error" in l][:3]})
    shutil.rmtree(rj["dir"], ignore_errors=True)
    # (T2b) engine level: the Lean reference interpreter of the IR's rules (Grc.Eng.shape) against libgraphite2 on the compiled font
    import itertools
    import json as _json
    fams = [("match", lambda r: gen.gen_match_program(r, size="small")), ("expr", lambda r: gen.gen_expr_program(r)),
            ("classes", lambda r: gen.gen_class_program(r)), ("optional", lambda r: gen.gen_opt_program(r, refs=False, exprs=True)),
            ("match3", lambda r: gen.gen_match_program(r, npasses=3, size="small")),
            ("features", lambda r: gen.add_feature_tests(r, gen.gen_match_program(r, size="small") if r.random() < 0.5 else gen.gen_expr_program(r))),
            ("positioning", lambda r: gen.gen_pos_program(r)),
            ("attachment", lambda r: gen.gen_attach_program(r)),
            ("qcaret", lambda r: gen.gen_match_program(r, npasses=r.choice([1, 2]), size="small", carets=True))]
    per = 8 if tier == "quick" else 80
    ntext = 40 if tier == "quick" else 120
    for fi, (fname, mk) in enumerate(fams):
        cases = harness.gen_cases(seed, 200 + fi, per, lambda rng, i, mk=mk: (lambda pr: gen.add_aliases(rng, pr) if i % 3 == 2 else pr)(mk(rng)))   # every third program refers to items by slot aliases
        for ci, (name, prog) in enumerate(cases):
            name = "e%s%s" % (fname[0], name)
            opts = OPTS[(ci + fi) % len(OPTS)]
            r = harness.compile_cases(build, work, [(name, prog)], extra_args=opts)[0]
            if r["rc"] != 0 or not os.path.exists(os.path.join(r["dir"], "out.ttf")):
                stats["engine_level_rejected"] += 1
                shutil.rmtree(r["dir"], ignore_errors=True)
                continue
            trng = random.Random(seed * 977 + ci * 31 + fi)
            gl = sorted(set(g for v in prog.classes.values() for g in v if 2 <= g < prog.nglyphs))
            alpha = gl[:10] + [g for g in range(2, prog.nglyphs) if g not in gl][:2]
            texts = [[a] for a in alpha] + [list(t) for t in itertools.product(alpha[:5], repeat=2)]
            while len(texts) < ntext:
                texts.append([trng.choice(alpha) for _ in range(trng.randint(3, 8))])
            inv = {v: k for k, v in prog.cmap.items()}
            texts = [t for t in texts[:ntext] if all(g in inv for g in t)]
            fvals = [((i * 7) % 3, (i * 5) % 2) for i in range(len(texts))] if fname == "features" else None
            lines = ["font %s/out.ttf" % r["dir"], "ir %s/p.ir.json" % r["dir"]] + (["expand"] if fname == "optional" else []) + (["c01"] if fname in ("positioning", "attachment", "optional", "qcaret") else []) + \
                [("shapef %d,%d " % fvals[i] if fvals else "shape ") + " ".join(map(str, t)) for i, t in enumerate(texts)]
            outs = common.run_grcv(lines)
            k = 2
            problems = []
            if fname == "optional":
                while outs[k] != "done":      # output of `expand`
                    k += 1
                k += 1
            if fname in ("optional", "positioning", "attachment", "qcaret"):
                k0 = k
                while outs[k] != "done":
                    k += 1
                if fname in ("optional", "positioning", "attachment", "qcaret"):
                    problems += [l for l in outs[k0:k] if not l.startswith("ok ")][:3]
                    for l in outs[k0:k]:
                        if l.startswith("ok "):
                            stats["attr_values"] += int(dict(x.split("=") for x in l.split()[1:])["attrValues"])
                k += 1
            f = gr2.Face(os.path.join(r["dir"], "out.ttf"))
            if not f.ok():
                stats["engine_level_font_rejected_by_libgraphite2 (decided under C03)"] += 1
            else:
                for ti, (t, o) in enumerate(zip(texts, outs[k:])):
                    if o.startswith("stalled"):
                        stats["engine_level_outside_fragment"] += 1
                        continue
                    mine = _json.loads(o)
                    seg = f.shape([inv[g] for g in t], user_attrs=4,
                                  feats={gen.FEATZ_IDS[0]: fvals[ti][0], gen.FEATZ_IDS[1]: fvals[ti][1]} if fvals else None)
                    stats["engine_level_texts"] += 1
                    if seg is None:
                        problems.append("text %s: libgraphite2 produces no segment; the rules give %s" % (t, [x[0] for x in mine]))
                        break
                    got = [[x["gid"], x["before"], x["after"], list(x["user"])] for x in seg]
                    if [x[0] for x in got] != [x[0] for x in mine]:
                        problems.append("text %s: libgraphite2 renders glyphs %s, the rules as written give %s" % (t, [x[0] for x in got], [x[0] for x in mine]))
                    elif [x[3] for x in got] != [x[3] for x in mine]:
                        problems.append("text %s: user attributes %s, the rules as written give %s" % (t, [x[3] for x in got], [x[3] for x in mine]))
                    elif fname in ("positioning", "attachment") and [(round(x["x"]), round(x["y"]), round(x["adv"])) for x in seg] != [(x[5], x[6], x[7]) for x in mine]:
                        problems.append("text %s: positions (x, y, advance) %s, the rules as written give %s" % (
                            t, [(round(x["x"]), round(x["y"]), round(x["adv"])) for x in seg], [(x[5], x[6], x[7]) for x in mine]))
                    elif all(x[4] for x in mine) and [x[1:3] for x in got] != [x[1:3] for x in mine]:
                        problems.append("text %s: glyph-to-character associations %s, the rules as written give %s" % (t, [x[1:3] for x in got], [x[1:3] for x in mine]))
                    if len(problems) >= 4:
                        break
            f.close()
            stats["engine_level_programs"] += 1
            if problems:
                d = harness.save_case(rep, r, name)
                rep.violation(name, {"case": name, "family": fname, "options": opts, "problems": problems[:4],
                                     "meaning": "shaping the named glyph string with libgraphite2 on the compiled font differs from applying the program's rules as written (Lean reference interpreter Grc.Eng.shape)",
                                     "rerun": "cd %s && printf 'font out.ttf\\nir p.ir.json\\nshape <glyph ids>\\n' | %s" % (d, common.grcv_path())})
            shutil.rmtree(r["dir"], ignore_errors=True)
    rep.coverage.update({
        "engine_level_programs": stats["engine_level_programs"], "engine_level_texts": stats["engine_level_texts"],
        "engine_level_texts_outside_fragment": stats["engine_level_outside_fragment"],
        "engine_level_font_rejected_by_libgraphite2 (decided under C03)": stats["engine_level_font_rejected_by_libgraphite2 (decided under C03)"], "engine_level_rejected": stats["engine_level_rejected"],
        "programs": stats["programs"], "rejected": stats["rejected"], "rules_checked": stats["rules"],
        "attribute_values_compared_as_trees": stats["attr_values"], "item_constraints_compared_as_trees": stats["item_constraints"],
        "engine_cases": stats["engine_cases"], "engine_cases_skipped_machine_stops": stats["engine_cases_skipped_machine_stops"],
        "engine_cases_rejected": stats["engine_cases_rejected"],
        "traces_validated_against_impl": stats["programs"] - stats["rejected"] + stats["engine_cases"], "disagreements_checked": len(rep.violations),
        "evaluations": stats["attr_values"] + stats["item_constraints"], "distinct_nontrivial": len(distinct),
        "rule": "generated rules (pre-contexts of different lengths in one pass, insertions, deletions) whose items set user attributes to / are constrained by expressions over constants of every encoding size, user and glyph attributes of own and other slots, arithmetic/comparison/logic/conditional operators; one evaluation = one expression whose decompiled tree equals the denoted tree; engine cases = one-rule programs shaped by libgraphite2",
        "samples": samples, "exhaustive": False, "other_stats": {k: v for k, v in stats.items() if k.startswith("rejected_error_")},
        "partial": "expressions, constants and slot references only; the scan/match/advance loop, positioning and attachment, feature tests and pass order are not modelled here",
    })
    rep.assumptions += ["operand conventions of the value instructions (signed offsets and constants, big-endian) per doc/StackMachineCommands, confirmed by the engine runs",
                        "libgraphite2 1.3.14 stores user attributes in 16 bits; comparison is modulo 2^16"]
    if stats["rejected"] > 0.5 * stats["programs"]:
        rep.violation("generator", {"broken": "more than half of the generated programs are rejected"}, no_failing_input=True)
    shutil.rmtree(work, ignore_errors=True)
    return rep.finish()
