"""C16 Feature, language and name tables reflect the declarations.

Deciding method: Lean theorems Grc.Ft.alloc_ge_256 / alloc_fresh / alloc_nodup (label ids handed out from
max(maxUsed+1, 256, -n) are >= 256, pairwise distinct and disjoint from every id the font uses) and
orderSettings_head / _mem / _length (default first, same settings). Tie: for generated feature/language tables
(numeric and 4-character ids, hidden alternate ids, 1-3 label languages, label-less features and settings, defaults)
the Feat, Sill and name tables decoded from the real font are compared with the declarations by the Lean driver:
every declared id present once, default first, every label resolving in the Microsoft (and, where present, Unicode)
records to the declared string per language, every Feat label id backed by a record, new records only with fresh ids
>= the model's first id; and after recompiling the compiler's own output the labels are reused (no new records).
"""
import collections
import os
import random
import shutil

import common
import gen
import harness
import ttf
from checks.c08 import variant_font

THEOREMS = ["Grc.Ft.alloc_ge_256", "Grc.Ft.alloc_fresh", "Grc.Ft.alloc_nodup", "Grc.Ft.orderSettings_head",
            "Grc.Ft.orderSettings_mem", "Grc.Ft.orderSettings_length"]


NOENG_SIG = "C16:labels-without-an-English-form-are-duplicated-on-recompilation"


def drive16(d, infont, font):
    outs = common.run_grcv(["infont %s/%s" % (d, infont), "font %s/%s" % (d, font), "ir %s/p.ir.json" % d, "c16"])
    res = []
    for l in outs[3:]:
        if l == "done":
            break
        res.append(l)
    return outs[:3], res


def run(tier, seed, replay=None):
    rep = common.Report("C16", tier, seed)
    common.lean_gate(rep, THEOREMS)
    build = common.build_repo("rel")
    work = common.new_workdir("c16")
    n = 60 if tier == "quick" else 500
    rng = random.Random(seed * 16 + 16)
    stats = collections.Counter()
    distinct = set()
    samples = []
    for i in range(n):
        crng = random.Random(rng.getrandbits(64))
        prog = gen.gen_feature_program(crng)
        if i % 3 == 1:
            prog.font = variant_font(crng, prog.nglyphs)
        if i % 6 == 2:
            # the highest name id of the input font is exactly 256 (255 / 257): the first free id for labels is the next one
            top = crng.choice([256, 256, 255, 257])
            prog.font = ttf.simple_font(prog.nglyphs, names=ttf.default_names("Verif", extra={top: "Stylistic Set 1"}))[0]
        if i % 6 == 4:
            # a symbol font: its Microsoft name records are under encoding 0 (3,0), with or without Macintosh records; labels
            # go there, and are found there again on recompilation
            plats = [(3, 0, 1033)] if (i // 6) % 2 == 0 else [(1, 0, 0), (3, 0, 1033)]
            prog.font = ttf.simple_font(prog.nglyphs, names=ttf.default_names("Verif", platforms=tuple(plats)), symbol=True)[0]
        nstart = None
        opts = []
        if i % 4 == 3:
            nstart = crng.choice([256, 300, 1000, 20000])
            opts = ["-n%d" % nstart]
            prog.name_start = nstart
        name = "c%04d" % i
        r = harness.compile_cases(build, work, [(name, prog)], extra_args=opts)[0]
        if r["rc"] != 0:
            stats["rejected"] += 1
            if stats["rejected"] <= 2:
                samples.append({"rejected": name, "err": [l for l in r["err"].split("\n") if "error" in l][:3]})
            continue
        d = r["dir"]
        load, res = drive16(d, "in.ttf", "out.ttf")
        stats["fonts"] += 1
        bad = [l for l in res if not l.startswith("ok ")] + [l for l in load if not l.startswith("ok")]
        for l in res:
            if l.startswith("ok "):
                distinct.add(l)
        # recompilation: labels reused, nothing added
        rc2, _, _ = common.run_grc(build, d, ["-q"] + opts + ["p.gdl", "out.ttf", "out2.ttf"])
        if rc2 != 0:
            bad.append("recompiling the output failed")
        else:
            load2, res2 = drive16(d, "out.ttf", "out2.ttf")
            stats["fonts"] += 1
            bad += ["(generation 2) " + l for l in res2 if not l.startswith("ok ")]
            for l in res2:
                if l.startswith("ok ") and "newNameRecords=0" not in l:
                    bad.append("(generation 2) labels were not reused: " + l)
            t1, _ = ttf.parse(open(os.path.join(d, "out.ttf"), "rb").read())
            t2, _ = ttf.parse(open(os.path.join(d, "out2.ttf"), "rb").read())
            if t1.get(b"Feat") != t2.get(b"Feat"):
                bad.append("(generation 2) Feat table differs from generation 1 (label ids not reused)")
        # recompilation with some labels reworded: every label must resolve to the string declared NOW
        labs = [(f, l) for f in prog.features for l in f["labels"]] + [(st, l) for f in prog.features for st in f["settings"] for l in st["labels"]]
        if rc2 == 0 and labs and i % 2 == 0:
            import copy
            prog3 = copy.deepcopy(prog)
            labs3 = [l for f in prog3.features for l in f["labels"]] + [l for f in prog3.features for st in f["settings"] for l in st["labels"]]
            mode = crng.choice(["english", "other", "any"])
            cand = [l for l in labs3 if (mode == "any" or (l[0] == 1033) == (mode == "english"))] or labs3
            changed = []
            for l in crng.sample(cand, crng.randint(1, min(3, len(cand)))):
                new = l[1] + " reworded"
                prog3.feature_text = prog3.feature_text.replace('string("%s")' % l[1], 'string("%s")' % new)
                changed.append([l[0], l[1], new])
                l[1] = new
            prog3.font = open(os.path.join(d, "out.ttf"), "rb").read()
            r3 = harness.compile_cases(build, work, [(name + "_rw", prog3)], extra_args=opts)[0]
            stats["reworded_" + mode] += 1
            if r3["rc"] != 0:
                bad.append("(reworded labels %s) recompiling failed" % changed)
            else:
                load3, res3 = drive16(r3["dir"], "in.ttf", "out.ttf")
                stats["fonts"] += 1
                b3 = ["(recompiled with labels reworded: %s) %s" % (changed, l) for l in res3 if not l.startswith("ok ")]
                if b3:
                    shutil.copy(os.path.join(r3["dir"], "p.gdl"), os.path.join(d, "reworded.gdl"))
                    shutil.copy(os.path.join(r3["dir"], "p.ir.json"), os.path.join(d, "reworded.ir.json"))
                    shutil.copy(os.path.join(r3["dir"], "out.ttf"), os.path.join(d, "reworded_out.ttf"))
                bad += b3
            shutil.rmtree(r3["dir"], ignore_errors=True)
        # known finding: labels that have no English (1033) form are not recognised on recompilation
        no_eng = any(not any(l[0] == 1033 for l in f["labels"]) for f in prog.features) or \
            any(not any(l[0] == 1033 for l in st["labels"]) for f in prog.features for st in f["settings"])
        if no_eng:
            reuse = [b for b in bad if b.startswith("(generation 2) labels were not reused") or b.startswith("(generation 2) Feat table differs")]
            if reuse:
                rep.violation(name + "-reuse", {"case": name, "lines": reuse, "feature_table": prog.feature_text}, signature=NOENG_SIG)
                bad = [b for b in bad if b not in reuse]
        if bad:
            dd = harness.save_case(rep, r, name, extra_files=("out2.ttf", "reworded.gdl", "reworded.ir.json", "reworded_out.ttf"))
            rep.violation(name, {"case": name, "options": opts, "checker_lines": bad[:12], "feature_table": prog.feature_text,
                                 "rerun": "cd %s && printf 'infont in.ttf\\nfont out.ttf\\nir p.ir.json\\nc16\\n' | %s" % (dd, common.grcv_path())})
        if len(samples) < 3:
            samples.append({"case": name, "feature_table": prog.feature_text, "c16": res})
        shutil.rmtree(d, ignore_errors=True)
    # fixed programs compiled three times in a chain: the name table must stop growing after the first generation
    CHAIN = {
        "negative_setting_value": 'table(feature) f1 { id = 100; name.1033 = string("Feat"); settings { a { value = -1; name.1033 = string("MinusOne") } b { value = 0; name.1033 = string("Zero") } } default = b; } endtable;\n',
        "setting_value_65535": 'table(feature) f1 { id = 100; name.1033 = string("Feat"); settings { a { value = 65535; name.1033 = string("Top") } b { value = 0; name.1033 = string("Zero") } } default = b; } endtable;\n',
        "feature_without_settings": 'table(feature) f1 { id = 100; name.1033 = string("Alone"); } f2 { id = 101; name.1033 = string("Second"); name.1036 = string("Deuxieme"); } endtable;\n',
    }
    for cname, ftext in sorted(CHAIN.items()):
        for plats in (((1, 0, 0), (3, 1, 1033)), ((3, 1, 1033),), ((3, 0, 1033),)):
            d = os.path.join(work, "chain_%s_%d" % (cname, len(plats) * 10 + plats[-1][1]))
            os.makedirs(d)
            shutil.copy(common.STDDEF, d)
            open(os.path.join(d, "in.ttf"), "wb").write(ttf.simple_font(20, names=ttf.default_names("Verif", platforms=plats), symbol=(plats[-1][1] == 0))[0])
            open(os.path.join(d, "p.gdl"), "w").write('#include "stddef.gdh"\n' + ftext + 'table(glyph) cA = glyphid(3); cB = glyphid(4); endtable;\ntable(sub) cA > cB; endtable;\n')
            counts = []
            src = "in.ttf"
            for g in (1, 2, 3):
                rcg, _, _ = common.run_grc(build, d, ["-q", "p.gdl", src, "g%d.ttf" % g])
                if rcg != 0:
                    counts.append(None)
                    break
                tg, _ = ttf.parse(open(os.path.join(d, "g%d.ttf" % g), "rb").read())
                counts.append(len(ttf.parse_name(tg[b"name"])))
                src = "g%d.ttf" % g
            stats["chains"] += 1
            if None in counts:
                rep.violation("chain-%s-%s" % (cname, plats[-1][1]), {"program": cname, "name_platforms": plats, "problem": "a generation of the chain is refused", "name_records_per_generation": counts})
            elif len(set(counts)) != 1:
                dd = os.path.join(rep.replay_dir, "C16-%s-chain-%s-%d" % (seed, cname, len(plats) * 10 + plats[-1][1]))
                shutil.rmtree(dd, ignore_errors=True)
                shutil.copytree(d, dd)
                rep.violation("chain-%s-%d" % (cname, len(plats) * 10 + plats[-1][1]), {"program": cname, "name_platforms": plats, "name_records_per_generation": counts,
                                                                   "meaning": "compiling the compiler's own output with the same program adds name records again: labels already in the font are not reused",
                                                                   "rerun": "cd %s && grcompiler -q p.gdl in.ttf g1.ttf && grcompiler -q p.gdl g1.ttf g2.ttf" % dd})
            shutil.rmtree(d, ignore_errors=True)
    rep.coverage.update({
        "recompilation_chains_of_fixed_programs": stats["chains"],
        "programs": n, "fonts_checked": stats["fonts"], "rejected": stats["rejected"],
        "traces_validated_against_impl": stats["fonts"], "disagreements_checked": len(rep.violations),
        "evaluations": stats["fonts"], "distinct_nontrivial": len(distinct),
        "rule": "generated feature tables (1-6 features, numeric / 4-char ids, hidden alternate ids, 0-3 label languages, 0-4 settings with default) and language tables, over input fonts with different name tables and -n values, each also recompiled from its own output, and every second one recompiled once more with 1-3 labels reworded (English only / other languages only / any); distinct = distinct checker summaries",
        "samples": samples, "exhaustive": False,
    })
    rep.assumptions += ["order of the non-default settings is not fixed by the property (the compiler sorts by value)", "Macintosh-platform records are not examined (the property names the Unicode and Microsoft platforms)"]
    if stats["rejected"] > n // 2:
        rep.violation("generator", {"broken": "most feature programs rejected"}, no_failing_input=True)
    shutil.rmtree(work, ignore_errors=True)
    return rep.finish()
