"""C17 Glyph references resolve through the font; pseudo-glyphs are allocated safely.

Deciding method: Lean theorems Grc.Cm.alloc_pseudo_range / alloc_above_real / alloc_pseudo_ids_distinct (every
pseudo-glyph id lies strictly between the line-break glyph -- the first id above all real glyphs -- and the phantom
glyph, ids are pairwise distinct, the id count covers them all) over the allocation model. Tie: the Lean driver reads
the INPUT font itself (cmap formats 4/12, symbol subtable, post names, maxp), resolves every glyphid()/unicode()/U+/
range/postscript() reference of the generated program, installs the resulting classes and then (a) certifies the FSM
of the real output against exactly those memberships (C02 theorem), (b) checks the substitution data (C04), and
(c) compares lbGID, maxGlyphID, the Unicode-to-pseudo map (sorted, duplicate-free) and the actualForPseudo attribute.
Missing glyphs must be diagnosed (4109/4110), or skipped under -g, never mapped to another glyph.
"""
import collections
import os
import shutil

import common
import gen
import harness

THEOREMS = ["Grc.Cm.alloc_pseudo_range", "Grc.Cm.alloc_above_real", "Grc.Cm.alloc_pseudo_ids_distinct", "Grc.Fsm.checkCert_correct",
            # the compiler's own cmap searches, transcribed, equal the format's definition (all code points, all sizes)
            "Grc.Cm.bsearch_spec", "Grc.Cm.lookup31_eq_lookup", "Grc.Cm.lookup310_eq_lookup",
            # the collision scan of GrcFont::ScanGlyfIds, transcribed: exactly the code points sharing a glyph, each once
            "Grc.Cm.mem_collScan_iff", "Grc.Cm.collScan_nodup", "Grc.Cm.mem_collisions_iff", "Grc.Cm.collisions_nodup",
            # T1: the transcribed functions still have the text the transcription was made from
            "Grc.CmapGen.cmap31_text_as_modelled", "Grc.CmapGen.cmap310_text_as_modelled",
            "Grc.CmapGen.glyph_from_cmap_text_as_modelled"]


def drive17(cases):
    lines = []
    for r in cases:
        lines += ["infont %s/in.ttf" % r["dir"], "font %s/out.ttf" % r["dir"], "ir %s/p.ir.json" % r["dir"], "c17", "c02", "c04"]
    outs = common.run_grcv(lines) if lines else []
    res, group, cur, load = [], [], [], []
    for l in outs:
        if l == "done":
            group.append(cur)
            cur = []
            if len(group) == 3:
                res.append((load, group))
                group, load = [], []
        elif l.startswith("ok infont") or l.startswith("ok font") or l.startswith("ok ir") or l.startswith("error io") or l.startswith("error sfnt"):
            load.append(l)
        else:
            cur.append(l)
    return res


def run(tier, seed, replay=None):
    rep = common.Report("C17", tier, seed)
    common.lean_gate(rep, THEOREMS, uses_cmap=True)
    build = common.build_repo("rel")
    work = common.new_workdir("c17")
    n = 120 if tier == "quick" else 1200
    cases = harness.gen_cases(seed, 17, n, lambda rng, i: gen.gen_ref_program(rng))
    results = harness.compile_cases(build, work, cases)
    acc, rej = harness.split_accepted(results)
    stats = collections.Counter()
    distinct = set()
    samples = []
    for r, (load, grp) in zip(acc, drive17(acc)):
        fl = [l for g in grp for l in g if not (l.startswith("ok") or " ok " in l)] + [l for l in load if not l.startswith("ok")]
        stats["fonts"] += 1
        for l in grp[0]:
            if l.startswith("ok "):
                distinct.add(l)
                f = dict(x.split("=") for x in l.split(" ")[1:])
                stats["pseudos"] += int(f["pseudos"])
                stats["fonts_meeting_cmap_search_hypothesis" if f.get("cmapEndCodesAscending") == "true" else "fonts_with_unsorted_end_codes"] += 1
                stats["fonts_meeting_collision_scan_hypothesis" if f.get("u0000Unmapped") == "true" else "fonts_mapping_u0000"] += 1
        if fl:
            d = harness.save_case(rep, r, r["name"])
            rep.violation(r["name"], {"case": r["name"], "checker_lines": fl[:10], "gdl": r["prog"].gdl(),
                                      "meaning": "a glyph reference of p.gdl resolves, through in.ttf's own cmap/post/maxp, to other glyphs than the class data / FSM / pseudo map of out.ttf contain",
                                      "rerun": "cd %s && printf 'infont in.ttf\\nfont out.ttf\\nir p.ir.json\\nc17\\nc02\\nc04\\n' | %s" % (d, common.grcv_path())})
        if len(samples) < 2:
            samples.append({"case": r["name"], "gdl": r["prog"].gdl(), "c17": grp[0]})
    # accepted programs must not have been accepted with a missing glyph (the generator's ranges can run off the font):
    for r in rej:
        ids = harness.error_ids([r])
        stats["rejected_" + "+".join(sorted(ids))] += 1
    # missing glyphs: diagnosed without -g, skipped with -g
    mcases = harness.gen_cases(seed, 1717, 12 if tier == "quick" else 80, lambda rng, i: gen.gen_ref_program(rng, missing=True))
    for name, prog in mcases:
        r = harness.compile_cases(build, work, [("m" + name, prog)])[0]
        stats["missing_cases"] += 1
        if r["rc"] == 0 or os.path.exists(os.path.join(r["dir"], "out.ttf")) or "error(4109)" not in r["err"]:
            d = harness.save_case(rep, r, "m" + name)
            rep.violation("m" + name, {"gdl": prog.gdl(), "exit": r["rc"], "errors": [l for l in r["err"].split("\n") if "error" in l][:4],
                                       "meaning": "a class refers to U+2345, which the font does not map, yet no 'not present in cmap' error / a font was produced"})
        prog.ignore_bad = True
        r2 = harness.compile_cases(build, work, [("g" + name, prog)], extra_args=["-g"])[0]
        if r2["rc"] != 0:
            ids = harness.error_ids([r2])
            if set(ids) - {"3148"}:
                d = harness.save_case(rep, r2, "g" + name)
                rep.violation("g" + name, {"gdl": prog.gdl(), "exit": r2["rc"], "errors": [l for l in r2["err"].split("\n") if "error" in l][:4],
                                           "log": r2["log"][-300:], "meaning": "-g should skip the unmapped U+2345 and compile"})
            continue
        (load, grp), = drive17([r2])
        stats["fonts"] += 1
        fl = [l for g in grp for l in g if not (l.startswith("ok") or " ok " in l)]
        if fl:
            d = harness.save_case(rep, r2, "g" + name)
            rep.violation("g" + name, {"case": "g" + name, "checker_lines": fl[:10], "gdl": prog.gdl(),
                                       "meaning": "under -g the unmapped code point must simply be absent from the class; the font's data differ"})
    # witness of a known finding: under -g a pseudo-glyph whose real glyph the font lacks must not record a glyph the font
    # does not have
    import json as _json
    import ttf as _ttf
    wprog = gen.Prog()
    wprog.nglyphs = 20
    wprog.font, _g, wprog.cmap = _ttf.simple_font(20)
    wprog.raw_gdl = ('#include "stddef.gdh"\ntable(glyph) cP = pseudo(unicode(0x4E00), 0xE000); cA = glyphid(3..6); cB = glyphid(7..10); endtable;\n'
                     'table(sub) cA > cB; cP > cA; endtable;\n')
    rw = harness.compile_cases(build, work, [("pseudo_missing_g", wprog)], extra_args=["-g"])[0]
    if rw["rc"] == 0:
        ow = common.run_grcv(["font %s/out.ttf" % rw["dir"], "dump silf", "dump glat"])
        try:
            sw, gw = _json.loads(ow[1]), _json.loads(ow[2])
            badp = [(c, g, v) for c, g in sw["pseudoMap"] for a, v in gw["glat"]["glyphs"][g]["attrs"] if a == sw["attrPseudo"] and (v < 0 or v >= 20)]
        except (ValueError, KeyError, IndexError):
            badp = []
        if badp:
            rep.violation("pseudo_missing_g", {"gdl": wprog.raw_gdl, "options": ["-g"], "pseudo_map_entries_with_a_real_glyph_the_font_lacks": badp},
                          signature="C17:pseudo-of-a-missing-glyph-under-g-records-the-bad-glyph-placeholder")
    # under -g a missing glyph is skipped wherever the class is used - also where a glyph attribute expression takes a
    # metric of "the class" (its first glyph): the first glyph the font HAS. Missing member first, in the middle, last.
    def _metrics(i):
        w = 300 + 10 * (i % 17)
        return {"advancewidth": w + 50, "bb.right": 20 + w, "bb.top": 400 + 13 * (i % 11)}
    for mpos, members in (("first", ["0x4E00", "0x6B", "0x68"]), ("middle", ["0x6B", "0x4E00", "0x68"]), ("last", ["0x6B", "0x68", "0x4E00"]),
                          ("first_two", ["0x4E00", "0x4E01", "0x68", "0x6B"])):
        for metric in ("advancewidth", "bb.right", "bb.top"):
            mprog = gen.Prog()
            mprog.nglyphs = 20
            mprog.font, _g, mprog.cmap = _ttf.simple_font(20)
            mprog.raw_gdl = ('#include "stddef.gdh"\ntable(glyph) cX = unicode(%s); cY = glyphid(5) {wx = cX.%s}; cA = glyphid(3..6); cB = glyphid(7..10); endtable;\n'
                             'table(sub) cA > cB; endtable;\n' % (", ".join(members), metric))
            nm = "metric_of_class_with_missing_%s_%s" % (mpos, metric.replace(".", ""))
            rm = harness.compile_cases(build, work, [(nm, mprog)], extra_args=["-g"])[0]
            stats["class_metric_programs"] += 1
            first_present = int([m for m in members if not m.startswith("0x4E")][0], 16) - 0x61 + 2
            want = _metrics(first_present)[metric]
            if rm["rc"] not in (0, 1):
                harness.save_case(rep, rm, nm)
                rep.violation(nm, {"gdl": mprog.raw_gdl, "options": ["-g"], "problem": "the compiler ended with status %s" % rm["rc"]})
            elif rm["rc"] == 0:
                om = common.run_grcv(["font %s/out.ttf" % rm["dir"], "dump glat"])
                gm = [_json.loads(l) for l in om if l.startswith("{")][0]
                vals = [v for a, v in gm["glat"]["glyphs"][5]["attrs"]]
                if want not in vals:
                    harness.save_case(rep, rm, nm)
                    rep.violation(nm, {"gdl": mprog.raw_gdl, "options": ["-g"], "attribute_values_of_glyph_5": vals, "value_denoted": want,
                                       "meaning": "cX.%s is the %s of the first glyph of cX that the font has (glyph %d); the missing member is skipped under -g" % (metric, metric, first_present)})
            else:
                harness.save_case(rep, rm, nm)
                rep.violation(nm, {"gdl": mprog.raw_gdl, "options": ["-g"], "errors": [l for l in rm["err"].split("\n") if "error(" in l][:3],
                                   "meaning": "under -g the missing member of cX is skipped (a warning); the program was refused instead"})
            shutil.rmtree(rm["dir"], ignore_errors=True)
    rep.coverage.update({
        "programs": len(results) + 2 * len(mcases), "class_metric_programs_under_g": stats["class_metric_programs"], "programs_accepted": len(acc), "programs_rejected": len(rej),
        "rejected_error_ids": harness.error_ids(rej), "pseudo_glyphs_checked": stats["pseudos"],
        "fonts_meeting_cmap_search_hypothesis": stats["fonts_meeting_cmap_search_hypothesis"],
        "fonts_with_unsorted_end_codes": stats["fonts_with_unsorted_end_codes"],
        "fonts_meeting_collision_scan_hypothesis": stats["fonts_meeting_collision_scan_hypothesis"], "fonts_mapping_u0000": stats["fonts_mapping_u0000"],
        "traces_validated_against_impl": stats["fonts"], "disagreements_checked": len(rep.violations),
        "evaluations": stats["fonts"], "distinct_nontrivial": len(distinct),
        "rule": "fonts with cmap 4 / 4+12 (supplementary plane) / symbol (3,0), 1-4 code points sharing a glyph, post format 2 names; classes written with unicode(), U+, ranges, glyphid(), postscript(); AutoPseudo on/off; plus an unmapped code point with and without -g; distinct = distinct (realGlyphs, pseudos, lb, phantom, classes) summaries",
        "samples": samples, "exhaustive": False,
    })
    rep.assumptions += ["unicode(U) denotes the auto-pseudo of U when U shares its glyph with another code point and AutoPseudo is on (GDL semantics), else cmap(U)",
                        "explicit pseudo() definitions, codepoint() with code pages other than ASCII, and post formats 1/3 are not generated"]
    harness.generator_health(rep, results, acc, rej, min_frac=0.4)
    shutil.rmtree(work, ignore_errors=True)
    return rep.finish()
