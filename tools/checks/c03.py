"""C03 Every successfully written font is well-formed and self-consistent.

Deciding method: strict Lean decoders for sfnt/Silf/Gloc/Glat/Feat/Sill/name (every offset, count, search header and
cross reference checked; nothing defaulted) + Lean theorem Grc.Code.check_sound (code accepted by the checker, run from
an empty stack under ANY outcome of the context-item tests, never underflows, never meets an unknown opcode or a
truncated operand, and ends in a return), with the opcode numbering regenerated from constants.h on every run.
Applied to the real output of generated programs over the option matrix; libgraphite2 must also accept each font.
"""
import collections
import random
import os
import shutil

import common
import gen
import gr2
import harness

THEOREMS = ["Grc.Code.check_sound",
            "Grc.Wr.binarySearchConstants_spec", "Grc.Wr.binarySearchConstants_eq_searchConsts", "Grc.Wr.beU16_write16", "Grc.Wr.beU32_write32",
            "Grc.WritersGen.search_constants_text_as_modelled", "Grc.WritersGen.write16_text_as_modelled", "Grc.WritersGen.write32_text_as_modelled",
            "Grc.WritersGen.write_members_as_modelled"]

OPTS_QUICK = [[], ["-v2"], ["-v3"], ["-v4"], ["-v5"], ["-c"], ["-p"], ["-offsets"], ["-g"], ["-n300"], ["-v3", "-p"], ["-c", "-p"]]


def run(tier, seed, replay=None):
    rep = common.Report("C03", tier, seed)
    common.lean_gate(rep, THEOREMS, uses_tables=True, uses_writers=True)
    build = common.build_repo("rel")
    work = common.new_workdir("c03")
    n = 60 if tier == "quick" else 400

    def g(rng, i):
        return gen.gen_class_program(rng) if i % 2 else gen.gen_match_program(rng, size="small" if i % 3 else "medium")
    cases = harness.gen_cases(seed, 3, n, g)
    stats = collections.Counter()
    optstats = collections.Counter()
    distinct = set()
    samples = []
    total = 0
    rejected = 0
    for i, (name, prog) in enumerate(cases):
        optsets = OPTS_QUICK if tier == "thorough" else [OPTS_QUICK[(i + k * 5) % len(OPTS_QUICK)] for k in range(3)]
        for oi, opts in enumerate(optsets):
            nm = "%s_o%d" % (name, oi)
            res = harness.compile_cases(build, work, [(nm, prog)], extra_args=opts)
            total += 1
            r = res[0]
            if r["rc"] != 0 or not os.path.exists(os.path.join(r["dir"], "out.ttf")):
                rejected += 1
                stats["rejected"] += 1
                shutil.rmtree(r["dir"], ignore_errors=True)
                continue
            o = harness.drive([r], ["c03"])[0]
            optstats[" ".join(opts) or "(default)"] += 1
            bad = [l for l in o["c03"] if not l.startswith("ok ")] + [l for l in o["load"] if not l.startswith("ok")]
            for l in o["c03"]:
                if l.startswith("ok "):
                    distinct.add(l)
            # reference engine acceptance
            f = gr2.Face(os.path.join(r["dir"], "out.ttf"))
            engine_ok = f.ok()
            if engine_ok:
                seg = f.shape([0x61, 0x62, 0x63])
                engine_ok = seg is not None
            f.close()
            if not engine_ok:
                bad.append("libgraphite2 rejects the font (gr_make_file_face/gr_make_seg failed)")
            if not bad and oi == 0 and i % 4 == 0:
                # the output compiled once more as the input font (it then holds Graphite tables that are replaced): the
                # result must be as well-formed and as acceptable to the engine as the first one
                rc2, log2, _w2 = common.run_grc(build, r["dir"], ["-q"] + list(opts) + ["p.gdl", "out.ttf", "out2.ttf"])
                stats["recompilations"] += 1
                if rc2 != 0 or not os.path.exists(os.path.join(r["dir"], "out2.ttf")):
                    bad.append("recompiling the output as input font failed with status %s" % rc2)
                else:
                    o2 = common.run_grcv(["font %s/out2.ttf" % r["dir"], "c03"])
                    bad += ["recompiled: " + l for l in o2 if l and l != "done" and not l.startswith("ok ")]
                    f2 = gr2.Face(os.path.join(r["dir"], "out2.ttf"))
                    if not (f2.ok() and f2.shape([0x61, 0x62, 0x63]) is not None):
                        bad.append("recompiled: libgraphite2 rejects the font")
                    f2.close()
            if bad:
                d = harness.save_case(rep, r, nm)
                sig = None
                if bad == ["libgraphite2 rejects the font (gr_make_file_face/gr_make_seg failed)"] and gen.has_precontext_only_rule(prog):
                    # the recorded finding, met by a generated program (two insertions after the only input items)
                    sig = "C03:engine-rejects-rule-whose-input-items-all-precede-the-first-modified-item"
                rep.violation(nm, {"case": nm, "options": opts, "checker_lines": bad,
                                   "meaning": "out.ttf written with exit status 0 is not well-formed at the named table/offset/code block",
                                   "rerun": "cd %s && printf 'font out.ttf\\nc03\\n' | %s" % (d, common.grcv_path())}, signature=sig)
            stats["fonts_checked"] += 1
            if len(samples) < 3:
                samples.append({"case": nm, "options": opts, "c03": o["c03"]})
            shutil.rmtree(r["dir"], ignore_errors=True)
    # hand-written programs for constructs the generators do not produce (collision passes with and without rules,
    # justification, line-break table, attachment, ligature components, features/languages, pass-level directives)
    import fuzz11
    import ttf as _ttf
    rich = dict(fuzz11.SEEDS)
    H = fuzz11.H
    GL = "table(glyph) cA = glyphid(3..6) {collision.flags = 1}; cB = glyphid(7..10); endtable;\n"
    rich["collide_norules"] = H + GL + "table(pos) pass(1) cA {shift.x = 5m}; endpass; pass(2) {CollisionFix = 3} endpass; endtable;\n"
    rich["collide_only"] = H + GL + "table(pos) pass(1) {CollisionFix = 2} endpass; endtable;\n"
    rich["collide_two"] = H + GL + "table(sub) cA > cB; endtable;\ntable(pos) pass(1) {CollisionFix = 1} endpass; pass(2) {CollisionFix = 2; AutoKern = 1} cA {collision.flags = 3} cB; endpass; pass(3) cB {shift.y = 3m}; endpass; endtable;\n"
    rich["sparse_passes"] = H + GL + "table(sub) pass(2) cA > cB; endpass; pass(5) cB > cA / cA _; endpass; endtable;\ntable(pos) pass(3) cA {kern.x = 4m} cB; endpass; endtable;\n"
    # glyph metrics inside attachment points (PushAttToGlyphMetric for `at`, PushGlyphMetric for `with`), point() attributes,
    # attachment with explicit coordinates, and metrics of another slot in an attribute value
    rich["attach_at_metrics"] = H + GL + ("table(pos) cA cB {attach {to = @1; at {x = advancewidth / 2; y = ascent}; with {x = bb.width / 2; y = 0m}}} / _ ^ _;\n"
                                         "cB cA {attach {to = @1; at {x = bb.right; y = bb.top + ascent}; with {x = bb.left; y = bb.bottom}}; shift.x = @1.advancewidth / 4} / _ _; endtable;\n")
    # the `descent` metric (known finding: libgraphite2 1.3.14 refuses metric 11 wherever it is used)
    rich["descent_metric"] = H + GL + "table(pos) cB cA {shift.y = descent} / _ _; endtable;\n"
    # automatic kerning without any collision-fixing pass (known finding: the engine refuses the font)
    rich["autokern_without_collisionfix"] = H + GL + "table(pos) pass(1) {AutoKern = 1} cA {shift.y = 5m}; endpass; endtable;\n"
    rich["attach_at_metrics_nowith"] = H + GL + "table(pos) cA cB {attach {to = @1; at {x = advancewidth; y = bb.height / 2}}} / _ ^ _; endtable;\n"
    rich["lb_items_pos"] = H + GL + "table(pos) cA {shift.x = 5m} / _ # cB; cB {advance.x += 3m} / cA # _; endtable;\n"
    rich["lb_items"] = H + GL + "table(sub) cA > cB / # _; cB > cA / _ #; cA cB > cB cA / # _ _ #; endtable;\n"
    rich["justification_pass"] = H + "table(glyph) cA = glyphid(3..6) {justify.0.stretch = 100m; justify.0.weight = 2}; cK = glyphid(7); cB = glyphid(8); endtable;\ntable(sub) cA > cB; endtable;\ntable(justification) cA _ > @1 cK:1; endtable;\ntable(pos) cB {advance.x += 5m}; endtable;\n"
    rich["features_hidden_ids"] = (H + GL + 'table(feature) fa { id = 2000; id.hidden = "smcp"; name.1033 = string("A"); default = 0; settings { x0 { value = 0; name.1033 = string("x0"); } '
                                   'x1 { value = 1; name.1033 = string("x1"); } x2 { value = 2; name.1033 = string("x2"); } x4 { value = 4; name.1033 = string("x4"); } } }\n'
                                   'fb { id = "capb"; name.1033 = string("B"); default = 1; settings { n { value = 0; name.1033 = string("n"); } y { value = 1; name.1033 = string("y"); } } }\n'
                                   'fc { id = 2001; id.hidden = 2002; id.hidden = "cv01"; name.1033 = string("C"); default = 0; settings { c0 { value = 0; name.1033 = string("c0"); } c1 { value = 3; name.1033 = string("c1"); } } } endtable;\n'
                                   'table(language) l1 { languages = ("en"); fa = x2; }; endtable;\ntable(sub) if (fa == x1) cA > cB; endif; cB > cA / cA _; endtable;\n')
    rich["g_two_missing_in_context"] = H + 'table(glyph) cX = (unicode(0x4E00), unicode(0x4E01), codepoint("a")); cA = glyphid(3..6); cB = glyphid(7..10); endtable;\ntable(sub) cA > cB / cX _; endtable;\n'
    rich["g_missing_in_subst"] = H + "table(glyph) cA = unicode(0x61, 0x1234, 0x62); cB = glyphid(7..9); endtable;\ntable(sub) cA > cB; endtable;\n"
    rfont = _ttf.simple_font(40, post_names=[".notdef"] + ["g%d" % i for i in range(1, 40)])[0]
    # octabox records with sub-boxes (Glat 3: bitmap + one 8-byte record per occupied cell, then the attribute runs): fonts
    # with polygons, L shapes, two-contour and composite glyphs, a random subset marked collision.complexFit
    import importlib.util as _ilu
    _spec = _ilu.spec_from_file_location("c20_fonts", os.path.join(os.path.dirname(os.path.abspath(__file__)), "c20.py"))
    _c20 = _ilu.module_from_spec(_spec)
    _spec.loader.exec_module(_c20)
    rich_fonts = {}
    for k in range(2 if tier == "quick" else 10):
        frng = random.Random(seed * 131 + k)
        rich_fonts["collide_complexfit_%d" % k] = _c20.gen_font(frng, 30)[0]
        cx = sorted(frng.sample(range(2, 30), frng.randint(6, 20)))
        rich["collide_complexfit_%d" % k] = (H + "table(glyph) cA = glyphid(%s) {collision.complexFit = 1; collision.flags = 1}; cB = glyphid(%s) {collision.margin = 10m}; endtable;\n"
                                             "table(sub) cA > cA {user1 = 1}; endtable;\ntable(pos) pass(1) {CollisionFix = %d} cA {collision.flags = 3} cB; endpass; endtable;\n"
                                             % (", ".join(map(str, cx)), ", ".join(str(g) for g in range(2, 30) if g not in cx), frng.choice([1, 2, 3])))
    for rname in sorted(rich):
        prog = gen.Prog()
        prog.nglyphs = 40
        prog.font = rich_fonts.get(rname, rfont)
        prog.raw_gdl = rich[rname]
        for oi, opts in enumerate(OPTS_QUICK if tier == "thorough" else [[], ["-v5", "-c"], ["-v3", "-p"], ["-offsets"], ["-v2"]]):
            nm = "rich_%s_o%d" % (rname, oi)
            if rname.startswith("g_"):
                opts = ["-g"] + opts     # invalid glyph references are tolerated and dropped
            r = harness.compile_cases(build, work, [(nm, prog)], extra_args=opts)[0]
            total += 1
            if r["rc"] != 0 or not os.path.exists(os.path.join(r["dir"], "out.ttf")):
                stats["rich_rejected"] += 1
                shutil.rmtree(r["dir"], ignore_errors=True)
                continue
            o = harness.drive([r], ["c03"])[0]
            bad = [l for l in o["c03"] if not l.startswith("ok ")] + [l for l in o["load"][:1] if not l.startswith("ok")]
            f = gr2.Face(os.path.join(r["dir"], "out.ttf"))
            # (several texts: a rule's code runs only when the rule fires)
            engine_ok = f.ok() and all(f.shape(t) is not None for t in ([0x61, 0x62, 0x63], [0x62, 0x66], [0x66, 0x62], [0x62, 0x66, 0x62, 0x66],
                                                                         list(range(0x61, 0x7B)), list(range(0x7A, 0x60, -1))))
            f.close()
            if not engine_ok:
                bad.append("libgraphite2 rejects the font (gr_make_file_face/gr_make_seg failed)")
            if bad:
                d = harness.save_case(rep, r, nm)
                sig = None
                if rname == "justification_pass" and bad == ["libgraphite2 rejects the font (gr_make_file_face/gr_make_seg failed)"]:
                    sig = "C03:font-with-a-justification-pass-rejected-by-libgraphite2"
                if rname == "autokern_without_collisionfix" and bad == ["libgraphite2 rejects the font (gr_make_file_face/gr_make_seg failed)"]:
                    sig = "C03:font-with-autokern-but-no-collisionfix-pass-rejected-by-libgraphite2"
                if rname == "descent_metric" and bad == ["libgraphite2 rejects the font (gr_make_file_face/gr_make_seg failed)"]:
                    sig = "C03:font-using-the-descent-glyph-metric-rejected-by-libgraphite2"
                rep.violation(nm, {"case": nm, "options": opts, "checker_lines": bad, "gdl": rich[rname],
                                   "meaning": "out.ttf written with exit status 0 is not well-formed at the named table/offset/code block",
                                   "rerun": "cd %s && printf 'font out.ttf\\nc03\\n' | %s" % (d, common.grcv_path())}, signature=sig)
            stats["rich_fonts_checked"] += 1
            shutil.rmtree(r["dir"], ignore_errors=True)
    # corpus: recorded witnesses of known findings (must keep reproducing to stay listed; a fixed tree simply passes)
    for wname, rule, sig in [
        ("kf_precontext_only", "_ > c4:1 / c1 _;", "C03:engine-rejects-rule-whose-input-items-all-precede-the-first-modified-item"),
        ("kf_64_items", " ".join(["c1"] * 64) + " > " + " ".join(["c1"] * 63) + " c4;", "C03:engine-rejects-rule-with-64-items"),
    ]:
        prog = gen.Prog()
        prog.nglyphs = 20
        prog.font, _g, prog.cmap = __import__("ttf").simple_font(20)
        prog.raw_gdl = ('#include "stddef.gdh"\ntable(glyph) c1 = glyphid(3..6); c4 = glyphid(7); endtable;\n'
                        'table(sub) pass(1) %s endpass; endtable;\n' % rule)
        res = harness.compile_cases(build, work, [(wname, prog)])[0]
        if res["rc"] == 0 and os.path.exists(os.path.join(res["dir"], "out.ttf")):
            f = gr2.Face(os.path.join(res["dir"], "out.ttf"))
            okf = f.ok()
            f.close()
            stats["corpus_cases"] += 1
            if not okf:
                rep.violation(wname, {"gdl": prog.raw_gdl, "meaning": "compiler exits 0 but libgraphite2 rejects the font"}, signature=sig)
    rep.coverage.update({
        "recompilations_checked": stats["recompilations"],
        "programs": len(cases), "fonts_checked": stats["fonts_checked"], "compilations": total, "rejected": rejected,
        "options_distribution": dict(optstats), "handwritten_programs_fonts_checked": stats["rich_fonts_checked"], "handwritten_rejected": stats["rich_rejected"],
        "traces_validated_against_impl": stats["fonts_checked"], "disagreements_checked": len(rep.violations),
        "evaluations": stats["fonts_checked"], "distinct_nontrivial": len(distinct),
        "rule": "generated programs x option sets (-v2..-v5, -c, -p, -offsets, -g, -n); one evaluation = one output font fully decoded by the strict Lean decoders, all code blocks accepted by Code.check with valid references, and accepted by libgraphite2; distinct = distinct decoder summaries",
        "samples": samples, "exhaustive": False,
    })
    rep.assumptions += ["opInfo (operand sizes and stack effects per opcode) follows doc/StackMachineCommands; opcode numbers are regenerated from constants.h",
                        "libgraphite2 1.3.14 is the reference engine"]
    if rejected > 0.5 * total:
        rep.violation("generator", {"broken": "more than half of compilations rejected"}, no_failing_input=True)
    shutil.rmtree(work, ignore_errors=True)
    return rep.finish()
