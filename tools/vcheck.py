#!/usr/bin/env python3
"""Single entry point: python3 tools/vcheck.py <Cnn> [--tier quick|thorough] [--replay path]"""
import argparse
import importlib
import os
import sys

sys.path.insert(0, os.path.dirname(os.path.abspath(__file__)))
import common  # noqa: E402


def main():
    ap = argparse.ArgumentParser()
    ap.add_argument("prop")
    ap.add_argument("--tier", default=os.environ.get("VERIF_TIER", "quick"))
    ap.add_argument("--replay", default=None)
    args = ap.parse_args()
    tier = args.tier if args.tier in ("quick", "thorough") else "quick"
    seed = common.seed_from_env(1)
    mod = importlib.import_module("checks." + args.prop.lower())
    os.makedirs(common.SCRATCH_ROOT, exist_ok=True)
    try:
        rc = mod.run(tier, seed, args.replay)
    finally:
        common.clean_tmp_leaks()
    sys.exit(rc)


if __name__ == "__main__":
    main()
