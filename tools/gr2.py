"""libgraphite2 (reference engine) through ctypes. Runtime library only; prototypes declared by hand."""
import ctypes
import ctypes.util
import os

_LIBPATHS = ["/usr/lib/x86_64-linux-gnu/libgraphite2.so.3", "libgraphite2.so.3"]
_lib = None


def lib():
    global _lib
    if _lib is not None:
        return _lib
    for p in _LIBPATHS:
        try:
            _lib = ctypes.CDLL(p)
            break
        except OSError:
            continue
    if _lib is None:
        raise RuntimeError("libgraphite2 not found")
    L = _lib
    vp = ctypes.c_void_p
    L.gr_make_file_face.restype = vp
    L.gr_make_file_face.argtypes = [ctypes.c_char_p, ctypes.c_uint]
    L.gr_face_destroy.argtypes = [vp]
    L.gr_make_font.restype = vp
    L.gr_make_font.argtypes = [ctypes.c_float, vp]
    L.gr_font_destroy.argtypes = [vp]
    L.gr_face_featureval_for_lang.restype = vp
    L.gr_face_featureval_for_lang.argtypes = [vp, ctypes.c_uint32]
    L.gr_face_find_fref.restype = vp
    L.gr_face_find_fref.argtypes = [vp, ctypes.c_uint32]
    L.gr_face_n_fref.restype = ctypes.c_uint16
    L.gr_face_n_fref.argtypes = [vp]
    L.gr_face_fref.restype = vp
    L.gr_face_fref.argtypes = [vp, ctypes.c_uint16]
    L.gr_fref_id.restype = ctypes.c_uint32
    L.gr_fref_id.argtypes = [vp]
    L.gr_fref_n_values.restype = ctypes.c_uint16
    L.gr_fref_n_values.argtypes = [vp]
    L.gr_fref_value.restype = ctypes.c_int16
    L.gr_fref_value.argtypes = [vp, ctypes.c_uint16]
    L.gr_fref_feature_value.restype = ctypes.c_uint16
    L.gr_fref_feature_value.argtypes = [vp, vp]
    L.gr_fref_set_feature_value.restype = ctypes.c_int
    L.gr_fref_set_feature_value.argtypes = [vp, ctypes.c_uint16, vp]
    L.gr_featureval_destroy.argtypes = [vp]
    L.gr_make_seg.restype = vp
    L.gr_make_seg.argtypes = [vp, vp, ctypes.c_uint32, vp, ctypes.c_int, ctypes.c_void_p, ctypes.c_size_t, ctypes.c_int]
    L.gr_seg_destroy.argtypes = [vp]
    L.gr_seg_first_slot.restype = vp
    L.gr_seg_first_slot.argtypes = [vp]
    L.gr_seg_n_slots.restype = ctypes.c_uint
    L.gr_seg_n_slots.argtypes = [vp]
    L.gr_slot_next_in_segment.restype = vp
    L.gr_slot_next_in_segment.argtypes = [vp]
    L.gr_slot_gid.restype = ctypes.c_uint16
    L.gr_slot_gid.argtypes = [vp]
    L.gr_slot_before.restype = ctypes.c_int
    L.gr_slot_before.argtypes = [vp]
    L.gr_slot_after.restype = ctypes.c_int
    L.gr_slot_after.argtypes = [vp]
    L.gr_slot_origin_X.restype = ctypes.c_float
    L.gr_slot_origin_X.argtypes = [vp]
    L.gr_slot_origin_Y.restype = ctypes.c_float
    L.gr_slot_origin_Y.argtypes = [vp]
    L.gr_slot_advance_X.restype = ctypes.c_float
    L.gr_slot_advance_X.argtypes = [vp, vp, vp]
    L.gr_slot_attr.restype = ctypes.c_int
    L.gr_slot_attr.argtypes = [vp, vp, ctypes.c_int, ctypes.c_uint8]
    L.gr_seg_cinfo.restype = vp
    L.gr_seg_cinfo.argtypes = [vp, ctypes.c_uint]
    L.gr_seg_n_cinfo.restype = ctypes.c_uint
    L.gr_seg_n_cinfo.argtypes = [vp]
    L.gr_cinfo_break_weight.restype = ctypes.c_int
    L.gr_cinfo_break_weight.argtypes = [vp]
    L.gr_slot_attached_to.restype = vp
    L.gr_slot_attached_to.argtypes = [vp]
    L.gr_slot_index.restype = ctypes.c_uint
    L.gr_slot_index.argtypes = [vp]
    L.gr_slot_can_insert_before.restype = ctypes.c_int
    L.gr_slot_can_insert_before.argtypes = [vp]
    L.gr_seg_advance_X.restype = ctypes.c_float
    L.gr_seg_advance_X.argtypes = [vp]
    return L


GR_SLAT_USER = 55  # gr_slatUserDefn in graphite2/Segment.h attrCode enum (1.3.x)


class Face:
    def __init__(self, path, upem=1000.0):
        L = lib()
        self.face = L.gr_make_file_face(path.encode(), 0)
        self.font = None
        if self.face:
            self.font = L.gr_make_font(ctypes.c_float(upem), self.face)

    def ok(self):
        return bool(self.face)

    def close(self):
        L = lib()
        if self.font:
            L.gr_font_destroy(self.font)
        if self.face:
            L.gr_face_destroy(self.face)
        self.font = self.face = None

    def features(self):
        L = lib()
        out = []
        for i in range(L.gr_face_n_fref(self.face)):
            fr = L.gr_face_fref(self.face, i)
            vals = [L.gr_fref_value(fr, j) for j in range(L.gr_fref_n_values(fr))]
            out.append((L.gr_fref_id(fr), vals))
        return out

    def shape(self, text, feats=None, lang=0, user_attrs=0, rtl=False):
        """text: list of code points. Returns list of dicts (gid, before, after, x, y, adv, user[])."""
        L = lib()
        fv = L.gr_face_featureval_for_lang(self.face, lang)
        try:
            for fid, val in (feats or {}).items():
                fr = L.gr_face_find_fref(self.face, fid)
                if fr:
                    L.gr_fref_set_feature_value(fr, val, fv)
            arr = (ctypes.c_uint32 * (len(text) + 1))(*text, 0)
            seg = L.gr_make_seg(self.font, self.face, 0, fv, 4, ctypes.cast(arr, ctypes.c_void_p), len(text), 1 if rtl else 0)
            if not seg:
                return None
            out = []
            # break weight of every character of the text (line breaking is part of what a font does to a text)
            self.last_break_weights = [L.gr_cinfo_break_weight(L.gr_seg_cinfo(seg, k)) for k in range(L.gr_seg_n_cinfo(seg))]
            s = L.gr_seg_first_slot(seg)
            while s:
                d = {"gid": L.gr_slot_gid(s), "before": L.gr_slot_before(s), "after": L.gr_slot_after(s),
                     "x": L.gr_slot_origin_X(s), "y": L.gr_slot_origin_Y(s),
                     "adv": L.gr_slot_advance_X(s, self.face, self.font)}
                if user_attrs:
                    d["user"] = [L.gr_slot_attr(s, seg, GR_SLAT_USER, k) for k in range(user_attrs)]
                out.append(d)
                s = L.gr_slot_next_in_segment(s)
            L.gr_seg_destroy(seg)
            return out
        finally:
            L.gr_featureval_destroy(fv)
