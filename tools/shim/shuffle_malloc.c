/* LD_PRELOAD shim used by the C13 check: makes the relative order of heap addresses a pseudo-random function of
   VERIF_SHUFFLE (a seed) instead of the order of allocation. For a small request it takes 1..6 chunks of that size from
   the real allocator, hands out one chosen at random and gives the others back, so that consecutive objects of one size
   come out at increasing or decreasing addresses unpredictably. Nothing else about malloc/free is changed. */
#define _GNU_SOURCE
#include <stddef.h>
#include <stdlib.h>
#include <stdint.h>

extern void *__libc_malloc(size_t);
extern void __libc_free(void *);

static uint64_t state;
static int inited;

static uint32_t next(void)
{
	state = state * 6364136223846793005ULL + 1442695040888963407ULL;
	return (uint32_t)(state >> 33);
}

void *malloc(size_t n)
{
	if (!inited)
	{
		inited = 1;
		const char *s = getenv("VERIF_SHUFFLE");
		state = s ? strtoull(s, NULL, 10) * 2654435761u + 12345 : 0;
		if (!s)
			inited = 2; /* pass through */
	}
	if (inited == 2 || n > 2048)
		return __libc_malloc(n);
	void *p[6];
	int k = 1 + next() % 6, i;
	for (i = 0; i < k; i++)
		p[i] = __libc_malloc(n);
	int pick = next() % k;
	for (i = 0; i < k; i++)
		if (i != pick && p[i])
			__libc_free(p[i]);
	return p[pick];
}
