"""C11 exploration: seeds, grammar-aware / token / byte mutators, argv mutators, runner and outcome classifier.

This part is *exploration*, not proof: it looks for a crash, hang, sanitizer report or out-of-range exit status of the
real compiler and preprocessor.  Every random choice comes from one random.Random(seed) so a failing case replays."""
import os
import random
import re
import shutil

import common
import gen
import ttf

H = '#include "stddef.gdh"\n'

SEEDS = {}

SEEDS["basic"] = H + '''
table(glyph)
  cA = glyphid(3..6); cB = glyphid(7..10); cC = (glyphid(11), glyphid(12..13)); cD = unicode(0x61..0x64);
  cAll = (cA, cB, cC);
endtable;
table(sub)
  cA > cB;
  cA cB > cB cA;
  cC > cA / cB _ ;
endtable;
'''

SEEDS["attrs"] = H + '''
Bidi = false; AutoPseudo = 0; ScriptDirection = HORIZONTAL_LEFT_TO_RIGHT;
table(glyph) {MUnits = 1000}
  cBase = glyphid(3..8) {upperM = point(300m, 600m); lowerM = point(300m, 0m); wt = 3};
  cMark = glyphid(9..12) {upperS = point(100m, 0m); wt = 5; flag = true};
  cTake = unicode(0x61, 0x62) {wt = advancewidth / 2; comp.a = box(0, 0, advancewidth/2, bb.top); comp.b = box(advancewidth/2, 0, advancewidth, bb.top)};
  cLig = glyphid(14) {component.a = box(0,0,100m,200m); component.b = box(100m,0,200m,200m)};
  g_ps = postscript("g5");
  g_pseudo = pseudo(glyphid(4), 0xE000);
endtable;
table(feature)
  fone { id = 1001; name.1033 = string("First"); default = a;
    settings { a { value = 0; name.1033 = string("Off"); } b { value = 1; name.1033 = string("On"); } } }
  ftwo { id = "liga"; name.1033 = string("Ligs"); default = 1;
    settings { no { value = 0; name.1033 = string("None"); } yes { value = 1; name.1033 = string("All"); } } }
endtable;
table(language)
  lg1 { languages = ("en", "fr"); fone = b; };
endtable;
table(name)
  7.1033 = string("Sample");
endtable;
table(sub)
  pass(1)
    if (fone == b)
      cBase > cMark / _ ^ cMark;
    else
      cBase cBase > cLig:(1 2) {comp {a.ref = @1; b.ref = @2}} _;
    endif;
  endpass;
  pass(2)
    cBase _ > @1 cMark:1 / _ _ cBase;
    cMark > cBase$1;
    [cBase cMark]? cTake > @1 @2 cTake {user1 = 3};
  endpass;
endtable;
table(pos)
  pass(1)
    cBase cMark {attach {to = @1; at = upperM; with = upperS}; insert = true} / ^ _ _ {wt > 2};
    cBase {kern.x = 20m; shift.y = -10m} cBase {advance.x += 15m; user2 = @1.wt + 2};
    cTake {measure.startofline = 4} ;
  endpass;
endtable;
table(lb)
  cBase {break = 2};
endtable;
'''

SEEDS["just"] = H + '''
table(glyph)
  cA = glyphid(3..6) {justify.0.stretch = 100m; justify.0.weight = 2};
  cK = glyphid(7);
endtable;
table(justification)
  cA _ > @1 cK:1 {justify.stretch = 50m};
endtable;
table(pos)
  cA {advance.x += justify.width};
endtable;
'''

SEEDS["macros"] = H + '''
#define TWO(x) x x
#define CLS(n, a, b) n = glyphid(a..b)
#if 1
table(glyph) CLS(cA, 3, 6); CLS(cB, 7, 10);
#ifdef NOPE
 broken broken
#else
 cC = glyphid(11);
#endif
endtable;
#endif
table(sub) TWO(cA) > TWO(cB); /* comment
 over lines */ cC > cA; // end
endtable;
'''

SEEDS["collide"] = H + '''
table(glyph)
  cA = glyphid(3..6) {collision.flags = 1; collision.margin = 10m};
  cB = glyphid(7..10);
endtable;
table(pos)
  pass(1) cA {shift.x = 5m}; endpass;
  pass(2) {CollisionFix = 3; AutoKern = 1} cA {collision.flags = 3} cB; endpass;
endtable;
'''

SEEDS["passif"] = H + '''
table(feature)
  fone { id = 2001; name.1033 = string("One"); default = 0;
         settings { a { value = 0; name.1033 = string("a"); } b { value = 1; name.1033 = string("b"); } } }
endtable;
table(glyph)
  cA = glyphid(3..6);
  cB = glyphid(7..10);
  cC = glyphid(11..14);
endtable;
table(sub)
  if (fone == b)
    pass(1) cA > cB; cB > cC / cA _; endpass;
  else
    pass(2) cA > cC; endpass;
  endif;
endtable;
'''

DICT = ["cA", "cB", "cC", "cD", "cAll", "cBase", "cMark", "cTake", "cLig", "ANY", "_", "#", "^", ">", "<", "/", ";", ":", ",",
        "(", ")", "{", "}", "[", "]", "?", "=", "+=", "-=", "==", "!=", "<=", ">=", "&&", "||", "!", "+", "-", "*", "/", "..", ".",
        "$", "@", "@1", "@2", "@9", "@0", "@-1", "@65", "cB$1", "cA$7", "cA:1", ":(1 2)", ":(1 2 3 4 5 6 7 8 9)",
        "table", "endtable", "table(glyph)", "table(sub)", "table(pos)", "table(feature)", "table(language)", "table(name)",
        "table(lb)", "table(justification)", "pass(1)", "pass(2)", "pass(0)", "pass(130)", "endpass", "if", "else", "elseif", "endif",
        "(fone == b)", "(1)", "(0)", "environment", "endenvironment", "glyphid", "glyphid(3)", "glyphid(0)", "glyphid(65535)",
        "glyphid(5..3)", "glyphid(3..70000)", "glyphid(3..200)", "unicode(0x61)", "unicode(0x7000)", "unicode(0x61..0x7a)", "unicode(0x10ffff)",
        "unicode(0xfffe)", "codepoint(\"abc\")", "codepoint(65..90)", "codepoint(\"a\", 1252)", "codepoint(\"a\", 99999)",
        "postscript(\"g5\")", "postscript(\"nosuch\")", "pseudo(glyphid(4), 0xE001)",
        "pseudo(unicode(0x61))", "pseudo(glyphid(4))", "point(3m, 4m)", "point(1)", "gpoint(2)", "gpath(1)", "box(0,0,1,1)", "string(\"x\")", "string(\"\")",
        "0", "1", "2", "-1", "255", "256", "32767", "32768", "65535", "65536", "2147483647", "2147483648", "4294967295", "4294967296",
        "99999999999999999999", "0x7fffffff", "0xffffffff", "1m", "100m", "0m", "-5m", "true", "false", "1.5", "1e9",
        "user1", "user16", "user17", "user64", "shift.x", "shift", "kern.x", "advance.x", "advance", "attach.to", "attach {to = @1; at = upperM; with = upperS}",
        "insert", "break", "breakweight", "dir", "directionality", "comp.a.ref", "comp.a", "component", "justify.0.stretch", "justify.width",
        "measure.startofline", "collision.flags", "collision.exclude.glyph", "sequence.class", "segsplit", "passKeySlot", "position.x", "gid",
        "advancewidth", "bbtop", "bb.left", "lsb", "rsb", "ascent", "wt", "upperM", "upperS", "slotcount", "max(1,2)", "min(3)", "(1 ? 2 : 3)", "(@1.wt > 2)",
        "bb.top", "MUnits", "{MUnits = 1000}", "{MUnits = 0}", "AutoPseudo", "Bidi", "ExtraAscent", "ScriptTag", "ScriptDirection", "AttributeOverride",
        "CodePage", "MaxRuleLoop", "MaxBackup", "PointRadius", "CollisionFix", "AutoKern", "Flip", "Direction", "#define X X", "#include \"p.gdl\"", "#if", "#endif", "#else",
        "#define F(a) a a a a a a a a", "F(F(F(F(x))))", "\"", "'", "/*", "*/", "//", "\\", "\n", "\t", "name.1033", "name.0", "languages", "default", "settings", "value", "id", "\"liga\"", "\"toolongtag\""]


def tokenize(s):
    return re.findall(r'"[^"\n]*"|/\*|\*/|//|\.\.|[<>=!+\-]=|&&|\|\||#?[A-Za-z_][A-Za-z_0-9]*(?:\.[A-Za-z_0-9]+)*|0x[0-9a-fA-F]+|\d+m?|\s+|.', s, flags=re.S)


def mutate_tokens(rng, text, nmut):
    toks = tokenize(text)
    # never touch the leading include (keeps most cases past the preprocessor); a separate mutator attacks it
    start = 0
    for k, t in enumerate(toks[:12]):
        if t.startswith('"stddef'):
            start = k + 1
    ops = []
    for _ in range(nmut):
        if len(toks) <= start + 2:
            break
        i = rng.randrange(start, len(toks))
        op = rng.choice(["del", "dup", "swap", "repl", "ins", "ins", "repl", "num", "delrange", "duprange"])
        ops.append(op)
        if op == "del":
            del toks[i]
        elif op == "dup":
            toks.insert(i, toks[i])
        elif op == "swap":
            j = rng.randrange(start, len(toks))
            toks[i], toks[j] = toks[j], toks[i]
        elif op == "repl":
            toks[i] = rng.choice(DICT)
        elif op == "ins":
            toks.insert(i, " " + rng.choice(DICT) + " ")
        elif op == "num":
            nums = [k for k in range(start, len(toks)) if re.fullmatch(r"0x[0-9a-fA-F]+|\d+m?", toks[k])]
            if nums:
                k = rng.choice(nums)
                toks[k] = rng.choice(["0", "1", "-1", "255", "256", "32767", "32768", "65535", "65536", "2147483647", "2147483648",
                                      "4294967295", "4294967296", "99999999999999999999", "0xffff", "0xffffffff", "0x110000", str(rng.randrange(0, 100000))])
        elif op == "delrange":
            j = min(len(toks), i + rng.randrange(1, 12))
            del toks[i:j]
        elif op == "duprange":
            j = min(len(toks), i + rng.randrange(1, 25))
            toks[i:i] = toks[i:j] * rng.randrange(1, 4)
    return "".join(toks), ops


def mutate_bytes(rng, data, nmut):
    b = bytearray(data)
    for _ in range(nmut):
        if not b:
            break
        i = rng.randrange(len(b))
        op = rng.randrange(5)
        if op == 0:
            b[i] = rng.randrange(256)
        elif op == 1:
            del b[i]
        elif op == 2:
            b.insert(i, rng.choice(b"\x00\xff\n\r\"'\\#{}();/*"))
        elif op == 3:
            del b[i:]
        else:
            b[i:i] = b[i:i + rng.randrange(1, 40)]
    return bytes(b)


def structural(rng):
    """Semantic edge cases written directly (each returns gdl text)."""
    k = rng.randrange(23)
    G = "table(glyph) cA = glyphid(3..6); cB = glyphid(7..10); cC = glyphid(11); endtable;\n"
    if k == 22:
        # preprocessor arithmetic: zero divisors, evaluated or in a skipped operand, huge numbers, deep nesting
        ops = ["1000 / 0", "1000 % 0", "defined(KX) && (1000 / KX) > 10", "!defined(KX) || (5 % KX)", "defined(KX) ? 9 / KX : 7",
               "0 ? 1 / 0 : 2", "1 || 1 / 0", "0 && 1 % 0", "(1 << 40) / (1 << 39)", "-2147483647 - 1", "(-2147483647 - 1) / -1",
               "(" * 30 + "1" + ")" * 30, "1 ? 2 ? 3 / 0 : 4 : 5"]
        body = "".join("#if %s\n#endif\n" % rng.choice(ops) for _ in range(rng.randint(1, 4)))
        return H + body + G + "table(sub) cA > cB; endtable;\n"
    if k == 0:
        return H + "table(glyph) cE = (); cB = glyphid(7..9); endtable;\ntable(sub) cE > cB; cB > cE; cE cE > cB cB; endtable;\n"
    if k == 1:
        return H + "table(glyph) cR = (cR, glyphid(3)); cS = (cT); cT = (cS); cB = glyphid(7); endtable;\ntable(sub) cR > cB; cS > cT; endtable;\n"
    if k == 2:
        n = rng.choice([1, 2, 31, 32, 62, 63, 64, 65, 66, 127, 128, 129, 300])
        return H + G + "table(sub) " + " ".join(["cA"] * n) + " > " + " ".join(["cB"] * n) + "; endtable;\n"
    if k == 3:
        n = rng.choice([5, 40, 200, 2000])
        return H + G + "table(sub) cA > " + "(" * n + "cB" + ")" * n + "; endtable;\n"
    if k == 4:
        n = rng.choice([3, 30, 127, 128, 129, 200])
        return H + G + "".join("table(sub) pass(%d) cA > cB; endpass; endtable;\n" % i for i in range(1, n + 1))
    if k == 5:
        return H + G + "table(sub) cA > cB$%d; cA cB > @%d @%d; cA > cB:%d; cA _ > cB:(%s) cC; endtable;\n" % (
            rng.choice([0, 1, 2, 9, 64, 65535, 99999999]), rng.choice([0, 1, 3, 100]), rng.choice([0, 2, 77]), rng.choice([0, 1, 5, 70000]),
            " ".join(str(rng.choice([0, 1, 2, 3, 50])) for _ in range(rng.randrange(1, 12))))
    if k == 6:
        a = rng.choice(["glyphid(0..0xffff)", "glyphid(65530..65535)", "glyphid(5..3)", "unicode(0x61..0x3000)", "unicode(0xfffe..0x10001)",
                        "codepoint(65..65535)", "codepoint(250..260)", "glyphid(99999999999)", "unicode(0x110000)", "unicode(0xffffffff)",
                        "pseudo(glyphid(0), 0xE000)", "pseudo(glyphid(3..4), 0xE000)", "pseudo(glyphid(900))", "pseudo(glyphid(3), 0x61)",
                        "postscript(\"\")", "codepoint(\"\")", "codepoint(\"\\\\\")", "(glyphid(3), (glyphid(4), (glyphid(5), ())))"])
        return H + "table(glyph) cA = %s; cB = glyphid(7..9); endtable;\ntable(sub) cA > cB; endtable;\n" % a
    if k == 7:
        e = rng.choice(["1/0", "5 % 0", "2147483647 + 1", "-2147483648 - 1", "65536 * 65536", "1 << 40", "(1 ? 2 : 3)", "max()", "min(1)", "max(1,2,3,4,5,6,7,8,9)",
                        "@1.user1.x", "@99.advance.x", "cB.wt", "advancewidth / (bbtop - bbtop)", "true + false", "\"str\" + 1", "- - - 1", "!!1", "1 2",
                        "99999999999999999999m", "1m * 1m * 1m", "@1.attach.to", "slotcount", "point(1m,2m) + 1", "lsb / 0m", "user1[3]", "-32768m / -1"])
        return H + G + "table(pos) cA {shift.x = %s; user1 = %s} cB {user2 = %s}; endtable;\n" % (e, rng.choice(["1", e]), e)
    if k == 8:
        n = rng.choice([1, 16, 17, 60, 64, 65, 200, 600])
        return H + "table(glyph) cA = glyphid(3..6) {" + "; ".join("ga%d = %d" % (i, i) for i in range(n)) + "}; cB = glyphid(7); endtable;\ntable(sub) cA > cB; endtable;\n"
    if k == 9:
        n = rng.choice([1, 63, 64, 65, 255, 256, 257, 1000])
        return (H + G + "table(feature)\n" + "".join('f%d { id = %d; name.1033 = string("F%d"); settings { a { value = 0; name.1033 = string("a"); } } }\n' % (i, 2000 + i, i)
                                                   for i in range(n)) + "endtable;\ntable(sub) cA > cB; endtable;\n")
    if k == 10:
        n = rng.choice([2, 100, 256, 1000, 5000])
        return (H + G + 'table(feature) f { id = 1; name.1033 = string("F"); settings {' +
                "".join('s%d { value = %d; name.1033 = string("s"); }' % (i, rng.choice([i, 0, -1, 65536 + i])) for i in range(n)) + "} } endtable;\ntable(sub) cA > cB; endtable;\n")
    if k == 11:
        n = rng.choice([10, 1000, 20000, 200000])
        return H + G + 'table(name) n.1033 = string("' + "x" * n + '"); endtable;\ntable(sub) cA > cB; endtable;\n'
    if k == 12:
        n = rng.choice([100, 5000, 70000])
        return H + "table(glyph) c" + "A" * n + " = glyphid(3); cB = glyphid(7); endtable;\ntable(sub) c" + "A" * n + " > cB; endtable;\n"
    if k == 13:
        n = rng.choice([50, 500, 3000])
        return H + G + "table(sub) " + "".join("cA cB%s > cB cA%s;\n" % (" cC" * (i % 5), " cC" * (i % 5)) for i in range(n)) + "endtable;\n"
    if k == 14:
        n = rng.choice([2, 20, 300])
        return H + G + "table(sub) " + "if (1) " * n + "cA > cB;" + " endif;" * rng.choice([n, n - 1, n + 1, 0]) + " endtable;\n"
    if k == 15:
        n = rng.choice([3, 12, 13, 14, 30])
        return H + G + "table(sub) " + " ".join("[cA" for _ in range(n)) + " cB" + "]?" * n + " cC > " + " ".join(["@%d" % (i + 1) for i in range(n + 2)]) + "; endtable;\n"
    if k == 16:
        n = rng.choice([2, 14, 15, 20])
        return H + G + "table(sub) " + " ".join("[cA cB]?" for _ in range(n)) + " cC > " + " ".join("[cB cA]?" for _ in range(n)) + " cA; endtable;\n"
    if k == 17:
        return H + G + "table(sub) cA _ _ _ > _ cB:1 cB:1 cB:1 / cC _ _ _ _ ; _ > cB; cA > _; _ _ > _ _; cA > cB / _; cA > cB / ^; cA > cB / cA ^ _ ^ cB; endtable;\n"
    if k == 18:
        return (H + "table(glyph) cA = glyphid(3..6) {p = point(%s, %s); q = gpoint(%s)}; cB = glyphid(7) {p = point(1m)}; endtable;\n" % (
            rng.choice(["0m", "99999m", "-99999m", "1"]), rng.choice(["0", "70000m"]), rng.choice(["0", "1", "999", "-1"])) +
            "table(pos) cA cB {attach {to = @1; at = p; with = q; at.x = 3m; with.gpoint = %s}}; cA {attach.to = @%s} ; endtable;\n" % (rng.choice(["0", "77"]), rng.choice(["0", "1", "5"])))
    if k == 19:
        d = rng.choice(["#include \"p.gdl\"\n", "#define A B\n#define B A\nA\n", "#define F(x) F(x) x\nF(1)\n", "#if\n", "#elif 1\n", "#else\n#else\n",
                        "#define\n", "#undef\n", "#line 99999999999 \"x\"\n", "#include <" + "a" * 5000 + ">\n", "#define L " + "x " * 30000 + "\nL L L L\n", "#pragma once\n",
                        "#if 1/0\n#endif\n", "#if (1\n#endif\n", "#define G(a,b,c) a##b#c\nG(1,2)\n", "#include \"stddef.gdh\"\n" * 50, "#error stop\n", "#assert x\n",
                        "#if defined(\n#endif\n", "#define M(" + ",".join("a%d" % i for i in range(300)) + ") a1\nM(1)\n", "\"unterminated\n", "'c\n", "/* open\n", "#ifdef A\n" * 200,
                        "#define A(x) x\nA(\n", "??=define X\n", "\\\n" * 500])
        pos = rng.choice(["top", "mid", "end"])
        body = G + "table(sub) cA > cB; endtable;\n"
        return {"top": d + H + body, "mid": H + G + d + "table(sub) cA > cB; endtable;\n", "end": H + body + d}[pos]
    if k == 20:
        return H + G + "table(sub) pass(1) {MaxRuleLoop = %s; MaxBackup = %s; Direction = %s} cA > cB; endpass; endtable;\n" % (
            rng.choice(["0", "-1", "99999999", "x"]), rng.choice(["0", "70000", "-5"]), rng.choice(["0", "1", "7", "RIGHT_TO_LEFT"]))
    return H + G + "table(sub) cA {%s} > cB {%s} / _ {%s}; endtable;\n" % (
        rng.choice(["wt == 1", "user1 == 2 && user2 != 3", "break", "@2.wt", "1", "advance.x > 3m"]),
        rng.choice(["user1 = 1", "insert = 1; user1 = @1.user1", "comp.a.ref = @1", "dir = 3", "break = -40", "passKeySlot = true", "gid = 5", "position.x = 3"]),
        rng.choice(["", "wt > 1", "passKeySlot = 1"]))


def gen_gdl_case(rng, family_progs):
    """Returns (kind, gdl_bytes, font_bytes or None)."""
    r = rng.random()
    if r < 0.30:
        return "structural", structural(rng).encode("latin-1", "replace"), None
    if r < 0.45 and family_progs:
        p = rng.choice(family_progs)
        text, ops = mutate_tokens(rng, p.gdl(), rng.choice([1, 1, 2, 3, 6]))
        return "family-token", text.encode("latin-1", "replace"), p.font
    name = rng.choice(sorted(SEEDS))
    if r < 0.88:
        text, ops = mutate_tokens(rng, SEEDS[name], rng.choice([1, 1, 2, 2, 3, 5, 10, 30]))
        return "token:" + name, text.encode("latin-1", "replace"), None
    return "bytes:" + name, mutate_bytes(rng, SEEDS[name].encode(), rng.choice([1, 2, 5, 20])), None


def gen_argv_case(rng):
    """Returns argv (after the program name) built from option fragments, long strings and missing values."""
    opts = ["-q", "-d", "-D", "-c", "-g", "-p", "-wall", "-offsets", "-v2", "-v3", "-v4", "-v5", "-v6", "-v0", "-v", "-n", "-n300", "-n32767", "-n99999",
            "-w510", "-w", "-w" + "9" * 30, "-n" + "1" * 25, "-v" + "7" * 19, "-v" + "7" * 20, "-v" + "7" * 21, "-e", "-", "--", "-z", "-qq", "-wallx", "-offset", "-x" * 100,
            "-e", "-n-5", "-v3x", "- q", ""]
    av = []
    for _ in range(rng.choice([0, 0, 1, 1, 2, 3, 6])):
        o = rng.choice(opts)
        av.append(o)
        if o == "-e" and rng.random() < 0.7:
            av.append(rng.choice(["err.txt", "e" * rng.choice([10, 127, 128, 129, 500]), "nodir/e.txt", ""]))
    pos = ["p.gdl", "in.ttf", "out.ttf", "Fam"]
    n = rng.choice([0, 1, 2, 3, 3, 3, 4, 4, 5])
    for k in range(n):
        if k < 4:
            s = pos[k]
            r = rng.random()
            if r < 0.25:
                ln = rng.choice([1, 31, 32, 33, 120, 124, 125, 126, 127, 128, 129, 130, 255, 256, 300, 1000, 5000])
                if k == 1:
                    s = "in.ttf" if rng.random() < 0.5 else ("i" * max(1, ln - 4) + ".ttf")   # long input names: file does not exist
                elif k == 2:
                    s = "o" * max(1, ln - 4) + ".ttf"
                elif k == 3:
                    s = "F" * ln
                else:
                    s = "g" * ln
            elif r < 0.30:
                s = ""
            elif r < 0.35 and k >= 2:
                s = rng.choice(["./out.ttf", "a.b.c/out.ttf", "out", ".", "..", "/", "in.ttf", "./in.ttf", "F\xe9", " ", "a b"])
        else:
            s = "extra"
        av.append(s)
    if n >= 2 and rng.random() < 0.5:
        # often drop the output name so the derived-name path is exercised
        av = av[:len(av) - (n - 2)]
        if rng.random() < 0.5:
            ln = rng.choice([10, 120, 123, 124, 125, 126, 127, 128, 200])
            av[-1] = "d" * max(1, ln - 4) + ".ttf"
    return av


ASAN_RE = re.compile(r"ERROR: (AddressSanitizer|LeakSanitizer|UndefinedBehaviorSanitizer)|AddressSanitizer:? ?(DEADLYSIGNAL|CHECK failed)")
UB_MEM = re.compile(r"runtime error: (index -?\d+ out of bounds|null pointer passed as argument|member (access|call) (within|on)|load of (misaligned|null|value)|store to (null|misaligned)|reference binding to null|"
                    r"applying non-zero offset|pointer index expression|downcast of|call to function .* through pointer|variable length array|execution reached)")
UB_ANY = re.compile(r"runtime error: ([a-z -]+)")
ASSERT_RE = re.compile(r"Assertion `([^']*)' failed|: (\w+\.(?:cpp|h|hpp|c)):(\d+): .*Assertion")
FRAME_RE = re.compile(r"#\d+ 0x[0-9a-f]+ in ([^\s(]+)[^\n]*?/repo/((?:compiler|preprocessor)/[^\s:]+):(\d+)")


def classify(rc, out):
    """-> (verdict, signature). verdict in ok | assert | crash | asan | ubmem | timeout | badexit; 'ubarith' is informational."""
    m = ASAN_RE.search(out)
    if m:
        f = FRAME_RE.search(out, m.start())
        kind = re.search(r"AddressSanitizer: ([a-z-]+)", out)
        return "asan", "asan:%s:%s" % (kind.group(1) if kind else "?", ("%s@%s" % (f.group(1), f.group(2))) if f else "?")
    m = UB_MEM.search(out)
    if m:
        f = FRAME_RE.search(out[m.start():])
        return "ubmem", "ub:%s:%s" % (m.group(1).split(" ")[0], ("%s@%s" % (f.group(1), f.group(2))) if f else "?")
    if rc == "timeout":
        return "timeout", "timeout"
    m = ASSERT_RE.search(out)
    if m and (rc == -6 or rc == 134):
        loc = re.search(r"(\w+\.(?:cpp|h|hpp|c)):(\d+): ", out)
        return "assert", "assert:%s:%s" % (loc.group(1) if loc else "?", (m.group(1) or "")[:60])
    if isinstance(rc, int) and rc < 0:
        return "crash", "signal:%d" % (-rc)
    m = re.search(r"Pre-processor died with signal (\d+)", out)
    if m:
        # the compiler survives and reports error 1113, but its preprocessor child was killed: a crash on this input
        return "crash", "gdlpp-signal:%s" % m.group(1)
    if rc not in (0, 1, 2):
        return "badexit", "exit:%s" % rc
    return "ok", None


def ub_arith(out):
    return sorted(set(m.group(1).strip() for m in UB_ANY.finditer(out)))


def prepare_dir(d, gdl_bytes, font_bytes, default_font):
    os.makedirs(d, exist_ok=True)
    open(os.path.join(d, "p.gdl"), "wb").write(gdl_bytes)
    open(os.path.join(d, "in.ttf"), "wb").write(font_bytes or default_font)
    if not os.path.exists(os.path.join(d, "stddef.gdh")):
        shutil.copy(common.STDDEF, d)


def family_programs(seed, n=24):
    rng = random.Random(seed * 7919 + 11)
    out = []
    fns = [lambda r: gen.gen_match_program(r, size="small"), lambda r: gen.gen_class_program(r), lambda r: gen.gen_gattr_program(r),
           lambda r: gen.gen_feature_program(r), lambda r: gen.gen_ref_program(r), lambda r: gen.gen_opt_program(r),
           lambda r: gen.gen_match_program(r, size="small", keyslots=True),
           lambda r: gen.gen_match_program(r, npasses=2, size="small", carets=True)]     # passes without leading contexts, ^ anywhere
    for i in range(n):
        try:
            out.append(fns[i % len(fns)](rng))
        except Exception:
            pass
    return out
