#!/bin/sh
# usage: seedconfirm.sh <id> <outdir-from-agent> [name]
# Confirms a seeded change in a scratch worktree: applies, builds, runs the suite, runs the demonstration on the unchanged and
# on the changed build; then stores it under /verif/seeded/<name>/.
ID=$1; SRC=$2; NAME=${3:-$1}
WT=/tmp/sv_$NAME; BD=/tmp/sv_${NAME}_b; BASE=/tmp/sv_base_b
DST=/verif/seeded/$NAME
set -e
git -C /repo worktree remove --force $WT 2>/dev/null || true
rm -rf $WT $BD
git -C /repo worktree add --detach $WT HEAD >/dev/null 2>&1
if [ ! -x $BASE/compiler/grcompiler ] || [ "$(cat $BASE/.head 2>/dev/null)" != "$(git -C /repo rev-parse HEAD)" ]; then
  rm -rf $BASE; cmake -G Ninja -S $WT -B $BASE -DCMAKE_BUILD_TYPE=RelWithDebInfo >/dev/null 2>&1; cmake --build $BASE -j12 >/dev/null 2>&1
  git -C /repo rev-parse HEAD > $BASE/.head
fi
git -C $WT apply $SRC/patch.diff && echo "APPLIES: yes"
cmake -G Ninja -S $WT -B $BD -DCMAKE_BUILD_TYPE=RelWithDebInfo >/dev/null 2>&1
if cmake --build $BD -j12 >/dev/null 2>&1; then echo "COMPILES: yes"; else echo "COMPILES: NO"; exit 1; fi
ctest --test-dir $BD -j8 --timeout 900 2>&1 | grep "tests passed\|tests failed" > /tmp/sv_${NAME}_ctest.txt; cat /tmp/sv_${NAME}_ctest.txt
rm -rf $DST; mkdir -p $DST; cp $SRC/patch.diff $DST/; cp -r $SRC/demo $DST/demo; cp $SRC/README.md $DST/README.md
chmod +x $DST/demo/run.sh 2>/dev/null || true
SH=sh; head -1 $DST/demo/run.sh | grep -q bash && SH=bash      # (ulimit and arrays differ between dash and bash)
(cd $DST/demo && $SH ./run.sh $BASE > ../demo_unchanged.txt 2>&1; echo "exit=$?" >> ../demo_unchanged.txt) || true
(cd $DST/demo && $SH ./run.sh $BD > ../demo_changed.txt 2>&1; echo "exit=$?" >> ../demo_changed.txt) || true
if cmp -s $DST/demo_unchanged.txt $DST/demo_changed.txt; then echo "DEMO: outputs identical (NOT demonstrated)"; else echo "DEMO: outputs differ"; fi
cp /tmp/sv_${NAME}_ctest.txt $DST/ctest_summary.txt
git -C /repo worktree remove --force $WT; rm -rf $BD
