#!/usr/bin/env python3
"""T1 translator for C11: regenerate lean/GrcVerif/Generated/ArgConsts.lean from /repo's current source.

Extracted on every run (fails closed - ExtractError - on anything whose shape it does not recognise):
  * compiler/main.cpp: the sizes of rgch, rgchOutputFile, rgchwOutputFontFamily; the guard of the digit loop of
    -n/-v/-w and of its terminator write; the length checks before strcpy(rgchOutputFile, ..) / the font-name conversion
    and before GenerateOutputFontFileName; whether '-e' checks arg2 against NULL;
  * compiler/ErrorCheckClasses.cpp (GdlGlyphDefn::AssignGlyphIDsToClassMember): every inclusive range loop
    `for (c = first; c <= last; ++c)`, the width of its counter and whether the `if (c == MAX) break;` is inside the loop body;
  * compiler/GdlGlyphClassDefn.cpp (HasDuplicateGlyphs): the form of the outer loop bound.
The Lean theorems in GrcVerif/ArgsGen.lean are stated about exactly these values and re-checked by `lake build`."""
import os
import re
import sys

HERE = os.path.dirname(os.path.abspath(__file__))
VERIF = os.path.dirname(HERE)
REPO = os.environ.get("VERIF_REPO", "/repo")
OUT = os.path.join(VERIF, "lean", "GrcVerif", "Generated", "ArgConsts.lean")

from extract_tables import ExtractError, strip_comments, function_body  # noqa: E402


def block_after(text, pos):
    """The brace-balanced block (or single statement) that starts at/after pos. Returns (body, end)."""
    i = pos
    while text[i] in " \t\r\n":
        i += 1
    if text[i] != "{":
        j = text.index(";", i)
        return text[i:j + 1], j + 1
    depth = 0
    j = i
    while j < len(text):
        if text[j] == "{":
            depth += 1
        elif text[j] == "}":
            depth -= 1
            if depth == 0:
                return text[i:j + 1], j + 1
        j += 1
    raise ExtractError("unbalanced braces")


def opt(v):
    return "none" if v is None else "some %s" % (v,)


def extract():
    src = strip_comments(open(os.path.join(REPO, "compiler", "main.cpp"), encoding="latin-1").read())
    main = function_body(src, r"int\s+main\s*\(\s*int\s+argc\s*,\s*char\s*\*\s*argv\s*\[\s*\]\s*\)")
    hco = function_body(src, r"int\s+HandleCompilerOptions\s*\(\s*int\s+cargExtra\s*,\s*char\s*\*\s*arg\s*,\s*char\s*\*\s*arg2\s*\)")

    def arr(body, decl, what):
        m = re.search(decl, body)
        if not m:
            raise ExtractError("main.cpp: declaration of %s not found" % what)
        return int(m.group(1))
    rgch_cap = arr(hco, r"\bchar\s+rgch\s*\[\s*(\d+)\s*\]\s*;", "rgch")
    out_cap = arr(main, r"\bchar\s+rgchOutputFile\s*\[\s*(\d+)\s*\]\s*;", "rgchOutputFile")
    fam_cap = arr(main, r"\butf16\s+rgchwOutputFontFamily\s*\[\s*(\d+)\s*\]\s*;", "rgchwOutputFontFamily")

    # digit loop
    m = re.search(r"while\s*\(\s*arg\s*\[\s*i\s*\]\s*>=\s*'0'\s*&&\s*arg\s*\[\s*i\s*\]\s*<=\s*'9'\s*\)", hco)
    if not m:
        raise ExtractError("HandleCompilerOptions: digit loop not found")
    body, end = block_after(hco, m.end())
    writes = re.findall(r"rgch\s*\[[^\]]*\]\s*=", body)
    if len(writes) != 1:
        raise ExtractError("digit loop: expected one write to rgch, found %d" % len(writes))
    g = re.search(r"if\s*\(\s*i\s*-\s*2\s*<\s*(\d+)\s*\)\s*rgch\s*\[\s*i\s*-\s*2\s*\]\s*=\s*arg\s*\[\s*i\s*\]\s*;", body)
    if g:
        digit_guard = int(g.group(1))
    elif re.search(r"(?<![\w)])\s*rgch\s*\[\s*i\s*-\s*2\s*\]\s*=\s*arg\s*\[\s*i\s*\]\s*;", body) and "if" not in body.split("rgch")[0].split(";")[-1]:
        digit_guard = None
    else:
        raise ExtractError("digit loop: unrecognised write to rgch: %r" % body[:200])
    if not re.search(r"\bi\s*\+\+\s*;|\+\+\s*i\s*;", body):
        raise ExtractError("digit loop: increment of i not found")
    tail = hco[end:end + 300]
    t = re.match(r"\s*rgch\s*\[\s*\(\s*i\s*-\s*2\s*<\s*(\d+)\s*\)\s*\?\s*i\s*-\s*2\s*:\s*(\d+)\s*\]\s*=\s*0\s*;", tail)
    if t:
        if t.group(1) != t.group(2):
            raise ExtractError("terminator write: the two constants differ (%s, %s)" % t.groups())
        term_guard = int(t.group(1))
    elif re.match(r"\s*rgch\s*\[\s*i\s*-\s*2\s*\]\s*=\s*0\s*;", tail):
        term_guard = None
    else:
        raise ExtractError("terminator write after the digit loop not recognised: %r" % tail[:120])
    # other writes to rgch anywhere else?
    if len(re.findall(r"rgch\s*\[[^\]]*\]\s*=", hco)) != 2:
        raise ExtractError("HandleCompilerOptions: unexpected number of writes to rgch")

    # -e
    m = re.search(r"arg\s*\[\s*1\s*\]\s*==\s*'e'\s*\)", hco)
    if not m:
        raise ExtractError("HandleCompilerOptions: -e branch not found")
    ebody, _ = block_after(hco, m.end())
    if "SetErrorFileName" not in ebody:
        raise ExtractError("-e branch does not call SetErrorFileName")
    pre = ebody.split("SetErrorFileName")[0]
    e_guard = bool(re.search(r"if\s*\(\s*arg2\s*(!=\s*(NULL|0|nullptr)\s*)?\)\s*\{?\s*(g_cman\s*\.\s*)?$", pre))

    # strcpy(rgchOutputFile, pch) and the guard before it
    m = re.search(r"strcpy\s*\(\s*rgchOutputFile\s*,\s*pch\s*\)\s*;", main)
    if not m:
        raise ExtractError("main: strcpy(rgchOutputFile, pch) not found")
    pre = main[max(0, m.start() - 600):m.start()]
    g = re.search(r"if\s*\(\s*strlen\s*\(\s*pch\s*\)\s*>=\s*(\d+)\s*\|\|\s*\(\s*argc\s*>\s*4\s*\+\s*cargExtra\s*&&\s*strlen\s*\(\s*argv\s*\[\s*4\s*\+\s*cargExtra\s*\]\s*\)\s*>=\s*(\d+)\s*\)\s*\)"
                  r"\s*\{[^{}]*return\s+2\s*;\s*\}\s*$", pre, flags=re.S)
    if g:
        out_guard, fam_guard = int(g.group(1)), int(g.group(2))
    else:
        if re.search(r"strlen\s*\(\s*pch\s*\)", pre.split("char * pch")[-1]):
            raise ExtractError("main: length check before strcpy(rgchOutputFile, pch) has an unrecognised shape")
        out_guard = fam_guard = None
    if len(re.findall(r"Platform_AnsiToUnicode\s*\(\s*pch\s*,\s*strlen\s*\(\s*pch\s*\)\s*,\s*rgchwOutputFontFamily\s*,\s*strlen\s*\(\s*pch\s*\)\s*\)", main)) != 1:
        raise ExtractError("main: conversion of the font name into rgchwOutputFontFamily not recognised")

    m = re.search(r"GenerateOutputFontFileName\s*\(\s*pchFontFile\s*,\s*rgchOutputFile\s*\)\s*;", main)
    if not m:
        raise ExtractError("main: call of GenerateOutputFontFileName not found")
    pre = main[max(0, m.start() - 500):m.start()]
    g = re.search(r"if\s*\(\s*strlen\s*\(\s*pchFontFile\s*\)\s*\+\s*(\d+)\s*>=\s*(\d+)\s*\)\s*\{[^{}]*return\s+2\s*;\s*\}\s*$", pre, flags=re.S)
    gen_guard = (int(g.group(1)), int(g.group(2))) if g else None
    if not g and re.search(r"strlen\s*\(\s*pchFontFile\s*\)", pre):
        raise ExtractError("main: length check before GenerateOutputFontFileName has an unrecognised shape")

    # the name generator itself: shape check (the model genOutName mirrors this shape)
    gen = function_body(src, r"void\s+GenerateOutputFontFileName\s*\(\s*char\s*\*\s*pchFontFile\s*,\s*char\s*\*\s*pchOutputFont\s*\)")
    shape = re.sub(r"\s+", "", gen)
    want = ("{char*pchIn=pchFontFile;while(*pchIn!=0)pchIn++;while(pchIn>=pchFontFile&&*pchIn!='\\\\'&&*pchIn!=':')pchIn--;pchIn++;"
            "char*pchOut=pchOutputFont;while(*pchIn!='.'&&*pchIn!=0){*pchOut++=*pchIn++;}*pchOut++='_';*pchOut++='g';*pchOut++='r';"
            "while(*pchIn!=0)*pchOut++=*pchIn++;*pchOut=0;}")
    gen_shape_ok = (shape == want)

    # range loops
    ecc = strip_comments(open(os.path.join(REPO, "compiler", "ErrorCheckClasses.cpp"), encoding="latin-1").read())
    fn = function_body(ecc, r"void\s+GdlGlyphDefn::AssignGlyphIDsToClassMember\s*\(")
    types = {}
    for ty, names in re.findall(r"\b(utf16|gid16|unsigned\s+int|unsigned\s+short|int|size_t)\s+((?:\w+\s*,\s*)*\w+)\s*;", fn):
        for nm in names.split(","):
            types.setdefault(nm.strip(), re.sub(r"\s+", " ", ty))
    width = {"utf16": 65536, "gid16": 65536, "unsigned short": 65536, "unsigned int": 4294967296}
    loops = []
    for m in re.finditer(r"for\s*\(\s*(\w+)\s*=\s*([\w.]+)\s*;\s*(\w+)\s*<=\s*([\w.]+)\s*(?:&&\s*(\w+)\s*<=\s*(0[xX][0-9a-fA-F]+|\d+)\s*)?;\s*(?:\+\+\s*(\w+)|(\w+)\s*\+\+)\s*\)", fn):
        c = m.group(1)
        if m.group(3) != c or (m.group(7) or m.group(8)) != c or (m.group(5) and m.group(5) != c):
            raise ExtractError("range loop with mixed counters: %r" % m.group(0))
        const_bound = int(m.group(6), 0) if m.group(6) else None
        ty = types.get(c)
        if ty not in width:
            raise ExtractError("range loop counter %s has unrecognised type %r" % (c, ty))
        body, _ = block_after(fn, m.end())
        M = width[ty]
        guarded = bool(re.search(r"if\s*\(\s*%s\s*==\s*(0[xX]%s|%d)\s*\)\s*break\s*;" % (c, "[fF]" * (4 if M == 65536 else 8), M - 1), body))
        # a break that sits inside a nested loop/switch of the body would not leave this loop
        if guarded:
            inner = re.sub(r"\{[^{}]*\}", "", body[1:-1])   # strip one level of nested blocks
            inner = re.sub(r"\{[^{}]*\}", "", inner)
            guarded = bool(re.search(r"if\s*\(\s*%s\s*==\s*\w+\s*\)\s*break\s*;" % c, inner))
        if const_bound is not None and const_bound < M - 1:
            guarded = True          # the counter stops at a constant below its largest value: it cannot wrap
        loops.append(("%s..%s" % (m.group(2), m.group(4)), M, guarded))
    if not loops:
        raise ExtractError("AssignGlyphIDsToClassMember: no inclusive range loop found")
    n_incl = len(re.findall(r"for\s*\([^;]*;[^;]*<=[^;]*;", fn))
    if n_incl != len(loops):
        raise ExtractError("AssignGlyphIDsToClassMember: %d loops with an inclusive bound, %d recognised" % (n_incl, len(loops)))

    gcd = strip_comments(open(os.path.join(REPO, "compiler", "GdlGlyphClassDefn.cpp"), encoding="latin-1").read())
    hd = function_body(gcd, r"bool\s+GdlGlyphClassDefn::HasDuplicateGlyphs\s*\(")
    m = re.search(r"for\s*\(\s*size_t\s+i\s*=\s*0\s*;\s*([^;]*);\s*i\s*\+\+\s*\)", hd)
    if not m:
        raise ExtractError("HasDuplicateGlyphs: outer loop not found")
    cond = re.sub(r"\s+", "", m.group(1))
    if cond == "i+1<vgidFlattened.size()":
        dup = "plusOne"
    elif cond == "i<vgidFlattened.size()-1":
        dup = "sizeMinus1"
    else:
        raise ExtractError("HasDuplicateGlyphs: unrecognised loop bound %r" % cond)

    return {"rgchCap": rgch_cap, "digitGuard": digit_guard, "termGuard": term_guard, "outCap": out_cap, "outGuard": out_guard,
            "famCap": fam_cap, "famGuard": fam_guard, "genGuard": gen_guard, "eNullGuard": e_guard, "genShapeOk": gen_shape_ok,
            "loops": loops, "dup": dup}


def render(k):
    gg = "none" if k["genGuard"] is None else "some (%d, %d)" % k["genGuard"]
    out = ["/- GENERATED by tools/extract_args.py from /repo/compiler/main.cpp, ErrorCheckClasses.cpp, GdlGlyphClassDefn.cpp - do not edit. -/",
           "import GrcVerif.Args", "namespace Grc.Gen", "",
           "def argConsts : Grc.Args.Consts :=",
           "  { rgchCap := %d, digitGuard := %s, termGuard := %s, outCap := %d, outGuard := %s, famCap := %d, famGuard := %s," % (
               k["rgchCap"], opt(k["digitGuard"]), opt(k["termGuard"]), k["outCap"], opt(k["outGuard"]), k["famCap"], opt(k["famGuard"])),
           "    genGuard := %s, eNullGuard := %s }" % (gg, "true" if k["eNullGuard"] else "false"), "",
           "/-- GenerateOutputFontFileName still has the statement sequence that `Args.genOutName` mirrors. -/",
           "def genNameShapeOk : Bool := %s" % ("true" if k["genShapeOk"] else "false"), "",
           "/-- (range, number of counter values, break inside the loop body) for every inclusive range loop of AssignGlyphIDsToClassMember -/",
           "def rangeLoops : List (String × Nat × Bool) :=",
           "  [" + ", ".join('("%s", %d, %s)' % (n, M, "true" if g else "false") for n, M, g in k["loops"]) + "]", "",
           "def dupLoopForm : Grc.Args.BoundForm := .%s" % k["dup"], "", "end Grc.Gen"]
    return "\n".join(out) + "\n"


def main(write=True):
    k = extract()
    text = render(k)
    os.makedirs(os.path.dirname(OUT), exist_ok=True)
    old = open(OUT).read() if os.path.exists(OUT) else None
    if write and old != text:
        open(OUT, "w").write(text)
    return k


if __name__ == "__main__":
    try:
        print(main())
    except ExtractError as e:
        print("EXTRACT-ERROR:", e)
        sys.exit(3)
