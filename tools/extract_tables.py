#!/usr/bin/env python3
"""T1 translator: regenerate lean/GrcVerif/Generated/Tables.lean from /repo's current source.

Extracted on every run (fails closed on anything it cannot parse):
  * every enumerator of compiler/constants.h (opcodes kop*, slot attributes kslat*, glyph metrics kgmet*,
    limits kMax*, break weights klb*, version constants kfxd*) with its numeric value;
  * the Glat/Gloc/Silf version thresholds in OutputToFont.cpp::VersionForTable / CalculateSilfVersion
    (as literal constants found in those functions).
The Lean library's theorems about these numbers are then re-checked by `lake build`.
"""
import os
import re
import subprocess
import sys

HERE = os.path.dirname(os.path.abspath(__file__))
VERIF = os.path.dirname(HERE)
REPO = os.environ.get("VERIF_REPO", "/repo")
OUT = os.path.join(VERIF, "lean", "GrcVerif", "Generated", "Tables.lean")


class ExtractError(Exception):
    pass


def strip_comments(s):
    s = re.sub(r"/\*.*?\*/", " ", s, flags=re.S)
    s = re.sub(r"//[^\n]*", " ", s)
    return s


def eval_c_int(expr, env):
    expr = expr.strip()
    # allow identifiers already defined, integer literals (dec/hex), + - * ( ) << >> |
    if not re.fullmatch(r"[\w\s+\-*()<>|x]+", expr):
        raise ExtractError("cannot evaluate enumerator value: %r" % expr)

    def repl(m):
        t = m.group(0)
        if re.fullmatch(r"0[xX][0-9a-fA-F]+|\d+", t):
            return str(int(t, 0))
        if t in env:
            return str(env[t])
        raise ExtractError("unknown identifier %r in enumerator value %r" % (t, expr))
    py = re.sub(r"0[xX][0-9a-fA-F]+|\w+", repl, expr)
    return int(eval(py, {"__builtins__": {}}))


def parse_enums(text):
    text = strip_comments(text)
    env = {}
    order = []
    for m in re.finditer(r"\benum\b[^{;]*\{([^}]*)\}", text, flags=re.S):
        body = m.group(1)
        val = -1
        for ent in body.split(","):
            ent = ent.strip()
            if not ent:
                continue
            if "=" in ent:
                name, e = ent.split("=", 1)
                name = name.strip()
                val = eval_c_int(e, env)
            else:
                name = ent
                val += 1
            if not re.fullmatch(r"[A-Za-z_]\w*", name):
                raise ExtractError("bad enumerator %r" % ent)
            if name in env and env[name] != val:
                raise ExtractError("enumerator %s redefined" % name)
            env[name] = val
            order.append(name)
    return env, order


def function_body(text, signature_regex):
    m = re.search(signature_regex, text)
    if not m:
        raise ExtractError("function not found: %s" % signature_regex)
    i = text.index("{", m.end())
    depth = 0
    j = i
    while j < len(text):
        if text[j] == "{":
            depth += 1
        elif text[j] == "}":
            depth -= 1
            if depth == 0:
                return text[i:j + 1]
        j += 1
    raise ExtractError("unbalanced braces after %s" % signature_regex)


def extract():
    consts = open(os.path.join(REPO, "compiler", "constants.h"), encoding="latin-1").read()
    env, order = parse_enums(consts)
    need = ["kopNop", "kopPushByte", "kopPutSubs", "kopPutGlyph", "kopFeatSet", "kopLim", "kMaxSlotsPerRule",
            "kMaxPasses", "kMaxGlyphsPerFont", "kslatUserDefn", "kfxdMaxSilfVersion"]
    for n in need:
        if n not in env:
            raise ExtractError("expected enumerator %s not found in constants.h" % n)
    otf = strip_comments(open(os.path.join(REPO, "compiler", "OutputToFont.cpp"), encoding="latin-1").read())
    vft = function_body(otf, r"int\s+GrcManager::VersionForTable\s*\(\s*int\s+ti\s*,\s*int\s+fxdSpecVersion\s*\)")
    # case ktiGloc: if (fxdSpecVersion >= A) return B; else return C;
    def case_consts(tag):
        m = re.search(r"case\s+%s\s*:(.*?)(?=case\s+kti|default\s*:)" % tag, vft, flags=re.S)
        if not m:
            raise ExtractError("VersionForTable: case %s not found" % tag)
        return [int(x, 16) for x in re.findall(r"0x[0-9a-fA-F]+", m.group(1))]
    gloc = case_consts("ktiGloc")
    glat = case_consts("ktiGlat")
    if len(gloc) != 3 or len(glat) != 3:
        raise ExtractError("VersionForTable: unexpected shape for Gloc/Glat cases: %r %r" % (gloc, glat))
    csv = function_body(otf, r"int\s+GrcManager::CalculateSilfVersion\s*\(")

    def bump(cond_regex, what):
        m = re.search(cond_regex + r"[^{;]*fxdResult\s*<\s*(0x[0-9a-fA-F]+)\s*\)\s*\{?\s*(?://[^\n]*\n\s*)*fxdResult\s*=\s*(0x[0-9a-fA-F]+)", csv, flags=re.S)
        if not m:
            raise ExtractError("CalculateSilfVersion: cannot find the %s bump" % what)
        a, b = int(m.group(1), 16), int(m.group(2), 16)
        if a != b:
            raise ExtractError("CalculateSilfVersion: %s threshold %x and target %x differ" % (what, a, b))
        return a
    c_comp = bump(r"m_tcCompressor\s*!=\s*ktcNone\s*&&", "compression")
    c_coll = bump(r"HasCollisionPass\(\)\s*&&", "collision")
    c_popt = bump(r"IncludePassOptimizations\(\)\s*&&", "pass-optimisation")
    m = re.search(r"cbSpaceNeeded\s*>\s*(0x[0-9a-fA-F]+)\s*\)\s*\{[^}]*fxdResult\s*=\s*(0x[0-9a-fA-F]+)", csv, flags=re.S)
    if not m:
        raise ExtractError("CalculateSilfVersion: cannot find the long-offset bump")
    gm = strip_comments(open(os.path.join(REPO, "compiler", "GrcManager.h"), encoding="latin-1").read())
    mm = re.search(r"int\s+DefaultSilfVersion\s*\(\s*\)\s*\{\s*return\s+(0x[0-9a-fA-F]+)\s*;", gm)
    if not mm:
        raise ExtractError("GrcManager.h: DefaultSilfVersion() not found")
    default_v = int(mm.group(1), 16)
    # pass-level constraints: version that has the field (GdlPass::CompatibleWithVersion) and the request limit below which
    # DetermineTableVersion steps in
    ecr = strip_comments(open(os.path.join(REPO, "compiler", "ErrorCheckRules.cpp"), encoding="latin-1").read())
    pcv = function_body(ecr, r"bool\s+GdlPass::CompatibleWithVersion\s*\(")
    mpc = re.search(r"if\s*\(\s*m_vpexpConstraints\.size\(\)\s*>\s*0\s*\)\s*\{\s*fRet\s*=\s*\(\s*fxdVersion\s*>=\s*(0x[0-9a-fA-F]+)\s*\)\s*;\s*\*pfxdSilfNeeded\s*=\s*max\(\s*\*pfxdSilfNeeded\s*,\s*(0x[0-9a-fA-F]+)\s*\)", pcv)
    if not mpc or mpc.group(1) != mpc.group(2):
        raise ExtractError("GdlPass::CompatibleWithVersion: pass-constraint version requirement not recognised")
    dtv = function_body(ecr, r"void\s+GrcManager::DetermineTableVersion\s*\(")
    mdt = re.search(r"fFixPassConstraints\s*&&\s*fxdRequested\s*<=\s*(0x[0-9a-fA-F]+)\s*&&\s*fxdVersionNeeded\s*>\s*(0x[0-9a-fA-F]+)", dtv)
    if not mdt or mdt.group(1) != mdt.group(2):
        raise ExtractError("DetermineTableVersion: pass-constraint branch not recognised")
    return env, order, {"passConstraintVersion": int(mpc.group(1), 16), "passConstraintRequestLimit": int(mdt.group(1), 16),
                        "defaultSilfVersion": default_v, "glocThreshold": gloc[0], "glocNew": gloc[1], "glocOld": gloc[2],
                        "glatThreshold": glat[0], "glatNew": glat[1], "glatOld": glat[2],
                        "silfCompress": c_comp, "silfCollision": c_coll, "silfPassOpt": c_popt,
                        "silfOffsetLimit": int(m.group(1), 16), "silfLongOffsets": int(m.group(2), 16)}


def lean_name(n):
    return n


def render(env, order, extra):
    out = ["/- GENERATED by tools/extract_tables.py from /repo/compiler/constants.h and OutputToFont.cpp — do not edit. -/",
           "namespace Grc.Gen", ""]
    seen = set()
    for n in order:
        if n in seen:
            continue
        seen.add(n)
        v = env[n]
        if v < 0:
            out.append("def %s : Int := %d" % (lean_name(n), v))
        else:
            out.append("def %s : Nat := %d" % (lean_name(n), v))
    out.append("")
    for k, v in extra.items():
        if v is not None:
            out.append("def %s : Nat := %d" % (k, v))
    out.append("")
    out.append("end Grc.Gen")
    return "\n".join(out) + "\n"


def main(write=True):
    env, order, extra = extract()
    text = render(env, order, extra)
    os.makedirs(os.path.dirname(OUT), exist_ok=True)
    old = open(OUT).read() if os.path.exists(OUT) else None
    if write and old != text:
        open(OUT, "w").write(text)
    return text != old


if __name__ == "__main__":
    try:
        changed = main()
        print("Tables.lean %s" % ("rewritten" if changed else "unchanged"))
    except ExtractError as e:
        print("EXTRACT-ERROR:", e)
        sys.exit(3)
