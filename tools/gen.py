"""Seeded generator of GDL programs with an independent abstract description (IR).

The IR is what the Lean model/spec consumes; the GDL text is what the real compiler consumes.
Everything derives from one random.Random(seed) so a case is regenerated exactly from (family, seed, index).
"""
import json
import re
import random

import ttf


class Item:
    """One position of a rule's context."""

    def __init__(self, cls=None, mod=False, out=None, assoc=None, attrs=None, constraint=None):
        self.cls = cls            # input class name, or None for an insertion
        self.mod = mod            # appears in lhs/rhs
        self.out = out            # None | ('cls', name, sel) | ('copy', n) | ('del',)
        self.assoc = assoc        # list of 1-based item positions or None
        self.attrs = attrs or []  # list of (attrname, op, exprtext, exprIR)
        self.constraint = constraint  # (text, exprIR) or None
        self.attach = None        # (to item 1-based, at point name, with point name)


class Rule:
    def __init__(self, items, caret=None, opt=None, line=0):
        self.tree = None
        self.items = items
        self.caret = caret        # 0-based item index before which ^ is written
        self.opt = opt or []      # list of (start, end) 0-based inclusive optional ranges
        self.opt_body = False     # write the optional brackets in the rule body (lhs/rhs part) instead of the context
        self.opt_lhs = False      # write a single-item optional group on a substituted item as `cls?` on the left-hand side
        self.line = line
        self.ifs = []             # IR of the conditions (feature tests) the rule is under: conjunction
        self.if_open = None       # text to write before the rule: "if (c)", "elseif (c)", "else"
        self.if_close = False     # write "endif;" after the rule


class Prog:
    def __init__(self):
        self.nglyphs = 0          # real glyphs in the input font
        self.classes = {}         # name -> list of glyph ids (value, in order)
        self.class_defs = {}      # name -> GDL definition text
        self.class_trees = {}     # name -> definition tree (JSON-able, refs by class name)
        self.class_stmts = None   # optional explicit list of glyph-table statements (overrides class_defs order)
        self.class_order = []
        self.tables = []          # list of (tabletype, [ [Rule,...] per pass ])
        self.font = None
        self.cmap = None
        self.prolog = ""
        self.glyph_stmts = []     # extra statements in the glyph table
        self.feature_text = ""
        self.raw_gdl = None
        self.extra_files = {}     # further source files of the program (include files): name -> text
        self.text_table_order = None   # order in which the rule tables are WRITTEN (indices into self.tables, which keeps
                                  # the order in which the passes run: substitution before positioning)
        self.pass_opts = {}       # (table index, pass index) -> text after `pass(n)`, e.g. "{CollisionFix = 2}"
        self.pass_split = {}      # (table index, pass index) -> number of rules kept in the main file; the others go to an
                                  # include file that continues the pass (its lines are numbered from 1 again)
        self.gattr = None
        self.features = None
        self.languages = None
        self.name_start = None
        self.class_refs = None
        self.auto_pseudo = True
        self.ignore_bad = False

    # ---- GDL text -------------------------------------------------------
    def gdl(self):
        if self.raw_gdl is not None:
            return self.raw_gdl
        out = ['#include "stddef.gdh"', self.prolog, "table(glyph)"]
        if self.class_stmts is not None:
            out += self.class_stmts
        else:
            for name in self.class_order:
                out.append("%s = %s;" % (name, self.class_defs[name]))
        out += self.glyph_stmts
        out.append("endtable;")
        if self.feature_text:
            out.append(self.feature_text)
        line_no = None
        for ttype, passes in ([self.tables[k] for k in self.text_table_order] if self.text_table_order else self.tables):
            out.append("table(%s)" % ttype)
            for pi, rules in enumerate(passes):
                out.append("pass(%d) %s" % (pi + 1, self.pass_opts.get((self.tables.index((ttype, passes)), pi), "")))
                keep = self.pass_split.get((self.tables.index((ttype, passes)), pi))
                inc = None
                for ri, r in enumerate(rules):
                    if keep is not None and ri == keep and not any(x.if_open or x.if_close for x in rules):
                        incname = "rules_%d_%d.gdh" % (self.tables.index((ttype, passes)), pi)
                        out.append('#include "%s"' % incname)
                        inc = ["// rules of the pass, continued"]
                    tgt = inc if inc is not None else out
                    if r.if_open:
                        tgt.append(r.if_open)
                    tgt.append(rule_text(r))
                    r.line = sum(x.count("\n") + 1 for x in tgt)  # 1-based line of this rule in its file
                    if r.if_close:
                        tgt.append("endif;")
                if inc is not None:
                    self.extra_files[incname] = "\n".join(inc) + "\n"
                out.append("endpass;")
            out.append("endtable;")
        return "\n".join(out) + "\n"

    # ---- IR ---------------------------------------------------------------
    def ir(self, lb=None):
        """JSON-able IR. Glyph ids: real 0..n-1, line-break n, phantom n+1 (no pseudo glyphs in this family)."""
        n = self.nglyphs
        names = list(self.class_order)
        idx = {nm: i for i, nm in enumerate(names)}
        classes = [list(self.classes[nm]) for nm in names]
        any_id = len(classes)
        idx["ANY"] = any_id
        classes.append(list(range(n + 2)))
        idx["#"] = any_id + 1          # the line-break item: matches the line-break pseudo-glyph only
        classes.append([n])
        passes = []
        pidx = 0
        for ttype, ps in self.tables:
            for rules in ps:
                rl = []
                for r in rules:
                    items = []
                    for it in r.items:
                        d = {"in": idx[it.cls] if it.cls is not None else None, "mod": it.mod}
                        if it.out is None:
                            d["out"] = None
                        elif it.out[0] == "cls":
                            d["out"] = {"k": "cls", "cls": idx[it.out[1]], "sel": it.out[2]}
                        elif it.out[0] == "copy":
                            d["out"] = {"k": "copy", "n": it.out[1]}
                        else:
                            d["out"] = {"k": "del"}
                        d["assoc"] = it.assoc
                        d["attrs"] = [[a, op, ir_] for (a, op, _t, ir_) in it.attrs]
                        d["constraint"] = it.constraint[1] if it.constraint else None
                        if it.attach:
                            d["attach"] = {"to": it.attach[0], "at": it.attach[1], "with": it.attach[2]}
                        items.append(d)
                    rl.append({"items": items, "caret": r.caret, "opt": [list(o) for o in r.opt], "line": r.line,
                               "tree": r.tree, "ifs": r.ifs})
                pd = {"index": pidx, "table": ttype, "rules": rl}
                if self.raw_gdl is None:
                    # what the pass's directives denote in the pass header of the font: flag bits 0-2 = CollisionFix,
                    # bits 3-4 = AutoKern, bit 5 = direction flipped (never asked for here); MaxRuleLoop (default 5),
                    # MaxBackup (default 0)
                    opt = self.pass_opts.get((self.tables.index((ttype, ps)), [k for k, x in enumerate(ps) if x is rules][0]), "")
                    dv = dict((m.group(1), int(m.group(2))) for m in re.finditer(r"(\w+)\s*=\s*(\d+)", opt))
                    pd["flags"] = dv.get("CollisionFix", 0) | (dv.get("AutoKern", 0) << 3)
                    pd["maxRuleLoop"] = dv.get("MaxRuleLoop", 5)
                    pd["maxBackup"] = dv.get("MaxBackup", 0)
                passes.append(pd)
                pidx += 1
        def conv(t):
            k = t["k"]
            if k == "glyphs":
                return t
            if k == "ref":
                return {"k": "ref", "c": idx[t["c"]]}
            if k == "union":
                return {"k": "union", "m": [conv(x) for x in t["m"]]}
            return {"k": k, "a": conv(t["a"]), "b": conv(t["b"])}
        defs = None
        if self.class_trees:
            defs = [conv(self.class_trees.get(nm, {"k": "glyphs", "g": self.classes[nm]})) for nm in names]
            defs.append({"k": "glyphs", "g": list(range(n + 2))})
            defs.append({"k": "glyphs", "g": [n]})
        return {"numGlyphs": n + 2, "numReal": n, "lb": n, "phantom": n + 1, "anyClass": any_id,
                "classRefs": self.class_refs, "autoPseudo": self.auto_pseudo, "ignoreBad": self.ignore_bad,
                "gattr": self.gattr, "features": self.features, "languages": self.languages, "nameStart": self.name_start,
                "classes": classes, "classDefs": defs, "classNames": names + ["ANY", "#"], "passes": passes,
                "gattrValues": [[g, v] for g, v in sorted(getattr(self, "gattr_values", {}).items())],
                "advances": getattr(self, "advances", []),
                "points": [[nm, [[g, x, y] for g, (x, y) in sorted(v.items())]] for nm, v in sorted(getattr(self, "points", {}).items())],
                "pointAttrs": getattr(self, "point_attrs", [])}


def rule_text(r):
    lhs, rhs, ctx = [], [], []
    has_gt = any(it.mod and (it.out is not None or it.cls is None) for it in r.items)
    al = getattr(r, "alias", None) or {}      # 1-based item number -> (name, "lhs" | "rhs" | "ctx"): slot aliases

    def ref(k):
        return al[k][0] if k in al else str(k)

    def named(txt):
        # @3.user1 -> @name.user1 in attribute values and constraints
        return re.sub(r"@(\d+)\b", lambda m: "@" + ref(int(m.group(1))), txt) if al else txt

    def tag(i, place):
        return "=" + al[i + 1][0] if (i + 1) in al and al[i + 1][1] == place else ""
    for i, it in enumerate(r.items):
        pre = ""
        for (s, e) in r.opt:
            if s == i:
                pre += "["
        post = ""
        for (s, e) in r.opt:
            if e == i:
                post += "]?"
        caret = "^ " if r.caret == i else ""
        lhs_q = ""
        if (r.opt_lhs and it.mod and it.cls is not None and r.opt.count((i, i)) == 1
                and sum(1 for (s, e) in r.opt if s <= i <= e) == 1 and not r.opt_body):   # (inside a context group: error 1127)
            # the group holds just this item: `cls?` on the left-hand side says the same as `_?` in the context, but the
            # compiler meets it in another place (ranges of the left-hand side are converted to context positions later)
            lhs_q = "?"
            pre, post = "", ""
        if it.mod:
            lhs.append((it.cls if it.cls is not None else "_") + lhs_q + tag(i, "lhs"))
            if it.out is None:
                o = it.cls
            elif it.out[0] == "cls":
                o = it.out[1] + ("$%s" % ref(it.out[2]) if it.out[2] is not None else "")
            elif it.out[0] == "copy":
                o = "@%s" % ref(it.out[1])
            else:
                o = "_"
            if it.assoc and not getattr(it, "assoc_implicit", False):
                o += ":(%s)" % " ".join(ref(a) for a in it.assoc) if len(it.assoc) > 1 else ":%s" % ref(it.assoc[0])
            o += tag(i, "rhs")
            if it.attrs or it.attach:
                parts = ["%s %s %s" % (a, op, named(t)) for (a, op, t, _i) in it.attrs]
                if it.attach:
                    parts.insert(0, "attach {to = @%s; at = %s; with = %s}" % (ref(it.attach[0]), it.attach[1], it.attach[2]))
                o += " {" + "; ".join(parts) + "}"
            if r.opt_body:
                o = pre + o + post
                pre = post = ""
            if lhs_q and not has_gt:
                o += "?"          # no left-hand side is written: the mark goes on the item itself
            rhs.append(o)
            c = "_"
        else:
            c = it.cls
        c += tag(i, "ctx")
        if it.constraint:
            c += " {%s}" % named(it.constraint[0])
        ctx.append(caret + pre + c + post)
    if r.caret is not None and r.caret == len(r.items):
        ctx.append("^")
    allmod = all(it.mod for it in r.items) and not any(it.constraint for it in r.items) and r.caret is None and not r.opt
    changes = any(it.mod and (it.out is not None or it.cls is None) for it in r.items)
    if changes:
        s = " ".join(lhs) + " > " + " ".join(rhs)
    else:
        s = " ".join(rhs)
    if not allmod:
        s += " / " + " ".join(ctx)
    return s + ";"


def add_aliases(rng, prog, p=0.6):
    """Spell slot references by name: some items of some rules get an alias (`cls=name`), declared on the left-hand side,
    on the right-hand side or in the context, and every reference to such an item (`$n`, `@n`, `:n`, `@n.attr`, attach.to)
    is written with the name. The IR keeps the numbers: the program denotes the same rules."""
    for _kind, passes in prog.tables:
        for rules in passes:
            for r in rules:
                if r.opt or rng.random() > p:
                    continue
                has_gt = any(it.mod and (it.out is not None or it.cls is None) for it in r.items)
                allmod = all(it.mod for it in r.items) and not any(it.constraint for it in r.items) and r.caret is None
                al = {}
                for i, it in enumerate(r.items):
                    if rng.random() < 0.6:
                        places = []
                        if it.mod:
                            places.append("rhs")
                            if has_gt:
                                places.append("lhs")
                        if not allmod:
                            places.append("ctx")
                        if places:
                            al[i + 1] = ("%s%d" % (rng.choice(["s", "base", "x", "item"]), i + 1), rng.choice(places))
                r.alias = al
    return prog


# ---------------------------------------------------------------------------
# generation
# ---------------------------------------------------------------------------

def glyph_list_text(gl, rng=None, first_cp=0x61):
    """glyphid(...) text for an explicit list, using ranges where contiguous. With rng (fonts made by ttf.simple_font:
    glyph i is mapped from first_cp + i - 2): the same glyphs may be written through the cmap instead, as
    codepoint('c'..'f'), codepoint("cdef"), unicode(0x63..0x66) or U+0063..U+0066."""
    if rng is not None and gl and all(g >= 2 and 0x61 <= first_cp + g - 2 <= 0x7a for g in gl) and rng.random() < 0.35:
        cps = [first_cp + g - 2 for g in gl]
        parts = []
        i = 0
        while i < len(cps):
            j = i
            while j + 1 < len(cps) and cps[j + 1] == cps[j] + 1:
                j += 1
            form = rng.choice(["cpc", "cpn", "uni", "U+", "str"])
            if j > i:
                a, b = cps[i], cps[j]
                parts.append({"cpc": "codepoint('%c'..'%c')" % (a, b), "cpn": "codepoint(%d..0x%x)" % (a, b),
                              "uni": "unicode(0x%04x..0x%04x)" % (a, b), "U+": "U+%04X..U+%04X" % (a, b),
                              "str": 'codepoint("%s")' % "".join(chr(c) for c in cps[i:j + 1])}[form])
            else:
                a = cps[i]
                parts.append({"cpc": "codepoint('%c')" % a, "cpn": "codepoint(%d)" % a, "uni": "unicode(0x%04x)" % a,
                              "U+": "U+%04X" % a, "str": 'codepoint("%c")' % a}[form])
            i = j + 1
        return parts[0] if len(parts) == 1 else "(%s)" % ", ".join(parts)
    parts = []
    i = 0
    while i < len(gl):
        j = i
        while j + 1 < len(gl) and gl[j + 1] == gl[j] + 1:
            j += 1
        if j > i + 1:
            parts.append("%d..%d" % (gl[i], gl[j]))
            i = j + 1
        else:
            parts.append(str(gl[i]))
            i += 1
    return "glyphid(%s)" % ", ".join(parts)


def gen_classes(rng, prog, nclasses, lo, hi, maxsize=8):
    """Random overlapping/nested/duplicate classes over glyph ids [lo, hi)."""
    for k in range(nclasses):
        name = "c%d" % k
        mode = rng.random()
        if k >= 2 and mode < 0.2:
            # union of two earlier classes (nested definition)
            a, b = rng.sample(prog.class_order, 2)
            val = prog.classes[a] + prog.classes[b]
            if len(set(val)) != len(val):
                # keep class values duplicate-free for substitution use: fall through to explicit list
                val = None
            else:
                prog.classes[name] = val
                prog.class_defs[name] = "(%s %s)" % (a, b)
                prog.class_order.append(name)
                continue
        if k >= 1 and mode < 0.3:
            # duplicate of an earlier class (same members, different order)
            a = rng.choice(prog.class_order)
            val = list(prog.classes[a])
            rng.shuffle(val)
        else:
            size = rng.randint(1, maxsize)
            if rng.random() < 0.4:
                start = rng.randint(lo, max(lo, hi - size))
                val = list(range(start, min(hi, start + size)))
            else:
                val = rng.sample(range(lo, hi), min(size, hi - lo))
        prog.classes[name] = val
        prog.class_defs[name] = glyph_list_text(val)
        prog.class_order.append(name)


def _nodup(l):
    return len(set(l)) == len(l)


def gen_class_program(rng, size="small", bad_glyphs=False):
    """Family 'classes' (C04): definition trees with nesting, ranges, late '+=', '&=', '-=', duplicates across classes,
    classes of size 0/1/many, and one-item substitution rules using them as selector/output classes."""
    prog = Prog()
    prog.nglyphs = rng.choice([16, 24, 40, 64])
    # the same character-to-glyph mapping in one of the encodings a format-4 subtable allows: plain segments, or
    # segments that go through the glyphIdArray with or without an idDelta on top of the array entries
    font, glyphs, cmap = ttf.simple_font(prog.nglyphs, cmap4_arrays=random.Random(rng.random()).choice([0, 0, 1, 2, 3]))
    prog.font, prog.cmap = font, cmap
    lo, hi = 2, prog.nglyphs
    stmts = []
    trees = {}
    order = []
    frozen = set()   # classes that were the target of &= / -= (only referenced after that point)
    referenced = set()

    def depends(c, target, seen=None):
        """does class c (transitively) reference target?"""
        if target is None:
            return False
        seen = seen or set()
        if c in seen:
            return False
        seen.add(c)

        def refs(t):
            k = t["k"]
            if k == "glyphs":
                return []
            if k == "ref":
                return [t["c"]]
            if k == "union":
                return [x for m in t["m"] for x in refs(m)]
            return refs(t["a"]) + refs(t["b"])
        for d in refs(trees.get(c, {"k": "glyphs", "g": []})):
            if d == target or depends(d, target, seen):
                return True
        return False

    def base_members(exclude=None):
        """random member list: (text, tree, value)"""
        parts, tr = [], []
        for _ in range(rng.randint(1, 3)):
            r = rng.random()
            cands = [c for c in order if c != exclude and not depends(c, exclude)]
            if r < 0.45 or not cands:
                k = rng.randint(1, 5)
                if rng.random() < 0.5:
                    st = rng.randint(lo, hi - 1)
                    gl = list(range(st, min(hi, st + k)))
                else:
                    gl = rng.sample(range(lo, hi), min(k, hi - lo))
                parts.append(glyph_list_text(gl, rng))
                tr.append({"k": "glyphs", "g": gl})
                if bad_glyphs and rng.random() < 0.5:
                    # (compiled with -g) code points the font does not map, two or more in a row inside ONE member: they are
                    # dropped with a warning and the class holds the other glyphs, in order
                    a = rng.choice([0xE000, 0x4E00, 0x61 + prog.nglyphs - 2])
                    k = rng.randint(2, 5)
                    if rng.random() < 0.5 and gl and gl[-1] == prog.nglyphs - 1 and parts[-1].startswith("glyphid"):
                        # a range that starts on mapped glyphs and runs off the mapped block
                        st = gl[-1]
                        while st - 1 in gl and gl.index(st - 1) == gl.index(st) - 1:
                            st -= 1
                        keep = gl[:gl.index(st)]
                        parts[-1] = ("(%s, " % glyph_list_text(keep) if keep else "(") + "unicode(0x%04x..0x%04x))" % (0x61 + st - 2, 0x61 + prog.nglyphs - 2 + k - 1)
                    else:
                        # (codepoint() takes code page 1252 characters only: it is used for the ASCII run after the mapped block)
                        forms = ["unicode(0x%04x..0x%04x)" % (a, a + k - 1), "U+%04X..U+%04X" % (a, a + k - 1)]
                        if a + k - 1 < 0x7F:
                            forms.append("codepoint(%d..%d)" % (a, a + k - 1))
                        parts.append(rng.choice(forms))
            else:
                c = rng.choice(cands)
                parts.append(c)
                tr.append({"k": "ref", "c": c})
                referenced.add(c)
        return parts, tr

    ncls = rng.randint(3, 7 if size == "small" else 14)
    for k in range(ncls):
        name = "c%d" % k
        parts, tr = base_members()
        text = parts[0] if len(parts) == 1 and rng.random() < 0.5 else "(%s)" % (rng.choice([" ", ", "]).join(parts))
        stmts.append("%s = %s;" % (name, text))
        trees[name] = {"k": "union", "m": tr}
        order.append(name)
        # follow-up operations (sometimes several on the same class: c &= x; c &= y; c -= z; ...)
        for _rep in range(rng.choice([1, 1, 1, 2, 3])):
            r = rng.random()
            if _rep > 0:
                r = rng.choice([0.1, 0.25, 0.25, 0.4])
            if r < 0.2:
                parts, tr2 = base_members(exclude=name)
                stmts.append("%s += %s;" % (name, "(%s)" % " ".join(parts) if len(parts) > 1 else parts[0]))
                trees[name] = {"k": "union", "m": [trees[name]] + tr2}
            elif r < 0.32 and len(order) > 1 and name not in referenced:
                other = rng.choice([c for c in order if c != name])
                stmts.append("%s &= %s;" % (name, other))
                trees[name] = {"k": "inter", "a": trees[name], "b": {"k": "ref", "c": other}}
                referenced.add(other)
            elif r < 0.44 and len(order) > 1 and name not in referenced:
                other = rng.choice([c for c in order if c != name])
                stmts.append("%s -= %s;" % (name, other))
                trees[name] = {"k": "diff", "a": trees[name], "b": {"k": "ref", "c": other}}
                referenced.add(other)
    # late -= : a further subtraction from a class, naming a class that was defined after the earlier operations on it
    # (only for classes nothing else refers to: a set operation makes a new class object, references made before it
    # keep the old value)
    for _late in range(rng.choice([0, 1, 1, 2, 3])):
        xs = [c for c in order[:-1] if c not in referenced]
        if not xs:
            break
        xd = [c for c in xs if trees[c]["k"] == "diff"]      # preferably one whose last operation was a subtraction too
        x = rng.choice(xd) if xd and rng.random() < 0.8 else rng.choice(xs)
        later = [d for d in order[order.index(x) + 1:] if d != x and not depends(d, x)]
        if not later:
            continue
        d = rng.choice(later)
        stmts.append("%s -= %s;" % (x, d))
        trees[x] = {"k": "diff", "a": trees[x], "b": {"k": "ref", "c": d}}
        referenced.add(d)
    # late += on an already referenced class (late binding)
    if rng.random() < 0.3 and referenced:
        c = rng.choice(sorted(referenced))
        if trees[c]["k"] == "union":
            gl = rng.sample(range(lo, hi), 1)
            stmts.append("%s += %s;" % (c, glyph_list_text(gl)))
            trees[c] = {"k": "union", "m": trees[c]["m"] + [{"k": "glyphs", "g": gl}]}

    # python-side evaluation (cross-checked against the Lean ClassSem by the driver)
    def ev(t, depth=0):
        if depth > len(order) + 2:
            return []
        k = t["k"]
        if k == "glyphs":
            return list(t["g"])
        if k == "ref":
            return ev(trees[t["c"]], depth + 1)
        if k == "union":
            out = []
            for m in t["m"]:
                out += ev(m, depth)
            return out
        a, b = ev(t["a"], depth), ev(t["b"], depth)
        if k == "inter":
            return [g for g in a if g in b]
        out = list(a)
        for g in b:
            if g in out:
                out.remove(g)
        return out
    for nm in order:
        prog.classes[nm] = ev(trees[nm])
    prog.class_order = order
    prog.class_trees = trees
    prog.class_stmts = stmts
    # rules: one-item substitutions selector -> output with matching sizes (or size-1 output)
    rules = []
    names = order
    nd = [c for c in names if prog.classes[c] and _nodup(prog.classes[c])]
    for _ in range(rng.randint(2, 6)):
        if not nd:
            break
        sel = rng.choice(nd)
        n = len(prog.classes[sel])
        outs = [c for c in names if len(prog.classes[c]) in (1, n) and prog.classes[c]]
        if not outs:
            continue
        out = rng.choice(outs)
        items = []
        if rng.random() < 0.3:
            items.append(Item(cls=rng.choice(nd)))
        if rng.random() < 0.25 and len(nd) > 1:
            # selector on another item: cX cSel > @1 cOut$2 ... keep simple: context item then selector ref
            pass
        items.append(Item(cls=sel, mod=True, out=("cls", out, None)))
        if rng.random() < 0.3:
            items.append(Item(cls=rng.choice(nd)))
        rules.append(Rule(items))
    if not rules:
        c = nd[0] if nd else names[0]
        rules.append(Rule([Item(cls=c, mod=True, out=None)]))
    prog.tables.append(("sub", [rules]))
    if bad_glyphs:
        prog.compile_opts = ["-g"]
    return prog


BUILTIN_COLLISION_ATTRS = ["collision.margin", "collision.marginweight", "collision.min.x", "collision.min.y", "collision.max.x",
                           "collision.max.y", "sequence.class", "sequence.proxClass", "sequence.order", "sequence.above.xoffset",
                           "sequence.above.weight", "sequence.below.xoffset", "sequence.below.weight", "sequence.valign.height",
                           "sequence.valign.weight"]


def gen_gattr_program(rng, same_line=False, with_defaults_case=True, builtin=None):
    """Family 'gattr' (C05): overlapping classes assigning the same glyph attributes from statements spread over
    environments with AttributeOverride on/off; user attributes identified in the font through a marker glyph."""
    prog = Prog()
    prog.nglyphs = rng.choice([16, 24, 32])
    font, glyphs, cmap = ttf.simple_font(prog.nglyphs)
    prog.font, prog.cmap = font, cmap
    nattr = rng.randint(1, 5)
    # builtin="collision": the attributes are built-in collision.* / sequence.* glyph attributes (numbered only when the
    # program has a collision-fixing pass) instead of user-defined ones
    anames = ["ua%d" % j for j in range(nattr)]
    if builtin == "collision":
        nattr = rng.randint(2, 6)
        anames = rng.sample(BUILTIN_COLLISION_ATTRS, nattr)
    lines = ['#include "stddef.gdh"', "table(glyph)"]
    prog.class_order = ["cM"]
    prog.classes["cM"] = [2]
    lines.append("cM = glyphid(2) {%s};" % "; ".join("%s = %d" % (anames[j], 1000 + j) for j in range(nattr)))
    ncls = rng.randint(2, 6)
    for k in range(ncls):
        name = "c%d" % k
        size = rng.randint(1, 8)
        if rng.random() < 0.5:
            st = rng.randint(3, prog.nglyphs - 1)
            val = list(range(st, min(prog.nglyphs, st + size)))
        else:
            val = sorted(rng.sample(range(3, prog.nglyphs), min(size, prog.nglyphs - 3)))
        prog.classes[name] = val
        prog.class_order.append(name)
        lines.append("%s = %s;" % (name, glyph_list_text(val)))
    lines.append("cS1 = glyphid(3); cS2 = glyphid(4);")
    prog.classes["cS1"] = [3]
    prog.classes["cS2"] = [4]
    prog.class_order += ["cS1", "cS2"]
    lines.append("endtable;")
    assigns = []
    order = 0
    names = prog.class_order
    main_lines = lines
    merged = len(lines)          # position in the merged (preprocessed) text, up to a constant: program order
    split_files = (not same_line) and rng.random() < 0.4
    # scaled numbers: `500m` / `500M` is 500 units on an em of MUnits, converted to the font's design units (1000 here)
    munits = rng.choice([None, None, 1000, 2000, 2048, 500, 1500])

    def f32(x):
        import struct as _st
        return _st.unpack("f", _st.pack("f", x))[0]

    def scaled(v):
        # GrcFont::ScaledToAbsolute: (float)v * upem / (float)MUnits + 0.5f, truncated
        # (a negative number is the negation of the scaled positive literal)
        a = int(f32(f32(f32(float(abs(v))) * 1000) / f32(float(munits))) + f32(0.5))
        return -a if v < 0 else a
    for _b in range(rng.randint(1, 5)):
        ov = rng.random() < 0.6
        if split_files and rng.random() < 0.6:
            # this block of statements sits in an include file: its own line numbers start again at 1
            incname = "ga%d.gdh" % len(prog.extra_files)
            main_lines.append('#include "%s"' % incname)
            lines = ["// glyph attributes, continued"]
            prog.extra_files[incname] = lines
            merged += 2
        else:
            lines = main_lines
        lines.append("environment {AttributeOverride = %s%s};" % ("true" if ov else "false", "; MUnits = %d" % munits if munits else ""))
        lines.append("table(glyph)")
        merged += 2
        for _s in range(rng.randint(1, 5)):
            cls = rng.choice(["c%d" % k for k in range(ncls)])
            parts = []
            used = set()
            for _a in range(rng.randint(1, 2)):
                if rng.random() < 0.2 and "bw" not in used:
                    v = rng.choice([0, 7, 10, 15, 20, 25, 30, 40, 50])
                    parts.append(("breakweight", 1000, v))
                    used.add("bw")
                else:
                    j = rng.randrange(nattr)
                    if j in used:
                        continue
                    used.add(j)
                    v = rng.choice([0, 1, 5, 9, 17, 255, 256, -1, -300, 32767, -32767, rng.randint(-2000, 2000)])
                    if builtin is None and rng.random() < 0.15:
                        # a conditional expression whose branches read a glyph metric: one expression object for the whole
                        # class, a different value for every glyph (advance of glyph g in ttf.simple_font: 350 + 10*(g % 17))
                        k = rng.choice([2, 3, 4])
                        form = rng.choice(["false_branch", "true_branch", "both"])
                        c = rng.choice([7, 100, -3])
                        if form == "false_branch":
                            txt_ = "(%d == 1) ? %d : advancewidth / %d" % (rng.choice([0, 2]), c, k)
                            per = lambda g_: (350 + 10 * (g_ % 17)) // k
                        elif form == "true_branch":
                            txt_ = "(1 == 1) ? advancewidth / %d : %d" % (k, c)
                            per = lambda g_: (350 + 10 * (g_ % 17)) // k
                        else:
                            txt_ = "(advancewidth > 400) ? advancewidth / %d : advancewidth" % k
                            per = lambda g_: ((350 + 10 * (g_ % 17)) // k) if (350 + 10 * (g_ % 17)) > 400 else (350 + 10 * (g_ % 17))
                        parts.append((anames[j], j, 0, txt_, [[g_, per(g_)] for g_ in prog.classes[cls]]))
                        continue
                    if munits and abs(v) <= 4000 and rng.random() < 0.5:
                        # written as a scaled number (either spelling of the suffix); stored in design units
                        parts.append((anames[j], j, scaled(v), "%d%s" % (v, rng.choice("mM"))))
                        continue
                    parts.append((anames[j], j, v))
            if not parts:
                continue
            def txt(pt):
                return "%s = %s" % (pt[0], pt[3] if len(pt) > 3 else "%d" % pt[2])
            if same_line and lines[-1].startswith("c") and rng.random() < 0.5:
                lines[-1] += " %s {%s};" % (cls, "; ".join(txt(pt) for pt in parts))
            else:
                lines.append("%s {%s};" % (cls, "; ".join(txt(pt) for pt in parts)))
                merged += 1
            ln = merged          # the "line" that decides which of two statements is the later one
            for pt in parts:
                nm, j, v = pt[:3]
                a_ = {"order": order, "line": ln, "override": ov, "cls": names.index(cls), "attr": j, "value": v}
                if len(pt) > 4:
                    a_["perGlyph"] = pt[4]
                assigns.append(a_)
                order += 1
        lines.append("endtable;")
        lines.append("endenvironment;")
        merged += 2
    lines = main_lines
    lines.append("table(sub) cS1 > cS2; endtable;")
    if builtin == "collision":
        lines.append("table(pos) pass(1) {CollisionFix = %d} endpass; endtable;" % rng.choice([1, 2, 3]))
    prog.extra_files = {k: "\n".join(v) + "\n" for k, v in prog.extra_files.items()}
    prog.raw_gdl = "\n".join(lines) + "\n"
    prog.gattr = {"marker": 2, "markerBase": 1000, "numAttrs": nattr, "spaceGlyphs": [1], "assigns": assigns}
    prog.class_defs = {nm: glyph_list_text(prog.classes[nm]) for nm in names}
    return prog


def tag_u32(t):
    if isinstance(t, int):
        return t
    b = t.encode("ascii") + b"\0" * (4 - len(t))
    return int.from_bytes(b, "big")


def gen_feature_program(rng):
    """Family 'features' (C16): feature table (numeric and 4-char ids, hidden alternate ids, several label languages,
    settings with a default, label-less features), language table, simple rules."""
    prog = gen_match_program(rng, npasses=1, size="small")
    WORDS = ["Alpha", "Beta", "Gamma", "Delta", "Epsilon", "Zeta", "Eta", "Theta", "Iota", "Kappa", "Lambda", "Mu", "Nu", "Xi"]
    LANGS = [1033, 1036, 1031, 1049]
    feats = []

    def langsp(lang):
        # the language of a label may be written in decimal, as 0x... or as x...
        return rng.choice(["%d" % lang, "%d" % lang, "0x%04X" % lang, "0x%x" % lang, "x%X" % lang, "x%04x" % lang])
    text = ["table(feature)"]
    used_ids = set([1])
    nfeat = rng.randint(1, 6)
    for k in range(nfeat):
        name = "f%d" % k
        while True:
            fid = rng.choice([rng.randint(2, 60000), "".join(rng.choice("abcdefghijklmnopqrstuvwxyz") for _ in range(rng.choice([3, 4])))])
            if tag_u32(fid) not in used_ids:
                used_ids.add(tag_u32(fid))
                break
        body = ["id = %s;" % (fid if isinstance(fid, int) else '"%s"' % fid)]
        ids = [tag_u32(fid)]
        if rng.random() < 0.3:
            while True:
                # numeric or 4-character alternate id (the latter needs the 32-bit ids of Feat 2.0 even when every main id is small)
                alt = rng.choice([rng.randint(2, 60000), "".join(rng.choice("abcdefghijklmnopqrstuvwxyz") for _ in range(4))])
                if tag_u32(alt) not in used_ids:
                    used_ids.add(tag_u32(alt))
                    break
            body.append("id.hidden = %s;" % (alt if isinstance(alt, int) else '"%s"' % alt))
            ids.append(tag_u32(alt))
        labels = []
        if rng.random() < 0.85:
            for lang in rng.sample(LANGS, rng.randint(1, 3)) if rng.random() < 0.4 else [1033]:
                lab = "%s %d-%d" % (rng.choice(WORDS), k, lang)
                labels.append([lang, lab])
                body.append('name.%s = string("%s");' % (langsp(lang), lab))
        settings = []
        dflt = None
        if rng.random() < 0.8:
            nset = rng.randint(1, 4)
            vals = rng.sample(range(0, 12), nset)
            sbody = []
            for j, v in enumerate(vals):
                slabels = []
                inner = ["value = %d;" % v]
                if rng.random() < 0.9:
                    for lang in ([1033, 1036] if rng.random() < 0.25 else [1033]):
                        lab = "%s s%d-%d-%d" % (rng.choice(WORDS), k, j, lang)
                        slabels.append([lang, lab])
                        inner.append('name.%s = string("%s");' % (langsp(lang), lab))
                settings.append({"value": v, "labels": slabels})
                sbody.append("s%d_%d { %s }" % (k, j, " ".join(inner)))
            body.append("settings { %s }" % " ".join(sbody))
            di = rng.randrange(nset)
            body.append("default = s%d_%d;" % (k, di))
            dflt = vals[di]
        elif rng.random() < 0.6:
            # a boolean feature (no settings block) with a numeric default
            dflt = rng.choice([0, 1, 1])
            body.append("default = %d;" % dflt)
        feats.append({"ids": ids, "labels": labels, "settings": settings, "default": dflt})
        text.append("%s { %s }" % (name, " ".join(body)))
    text.append("endtable;")
    langs = []
    with_settings = [(k, f) for k, f in enumerate(feats) if f["settings"]]
    if with_settings and rng.random() < 0.7:
        text.append("table(language)")
        codes = rng.sample(["eng", "fra", "deu", "rus", "en", "vie", "tha"], rng.randint(1, 4))
        ci = 0
        for li in range(rng.randint(1, 2)):
            take = codes[ci:ci + rng.randint(1, 2)]
            ci += len(take)
            if not take:
                break
            chosen = rng.sample(with_settings, rng.randint(1, min(3, len(with_settings))))
            vals = []
            lines = []
            for k, f in chosen:
                j = rng.randrange(len(f["settings"]))
                lines.append("f%d = s%d_%d;" % (k, k, j))
                vals.append([f["ids"][0], f["settings"][j]["value"]])
            text.append("lng%d { languages = (%s); %s };" % (li, ", ".join('"%s"' % c for c in take), " ".join(lines)))
            for c in take:
                langs.append({"code": tag_u32(c), "values": vals})
        text.append("endtable;")
    prog.feature_text = "\n".join(text)
    prog.features = feats
    prog.languages = langs
    return prog


def gen_ref_program(rng, missing=False):
    """Family 'refs' (C17): classes written with unicode()/U+/glyphid()/postscript()/codepoint() and ranges over fonts
    with cmap format 4 and 12, symbol cmaps, several code points per glyph (auto-pseudos) and post names."""
    prog = Prog()
    n = rng.choice([14, 20, 28])
    prog.nglyphs = n
    kind = rng.choice(["plain", "dups", "dups", "fmt12", "symbol", "post", "array4", "array4"])
    holes = []
    glyphs = [{"name": ".notdef", "adv": 500, "contours": [ttf.square(50, 0, 450, 700)]},
              {"name": "space", "adv": 250, "contours": []}]
    base = 0xF061 if kind == "symbol" else 0x61
    cmap = {(0xF020 if kind == "symbol" else 0x20): 1}
    for i in range(2, n):
        glyphs.append({"name": "g%d" % i, "adv": 400, "contours": [ttf.square(10, 0, 300, 400 + i)]})
        cmap[base + i - 2] = i
    if kind == "dups":
        for _ in range(rng.randint(1, 4)):
            cmap[rng.choice([0x391, 0x392, 0x410, 0x411, 0x5D0, 0xC0])] = rng.randint(2, n - 1)
    if kind == "fmt12":
        for k in range(rng.randint(1, 3)):
            cmap[0x10300 + k] = rng.randint(2, n - 1) if rng.random() < 0.5 else 2 + k
    post_names = [None, "space"] + ["gl%d" % i for i in range(2, n)] if kind == "post" or rng.random() < 0.3 else None
    if kind == "array4":
        # holes inside the mapped block; the cmap is written with glyphIdArray segments (entry 0 = not mapped) and a
        # non-zero idDelta, so that a hole must not come out as glyph idDelta
        holes = sorted(rng.sample(range(base + 3, base + n - 6), min(3, n - 10)))
        for c in holes:
            del cmap[c]
    prog.font = ttf.build_font(glyphs, cmap, cmap12=(kind == "fmt12"), symbol=(kind == "symbol"), post_names=post_names,
                               cmap4_arrays=(rng.choice([1, 2, 3]) if kind == "array4" else 0))
    prog.cmap = cmap
    prog.auto_pseudo = rng.random() < 0.8
    cps = sorted(cmap)
    # python-side expectation is NOT computed: the Lean model resolves the references from the font bytes.
    refs = []
    texts = []
    sizes = []
    dupfree = []
    ncls = rng.randint(3, 7)
    for k in range(ncls):
        parts, rl = [], []
        size = 0
        for _ in range(rng.randint(1, 2)):
            form = rng.choice(["unicode", "unicode", "urange", "glyphid", "grange", "uplus"] + (["ps"] if post_names else [])
                              + (["cpchar", "cpcrange", "cpstr", "cpnrange"] if kind != "symbol" else []))
            letters = [c for c in cps if 0x61 <= c <= 0x7A]
            if form in ("cpchar", "cpcrange", "cpstr", "cpnrange") and len(letters) < 4:
                form = "unicode"
            if form == "cpchar":          # codepoint() with character literals: ASCII code points are their own Unicode values
                l = rng.sample(letters, rng.randint(1, 3))
                parts.append(", ".join("codepoint('%c')" % c for c in l))     # (one literal per codepoint(): a list is a syntax error)
                rl.append({"k": "unicode", "v": l})
                size += len(l)
            elif form == "cpstr":
                l = rng.sample(letters, rng.randint(2, 4))
                parts.append('codepoint("%s")' % "".join(chr(c) for c in l))
                rl.append({"k": "unicode", "v": l})
                size += len(l)
            elif form in ("cpcrange", "cpnrange"):
                a = rng.choice(letters[:-3])
                b = a + rng.randint(1, 3)
                while any(c not in cmap for c in range(a, b + 1)) and b > a:
                    b -= 1
                parts.append(("codepoint('%c'..'%c')" % (a, b)) if form == "cpcrange" else ("codepoint(0x%x..%d)" % (a, b)))
                rl.append({"k": "urange", "a": a, "b": b})
                size += b - a + 1
            elif form == "unicode":
                l = rng.sample(cps, rng.randint(1, 3))
                parts.append("unicode(%s)" % ", ".join("0x%x" % c for c in l))
                rl.append({"k": "unicode", "v": l})
                size += len(l)
            elif form == "uplus":
                c = rng.choice([c for c in cps if c <= 0xFFFF])
                parts.append("U+%04X" % c)
                rl.append({"k": "unicode", "v": [c]})
                size += 1
            elif form == "urange":
                a = rng.choice([c for c in cps if base <= c < base + n - 4])
                b = a + rng.randint(1, 3)
                while any(c not in cmap for c in range(a, b + 1)) and b > a:
                    b -= 1          # (holes of the cmap are the subject of the missing-glyph programs)
                parts.append("unicode(0x%x..0x%x)" % (a, b))
                rl.append({"k": "urange", "a": a, "b": b})
                size += b - a + 1
            elif form == "glyphid":
                l = rng.sample(range(2, n), rng.randint(1, 3))
                parts.append("glyphid(%s)" % ", ".join(str(g) for g in l))
                rl.append({"k": "glyphid", "v": l})
                size += len(l)
            elif form == "grange":
                a = rng.randint(2, n - 3)
                b = min(n - 1, a + rng.randint(1, 3))
                parts.append("glyphid(%d..%d)" % (a, b))
                rl.append({"k": "grange", "a": a, "b": b})
                size += b - a + 1
            else:
                g = rng.randint(2, n - 1)
                parts.append('postscript("gl%d")' % g)
                rl.append({"k": "ps", "n": "gl%d" % g})
                size += 1
        texts.append("c%d = (%s);" % (k, ", ".join(parts)))
        refs.append(rl)
        # rough python-side resolution, only to keep substitution selectors duplicate-free
        flat = []
        for r_ in rl:
            if r_["k"] == "unicode":
                flat += [("u", c) for c in r_["v"]]
            elif r_["k"] == "urange":
                flat += [("u", c) for c in range(r_["a"], r_["b"] + 1)]
            elif r_["k"] == "glyphid":
                flat += [("g", g) for g in r_["v"]]
            elif r_["k"] == "grange":
                flat += [("g", g) for g in range(r_["a"], r_["b"] + 1)]
            else:
                flat += [("g", int(r_["n"][2:]))]
        gl_ = [cmap.get(c, 0) if t == "u" else c for t, c in flat]
        dupfree.append(len(set(gl_)) == len(gl_) and 0 not in gl_)
        sizes.append(size)
    if missing:
        last = base + n - 3          # the last code point of the contiguous mapped block
        mv = rng.randrange(4)
        if kind == "array4" and rng.random() < 0.6:
            # a range across a hole of the mapped block (the hole is an entry 0 of the cmap's glyphIdArray)
            h = rng.choice(holes)
            lo, hi = h - 1, h + 1
            while hi not in cmap:
                hi += 1
            texts.append("cMiss = unicode(0x%x..0x%x);" % (lo, hi))
            refs.append([{"k": "urange", "a": lo, "b": hi}])
        elif mv == 0:                  # one unmapped code point between two mapped ones
            texts.append("cMiss = unicode(0x%x, 0x2345, 0x%x);" % (base, base + 1))
            refs.append([{"k": "unicode", "v": [base, 0x2345, base + 1]}])
        elif mv == 1:                # a run of adjacent unmapped code points in a list
            texts.append("cMiss = unicode(0x%x, 0x2345, 0x2346, 0x2347, 0x%x);" % (base, base + 1))
            refs.append([{"k": "unicode", "v": [base, 0x2345, 0x2346, 0x2347, base + 1]}])
        elif mv == 2:                # a range that runs off the mapped block: two mapped, then 2-5 unmapped
            k = rng.randint(2, 5)
            texts.append("cMiss = unicode(0x%x..0x%x);" % (last - 1, last + k))
            refs.append([{"k": "urange", "a": last - 1, "b": last + k}])
        else:                        # an unmapped stretch in the middle of one range is not possible with this cmap; two parts
            k = rng.randint(2, 4)
            texts.append("cMiss = (unicode(0x%x..0x%x), unicode(0x%x));" % (last, last + k, base))
            refs.append([{"k": "urange", "a": last, "b": last + k}, {"k": "unicode", "v": [base]}])
        sizes.append(2)
    # explicit pseudo-glyphs: a Unicode value of the private-use area stands for a real glyph, named through the cmap
    # (also through a code point that shares its glyph with another one, which has an automatic pseudo-glyph of its own)
    # or by glyph id
    npseudo = 0
    if not missing and kind in ("plain", "dups", "post", "array4") and rng.random() < 0.5:
        shared = [c for c in cps if sum(1 for d in cps if cmap[d] == cmap[c]) > 1 and c <= 0xFFFF]
        used_inp = set()
        for q in range(rng.randint(1, 3)):
            inp = 0xE000 + q
            if shared and prog.auto_pseudo and rng.random() < 0.35:
                # the input is a code point that shares its glyph with another one, so it has an automatic pseudo-glyph too:
                # the program's own definition takes its place (one entry in the map)
                cand = [c for c in shared if c not in used_inp]
                if cand:
                    inp = rng.choice(cand)
            used_inp.add(inp)
            form = rng.choice(["unicode", "uplus", "glyphid"] + (["unicode", "uplus"] if shared else []))
            if form == "glyphid":
                g = rng.randint(2, n - 1)
                texts.append("cPs%d = pseudo(glyphid(%d), 0x%X);" % (q, g, inp))
                refs.append([{"k": "pseudo", "input": inp, "gid": g}])
            else:
                c = rng.choice(shared) if shared and rng.random() < 0.6 else rng.choice([c for c in cps if c <= 0xFFFF])
                texts.append(("cPs%d = pseudo(unicode(0x%x), 0x%X);" if form == "unicode" else "cPs%d = pseudo(U+%04X, 0x%X);") % (q, c, inp))
                refs.append([{"k": "pseudo", "input": inp, "cp": c}])
            sizes.append(1)
            dupfree.append(True)
            npseudo += 1
    names = ["c%d" % k for k in range(ncls)] + (["cMiss"] if missing else []) + ["cPs%d" % q for q in range(npseudo)]
    prog.class_order = names
    for nm in names:
        prog.classes[nm] = []
    prog.class_refs = refs
    rules = []
    for _ in range(rng.randint(2, 5)):
        a = rng.randrange(ncls)
        outs = [j for j in range(ncls) if dupfree[j] and (sizes[j] == sizes[a] or sizes[j] == 1)]
        items = []
        if missing and rng.random() < 0.35:
            # the class with the unmapped code points as the INPUT class of a substitution: under -g the two mapped glyphs
            # are its members (the placeholders of the ignored ones are neither members nor duplicates of each other)
            outs2 = [j for j in range(ncls) if dupfree[j] and sizes[j] in (1, 2)]
            if outs2:
                rules.append(Rule([Item(cls="cMiss", mod=True, out=("cls", names[rng.choice(outs2)], None))]))
                continue
        if missing and rng.random() < 0.7:
            items.append(Item(cls="cMiss"))
        elif npseudo and rng.random() < 0.6:
            items.append(Item(cls="cPs%d" % rng.randrange(npseudo)))
        elif rng.random() < 0.3:
            items.append(Item(cls=names[rng.randrange(ncls)]))
        if outs and dupfree[a] and rng.random() < 0.8:
            items.append(Item(cls=names[a], mod=True, out=("cls", names[rng.choice(outs)], None)))
        else:
            items.append(Item(cls=names[a], mod=True, out=None))
        rules.append(Rule(items))
    prog.tables.append(("sub", [rules]))
    env = "" if prog.auto_pseudo else "AutoPseudo = false;\n"
    lines = ['#include "stddef.gdh"', env + "table(glyph)"] + texts + ["endtable;", "table(sub)", "pass(1)"]
    for r in rules:
        lines.append(rule_text(r))
        r.line = len(lines) + env.count("\n")
    lines += ["endpass;", "endtable;"]
    prog.raw_gdl = "\n".join(lines) + "\n"
    return prog


def tree_ranges(tree, n=0):
    out = []
    for e in tree:
        if isinstance(e, int):
            n += 1
        else:
            inner, n2 = tree_ranges(e, n)
            out.append((n, n2 - 1))
            out += inner
            n = n2
    return out, n


def gen_opt_program(rng, refs=False, exprs=False, glyph_bw=False):
    """Family 'optional' (C07): rules with optional single items, groups, nested and adjacent groups in the context,
    combined with substitutions, deletions, '^', and (refs=True) selectors/associations that may point into groups."""
    prog = Prog()
    prog.nglyphs = rng.choice([16, 24])
    prog.font, _g, prog.cmap = ttf.simple_font(prog.nglyphs)
    gen_classes(rng, prog, rng.randint(3, 6), 2, prog.nglyphs, maxsize=4)
    names = prog.class_order
    passes = []
    for _p in range(rng.randint(1, 2)):
        rules = []
        for _r in range(rng.randint(1, 3)):
            counter = [0]

            def mk(depth):
                seq = []
                for _ in range(rng.randint(1, 3)):
                    if depth < 3 and rng.random() < 0.45 and counter[0] < 6:
                        body = mk(depth + 1)
                        if body:
                            seq.append(body)
                    elif counter[0] < 7:
                        seq.append(counter[0])
                        counter[0] += 1
                return seq
            body_mode = rng.random() < 0.3     # optional groups written in the body of a rule without '>'
            npre = rng.choice([0, 1, 1, 2]) if body_mode else 0
            counter[0] = npre
            lhs_first = (not body_mode) and rng.random() < 0.25
            if lhs_first:
                # two or three optional single items at the start (written `cls?` on the left-hand side), groups after them:
                # the compiler meets the context groups first and the left-hand-side ones afterwards
                k = rng.choice([2, 2, 3])
                counter[0] = k
                tree = [[j] for j in range(k)] + mk(1)
            else:
                tree = mk(0)
            if counter[0] == npre:
                tree = [npre]
                counter[0] = npre + 1
            nbody_end = counter[0]
            if body_mode:
                tree = list(range(npre)) + tree
                if rng.random() < 0.4:
                    tree.append(counter[0])
                    counter[0] += 1
            nitems = counter[0]
            ranges, n2 = tree_ranges(tree)
            assert n2 == nitems
            # top-level (non-optional) item indices
            top = [e for e in tree if isinstance(e, int)]
            items = []
            for i in range(nitems):
                cls = rng.choice(names)
                if rng.random() < 0.45:
                    n = len(prog.classes[cls])
                    cands = [x for x in names if len(prog.classes[x]) in (1, n) and _nodup(prog.classes[x])]
                    if cands and _nodup(prog.classes[cls]):
                        items.append(Item(cls=cls, mod=True, out=("cls", rng.choice(cands), None)))
                    else:
                        items.append(Item(cls=cls, mod=True, out=None))
                else:
                    items.append(Item(cls=cls))
            if body_mode:
                items = []
                for i in range(nitems):
                    items.append(Item(cls=rng.choice(names), mod=(npre <= i < nbody_end), out=None))
            if lhs_first:
                for j in range(k):
                    if not items[j].mod:
                        items[j] = Item(cls=items[j].cls, mod=True, out=None)
            if not any(it.mod for it in items):
                k = rng.choice(top) if top else 0
                items[k].mod = True
            r = Rule(items, opt=ranges)
            r.tree = tree
            r.opt_body = body_mode
            r.opt_lhs = (not body_mode) and (lhs_first or rng.random() < 0.5)
            if rng.random() < 0.2 and not body_mode:
                r.caret = rng.randint(1, nitems)
            if refs and rng.random() < 0.6 and not body_mode:
                # a copy (@n) or association referring to another item
                mods = [i for i, it in enumerate(items) if it.mod and it.out is not None]
                if mods:
                    i = rng.choice(mods)
                    j = rng.randrange(nitems)
                    if rng.random() < 0.5:
                        items[i].out = ("copy", j + 1)
                    else:
                        items[i].assoc = [j + 1]
            if exprs and not body_mode:
                # attribute values and constraints that refer to items outside every optional group (such a reference must be
                # renumbered in each alternative, in every part of the expression, conditionals included)
                top_items = [e + 1 for e in tree if isinstance(e, int) and items[e].cls is not None and not (items[e].out and items[e].out[0] == "del")]
                for j, it in enumerate(items):
                    if it.mod and it.cls is not None and (it.out is None or it.out[0] == "cls") and top_items and rng.random() < 0.7:
                        ctx = {"refs": [q for q in top_items if q != j + 1], "own": True, "nuser": 4, "ngattr": 0, "glyphbw": glyph_bw}
                        if ctx["refs"] and rng.random() < 0.4:
                            # a conditional whose two branches read two (possibly different) other items
                            tc, ic = gen_bool_expr(rng, ctx, 0)
                            qa, qb = rng.choice(ctx["refs"]), rng.choice(ctx["refs"])
                            ua, ub = rng.randrange(4), rng.randrange(4)
                            t = "(%s ? @%d.user%d : @%d.user%d)" % (tc, qa, ua + 1, qb, ub + 1)
                            ir_ = {"k": "cond", "c": ic, "a": {"k": "user", "slot": qa, "i": ua}, "b": {"k": "user", "slot": qb, "i": ub}}
                        else:
                            t, ir_ = gen_int_expr(rng, ctx, rng.choice([1, 2, 3]))
                        it.attrs.append(("user%d" % rng.randint(1, 4), "=", t, ir_))
                    if it.cls is not None and j + 1 in top_items and rng.random() < 0.25:
                        ctx = {"refs": [q for q in top_items if q != j + 1], "own": True, "nuser": 4, "ngattr": 0, "glyphbw": glyph_bw}
                        it.constraint = gen_bool_expr(rng, ctx, 1)
            rules.append(r)
        passes.append(rules)
    prog.tables.append(("sub", passes))
    return prog


def gen_match_program(rng, nglyphs=None, npasses=None, size="small", keyslots=False, carets=False):
    """Family 'match': substitution passes with rules of mixed lengths/pre-contexts, insertions, deletions.
    Exercises matching (C02), precedence/pre-context (C06), class maps (C04)."""
    prog = Prog()
    prog.nglyphs = nglyphs or rng.choice([12, 20, 30, 40])
    font, glyphs, cmap = ttf.simple_font(prog.nglyphs)
    prog.font, prog.cmap = font, cmap
    ncls = rng.randint(2, 6 if size == "small" else 14)
    gen_classes(rng, prog, ncls, 2, prog.nglyphs, maxsize=6 if size == "small" else 12)
    npasses = npasses or rng.randint(1, 3)
    passes = []
    for _p in range(npasses):
        rules = []
        no_pre = carets and rng.random() < 0.4      # a pass in which no rule has a leading context (no ANY padding at all)
        for _r in range(rng.randint(1, 5 if size == "small" else 12)):
            r = gen_match_rule(rng, prog, carets=carets, no_pre=no_pre)
            if keyslots and rng.random() < 0.3:
                cands = [it for it in r.items if it.mod and it.cls is not None and (it.out is None or it.out[0] == "cls")]
                if cands:
                    rng.choice(cands).attrs.append(("passKeySlot", "=", "true", {"k": "lit", "v": 1}))
            rules.append(r)
        if no_pre and rng.random() < 0.7:
            # the first item of the rule is deleted and ^ stands directly before it: the scan has to come back to the
            # slot that takes its place
            names = prog.class_order
            a, b = rng.choice(names), rng.choice(names)
            n = len(prog.classes[b])
            cands = [x for x in names if len(prog.classes[x]) in (1, n) and len(set(prog.classes[x])) == len(prog.classes[x])
                     and len(set(prog.classes[b])) == n]
            second = Item(cls=b, mod=True, out=("cls", rng.choice(cands), None) if cands else None)
            rules.insert(rng.randint(0, len(rules)), Rule([Item(cls=a, mod=True, out=("del",)), second], caret=0))
        passes.append(rules)
    prog.tables.append(("sub", passes))
    return prog


def gen_match_rule(rng, prog, carets=False, no_pre=False):
    names = prog.class_order
    npre = rng.choice([0, 0, 0, 1, 1, 2, 3])
    if no_pre:
        npre = 0
    nmod = rng.choice([1, 1, 1, 2, 2, 3])
    npost = rng.choice([0, 0, 1, 1, 2])
    items = []
    lb_pre = rng.random() < 0.08       # '#' as the first item: start of the segment
    lb_post = rng.random() < 0.08      # '#' as the last item: end of the segment
    if lb_pre:
        items.append(Item(cls="#"))
    for _ in range(npre):
        items.append(Item(cls="ANY" if rng.random() < 0.15 else rng.choice(names)))
    ninput_mod = 0
    for k in range(nmod):
        kind = rng.random()
        if kind < 0.12 and (nmod > 1 or npost > 0):
            # insertion of a single glyph class
            single = [n for n in names if len(prog.classes[n]) == 1]
            if single:
                pos_ref = None
                items.append(Item(cls=None, mod=True, out=("cls", rng.choice(single), None)))
                continue
        cls = rng.choice(names)
        if kind < (0.4 if carets else 0.25) and nmod > 1 and (ninput_mod > 0 or (carets and k == 0)):
            # (with carets: also the FIRST modified item may be the deleted one)
            items.append(Item(cls=cls, mod=True, out=("del",)))
            if ninput_mod == 0:
                continue
        elif kind < 0.7:
            # class -> class of the same size, or -> single glyph class
            n = len(prog.classes[cls])
            cands = [x for x in names if len(prog.classes[x]) in (1, n) and len(set(prog.classes[x])) == len(prog.classes[x])]
            if len(set(prog.classes[cls])) != n:
                cands = [x for x in names if len(prog.classes[x]) == 1]
            if cands:
                items.append(Item(cls=cls, mod=True, out=("cls", rng.choice(cands), None)))
            else:
                items.append(Item(cls=cls, mod=True, out=None))
        else:
            items.append(Item(cls=cls, mod=True, out=None))
        ninput_mod += 1
    for _ in range(npost):
        items.append(Item(cls=rng.choice(names)))
    if lb_post:
        items.append(Item(cls="#"))
    # ensure at least one input item in the rule
    if all(it.cls is None for it in items):
        items.append(Item(cls=rng.choice(names), mod=True, out=None))
    r = Rule(items)
    if carets and rng.random() < 0.5 and not (lb_pre or lb_post):
        # ^ anywhere from before the first item to after the last one: where the scan goes on after the rule
        r.caret = rng.randint(0, len(items))
        dels = [j for j, it in enumerate(items) if it.out == ("del",)]
        if dels and rng.random() < 0.6:
            r.caret = rng.choice(dels) + rng.choice([0, 0, 1])      # directly before (or after) a deleted item
    # fix associations for insertions: associate with the nearest input item
    for i, it in enumerate(items):
        if it.cls is None:
            near = [j for j, x in enumerate(items) if x.cls is not None and x.mod] or [j for j, x in enumerate(items) if x.cls is not None]
            if near:
                j = min(near, key=lambda j: abs(j - i))
                it.assoc = [j + 1]
    # a rule with a single slot that is not an insertion: the compiler associates the inserted items with it by itself
    # (warning 3533) when no association is written - also after ANY items have been prepended to the rule
    real = [j for j, x in enumerate(items) if x.cls is not None]
    ins = [x for x in items if x.cls is None]
    if len(real) == 1 and ins and r.caret is None and rng.random() < 0.6:
        for x in ins:
            x.assoc = [real[0] + 1]
            x.assoc_implicit = True
    return r


def has_precontext_only_rule(prog):
    """Does some rule have all its input items before its first modified item (the modified items are insertions only)?
    Such a font is refused by libgraphite2 - a recorded known finding of C03 (witness `_ > c4:1 / c1 _;`)."""
    for _kind, passes in prog.tables:
        for rules in passes:
            for r in rules:
                mods = [i for i, it in enumerate(r.items) if it.mod]
                if mods and all(it.cls is None for it in r.items[mods[0]:]) and any(it.cls is not None for it in r.items[:mods[0]]):
                    return True
    return False


def gen_big_fsm_program(rng, nrules, length):
    """One substitution pass with `nrules` different rules of `length` items each over two two-glyph classes, plus a rule
    with a class that splits both (so that every item covers two machine columns with identical successors): the state
    machine has about nrules*length/2 states after merging and about twice as many while it is built."""
    prog = Prog()
    prog.nglyphs = 12
    prog.font, _g, prog.cmap = ttf.simple_font(12)
    prog.classes = {"cA": [2, 3], "cB": [4, 5], "cSplit": [2, 4], "gZ": [6], "gOut": [7], "gOut2": [8]}
    prog.class_order = list(prog.classes)
    prog.class_defs = {k: glyph_list_text(v) for k, v in prog.classes.items()}
    rules = [Rule([Item(cls="gZ", mod=True, out=("cls", "gOut2", None)), Item(cls="cSplit")])]
    seen = set()
    while len(rules) < nrules + 1:
        w = tuple(rng.choice("AB") for _ in range(length))
        if w in seen:
            continue
        seen.add(w)
        rules.append(Rule([Item(cls="c" + w[0], mod=True, out=("cls", "gOut", None))] + [Item(cls="c" + ch) for ch in w[1:]]))
    prog.tables.append(("sub", [rules]))
    return prog


def gen_setop_key_program(rng):
    """Family for C14: the key class of a rule is (a) a class that was the operand of a set operation and was extended
    afterwards by a class defined later, (b) ANY after ANY was named in a set operation, (c) a class with members the
    font lacks (compiled with -g) listed before the others. In every case the class the rule is keyed on has glyphs
    that were not known (or not there) when the compiler first looked at it."""
    prog = Prog()
    prog.nglyphs = rng.choice([20, 28])
    prog.font, _g, prog.cmap = ttf.simple_font(prog.nglyphs)
    gl = list(range(2, prog.nglyphs))
    rng.shuffle(gl)
    kA, kLate, dOnly, outs = gl[0:2], gl[2:5], gl[5:9], gl[9:11]
    variant = rng.choice(["late_append", "late_append", "any", "bad_first"])
    stmts = []
    C = prog.classes
    C["clsK"] = list(kA)
    stmts.append("clsK = %s;" % glyph_list_text(kA))
    C["clsD"] = [g for g in kA + dOnly]
    stmts.append("clsD = %s;" % glyph_list_text(kA + dOnly))
    op = rng.choice(["-=", "&="])
    stmts.append("clsD %s clsK;" % op)
    C["clsD"] = list(dOnly) if op == "-=" else list(kA)
    if variant == "late_append":
        C["clsM"] = list(kLate)
        stmts.append("clsM = %s;" % glyph_list_text(kLate))
        stmts.append("clsK += clsM;")
        C["clsK"] = kA + kLate
    elif variant == "bad_first":
        # compiled with -g: code points the font lacks, listed before mapped members
        stmts[0] = "clsK = (unicode(0x4E00), U+4E01..U+4E03, %s);" % glyph_list_text(kA + kLate)
        C["clsK"] = kA + kLate
        prog.compile_opts = ["-g"]
        stmts[1] = "clsD = %s;" % glyph_list_text(kA + dOnly)
    C["gX"] = [outs[0]]
    C["gY"] = [outs[1]]
    stmts += ["gX = glyphid(%d);" % outs[0], "gY = glyphid(%d);" % outs[1]]
    key = "clsK"
    if variant == "any":
        C["clsX"] = [outs[0]]
        stmts.append("clsX = glyphid(%d);" % outs[0])
        stmts.append("clsX -= ANY;")     # (clsX is not used afterwards) the set operation looks at ANY before ANY has received its members
        key = "ANY"
    prog.class_order = [k for k in ("clsK", "clsD", "clsM", "gX", "gY", "clsX") if k in C]
    prog.class_stmts = stmts
    prog.class_defs = {nm: glyph_list_text(C[nm]) for nm in prog.class_order}
    p1 = [Rule([Item(cls=key, mod=True, out=("cls", "gX", None)), Item(cls="gY")])] if key == "ANY" else \
         [Rule([Item(cls=key, mod=True, out=("cls", "gX", None))])]
    p2 = [Rule([Item(cls="clsD", mod=True, out=("cls", "gY", None))])]
    passes = [p1, p2]
    if rng.random() < 0.5:
        passes = [p2, p1]
    prog.tables.append(("sub", passes))
    return prog


def add_pos_table_first(rng, prog):
    """A positioning table that uses classes of the substitution rules and is written BEFORE the substitution table."""
    used = [it.cls for (_t, ps) in prog.tables for rules in ps for r in rules for it in r.items if it.cls not in (None, "ANY", "#")]
    if not used or any(t == "pos" for t, _ in prog.tables):
        return
    rules = []
    for _ in range(rng.randint(1, 3)):
        items = []
        if rng.random() < 0.5:
            items.append(Item(cls=rng.choice(used)))
        it = Item(cls=rng.choice(used), mod=True)
        v = rng.choice([5, 12, -7])
        it.attrs.append(("shift.x", "=", (str(v) if v >= 0 else "(%d)" % v), {"k": "lit", "v": v}))
        items.append(it)
        rules.append(Rule(items))
    prog.tables.append(("pos", [rules]))
    prog.text_table_order = [len(prog.tables) - 1] + list(range(len(prog.tables) - 1))


def add_collision_pass_then_rules(rng, prog):
    """A positioning table whose first pass only fixes collisions (no rules) and whose later passes have rules that use
    classes of the substitution table."""
    used = [it.cls for (_t, ps) in prog.tables for rules in ps for r in rules for it in r.items if it.cls not in (None, "ANY", "#")]
    if not used or any(t == "pos" for t, _ in prog.tables):
        return
    passes = [[]]
    for _p in range(rng.randint(1, 2)):
        rules = []
        for _ in range(rng.randint(1, 2)):
            it = Item(cls=rng.choice(used), mod=True)
            v = rng.choice([40, 75, -30])
            it.attrs.append(("shift.y", "=", (str(v) if v >= 0 else "(%d)" % v), {"k": "lit", "v": v}))
            rules.append(Rule([it]))
        passes.append(rules)
    prog.tables.append(("pos", passes))
    prog.pass_opts[(len(prog.tables) - 1, 0)] = "{CollisionFix = %d}" % rng.choice([1, 2, 3])
    for pi in range(1, len(passes)):
        if rng.random() < 0.5:
            # automatic kerning on a pass that also has rules (the engine consults the skip bits for such a pass)
            prog.pass_opts[(len(prog.tables) - 1, pi)] = "{AutoKern = %d}" % rng.choice([1, 1, 2])
    prog.glyph_stmts = list(prog.glyph_stmts) + ["cCollAll = glyphid(2..%d) {collision.flags = 1};" % (prog.nglyphs - 1)]


def add_pass_directives(rng, prog):
    """Directives on the passes: MaxRuleLoop and MaxBackup anywhere, CollisionFix and AutoKern (0 NONE, 1 FULL, 2 NOSPACE)
    on positioning passes. The IR records what the pass header of the font has to say (Prog.ir)."""
    for ti, (ttype, passes) in enumerate(prog.tables):
        for pi in range(len(passes)):
            if (ti, pi) in prog.pass_opts:
                continue
            ds = []
            if rng.random() < 0.5:
                ds.append("MaxRuleLoop = %d" % rng.choice([1, 2, 7, 30, 255]))
            if rng.random() < 0.4:
                ds.append("MaxBackup = %d" % rng.choice([1, 3, 20]))
            if ttype == "pos":
                if rng.random() < 0.6:
                    ds.append("CollisionFix = %d" % rng.choice([1, 2, 3, 7]))
                if rng.random() < 0.6:
                    ds.append("AutoKern = %d" % rng.choice([1, 2, 2]))
            if ds:
                prog.pass_opts[(ti, pi)] = "{" + "; ".join(ds) + "}"
    return prog


def add_pass_splits(rng, prog, prob=0.6):
    """Continue some passes in include files (rules after the first k)."""
    for ti, (ttype, passes) in enumerate(prog.tables):
        for pi, rules in enumerate(passes):
            if len(rules) >= 2 and rng.random() < prob:
                prog.pass_split[(ti, pi)] = rng.randint(1, len(rules) - 1)


def write_case(prog, workdir, name="p"):
    import os
    import shutil
    import common
    open(os.path.join(workdir, "in.ttf"), "wb").write(prog.font)
    if not os.path.exists(os.path.join(workdir, "stddef.gdh")):
        shutil.copy(common.STDDEF, workdir)
    text = prog.gdl()
    for fn, t in prog.extra_files.items():
        open(os.path.join(workdir, fn), "w").write(t)
    # (latin-1: a program may hold bytes above 0x7F in its strings, one byte per character)
    open(os.path.join(workdir, name + ".gdl"), "w", encoding="latin-1").write(text)
    json.dump(prog.ir(), open(os.path.join(workdir, name + ".ir.json"), "w"))
    return text


# ---------------------------------------------------------------------------
# family 'expr' (C01): attribute values and item constraints built from an expression grammar
# ---------------------------------------------------------------------------

INTERESTING = [0, 1, 2, 3, 5, 7, 100, 127, 128, 129, 200, 255, 256, 1000, 32767, 32768, 32769, 40000, 65535, 65536, 70000, 1000000,
               2147483647, -1, -2, -5, -127, -128, -129, -200, -32768, -32769, -65536, -2147483647]


def gen_int_expr(rng, ctx, depth):
    """-> (text, ir). ctx: dict(refs=[1-based input item numbers that may be referenced], own=bool, nuser, ngattr)."""
    r = rng.random()
    if depth <= 0 or r < 0.35:
        k = rng.random()
        if k < 0.4:
            n = rng.choice(INTERESTING) if rng.random() < 0.7 else rng.randint(-300, 300)
            return (str(n) if n >= 0 else "(%d)" % n), {"k": "lit", "v": n}
        slot = None
        cands = list(ctx["refs"])
        if cands and (not ctx["own"] or rng.random() < 0.6):
            slot = rng.choice(cands)
        elif not ctx["own"]:
            n = rng.choice(INTERESTING)
            return (str(n) if n >= 0 else "(%d)" % n), {"k": "lit", "v": n}
        pre = "@%d." % slot if slot else ""
        if ctx.get("glyphbw") and slot is None and rng.random() < 0.3:
            # the glyph-table value of an attribute that is a slot attribute too: `glyph.breakweight` (attribute 1000 of the IR)
            return "glyph.breakweight", {"k": "gattr", "slot": None, "a": 1000}
        if k < 0.75 or ctx["ngattr"] == 0:
            i = rng.randrange(ctx["nuser"])
            return pre + "user%d" % (i + 1), {"k": "user", "slot": slot, "i": i}
        a = rng.randrange(ctx["ngattr"])
        return pre + "ga%d" % a, {"k": "gattr", "slot": slot, "a": a}
    if r < 0.8:
        op = rng.choice(["+", "-", "*", "+", "-", "/", "min", "max"])
        ta, ia = gen_int_expr(rng, ctx, depth - 1)
        tb, ib = gen_int_expr(rng, ctx, depth - 1)
        if op == "/" and ib.get("k") == "lit" and ib["v"] == 0:
            tb, ib = "3", {"k": "lit", "v": 3}
        if op in ("min", "max"):
            return "%s(%s, %s)" % (op, ta, tb), {"k": "bin", "op": op, "a": ia, "b": ib}
        return "(%s %s %s)" % (ta, op, tb), {"k": "bin", "op": op, "a": ia, "b": ib}
    if r < 0.88:
        t, i = gen_int_expr(rng, ctx, depth - 1)
        return "(-%s)" % t, {"k": "un", "op": "-", "e": i}
    tc, ic = gen_bool_expr(rng, ctx, depth - 1)
    ta, ia = gen_int_expr(rng, ctx, depth - 1)
    tb, ib = gen_int_expr(rng, ctx, depth - 1)
    return "(%s ? %s : %s)" % (tc, ta, tb), {"k": "cond", "c": ic, "a": ia, "b": ib}


def gen_bool_expr(rng, ctx, depth):
    r = rng.random()
    if depth <= 0 or r < 0.6:
        op = rng.choice(["==", "!=", "<", ">", "<=", ">="])
        ta, ia = gen_int_expr(rng, ctx, max(0, depth - 1))
        tb, ib = gen_int_expr(rng, ctx, max(0, depth - 1))
        return "(%s %s %s)" % (ta, op, tb), {"k": "bin", "op": op, "a": ia, "b": ib}
    if r < 0.9:
        op = rng.choice(["&&", "||"])
        ta, ia = gen_bool_expr(rng, ctx, depth - 1)
        tb, ib = gen_bool_expr(rng, ctx, depth - 1)
        return "(%s %s %s)" % (ta, op, tb), {"k": "bin", "op": op, "a": ia, "b": ib}
    t, i = gen_bool_expr(rng, ctx, depth - 1)
    return "(!%s)" % t, {"k": "un", "op": "!", "e": i}


def gen_expr_program(rng, single=False):
    """Family 'expr' (C01): substitution rules whose modified items set user attributes to expressions over constants of all
    sizes, user attributes and glyph attributes of the own and of other slots (@n), arithmetic / comparison / logic /
    conditional operators, and whose items carry constraints; rules of one pass have different leading-context lengths
    (ANY padding), insertions and deletions shift the input indices. single=True: one pass with one rule (engine run)."""
    prog = Prog()
    prog.nglyphs = rng.choice([16, 24, 32])
    prog.font, _g, prog.cmap = ttf.simple_font(prog.nglyphs)
    gen_classes(rng, prog, rng.randint(3, 6), 3, prog.nglyphs, maxsize=5)
    names = prog.class_order
    ngattr = rng.randint(1, 3)
    nuser = 4
    gvals = {}
    stm = []
    for g in range(3, prog.nglyphs):
        vals = [rng.choice([0, 1, 2, 7, 100, 255, 300, -4]) for _ in range(ngattr)]
        gvals[g] = vals
    # one statement per distinct value vector keeps the glyph table short
    by = {}
    for g, v in gvals.items():
        by.setdefault(tuple(v), []).append(g)
    for vi, (v, gl) in enumerate(sorted(by.items())):
        stm.append("gv%d = %s {%s};" % (vi, glyph_list_text(gl), "; ".join("ga%d = %d" % (a, x) for a, x in enumerate(v))))
    stm.append("gvMark = glyphid(2) {%s};" % "; ".join("ga%d = %d" % (a, 1000 + a) for a in range(ngattr)))
    prog.glyph_stmts = stm
    prog.gattr = {"marker": 2, "markerBase": 1000, "numAttrs": ngattr, "spaceGlyphs": [], "assigns": []}
    prog.gattr_values = gvals
    passes = []
    for _p in range(1 if single else rng.randint(1, 2)):
        rules = []
        for _r in range(1 if single else rng.randint(2, 4)):
            npre = rng.choice([0, 0, 1, 2, 3])
            nmod = rng.choice([1, 1, 2, 3])
            npost = rng.choice([0, 0, 1, 2])
            items = [Item(cls=rng.choice(names)) for _ in range(npre)]
            for k in range(nmod):
                x = rng.random()
                if x < 0.15 and k > 0 and not single:
                    single_cls = [n for n in names if len(prog.classes[n]) == 1]
                    if single_cls:
                        items.append(Item(cls=None, mod=True, out=("cls", rng.choice(single_cls), None)))
                        continue
                cls = rng.choice(names)
                if x < 0.27 and nmod > 1 and k < nmod - 1 and not single:
                    items.append(Item(cls=cls, mod=True, out=("del",)))
                else:
                    items.append(Item(cls=cls, mod=True, out=None))
            items += [Item(cls=rng.choice(names)) for _ in range(npost)]
            if not any(it.mod and it.cls is not None and it.out is None for it in items):
                items.append(Item(cls=rng.choice(names), mod=True, out=None))
            inputs = [j + 1 for j, it in enumerate(items) if it.cls is not None]
            for j, it in enumerate(items):
                if it.cls is None:
                    near = [q for q in inputs if q != j + 1]
                    it.assoc = [min(near, key=lambda q: abs(q - (j + 1)))]
                if it.mod and (it.out is None or it.out[0] == "cls"):
                    ctx = {"refs": [q for q in inputs if q != j + 1], "own": it.cls is not None, "nuser": nuser, "ngattr": ngattr}
                    if single:
                        # engine run: read only slots that this rule leaves untouched until then (later items) or constants
                        ctx["refs"] = [q for q in inputs if q > j + 1 and items[q - 1].out is None and not items[q - 1].mod]
                    used = set()
                    for _a in range(rng.choice([0, 1, 1, 2, 3])):
                        ui = rng.randrange(nuser)
                        if ui in used:
                            continue
                        used.add(ui)
                        t, ir_ = gen_int_expr(rng, ctx, rng.choice([0, 1, 2, 3]))
                        it.attrs.append(("user%d" % (ui + 1), "=" if rng.random() < 0.8 or single else rng.choice(["+=", "-="]), t, ir_))
                if it.cls is not None and rng.random() < (0.0 if single else 0.3):
                    ctx = {"refs": [q for q in inputs if q != j + 1], "own": True, "nuser": nuser, "ngattr": ngattr}
                    it.constraint = gen_bool_expr(rng, ctx, rng.choice([0, 1, 2]))
            rules.append(Rule(items))
        passes.append(rules)
    if single:
        # engine run: every item of the rule gets its own one-glyph class, and a first pass gives every such glyph known
        # user attribute values, so that the rule matches exactly once and reads non-trivial values
        rule = passes[0][0]
        prog.classes, prog.class_defs, prog.class_order = {}, {}, []
        setup = []
        prog.single_user = {}
        for k, it in enumerate(rule.items):
            nm = "s%d" % k
            g = 3 + k
            prog.classes[nm] = [g]
            prog.class_defs[nm] = "glyphid(%d)" % g
            prog.class_order.append(nm)
            it.cls = nm
            vals = [rng.choice([0, 1, 2, 3, 9, 100, 127, 128, 300, 40000, 70000, -1, -5, -300, -40000]) for _ in range(nuser)]
            prog.single_user[g] = vals
            attrs = [("user%d" % (u + 1), "=", (str(v) if v >= 0 else "(%d)" % v), {"k": "lit", "v": v}) for u, v in enumerate(vals)]
            setup.append(Rule([Item(cls=nm, mod=True, out=None, attrs=attrs)]))
        passes = [setup, [rule]]
    prog.tables.append(("sub", passes))
    return prog


FEATZ = ('table(feature)\n'
         'fz0 { id = 1234; name.1033 = string("Z0"); default = 0; settings { a0 { value = 0; name.1033 = string("a"); } a1 { value = 1; name.1033 = string("b"); } a2 { value = 2; name.1033 = string("c"); } } }\n'
         'fz1 { id = "zone"; name.1033 = string("Z1"); default = 1; settings { b0 { value = 0; name.1033 = string("n"); } b1 { value = 1; name.1033 = string("y"); } } }\n'
         'endtable;')
FEATZ_IDS = [1234, (ord("z") << 24) | (ord("o") << 16) | (ord("n") << 8) | ord("e")]
FEATZ_VALUES = [[0, 1, 2], [0, 1]]


def feat_cond(rng):
    """-> (text, ir) of one feature test (possibly a conjunction / disjunction)."""
    def atom():
        f = rng.randrange(2)
        v = rng.choice(FEATZ_VALUES[f])
        op = rng.choice(["==", "==", "!="])
        return "(fz%d %s %d)" % (f, op, v), {"k": "bin", "op": op, "a": {"k": "feat", "f": f}, "b": {"k": "lit", "v": v}}
    r = rng.random()
    if r < 0.7:
        return atom()
    (ta, ia), (tb, ib) = atom(), atom()
    op = "&&" if r < 0.88 else "||"
    return "(%s %s %s)" % (ta, op, tb), {"k": "bin", "op": op, "a": ia, "b": ib}


def add_feature_tests(rng, prog):
    """Put some consecutive rules of every pass under if / elseif / else branches on the features fz0, fz1."""
    prog.feature_text = FEATZ
    for ttype, passes in prog.tables:
        for rules in passes:
            i = 0
            while i < len(rules):
                if rng.random() < 0.5:
                    i += 1
                    continue
                nbr = rng.choice([1, 1, 2, 2, 3])
                conds = []
                prev_not = []
                k = 0
                while k < nbr and i < len(rules):
                    last = (k == nbr - 1) or (i == len(rules) - 1)
                    is_else = k > 0 and last and rng.random() < 0.5
                    r = rules[i]
                    if is_else:
                        r.if_open = "else"
                        r.ifs = list(prev_not)
                    else:
                        t, ir_ = feat_cond(rng)
                        r.if_open = ("if %s" if k == 0 else "elseif %s") % t
                        r.ifs = list(prev_not) + [ir_]
                        prev_not.append({"k": "un", "op": "!", "e": ir_})
                    r.if_close = last
                    i += 1
                    k += 1
                    if last:
                        break
    return prog


# ---------------------------------------------------------------------------
# family 'pos' (C01): positioning passes - shift, advance, kern, with values read from slot attributes and metrics
# ---------------------------------------------------------------------------

def gen_pos_value(rng, ctx, depth):
    """Integer expression for a positioning attribute: the int grammar plus reads of advance.x / shift.x / shift.y of the
    own or another slot and of the advancewidth metric."""
    r = rng.random()
    if depth <= 0 or r < 0.45:
        k = rng.random()
        if k < 0.45:
            n = rng.choice([0, 1, 5, 10, 25, 100, 127, 128, 300, -1, -7, -50, -128, -129, -300])
            return (str(n) if n >= 0 else "(%d)" % n), {"k": "lit", "v": n}
        slot = None
        if ctx["refs"] and rng.random() < 0.4:
            slot = rng.choice(ctx["refs"])
        pre = "@%d." % slot if slot else ""
        if k < 0.6:
            i = rng.randrange(ctx["nuser"])
            return pre + "user%d" % (i + 1), {"k": "user", "slot": slot, "i": i}
        if k < 0.72 and ctx["ngattr"]:
            a = rng.randrange(ctx["ngattr"])
            return pre + "ga%d" % a, {"k": "gattr", "slot": slot, "a": a}
        if k < 0.86:
            nm = rng.choice(["advance.x", "shift.x", "shift.y"])
            return pre + nm, {"k": "slot", "slot": slot, "name": nm}
        return pre + "advancewidth", {"k": "metric", "slot": slot, "name": "advancewidth"}
    op = rng.choice(["+", "-", "+", "-", "*", "/", "min", "max"])
    ta, ia = gen_pos_value(rng, ctx, depth - 1)
    tb, ib = gen_pos_value(rng, ctx, depth - 1)
    if op == "*":
        tb, ib = str(rng.choice([2, 3, -2])), None
        ib = {"k": "lit", "v": int(tb)}
    if op == "/":
        d = rng.choice([2, 3, 4, -2])
        tb, ib = (str(d) if d > 0 else "(%d)" % d), {"k": "lit", "v": d}
    if op in ("min", "max"):
        return "%s(%s, %s)" % (op, ta, tb), {"k": "bin", "op": op, "a": ia, "b": ib}
    return "(%s %s %s)" % (ta, op, tb), {"k": "bin", "op": op, "a": ia, "b": ib}


def gen_pos_program(rng):
    prog = Prog()
    prog.nglyphs = rng.choice([16, 24])
    prog.font, glyphs, prog.cmap = ttf.simple_font(prog.nglyphs)
    prog.advances = [g.get("adv", 0) for g in glyphs]
    gen_classes(rng, prog, rng.randint(3, 5), 3, prog.nglyphs, maxsize=5)
    names = prog.class_order
    ngattr = rng.randint(1, 2)
    gvals = {g: [rng.choice([0, 1, 7, 40, 250, -4]) for _ in range(ngattr)] for g in range(3, prog.nglyphs)}
    by = {}
    for g, v in gvals.items():
        by.setdefault(tuple(v), []).append(g)
    stm = ["gv%d = %s {%s};" % (vi, glyph_list_text(gl), "; ".join("ga%d = %d" % (a, x) for a, x in enumerate(v))) for vi, (v, gl) in enumerate(sorted(by.items()))]
    stm.append("gvMark = glyphid(2) {%s};" % "; ".join("ga%d = %d" % (a, 1000 + a) for a in range(ngattr)))
    prog.glyph_stmts = stm
    prog.gattr = {"marker": 2, "markerBase": 1000, "numAttrs": ngattr, "spaceGlyphs": [], "assigns": []}
    prog.gattr_values = gvals
    # a substitution pass that gives some slots user attribute values (and changes some glyphs)
    sub = []
    for _ in range(rng.randint(1, 3)):
        cls = rng.choice(names)
        n = len(prog.classes[cls])
        cands = [x for x in names if len(prog.classes[x]) in (1, n) and _nodup(prog.classes[x])]
        out = ("cls", rng.choice(cands), None) if cands and _nodup(prog.classes[cls]) and rng.random() < 0.5 else None
        it = Item(cls=cls, mod=True, out=out)
        for u in rng.sample(range(4), rng.randint(1, 2)):
            v = rng.choice([1, 3, 20, 100, -5, -60])
            it.attrs.append(("user%d" % (u + 1), "=", (str(v) if v >= 0 else "(%d)" % v), {"k": "lit", "v": v}))
        sub.append(Rule([it]))
    prog.tables.append(("sub", [sub]))
    passes = []
    for _p in range(rng.randint(1, 2)):
        rules = []
        for _r in range(rng.randint(1, 4)):
            npre = rng.choice([0, 0, 1, 2])
            nmod = rng.choice([1, 1, 2, 3])
            npost = rng.choice([0, 0, 1])
            items = [Item(cls=rng.choice(names)) for _ in range(npre)]
            items += [Item(cls=rng.choice(names), mod=True, out=None) for _ in range(nmod)]
            items += [Item(cls=rng.choice(names)) for _ in range(npost)]
            n = len(items)
            for j, it in enumerate(items):
                if not it.mod:
                    continue
                ctx = {"refs": [q for q in range(1, n + 1) if q != j + 1], "nuser": 4, "ngattr": ngattr}
                used = set()
                for _a in range(rng.choice([1, 1, 2, 3])):
                    nm = rng.choice(["shift.x", "shift.y", "advance.x", "kern.x", "user1", "user3"])
                    if nm in used or ("kern.x" in used and nm in ("shift.x", "advance.x")) or (nm == "kern.x" and ("shift.x" in used or "advance.x" in used)):
                        continue
                    used.add(nm)
                    t, ir_ = gen_pos_value(rng, ctx, rng.choice([0, 1, 1, 2]))
                    op = "=" if nm == "kern.x" or rng.random() < 0.7 else rng.choice(["+=", "-="])
                    it.attrs.append((nm, op, t, ir_))
            rules.append(Rule(items))
        passes.append(rules)
    prog.tables.append(("pos", passes))
    return prog


# ---------------------------------------------------------------------------
# family 'attach' (C01): positioning passes that attach marks to bases and to other marks
# ---------------------------------------------------------------------------

def gen_attach_program(rng):
    prog = Prog()
    prog.nglyphs = 20
    prog.font, glyphs, prog.cmap = ttf.simple_font(prog.nglyphs)
    prog.advances = [g.get("adv", 0) for g in glyphs]
    pts = {"uM": {}, "lM": {}, "uS": {}, "lS": {}}
    stm = []

    def cls(name, gl, points):
        prog.classes[name] = list(gl)
        prog.class_defs[name] = glyph_list_text(gl) + " {" + "; ".join("%s = point(%dm, %dm)" % (pn, x, y) for pn, (x, y) in points.items()) + "}"
        prog.class_order.append(name)
        for pn, xy in points.items():
            for g in gl:
                pts[pn][g] = xy
    rp = lambda lo, hi: rng.randint(lo, hi)
    cls("cBaseA", [3, 4], {"uM": (rp(100, 300), rp(500, 700)), "lM": (rp(50, 250), rp(-120, -20))})
    cls("cBaseB", [5, 6, 7], {"uM": (rp(100, 300), rp(500, 700)), "lM": (rp(50, 250), rp(-120, -20))})
    cls("cMarkU", [8, 9, 10], {"uS": (rp(20, 200), rp(-20, 40)), "uM": (rp(20, 200), rp(200, 400))})
    cls("cMarkL", [11, 12], {"lS": (rp(20, 200), rp(350, 550)), "lM": (rp(20, 200), rp(-90, -10))})
    prog.classes["cBase"] = [3, 4, 5, 6, 7]
    prog.class_defs["cBase"] = "(cBaseA, cBaseB)"
    prog.class_order.append("cBase")
    prog.classes["cOther"] = [13, 14, 15]
    prog.class_defs["cOther"] = "glyphid(13..15)"
    prog.class_order.append("cOther")
    prog.points = pts
    # marker glyph: every point component gets a recognisable value, so that its glyph-attribute id can be read from the font
    pnames = ["uM", "lM", "uS", "lS"]
    prog.glyph_stmts = ["gvMark = glyphid(2) {%s};" % "; ".join("%s = point(%dm, %dm)" % (pn, 1000 + 2 * i, 1001 + 2 * i) for i, pn in enumerate(pnames))]
    prog.gattr = {"marker": 2, "markerBase": 1000, "numAttrs": 2 * len(pnames), "spaceGlyphs": [], "assigns": []}
    prog.point_attrs = [[pn, 2 * i, 2 * i + 1] for i, pn in enumerate(pnames)]
    passes = []
    for _p in range(rng.randint(1, 2)):
        rules = []
        for _r in range(rng.randint(1, 4)):
            k = rng.random()
            items = []
            if k < 0.3:
                items = [Item("cBase"), Item("cMarkU", mod=True)]
                items[1].attach = (1, "uM", "uS")
            elif k < 0.5:
                items = [Item("cBase"), Item("cMarkU", mod=True), Item("cMarkU", mod=True)]
                items[1].attach = (1, "uM", "uS")
                items[2].attach = (2, "uM", "uS")
            elif k < 0.65:
                items = [Item("cBase"), Item("cMarkL", mod=True)]
                items[1].attach = (1, "lM", "lS")
            elif k < 0.8:
                items = [Item("cBase"), Item("cMarkU", mod=True), Item("cMarkL", mod=True)]
                items[1].attach = (1, "uM", "uS")
                items[2].attach = (1, "lM", "lS")
            elif k < 0.9:
                items = [Item("cMarkU", mod=True), Item("cBase")]
                items[0].attach = (2, "uM", "uS")
            else:
                items = [Item("cBase"), Item("cMarkL", mod=True), Item("cMarkL", mod=True)]
                items[1].attach = (1, "lM", "lS")
                items[2].attach = (2, "lM", "lS")
            if rng.random() < 0.3:
                items.insert(0, Item(rng.choice(["cOther", "cBase"])))
                for it in items:
                    if it.attach:
                        it.attach = (it.attach[0] + 1,) + it.attach[1:]
            for it in items:
                if it.mod and rng.random() < 0.35:
                    nm = rng.choice(["shift.x", "shift.y", "advance.x"])
                    v = rng.choice([0, 0, 15, 40, -25, 100]) if nm == "advance.x" else rng.choice([10, 30, -20, -45])
                    it.attrs.append((nm, "=", (str(v) if v >= 0 else "(%d)" % v), {"k": "lit", "v": v}))
            r_ = Rule(items)
            if rng.random() < 0.3:
                # an explicit ^ somewhere after the first modified item (the scan resumes there; with a forward attachment
                # the compiler emits an extra item and has to correct the returned position)
                first_mod = min(j for j, it in enumerate(items) if it.mod)
                r_.caret = rng.randint(first_mod + 1, len(items))
            rules.append(r_)
        # every base the scan reaches gets a mark of its own (shows whether the scan resumed where ^ says)
        if rng.random() < 0.7:
            it = Item("cBase", mod=True)
            it.attrs.append(("user%d" % rng.randint(1, 4), "=", str(7 + _p), {"k": "lit", "v": 7 + _p}))
            rules.append(Rule([it]))
        # a rule that moves bases (independent of attachment)
        if rng.random() < 0.4:
            it = Item("cBase", mod=True)
            v = rng.choice([12, -18, 33])
            it.attrs.append(("shift.x", "=", (str(v) if v >= 0 else "(%d)" % v), {"k": "lit", "v": v}))
            rules.append(Rule([it, Item("cOther")]))
        passes.append(rules)
    prog.tables.append(("pos", passes))
    return prog
