"""Shared infrastructure: repo build, compiler runs, Lean build/audit, evidence, violations.

All paths are derived from __file__ so snapshots (vp run) work.
"""
import fcntl
import hashlib
import json
import os
import re
import shutil
import subprocess
import sys
import time

VERIF = os.path.dirname(os.path.dirname(os.path.abspath(__file__)))
REPO = os.environ.get("VERIF_REPO", "/repo")
LEAN = os.path.join(VERIF, "lean")
SCRATCH_ROOT = os.environ.get("VERIF_SCRATCH", "/var/tmp/grcverif")
STDDEF = os.path.join(REPO, "test/GrcRegressionTest/fonts/stddef.gdh")
GUARD = "GRCOMPILER_VERIF"
ALLOWED_AXIOMS = {"propext", "Classical.choice", "Quot.sound"}


def log(*a):
    print(*a, file=sys.stderr, flush=True)


# ----------------------------------------------------------------------------
# repo build
# ----------------------------------------------------------------------------

def tree_hash():
    """Hash of every source file that influences the build (tracked + untracked, not ignored)."""
    out = subprocess.run(
        ["git", "-C", REPO, "ls-files", "-co", "--exclude-standard", "--",
         "compiler", "preprocessor", "CMakeLists.txt"],
        capture_output=True, text=True, check=True).stdout.split("\n")
    h = hashlib.sha256()
    for p in sorted(x for x in out if x):
        fp = os.path.join(REPO, p)
        if not os.path.isfile(fp):
            h.update(b"DEL " + p.encode())
            continue
        h.update(p.encode() + b"\0")
        with open(fp, "rb") as f:
            h.update(hashlib.sha256(f.read()).digest())
    return h.hexdigest()[:16]


class Lock:
    def __init__(self, path):
        self.path = path

    def __enter__(self):
        os.makedirs(os.path.dirname(self.path), exist_ok=True)
        self.f = open(self.path, "w")
        fcntl.flock(self.f, fcntl.LOCK_EX)
        return self

    def __exit__(self, *a):
        fcntl.flock(self.f, fcntl.LOCK_UN)
        self.f.close()


def build_repo(kind="rel"):
    """Build /repo's working tree (hooks on) into SCRATCH_ROOT/<hash>/<kind>; returns dict of paths.

    kind: 'rel' (RelWithDebInfo, like the baseline) or 'asan' (clang ASan+UBSan, asserts on).
    Old generations (other hashes) are removed so at most one exists.
    """
    h = tree_hash()
    os.makedirs(SCRATCH_ROOT, exist_ok=True)
    with Lock(os.path.join(SCRATCH_ROOT, ".lock")):
        for d in os.listdir(SCRATCH_ROOT):
            p = os.path.join(SCRATCH_ROOT, d)
            if d.startswith("b_") and d != "b_" + h and os.path.isdir(p):
                # stale generation; remove unless very recent (another check may be using it)
                try:
                    if time.time() - os.path.getmtime(p) > 1800:
                        shutil.rmtree(p, ignore_errors=True)
                except OSError:
                    pass
        bdir = os.path.join(SCRATCH_ROOT, "b_" + h, kind)
        grc = os.path.join(bdir, "compiler", "grcompiler")
        pp = os.path.join(bdir, "preprocessor", "gdlpp")
        stamp = os.path.join(bdir, ".ok")
        if not os.path.exists(stamp):
            shutil.rmtree(bdir, ignore_errors=True)
            os.makedirs(bdir)
            t0 = time.time()
            if kind == "rel":
                cfg = ["cmake", "-G", "Ninja", "-S", REPO, "-B", bdir,
                       "-DCMAKE_BUILD_TYPE=RelWithDebInfo",
                       "-DCMAKE_CXX_FLAGS=-Wno-error -D%s" % GUARD,
                       "-DCMAKE_C_FLAGS=-D%s" % GUARD]
            elif kind in ("asan", "asan_nd"):
                # asan: assertions on (Debug); asan_nd: the same with NDEBUG, i.e. the code paths of a release build
                san = "-O1 -g -fsanitize=address,undefined -fno-sanitize=alignment -fno-omit-frame-pointer"
                if kind == "asan_nd":
                    san += " -DNDEBUG"
                cfg = ["cmake", "-G", "Ninja", "-S", REPO, "-B", bdir,
                       "-DCMAKE_BUILD_TYPE=Debug",
                       "-DCMAKE_C_COMPILER=clang-14", "-DCMAKE_CXX_COMPILER=clang++-14",
                       "-DCMAKE_CXX_FLAGS=-Wno-error -D%s %s" % (GUARD, san),
                       "-DCMAKE_C_FLAGS=-D%s %s" % (GUARD, san),
                       "-DCMAKE_EXE_LINKER_FLAGS=-fsanitize=address,undefined"]
            else:
                raise ValueError(kind)
            r = subprocess.run(cfg, capture_output=True, text=True)
            if r.returncode != 0:
                raise RuntimeError("cmake configure failed:\n" + r.stdout[-3000:] + r.stderr[-3000:])
            r = subprocess.run(["cmake", "--build", bdir, "-j16", "--target", "grcompiler", "gdlpp"],
                               capture_output=True, text=True)
            if r.returncode != 0:
                raise RuntimeError("repo build failed:\n" + r.stdout[-6000:] + r.stderr[-3000:])
            # drop object files to save disk
            for root, dirs, files in os.walk(bdir):
                for fn in files:
                    if fn.endswith(".o"):
                        try:
                            os.unlink(os.path.join(root, fn))
                        except OSError:
                            pass
            open(stamp, "w").write("built %.1fs\n" % (time.time() - t0))
            log("[build] %s tree %s built in %.1fs" % (kind, h, time.time() - t0))
        os.utime(os.path.join(SCRATCH_ROOT, "b_" + h))
    return {"hash": h, "dir": bdir, "grcompiler": grc, "gdlpp": pp}


def new_workdir(tag):
    d = os.path.join(SCRATCH_ROOT, "w_%s_%d" % (tag, os.getpid()))
    shutil.rmtree(d, ignore_errors=True)
    os.makedirs(d)
    return d


def run_grc(build, cwd, args, timeout=120, env_extra=None, gdlpp=None):
    """Run the compiler in cwd. Returns (exit, stdout+stderr, wall)."""
    env = dict(os.environ)
    env["GDLPP"] = gdlpp or build["gdlpp"]
    env["ASAN_OPTIONS"] = "detect_leaks=0:abort_on_error=0"
    env["UBSAN_OPTIONS"] = "print_stacktrace=1"
    if env_extra:
        env.update(env_extra)
    t0 = time.time()
    try:
        r = subprocess.run([build["grcompiler"]] + list(args), cwd=cwd, env=env,
                           capture_output=True, timeout=timeout)
        rc = r.returncode
        out = (r.stdout + r.stderr).decode("latin-1")
    except subprocess.TimeoutExpired as e:
        rc = "timeout"
        out = ((e.stdout or b"") + (e.stderr or b"")).decode("latin-1")
    return rc, out, time.time() - t0


def clean_tmp_leaks():
    """The compiler leaks /tmp/gdlXXXXXX (finding C19-F1 if present); checks tidy up after themselves."""
    import glob
    for p in glob.glob("/tmp/gdl??????"):
        try:
            # only files old enough that no concurrent compiler run can still be using them
            if os.path.isfile(p) and time.time() - os.path.getmtime(p) > 300:
                os.unlink(p)
        except OSError:
            pass


# ----------------------------------------------------------------------------
# Lean side
# ----------------------------------------------------------------------------

FORBIDDEN = re.compile(r"\bsorry\b|\badmit\b|^\s*axiom\s|native_decide|bv_decide|implemented_by|^\s*unsafe\s|maxHeartbeats\s+0\b")


def strip_lean_comments(src):
    out = []
    i = 0
    depth = 0
    n = len(src)
    while i < n:
        if src.startswith("/-", i):
            depth += 1
            i += 2
        elif depth and src.startswith("-/", i):
            depth -= 1
            i += 2
        elif depth:
            if src[i] == "\n":
                out.append("\n")
            i += 1
        elif src.startswith("--", i):
            while i < n and src[i] != "\n":
                i += 1
        elif src[i] == '"':
            j = i + 1
            while j < n and src[j] != '"':
                j += 2 if src[j] == "\\" else 1
            out.append('""')
            i = j + 1
        else:
            out.append(src[i])
            i += 1
    return "".join(out)


def lean_grep_forbidden():
    hits = []
    for root, dirs, files in os.walk(LEAN):
        if ".lake" in root:
            continue
        for fn in files:
            if fn.endswith(".lean"):
                p = os.path.join(root, fn)
                src = strip_lean_comments(open(p).read())
                for ln, line in enumerate(src.split("\n"), 1):
                    if FORBIDDEN.search(line):
                        hits.append("%s:%d: %s" % (os.path.relpath(p, VERIF), ln, line.strip()))
    return hits


def lake_build(targets=("GrcVerif", "grcv")):
    """Incremental build of library and driver. Returns (ok, output)."""
    with Lock(os.path.join(SCRATCH_ROOT, ".lake.lock")):
        r = subprocess.run(["lake", "build"] + list(targets), cwd=LEAN, capture_output=True, text=True)
    return r.returncode == 0, r.stdout + r.stderr


def grcv_path():
    return os.path.join(LEAN, ".lake", "build", "bin", "grcv")


def run_grcv(lines, timeout=600):
    """Feed command lines to the compiled Lean driver; return list of output lines."""
    inp = "\n".join(lines) + "\n"
    for _try in range(120):
        # the binary is briefly absent while another check relinks it after a source change
        try:
            r = subprocess.run([grcv_path()], input=inp, capture_output=True, text=True, timeout=timeout)
            break
        except (FileNotFoundError, PermissionError, OSError):
            time.sleep(1)
    else:
        raise RuntimeError("grcv binary not available")
    if r.returncode != 0:
        raise RuntimeError("grcv failed rc=%s: %s" % (r.returncode, r.stderr[-2000:]))
    return r.stdout.split("\n")


def audit_axioms(theorems, modules=None):
    """#print axioms for each theorem name; returns dict name -> set(axioms) or None if missing."""
    src = ["import %s" % m for m in modules] if modules else ["import GrcVerif"]
    for t in theorems:
        src.append("#print axioms %s" % t)
    p = os.path.join(SCRATCH_ROOT, "audit_%d.lean" % os.getpid())
    open(p, "w").write("\n".join(src) + "\n")
    try:
        r = subprocess.run(["lake", "env", "lean", p], cwd=LEAN, capture_output=True, text=True)
    finally:
        os.unlink(p)
    text = r.stdout + r.stderr
    res = {}
    # outputs: "'name' depends on axioms: [a, b]" or "'name' does not depend on any axioms"
    for m in re.finditer(r"'([^']+)' depends on axioms: \[([^\]]*)\]", text, re.S):
        res[m.group(1)] = set(x.strip() for x in m.group(2).replace("\n", " ").split(",") if x.strip())
    for m in re.finditer(r"'([^']+)' does not depend on any axioms", text):
        res[m.group(1)] = set()
    for t in theorems:
        res.setdefault(t, None)
    return res, text


# ----------------------------------------------------------------------------
# evidence / violations / known findings
# ----------------------------------------------------------------------------

def load_known():
    p = os.path.join(VERIF, "known_findings.json")
    if os.path.exists(p):
        return json.load(open(p))
    return {"findings": [], "fixed": []}


class Report:
    """Collects results of one check run and writes evidence + verdict lines."""

    def __init__(self, pid, tier, seed, level="proof"):
        self.pid = pid
        self.tier = tier
        self.seed = seed
        self.level = level
        self.t0 = time.time()
        self.violations = []   # (replay_path, note, nofail)
        self.known_hits = []
        self.coverage = {}
        self.assumptions = []
        self.known = load_known()
        self.replay_dir = os.path.join(VERIF, "replay_mut" if os.environ.get("VERIF_MUTANT") else "replay")
        os.makedirs(self.replay_dir, exist_ok=True)

    def match_known(self, signature):
        for f in self.known.get("findings", []):
            if f.get("property") == self.pid and f.get("signature") == signature:
                return f
        return None

    def violation(self, name, payload, signature=None, no_failing_input=False):
        """Record a violation. payload: dict written to the replay file.
        signature: stable string identifying the specific failing input/call site (for known findings)."""
        if signature is not None:
            k = self.match_known(signature)
            if k is not None:
                if signature not in [s for s, _ in self.known_hits]:
                    self.known_hits.append((signature, k.get("what", "")))
                return
        d = os.path.join(self.replay_dir, "%s-%s-%s" % (self.pid, self.seed, name))
        os.makedirs(d, exist_ok=True)
        payload = dict(payload)
        payload["property"] = self.pid
        payload["signature"] = signature
        payload["no_failing_input_found"] = no_failing_input
        with open(os.path.join(d, "replay.json"), "w") as f:
            json.dump(payload, f, indent=1, default=str)
        self.violations.append((os.path.join(d, "replay.json"), no_failing_input))
        return d

    def finish(self):
        ev = {
            "property_id": self.pid,
            "tier": self.tier,
            "seed": int(self.seed),
            "level": self.level,
            "coverage": self.coverage,
            "assumptions": self.assumptions,
            "wall_s": round(time.time() - self.t0, 2),
            "violations": len(self.violations),
        }
        evdir = os.path.join(VERIF, "evidence_mut" if os.environ.get("VERIF_MUTANT") else "evidence")
        os.makedirs(evdir, exist_ok=True)
        with open(os.path.join(evdir, self.pid + ".json"), "w") as f:
            json.dump(ev, f, indent=1, default=str)
        for sig, what in self.known_hits:
            print("KNOWN-FINDING: property=%s %s [%s]" % (self.pid, what, sig))
        for path, nofail in self.violations:
            print("VIOLATION property=%s replay=%s%s" % (self.pid, path, " no-failing-input-found" if nofail else ""))
        sys.stdout.flush()
        return 1 if self.violations else 0


# Modules that hold only proof obligations about numbers/shapes extracted from the source (T1). The driver does not
# import them, so a source change that breaks one of them breaks only the property that owns it.
OBLIGATION_MODULES = {"VersionThm": "C15", "ArgsGen": "C11", "Limits": "C12", "DetGen": "C13", "OptGen": "C07", "CmapGen": "C17", "WritesGen": "C12", "WritersGen": "C03"}


def lean_modules(pid):
    """All library modules except the obligation modules owned by other properties."""
    mods = []
    for root, dirs, files in os.walk(os.path.join(LEAN, "GrcVerif")):
        for fn in sorted(files):
            if fn.endswith(".lean"):
                rel = os.path.relpath(os.path.join(root, fn), LEAN)[:-5].replace(os.sep, ".")
                short = rel.split(".", 1)[1]
                if OBLIGATION_MODULES.get(short, pid) != pid:
                    continue
                mods.append(rel)
    return sorted(mods)


def lean_gate(report, theorems, uses_tables=False, uses_args=False, uses_det=False, uses_opt=False, uses_cmap=False, uses_writes=False, uses_writers=False):
    """Common proof gate: regenerate tables from the source (T1), forbid sorry etc., lake build, audit axioms.
    Returns True if the proof side is intact. Records violations (no-failing-input-found) otherwise."""
    import extract_tables
    import extract_args
    try:
        with Lock(os.path.join(SCRATCH_ROOT, ".lake.lock")):
            extract_tables.main()
        report.coverage["tables_regenerated_from_source"] = True
    except extract_tables.ExtractError as e:
        report.coverage["tables_regenerated_from_source"] = False
        if uses_tables:
            report.violation("extract", {"broken": "T1 table extraction from constants.h/OutputToFont.cpp failed: %s" % e},
                             no_failing_input=True)
    try:
        with Lock(os.path.join(SCRATCH_ROOT, ".lake.lock")):
            report.args_consts = extract_args.main()
        report.coverage["arg_consts_regenerated_from_source"] = True
    except extract_tables.ExtractError as e:
        report.args_consts = None
        report.coverage["arg_consts_regenerated_from_source"] = False
        if uses_args:
            report.violation("extract-args", {"broken": "T1 extraction from main.cpp/ErrorCheckClasses.cpp/GdlGlyphClassDefn.cpp failed: %s" % e},
                             no_failing_input=True)
    import extract_det
    try:
        with Lock(os.path.join(SCRATCH_ROOT, ".lake.lock")):
            report.det_consts = extract_det.main()
        report.coverage["det_consts_regenerated_from_source"] = True
    except extract_tables.ExtractError as e:
        report.det_consts = None
        report.coverage["det_consts_regenerated_from_source"] = False
        if uses_det:
            report.violation("extract-det", {"broken": "T1 extraction of the pointer-keyed containers from compiler/*.h,*.cpp failed: %s" % e},
                             no_failing_input=True)
    import extract_opt
    try:
        with Lock(os.path.join(SCRATCH_ROOT, ".lake.lock")):
            report.opt_consts = extract_opt.main()
        report.coverage["opt_consts_regenerated_from_source"] = True
    except extract_tables.ExtractError as e:
        report.opt_consts = None
        report.coverage["opt_consts_regenerated_from_source"] = False
        if uses_opt:
            report.violation("extract-opt", {"broken": "T1 extraction of the optional-item algorithm from PostParser.cpp failed: %s" % e},
                             no_failing_input=True)
    import extract_cmap
    try:
        with Lock(os.path.join(SCRATCH_ROOT, ".lake.lock")):
            report.cmap_consts = extract_cmap.main()
        report.coverage["cmap_consts_regenerated_from_source"] = True
    except extract_tables.ExtractError as e:
        report.cmap_consts = None
        report.coverage["cmap_consts_regenerated_from_source"] = False
        if uses_cmap:
            report.violation("extract-cmap", {"broken": "T1 extraction of the cmap lookups from TtfUtil.cpp/GrcFont.cpp failed: %s" % e},
                             no_failing_input=True)
    import extract_writes
    try:
        with Lock(os.path.join(SCRATCH_ROOT, ".lake.lock")):
            report.write_census = extract_writes.main()
        report.coverage["write_census_regenerated_from_source"] = True
    except extract_tables.ExtractError as e:
        report.write_census = None
        report.coverage["write_census_regenerated_from_source"] = False
        if uses_writes:
            report.violation("extract-writes", {"broken": "T1 census of the narrowing writes of OutputToFont.cpp failed: %s" % e},
                             no_failing_input=True)
    import extract_writers
    try:
        with Lock(os.path.join(SCRATCH_ROOT, ".lake.lock")):
            report.writer_consts = extract_writers.main()
        report.coverage["writer_consts_regenerated_from_source"] = True
    except extract_tables.ExtractError as e:
        report.writer_consts = None
        report.coverage["writer_consts_regenerated_from_source"] = False
        if uses_writers:
            report.violation("extract-writers", {"broken": "T1 extraction of BinarySearchConstants / the big-endian writers failed: %s" % e},
                             no_failing_input=True)
    hits = lean_grep_forbidden()
    mods = lean_modules(report.pid)
    ok, out = lake_build(tuple(mods) + ("grcv",))
    res, text = ({}, "")
    bad = []
    if ok:
        res, text = audit_axioms(theorems, mods)
        for t in theorems:
            ax = res.get(t)
            if ax is None:
                bad.append("%s: theorem missing" % t)
            elif not ax <= ALLOWED_AXIOMS:
                bad.append("%s: axioms %s" % (t, sorted(ax)))
    report.coverage["obligations"] = len(theorems)
    report.coverage["discharged"] = sum(1 for t in theorems if res.get(t) is not None and res[t] <= ALLOWED_AXIOMS) if ok else 0
    report.coverage["checker_cmd"] = "cd lean && lake build <library modules> grcv && lake env lean <audit: #print axioms per theorem>"
    report.coverage["theorems"] = {t: (sorted(res[t]) if res.get(t) is not None else None) for t in theorems}
    report.coverage["trusted_base"] = [
        "Lean 4.33.0 kernel", "axioms: propext, Classical.choice, Quot.sound only (audited this run)",
        "Lean compiler/runtime for the executable checkers (grcv)",
        "python harness (generators, diffing), font builder, libgraphite2 1.3.14 where used",
    ]
    report.lean_failure = None
    if hits or not ok or bad:
        report.lean_failure = {"forbidden_tokens": hits, "lake_build_ok": ok, "lake_output_tail": out[-4000:], "audit": bad}
        report.violation("lean-gate", dict(report.lean_failure, broken="proof obligations no longer check"),
                         no_failing_input=True)
        return False
    return True


def seed_from_env(default=1):
    try:
        return int(os.environ.get("VERIF_SEED", default))
    except ValueError:
        return default
