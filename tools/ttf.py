"""Minimal TrueType builder and parser (generation and harness-side reading only).

build_font(glyphs, cmap, ...) -> bytes
  glyphs: list of dicts {name, adv, lsb?, contours: [[(x,y,on), ...], ...]} or {'components': [(gid, dx, dy) | (gid, dx, dy, sx, sy)]} (scales in F2Dot14 units)
  cmap:   dict codepoint -> gid
"""
import struct


def _pad4(b):
    return b + b"\0" * ((4 - len(b) % 4) % 4)


def checksum(data):
    data = _pad4(data)
    s = 0
    for (w,) in struct.iter_unpack(">I", data):
        s = (s + w) & 0xFFFFFFFF
    return s


def _search_hdr(n, unit):
    p2 = 1
    lg = 0
    while p2 * 2 <= n:
        p2 *= 2
        lg += 1
    return p2 * unit, lg, n * unit - p2 * unit


def glyph_bytes(g):
    if "components" in g:
        comps = g["components"]
        out = b""
        xs = g.get("bbox", (0, 0, 0, 0))
        out += struct.pack(">hhhhh", -1, *xs)
        for i, comp in enumerate(comps):
            gid, dx, dy = comp[:3]
            flags = 0x0001 | 0x0002  # ARGS_ARE_WORDS, ARGS_ARE_XY
            small = g.get("byte_args") and -128 <= dx <= 127 and -128 <= dy <= 127
            if small:
                flags = 0x0002       # the two offsets as signed bytes
            match = g.get("match_points") and i > 0
            if match:
                # the arguments are point numbers (unsigned): point dx of the composite so far, point dy of this component
                flags &= ~0x0002
                small = g.get("byte_args") and dx <= 255 and dy <= 255
            if i < len(comps) - 1:
                flags |= 0x0020
            tail = b""
            if len(comp) == 5:      # (gid, dx, dy, sx, sy): scales in F2Dot14 units
                if comp[3] == comp[4]:
                    flags |= 0x0008  # WE_HAVE_A_SCALE
                    tail = struct.pack(">h", comp[3])
                else:
                    flags |= 0x0040  # WE_HAVE_AN_X_AND_Y_SCALE
                    tail = struct.pack(">hh", comp[3], comp[4])
            elif len(comp) == 7:    # (gid, dx, dy, xscale, scale01, scale10, yscale): WE_HAVE_A_TWO_BY_TWO
                flags |= 0x0080
                tail = struct.pack(">hhhh", *comp[3:7])
            if match:
                out += (struct.pack(">HHBB", flags & ~0x0001, gid, dx, dy) if small else struct.pack(">HHHH", flags | 0x0001, gid, dx, dy)) + tail
            else:
                out += (struct.pack(">HHbb", flags, gid, dx, dy) if small else struct.pack(">HHhh", flags, gid, dx, dy)) + tail
        return out
    contours = g.get("contours") or []
    if not contours:
        return b""
    pts = [p for c in contours for p in c]
    xs = [p[0] for p in pts]
    ys = [p[1] for p in pts]
    out = struct.pack(">hhhhh", len(contours), min(xs), min(ys), max(xs), max(ys))
    e = -1
    for c in contours:
        e += len(c)
        out += struct.pack(">H", e)
    out += struct.pack(">H", 0)  # no instructions
    flags = b""
    xb = b""
    yb = b""
    px = py = 0
    for (x, y, on) in pts:
        flags += bytes([1 if on else 0])  # long x/y, not same
        xb += struct.pack(">h", x - px)
        yb += struct.pack(">h", y - py)
        px, py = x, y
    return out + flags + xb + yb


def glyph_points(g, glyphs):
    """The outline points of a glyph as the glyf format defines them (components transformed, then placed by offsets or by
    matching points; transformed coordinates cut toward zero)."""
    if "components" not in g:
        return [(p[0], p[1]) for c in (g.get("contours") or []) for p in c]
    acc = []
    for i, comp in enumerate(g["components"]):
        gid, dx, dy = comp[:3]
        pts = glyph_points(glyphs[gid], glyphs)
        if len(comp) == 5:
            xa, s01, s10, ya = comp[3], 0, 0, comp[4]
        elif len(comp) == 7:
            xa, s01, s10, ya = comp[3:7]
        else:
            xa, s01, s10, ya = 16384, 0, 0, 16384
        pts = [(int((x * xa + y * s10) / 16384.0), int((x * s01 + y * ya) / 16384.0)) for x, y in pts]
        if g.get("match_points") and i > 0:
            ox, oy = acc[dx][0] - pts[dy][0], acc[dx][1] - pts[dy][1]
        else:
            ox, oy = dx, dy
        acc += [(x + ox, y + oy) for x, y in pts]
    return acc


def glyph_bbox(g, glyphs):
    if "components" in g and g.get("match_points"):
        pts = glyph_points(g, glyphs)
        return (min(p[0] for p in pts), min(p[1] for p in pts), max(p[0] for p in pts), max(p[1] for p in pts)) if pts else None
    if "components" in g:
        bb = None
        for comp in g["components"]:
            gid, dx, dy = comp[:3]
            b = glyph_bbox(glyphs[gid], glyphs)
            if b is None:
                continue
            if len(comp) == 5:
                def sc(v, k):       # truncation toward zero, as the usual rasteriser-free readers do
                    return int(v * k / 16384.0)
                xs = sorted((sc(b[0], comp[3]), sc(b[2], comp[3])))
                ys = sorted((sc(b[1], comp[4]), sc(b[3], comp[4])))
                b = (xs[0], ys[0], xs[1], ys[1])
            if len(comp) == 7:
                # x' = xscale*x + scale10*y, y' = scale01*x + yscale*y on the corners of the box (a superset of the outline's box)
                xa, s01, s10, ya = comp[3:7]
                cs = [(int((x * xa + y * s10) / 16384.0), int((x * s01 + y * ya) / 16384.0)) for x in (b[0], b[2]) for y in (b[1], b[3])]
                b = (min(c[0] for c in cs), min(c[1] for c in cs), max(c[0] for c in cs), max(c[1] for c in cs))
            b = (b[0] + dx, b[1] + dy, b[2] + dx, b[3] + dy)
            bb = b if bb is None else (min(bb[0], b[0]), min(bb[1], b[1]), max(bb[2], b[2]), max(bb[3], b[3]))
        return bb
    pts = [p for c in (g.get("contours") or []) for p in c]
    if not pts:
        return None
    return (min(p[0] for p in pts), min(p[1] for p in pts), max(p[0] for p in pts), max(p[1] for p in pts))


def cmap_format4(cmap):
    items = sorted((c, g) for c, g in cmap.items() if c < 0xFFFF)
    segs = []
    for c, g in items:
        if segs and segs[-1][1] + 1 == c and (segs[-1][2] + (c - segs[-1][0])) % 65536 == g:
            segs[-1][1] = c
        else:
            segs.append([c, c, g])
    segs.append([0xFFFF, 0xFFFF, 0])  # final segment maps 0xFFFF -> (0xFFFF + 1) % 65536 = 0
    n = len(segs)
    sr, es, rs = _search_hdr(n, 2)
    end = b"".join(struct.pack(">H", s[1]) for s in segs)
    start = b"".join(struct.pack(">H", s[0]) for s in segs)
    delta = b"".join(struct.pack(">H", (s[2] - s[0]) % 65536 if s[0] != 0xFFFF else 1) for s in segs)
    ro = b"\0\0" * n
    body = struct.pack(">HHHH", n * 2, sr, es, rs) + end + b"\0\0" + start + delta + ro
    return struct.pack(">HHH", 4, 6 + len(body), 0) + body


def cmap_format4_arrays(cmap, style=1):
    """Format 4 with segments that go through the glyphIdArray (idRangeOffset != 0), holes inside segments (array entry
    0 = not mapped) and, for style 1/2, a non-zero idDelta added to the array entries (style 2: every other segment)."""
    items = sorted((c, g) for c, g in cmap.items() if c < 0xFFFF)
    segs = []      # [start, end, {cp: gid}]
    for c, g in items:
        if segs and c - segs[-1][1] <= 3 and len(segs[-1][2]) < 40:
            segs[-1][1] = c
            segs[-1][2][c] = g
        else:
            segs.append([c, c, {c: g}])
    n = len(segs) + 1
    sr, es, rs = _search_hdr(n, 2)
    end = b"".join(struct.pack(">H", s[1]) for s in segs) + b"\xff\xff"
    start = b"".join(struct.pack(">H", s[0]) for s in segs) + b"\xff\xff"
    deltas, ros, arr = [], [], []
    for i, (st, en, m) in enumerate(segs):
        d = 0 if style == 0 or (style == 2 and i % 2) else 100
        while any((g - d) % 65536 == 0 for g in m.values()):
            d += 1
        deltas.append(d)
        ros.append(2 * (n - i) + 2 * len(arr))
        for c in range(st, en + 1):
            arr.append((m[c] - d) % 65536 if c in m else 0)
    deltas.append(1)
    ros.append(0)
    body = struct.pack(">HHHH", n * 2, sr, es, rs) + end + b"\0\0" + start + b"".join(struct.pack(">H", d) for d in deltas) + \
        b"".join(struct.pack(">H", r) for r in ros) + b"".join(struct.pack(">H", a) for a in arr)
    return struct.pack(">HHH", 4, 6 + len(body), 0) + body


def cmap_format12(cmap):
    items = sorted(cmap.items())
    groups = []
    for c, g in items:
        if groups and groups[-1][1] + 1 == c and groups[-1][2] + (c - groups[-1][0]) == g:
            groups[-1][1] = c
        else:
            groups.append([c, c, g])
    body = b"".join(struct.pack(">III", *g) for g in groups)
    return struct.pack(">HHIII", 12, 0, 16 + len(body), 0, len(groups)) + body


def name_table(records):
    """records: list of (platform, encoding, language, nameid, bytes)"""
    records = sorted(records, key=lambda r: r[:4])
    strings = b""
    recs = b""
    for (p, e, l, n, s) in records:
        recs += struct.pack(">HHHHHH", p, e, l, n, len(s), len(strings))
        strings += s
    return struct.pack(">HHH", 0, len(records), 6 + len(recs)) + recs + strings


def default_names(family="Verif", extra=None, platforms=((1, 0, 0), (3, 1, 1033))):
    vals = {0: "Copyright", 1: family, 2: "Regular", 3: family + ":1", 4: family + " Regular", 5: "Version 1.000",
            6: family + "-Regular"}
    if extra:
        vals.update(extra)
    recs = []
    for (p, e, l) in platforms:
        for nid, s in vals.items():
            recs.append((p, e, l, nid, s.encode("utf-16-be") if p in (0, 3) else s.encode("latin-1")))
    return recs


def build_font(glyphs, cmap, upem=1000, names=None, extra_tables=None, order=None, cmap12=False,
               symbol=False, ascent=800, descent=-200, post_names=None, cmap4_arrays=0):
    n = len(glyphs)
    # glyf / loca
    glyf = b""
    loca = [0]
    for g in glyphs:
        b = glyph_bytes(g) if "components" not in g else glyph_bytes(dict(g, bbox=glyph_bbox(g, glyphs) or (0, 0, 0, 0)))
        glyf += _pad4(b)
        loca.append(len(glyf))
    if not glyf:
        glyf = b"\0\0\0\0"
    loca_b = b"".join(struct.pack(">I", o) for o in loca)
    bbs = [glyph_bbox(g, glyphs) for g in glyphs]
    nb = [b for b in bbs if b]
    fb = (min(b[0] for b in nb), min(b[1] for b in nb), max(b[2] for b in nb), max(b[3] for b in nb)) if nb else (0, 0, 0, 0)
    head = struct.pack(">IIIIHHqqhhhhHHhhh", 0x00010000, 0x00010000, 0, 0x5F0F3CF5, 0x000B, upem,
                       0, 0, fb[0], fb[1], fb[2], fb[3], 0, 8, 2, 1, 0)
    advs = [g.get("adv", 500) for g in glyphs]
    lsbs = [(b[0] if b else 0) for b in bbs]
    hhea = struct.pack(">IhhhHhhhhhhhhhhhH", 0x00010000, ascent, descent, 0, max(advs + [0]), min(lsbs + [0]), 0,
                       fb[2], 1, 0, 0, 0, 0, 0, 0, 0, n)
    hmtx = b"".join(struct.pack(">Hh", a, l) for a, l in zip(advs, lsbs))
    maxpts = max([sum(len(c) for c in (g.get("contours") or [])) for g in glyphs] + [0])
    maxc = max([len(g.get("contours") or []) for g in glyphs] + [0])
    maxp = struct.pack(">IHHHHHHHHHHHHHH", 0x00010000, n, maxpts, maxc, maxpts, maxc, 2, 0, 0, 0, 0, 0, 0, 4, 1)
    os2 = struct.pack(">HhHHHhhhhhhhhhhh10sIIII4sHHHhhhHH", 1, 500, 400, 5, 0, 0, 0, 0, 0, 0, 0, 0, 0, 0, 0, 0,
                      b"\0" * 10, 1, 0, 0, 0, b"VRIF", 0x40, min(cmap) if cmap else 0, min(max(cmap), 0xFFFF) if cmap else 0,
                      ascent, descent, 0, ascent, -descent) + struct.pack(">II", 1, 0)
    subtables = []
    if symbol:
        subtables.append((3, 0, cmap_format4_arrays(cmap, cmap4_arrays - 1) if cmap4_arrays else cmap_format4(cmap)))
    else:
        subtables.append((3, 1, cmap_format4_arrays(cmap, cmap4_arrays - 1) if cmap4_arrays else cmap_format4(cmap)))
    if cmap12:
        subtables.append((3, 10, cmap_format12(cmap)))
    subtables.sort(key=lambda s: s[:2])
    hdr = struct.pack(">HH", 0, len(subtables))
    off = 4 + 8 * len(subtables)
    body = b""
    for (p, e, st) in subtables:
        hdr += struct.pack(">HHI", p, e, off + len(body))
        body += st
    cmap_b = hdr + body
    if post_names:
        # format 2 post table with explicit names
        std = 258
        idx = b""
        strs = b""
        k = 0
        for i in range(n):
            nm = post_names[i] if i < len(post_names) else None
            if nm is None or i == 0:
                idx += struct.pack(">H", 0)  # .notdef
            else:
                idx += struct.pack(">H", std + k)
                k += 1
                strs += bytes([len(nm)]) + nm.encode("ascii")
        post = struct.pack(">IIhhIIIII", 0x00020000, 0, -100, 50, 0, 0, 0, 0, 0) + struct.pack(">H", n) + idx + strs
    else:
        post = struct.pack(">IIhhIIIII", 0x00030000, 0, -100, 50, 0, 0, 0, 0, 0)
    tables = {
        b"OS/2": os2, b"cmap": cmap_b, b"glyf": glyf, b"head": head, b"hhea": hhea, b"hmtx": hmtx,
        b"loca": loca_b, b"maxp": maxp, b"name": name_table(names or default_names()), b"post": post,
    }
    for t, b in (extra_tables or {}).items():
        tables[t if isinstance(t, bytes) else t.encode()] = b
    return assemble(tables, order)


def assemble(tables, order=None):
    """tables: dict tag(bytes)->bytes. order: physical order of table data (default: sorted tags)."""
    tags = sorted(tables)
    phys = list(order) if order else tags
    phys = [t if isinstance(t, bytes) else t.encode() for t in phys]
    for t in tags:
        if t not in phys:
            phys.append(t)
    n = len(tags)
    sr, es, rs = _search_hdr(n, 16)
    off = 12 + 16 * n
    offs = {}
    data = b""
    for t in phys:
        offs[t] = off + len(data)
        data += _pad4(tables[t])
    hdr = struct.pack(">IHHHH", 0x00010000, n, sr, es, rs)
    d = b""
    for t in tags:
        d += struct.pack(">4sIII", t, checksum(tables[t]), offs[t], len(tables[t]))
    font = bytearray(hdr + d + data)
    if b"head" in tables:
        ho = offs[b"head"]
        font[ho + 8:ho + 12] = b"\0\0\0\0"
        # directory checksum of head must be computed with adjustment zeroed
        hc = checksum(bytes(font[ho:ho + len(tables[b"head"])]))
        i = tags.index(b"head")
        font[12 + 16 * i + 4:12 + 16 * i + 8] = struct.pack(">I", hc)
        adj = (0xB1B0AFBA - checksum(bytes(font))) & 0xFFFFFFFF
        font[ho + 8:ho + 12] = struct.pack(">I", adj)
    return bytes(font)


def parse(data):
    """Return (dict tag->bytes, directory list of (tag, checksum, offset, length)) in directory order."""
    sv, n, sr, es, rs = struct.unpack(">IHHHH", data[:12])
    tables = {}
    d = []
    for i in range(n):
        tag, cs, off, ln = struct.unpack(">4sIII", data[12 + 16 * i:28 + 16 * i])
        tables[tag] = data[off:off + ln]
        d.append((tag, cs, off, ln))
    return tables, d


def parse_name(b):
    fmt, n, so = struct.unpack(">HHH", b[:6])
    recs = []
    for i in range(n):
        p, e, l, nid, ln, off = struct.unpack(">HHHHHH", b[6 + 12 * i:18 + 12 * i])
        recs.append((p, e, l, nid, b[so + off:so + off + ln]))
    return recs


# ---------------------------------------------------------------------------
# stock fonts for the generators
# ---------------------------------------------------------------------------

def square(x0, y0, x1, y1):
    return [(x0, y0, 1), (x0, y1, 1), (x1, y1, 1), (x1, y0, 1)]


def simple_font(nglyphs=30, first_cp=0x61, upem=1000, family="Verif", extra_cmap=None, **kw):
    """glyph 0 = .notdef, glyph 1 = space (U+0020, no outline), glyphs 2.. mapped from first_cp upward."""
    glyphs = [{"name": ".notdef", "adv": 500, "contours": [square(50, 0, 450, 700)]},
              {"name": "space", "adv": 250, "contours": []}]
    cmap = {0x20: 1}
    for i in range(2, nglyphs):
        w = 300 + 10 * (i % 17)
        glyphs.append({"name": "g%d" % i, "adv": w + 50,
                       "contours": [square(20, 0, 20 + w, 400 + 13 * (i % 11))]})
        cmap[first_cp + i - 2] = i
    if extra_cmap:
        cmap.update(extra_cmap)
    names = kw.pop("names", None) or default_names(family)
    return build_font(glyphs, cmap, upem=upem, names=names, **kw), glyphs, cmap
