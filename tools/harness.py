"""Shared case runner: generate -> compile with the real compiler -> feed font+IR to the Lean driver."""
import collections
import json
import os
import random
import shutil

import common
import gen


def compile_cases(build, work, cases, extra_args=(), out_name="out.ttf"):
    """cases: list of (name, prog). Compiles each in its own directory."""
    out = []
    for name, prog in cases:
        d = os.path.join(work, name)
        os.makedirs(d, exist_ok=True)
        gen.write_case(prog, d)
        rc, log, wall = common.run_grc(build, d, ["-q"] + list(extra_args) + list(getattr(prog, "compile_opts", ())) + ["p.gdl", "in.ttf", out_name])
        err = ""
        ep = os.path.join(d, "gdlerr.txt")
        if os.path.exists(ep):
            err = open(ep, errors="replace").read()
        out.append({"name": name, "dir": d, "rc": rc, "log": log, "err": err, "prog": prog, "wall": wall})
    return out


def split_accepted(results, out_name="out.ttf"):
    acc = [r for r in results if r["rc"] == 0 and os.path.exists(os.path.join(r["dir"], out_name))]
    rej = [r for r in results if r not in acc]
    return acc, rej


def error_ids(results):
    k = collections.Counter()
    for r in results:
        for ln in r["err"].split("\n"):
            if "error(" in ln:
                k[ln.split("error(")[1].split(")")[0]] += 1
    return dict(k)


def drive(accepted, cmds, out_name="out.ttf", ir_name="p.ir.json"):
    """For each accepted case run: font, ir, then each cmd (each cmd's output ends with 'done').
    Returns list (per case) of dict cmd -> lines, plus 'load' -> [font line, ir line]."""
    lines = []
    for r in accepted:
        lines += ["font %s/%s" % (r["dir"], out_name), "ir %s/%s" % (r["dir"], ir_name)] + list(cmds)
    outs = common.run_grcv(lines) if lines else []
    it = iter(outs)
    res = []
    for r in accepted:
        d = {"load": [next(it), next(it)]}
        for c in cmds:
            pl = []
            for l in it:
                if l == "done":
                    break
                pl.append(l)
            d[c] = pl
        res.append(d)
    return res


def save_case(rep, r, name, extra_files=()):
    d = os.path.join(rep.replay_dir, "%s-%s-%s" % (rep.pid, rep.seed, name))
    os.makedirs(d, exist_ok=True)
    more = tuple(fn for fn in os.listdir(r["dir"]) if fn.endswith(".gdh")) if os.path.isdir(r["dir"]) else ()
    for fn in ("p.gdl", "in.ttf", "out.ttf", "p.ir.json", "gdlerr.txt", "stddef.gdh") + tuple(extra_files) + more:
        p = os.path.join(r["dir"], fn)
        if os.path.exists(p):
            shutil.copy(p, d)
    return d


def gen_cases(seed, salt, n, genfn):
    rng = random.Random(seed * 1000003 + salt)
    cases = []
    for i in range(n):
        cases.append(("c%04d" % i, genfn(random.Random(rng.getrandbits(64)), i)))
    return cases


def generator_health(rep, results, accepted, rejected, min_frac=0.5):
    # a generated program is valid GDL: the compiler may reject it (status 1), it may not die on it
    for r in rejected:
        if r["rc"] not in (0, 1):
            d = save_case(rep, r, r["name"] + "-died")
            rep.violation(r["name"] + "-died", {"case": r["name"], "problem": "the compiler ended with status %s on a generated program" % r["rc"],
                                                "log": r["log"][-400:], "gdl": r["prog"].gdl()[:3000],
                                                "rerun": "cd %s && grcompiler -q %s p.gdl in.ttf out.ttf" % (d, " ".join(getattr(r["prog"], "compile_opts", ())))})
    if len(accepted) < min_frac * len(results):
        rep.violation("generator", {
            "broken": "fewer than %d%% of generated programs were accepted; generator or compiler front-end changed" % int(min_frac * 100),
            "rejected_error_ids": error_ids(rejected),
            "example_gdl": rejected[0]["prog"].gdl() if rejected else "",
            "example": (rejected[0]["err"][-1500:] + rejected[0]["log"][-500:]) if rejected else ""}, no_failing_input=True)
